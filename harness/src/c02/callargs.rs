//! C02, stream `C02.call`: the argument list of `generate_user_call` against its Lean model (`Model.MslCall`, which follows
//! the re-extracted table `Gen.MslCallTables.userCallArms`), for the programs of the `vgenc.rs` family.
//!
//! request : C02.call \t <source, one line> \t <entry> ;; <entry> …      (`-` when the module is outside the stream)
//!           entry = <emitted leaf name of the callee> <CallType> <number of operands of the IR call> <d|n per parameter of the
//!                   callee: has a default value or not, `-` for none> <number of parameters the emitted declaration has for
//!                   globals = its parameters minus the IR's>
//!           one entry per call of a user function in the bodies of the module, read off the real `ir::Module`
//!           (on replay only the source is read)
//! observe : `calls <leaf>:<number of arguments> …` — every emitted call of a function / method of the module (the
//!           trampoline's own call of its target, which carries the tag argument, left out), sorted
//! oracle  : `ok` (what the calls mean is judged by the `C02.vfn` cases of the same program and their arity oracle)
//!
//! Outside the stream (`SKIP`): modules with templates, prototypes without body, overloaded names, user calls inside default
//! values or initialisers (a filled-in default repeats its calls at every call site).
use crate::util::*;
use rssl::ir;
use super::sx::Sx;

fn calls_in_expr<'a>(e: &'a ir::Expression, out: &mut Vec<&'a ir::Expression>) {
    use ir::Expression as E;
    if let E::Call(..) = e {
        out.push(e);
    }
    match e {
        E::Literal(_) | E::Variable(_) | E::MemberVariable(_, _) | E::Global(_) | E::ConstantVariable(_) | E::EnumValue(_) | E::SizeOf(_) => {}
        E::TernaryConditional(c, t, f) => {
            calls_in_expr(c, out);
            calls_in_expr(t, out);
            calls_in_expr(f, out);
        }
        E::Sequence(es) | E::Call(_, _, es) | E::IntrinsicOp(_, es) => es.iter().for_each(|x| calls_in_expr(x, out)),
        E::Swizzle(o, _) | E::MatrixSwizzle(o, _) | E::StructMember(o, _, _) | E::ObjectMember(o, _) | E::Cast(_, o) => calls_in_expr(o, out),
        E::ArraySubscript(o, i) => {
            calls_in_expr(o, out);
            calls_in_expr(i, out);
        }
        E::Constructor(_, slots) => slots.iter().for_each(|s| calls_in_expr(&s.expr, out)),
    }
}

fn calls_in_init<'a>(i: &'a ir::Initializer, out: &mut Vec<&'a ir::Expression>) {
    match i {
        ir::Initializer::Expression(e) => calls_in_expr(e, out),
        ir::Initializer::Aggregate(items) => items.iter().for_each(|x| calls_in_init(x, out)),
    }
}

pub fn calls_in_block<'a>(b: &'a ir::ScopeBlock, out: &mut Vec<&'a ir::Expression>) {
    use ir::StatementKind as K;
    for st in &b.0 {
        match &st.kind {
            K::Expression(e) | K::Return(Some(e)) => calls_in_expr(e, out),
            K::Var(vd) => {
                if let Some(i) = &vd.init {
                    calls_in_init(i, out)
                }
            }
            K::Block(b) => calls_in_block(b, out),
            K::If(c, b) | K::While(c, b) | K::Switch(c, b) => {
                calls_in_expr(c, out);
                calls_in_block(b, out);
            }
            K::DoWhile(b, c) => {
                calls_in_block(b, out);
                calls_in_expr(c, out);
            }
            K::IfElse(c, t, f) => {
                calls_in_expr(c, out);
                calls_in_block(t, out);
                calls_in_block(f, out);
            }
            K::For(init, c, inc, b) => {
                match init {
                    ir::ForInit::Empty => {}
                    ir::ForInit::Expression(e) => calls_in_expr(e, out),
                    ir::ForInit::Definitions(ds) => {
                        for d in ds {
                            if let Some(i) = &d.init {
                                calls_in_init(i, out)
                            }
                        }
                    }
                }
                if let Some(c) = c {
                    calls_in_expr(c, out)
                }
                if let Some(i) = inc {
                    calls_in_expr(i, out)
                }
                calls_in_block(b, out);
            }
            K::Return(None) | K::Break | K::Continue | K::Discard | K::CaseLabel(_) | K::DefaultLabel => {}
        }
    }
}

pub fn last_component(name: &str) -> &str {
    name.rsplit("::").next().unwrap_or(name)
}

/// source names of the functions some call of which leaves out a parameter for which the IR HAS NO default value: the type
/// checker accepted the call because a forward declaration carries the default, and dropped the value when the definition
/// (which cannot repeat it) replaced the declaration's parameter list
pub fn callees_with_lost_default(m: &ir::Module) -> Vec<String> {
    let mut calls: Vec<&ir::Expression> = Vec::new();
    for id in m.function_registry.iter() {
        if let Some(imp) = m.function_registry.get_function_implementation(id) {
            calls_in_block(&imp.scope_block, &mut calls);
        }
    }
    let mut out = Vec::new();
    for e in calls {
        if let ir::Expression::Call(id, ct, exprs) = e {
            if m.function_registry.get_intrinsic_data(*id).is_some() {
                continue;
            }
            if let Some(imp) = m.function_registry.get_function_implementation(*id) {
                let provided = exprs.len().saturating_sub(if matches!(ct, ir::CallType::MethodExternal) { 1 } else { 0 });
                if imp.params.iter().skip(provided).any(|p| p.default_expr.is_none()) {
                    out.push(m.function_registry.get_function_name(*id).to_string());
                }
            }
        }
    }
    out
}

/// every emitted definition: (leaf name, number of parameters, has a tag parameter)
fn emitted_defs(s: &Sx, out: &mut Vec<(String, usize, bool)>) {
    if let Sx::L(items) = s {
        if s.head() == "fn" && s.args().len() >= 3 && s.args()[2].head() == "params" {
            let ps = s.args()[2].args();
            out.push((last_component(s.args()[0].atom()).to_string(), ps.len(), ps.iter().any(|p| p.head() == "tag")));
        }
        if matches!(s.head(), "struct" | "method" | "fn") {
            for i in items {
                emitted_defs(i, out);
            }
        }
    }
}

fn is_tag_arg(e: &Sx) -> bool {
    e.head() == "call" && e.args().len() == 1 && e.args()[0].atom() == "metal::true_type"
}

fn emitted_calls(s: &Sx, names: &[String], out: &mut Vec<String>) {
    if let Sx::L(items) = s {
        let (name, args): (Option<&str>, &[Sx]) = match s.head() {
            "call" if !s.args().is_empty() => (Some(s.args()[0].atom()), &s.args()[1..]),
            "mcall" if s.args().len() >= 2 => (Some(s.args()[1].atom()), &s.args()[2..]),
            _ => (None, &[]),
        };
        if let Some(name) = name {
            let leaf = last_component(name);
            if !name.starts_with("metal::") && names.iter().any(|n| n == leaf) && !args.iter().any(is_tag_arg) {
                out.push(format!("{}:{}", leaf, args.len()));
            }
        }
        for i in items {
            emitted_calls(i, names, out);
        }
    }
}

pub fn run_program(src: &str, out: &mut Out, hist: &mut Hist) {
    let src1 = one_line(src);
    let skip = |out: &mut Out, hist: &mut Hist, why: &str| {
        hist.add(&format!("call:skip:{}", why));
        out.case(&format!("C02.call\t{}\t-", src1), "skip", &format!("SKIP:{}", why));
    };
    let m = match front_end_src(src) {
        Ok(m) => m,
        Err(_) => return skip(out, hist, "front end"),
    };
    let emitted = match guard(|| rssl_msl::verif_generate_ast(&m)) {
        Ok(Ok(t)) => t,
        Ok(Err(_)) => return skip(out, hist, "rejected by the Metal back end"),
        Err(pn) => {
            hist.add("call:panic");
            out.case(&format!("C02.call\t{}\t-", src1), "panic", &format!("FAIL:panic {}", pn));
            return;
        }
    };
    let items = super::vmconv::module(&emitted);
    let mut defs = Vec::new();
    for i in &items {
        emitted_defs(i, &mut defs);
    }
    let reserved = super::reserved_names();
    let reserved_refs: Vec<&str> = reserved.iter().map(|s| s.as_str()).collect();
    let names = ir::name_generator::NameMap::build(&m, &reserved_refs, false);
    let leaf_of = |id: ir::FunctionId| names.get_name_qualified(ir::name_generator::NameSymbol::Function(id)).0.last().cloned().unwrap_or_default();
    // the user calls of the module
    let mut calls: Vec<&ir::Expression> = Vec::new();
    let mut in_values: Vec<&ir::Expression> = Vec::new();
    for id in m.function_registry.iter() {
        if m.function_registry.get_intrinsic_data(id).is_some() {
            continue;
        }
        if !m.function_registry.get_function_signature(id).template_params.is_empty() || m.function_registry.get_template_instantiation_data(id).is_some() {
            return skip(out, hist, "templates");
        }
        match m.function_registry.get_function_implementation(id) {
            Some(imp) => {
                calls_in_block(&imp.scope_block, &mut calls);
                for p in &imp.params {
                    if let Some(d) = &p.default_expr {
                        calls_in_expr(d, &mut in_values);
                    }
                }
            }
            None => return skip(out, hist, "prototype without body"),
        }
    }
    for g in m.global_registry.iter() {
        if let Some(i) = &g.init {
            calls_in_init(i, &mut in_values);
        }
    }
    let is_user = |e: &ir::Expression| matches!(e, ir::Expression::Call(id, _, _) if m.function_registry.get_intrinsic_data(*id).is_none());
    if in_values.iter().any(|e| is_user(e)) {
        return skip(out, hist, "user call inside a default value or initialiser");
    }
    let mut entries = Vec::new();
    let mut user_names: Vec<String> = Vec::new();
    for e in calls.iter().filter(|e| is_user(e)) {
        if let ir::Expression::Call(id, ct, exprs) = e {
            let leaf = leaf_of(*id);
            let imp = m.function_registry.get_function_implementation(*id).as_ref().unwrap();
            let cands: Vec<&(String, usize, bool)> = defs.iter().filter(|d| d.0 == leaf && !d.2).collect();
            if cands.len() != 1 || cands[0].1 < imp.params.len() {
                return skip(out, hist, "overloaded or missing declaration");
            }
            let flags: String = imp.params.iter().map(|p| if p.default_expr.is_some() { 'd' } else { 'n' }).collect();
            entries.push(format!("{} {:?} {} {} {}", leaf, ct, exprs.len(), if flags.is_empty() { "-".to_string() } else { flags }, cands[0].1 - imp.params.len()));
            hist.add(&format!("call:{:?}:omitted{}:globals{}", ct, (imp.params.len() + if matches!(ct, ir::CallType::MethodExternal) { 1 } else { 0 }).saturating_sub(exprs.len()).min(3), (cands[0].1 - imp.params.len()).min(2)));
            if !user_names.contains(&leaf) {
                user_names.push(leaf);
            }
        }
    }
    // every defined name counts on the emitted side (a call the IR does not have would show up)
    let all_names: Vec<String> = defs.iter().map(|d| d.0.clone()).collect();
    let mut seen = Vec::new();
    for i in &items {
        emitted_calls(i, &all_names, &mut seen);
    }
    seen.sort();
    let req = format!("C02.call\t{}\t{}", src1, if entries.is_empty() { "-".to_string() } else { entries.join(" ;; ") });
    if entries.is_empty() {
        out.case(&req, "skip", "SKIP:no user call");
        return;
    }
    hist.add("call:modules");
    out.case(&req, &format!("calls {}", seen.join(" ")), "ok");
}

pub fn run_request(line: &str, out: &mut Out, hist: &mut Hist) {
    let f: Vec<&str> = line.split('\t').collect();
    if f.len() < 2 || f[0] != "C02.call" {
        return;
    }
    let src = super::unescape(f[1]);
    if let Err(pn) = guard(|| run_program(&src, out, hist)) {
        out.case(&format!("C02.call\t{}\t-", f[1]), "harness-panic", &format!("SKIP:harness panic {}", pn));
    }
}

//! C02 (semantic half): the Metal exporter preserves the meaning of the scalar subset.
//!
//! request : C02.gen \t <source, one line> \t <function name> \t <argument vectors> \t <ctx> \t <ir>
//!   ctx   : `vars=<id>:<emitted name>:<type>,...;globs=<id>:<name>:<type>:<P|C>:<initial value>,...;funcs=<id>:<name>,...;target=<id>`
//!           (P = threaded as a reference parameter, C = constant at file scope)
//!   ir    : s-expressions of every user function (the serialisation of C01: harness/src/c01/conv.rs)
//!   (on `--requests` replay only source, function name and argument vectors are read; ctx and ir are recomputed)
//! observe : `ast <s-expressions of the definitions the exporter emitted under that name (hook verif_generate_ast):
//!           trampoline target, trampoline> ;; run <outcome per vector of the reference evaluation of the IR>`
//! oracle  : (independent of the Lean model) the emitted Metal tree of the whole module is run by a C++-like evaluator
//!           with references (`MslEval`): by-value and `thread T&` parameters, overloads chosen by arity, locals per
//!           call frame, Metal's integer literal types; return value, final out/inout arguments and final static
//!           globals must be bit-identical to the reference evaluation of the IR on every argument vector.
#![allow(dead_code)]
#[path = "../c01/sx.rs"]
pub mod sx;
#[path = "../c01/conv.rs"]
pub mod conv;
#[path = "../c01/eval.rs"]
pub mod eval;
#[path = "../c01/pgen.rs"]
pub mod pgen;
#[path = "msleval.rs"]
pub mod msleval;

use crate::compile_util::*;
use crate::util::*;
use conv::*;
use eval::*;
use msleval::{MslEval, Stuck, TopArg};
use rssl::ir;
use rssl_ast as ast;
use sx::*;

fn unsup(what: &str) -> Sx {
    node("unsupported", vec![a(what)])
}

/// names the Metal exporter must avoid (`RESERVED_NAMES` of msl/src/names.rs, read from the source tree the harness
/// was built against: the list is private to the crate)
fn reserved_names() -> Vec<String> {
    let repo = std::env::var("VERIF_REPO").unwrap_or_else(|_| "/repo".to_string());
    let text = std::fs::read_to_string(format!("{}/msl/src/names.rs", repo)).unwrap_or_default();
    let mut out = Vec::new();
    if let Some(i) = text.find("pub const RESERVED_NAMES") {
        if let Some(j) = text[i..].find("];") {
            let body = &text[i..i + j];
            let body = &body[body.find('[').map(|k| k + 1).unwrap_or(0)..];
            let mut in_str = false;
            let mut cur = String::new();
            let mut skip_line = false;
            let chars: Vec<char> = body.chars().collect();
            let mut k = 0;
            while k < chars.len() {
                let c = chars[k];
                if skip_line {
                    if c == '\n' {
                        skip_line = false;
                    }
                } else if in_str {
                    if c == '"' {
                        in_str = false;
                        out.push(std::mem::take(&mut cur));
                    } else {
                        cur.push(c);
                    }
                } else if c == '"' {
                    in_str = true;
                } else if c == '/' && k + 1 < chars.len() && chars[k + 1] == '/' {
                    skip_line = true;
                }
                k += 1;
            }
        }
    }
    out
}

// ------------------------------------------------------------------------------------------------ emitted tree → sx
fn scoped(id: &ast::ScopedIdentifier) -> Option<String> {
    if id.base != ast::ScopedIdentifierBase::Relative {
        return None;
    }
    Some(id.identifiers.iter().map(|i| i.node.clone()).collect::<Vec<_>>().join("::"))
}

/// type name plus modifiers
fn m_type(t: &ast::Type) -> Option<(String, Vec<ast::TypeModifier>)> {
    if !t.layout.1.is_empty() {
        return None;
    }
    Some((scoped(&t.layout.0)?, t.modifiers.modifiers.iter().map(|m| m.node).collect()))
}

pub fn m_expr(e: &ast::Expression) -> Sx {
    match e {
        ast::Expression::Literal(lit) => match lit {
            ast::Literal::Bool(b) => node("lit", vec![a("bool"), a(if *b { "1" } else { "0" })]),
            ast::Literal::IntUntyped(n) => node("lit", vec![a("int"), a(&n.to_string())]),
            ast::Literal::IntUnsigned32(n) => node("lit", vec![a("uint"), a(&n.to_string())]),
            ast::Literal::Float32(f) => node("lit", vec![a("f32"), a(&format!("{:08x}", f.to_bits()))]),
            ast::Literal::FloatUntyped(f) => node("lit", vec![a("flt"), a(&format!("{:016x}", f.to_bits()))]),
            _ => unsup("Literal"),
        },
        ast::Expression::Identifier(id) => match scoped(id) {
            Some(n) => node("id", vec![a(&n)]),
            None => unsup("ScopedIdentifier"),
        },
        ast::Expression::UnaryOperation(op, x) => node("un", vec![a(&format!("{:?}", op)), m_expr(&x.node)]),
        ast::Expression::BinaryOperation(op, x, y) => node("bin", vec![a(&format!("{:?}", op)), m_expr(&x.node), m_expr(&y.node)]),
        ast::Expression::TernaryConditional(c, t, f) => node("tern", vec![m_expr(&c.node), m_expr(&t.node), m_expr(&f.node)]),
        ast::Expression::Cast(ty, x) => {
            if ty.abstract_declarator != ast::Declarator::Empty {
                return unsup("CastDeclarator");
            }
            match m_type(&ty.base) {
                Some((n, mods)) if mods.is_empty() => node("cast", vec![a(&n), m_expr(&x.node)]),
                _ => unsup("CastType"),
            }
        }
        ast::Expression::Call(f, targs, args) => {
            if !targs.is_empty() {
                return unsup("TemplateArgs");
            }
            match &f.node {
                ast::Expression::Identifier(id) => match scoped(id) {
                    Some(n) => {
                        let mut v = vec![a(&n)];
                        v.extend(args.iter().map(|x| m_expr(&x.node)));
                        node("call", v)
                    }
                    None => unsup("CallTarget"),
                },
                _ => unsup("CallTarget"),
            }
        }
        _ => unsup("Expression"),
    }
}

fn m_decl_name(d: &ast::Declarator) -> Option<String> {
    match d {
        ast::Declarator::Identifier(id, attrs) if attrs.is_empty() => scoped(id),
        _ => None,
    }
}

fn m_vardef(d: &ast::VarDef) -> Option<Vec<Sx>> {
    let (tn, mods) = m_type(&d.local_type)?;
    if !mods.is_empty() {
        return None;
    }
    let mut v = vec![a(&tn)];
    for def in &d.defs {
        let name = m_decl_name(&def.declarator)?;
        if !def.location_annotations.is_empty() {
            return None;
        }
        let mut items = vec![a(&name)];
        match &def.init {
            None => {}
            Some(ast::Initializer::Expression(e)) => items.push(m_expr(&e.node)),
            Some(_) => return None,
        }
        v.push(node("d", items));
    }
    Some(v)
}

pub fn m_stmt(s: &ast::Statement) -> Sx {
    if !s.attributes.is_empty() {
        return unsup("Attribute");
    }
    match &s.kind {
        ast::StatementKind::Expression(e) => node("expr", vec![m_expr(e)]),
        ast::StatementKind::Var(d) => match m_vardef(d) {
            Some(v) => node("var", v),
            None => unsup("VarDef"),
        },
        ast::StatementKind::Block(b) => node("block", b.iter().map(m_stmt).collect()),
        ast::StatementKind::If(c, b) => node("if", vec![m_expr(&c.node), m_stmt(b)]),
        ast::StatementKind::IfElse(c, t, f) => node("ifelse", vec![m_expr(&c.node), m_stmt(t), m_stmt(f)]),
        ast::StatementKind::For(init, cond, inc, b) => {
            let i = match init {
                ast::InitStatement::Empty => node("none", vec![]),
                ast::InitStatement::Expression(e) => node("e", vec![m_expr(&e.node)]),
                ast::InitStatement::Declaration(d) => match m_vardef(d) {
                    Some(v) => node("decl", v),
                    None => unsup("VarDef"),
                },
            };
            let c = match cond {
                None => node("none", vec![]),
                Some(e) => m_expr(&e.node),
            };
            let n = match inc {
                None => node("none", vec![]),
                Some(e) => m_expr(&e.node),
            };
            node("for", vec![i, c, n, m_stmt(b)])
        }
        ast::StatementKind::While(c, b) => node("while", vec![m_expr(&c.node), m_stmt(b)]),
        ast::StatementKind::DoWhile(b, c) => node("dowhile", vec![m_stmt(b), m_expr(&c.node)]),
        ast::StatementKind::Break => node("break", vec![]),
        ast::StatementKind::Continue => node("continue", vec![]),
        ast::StatementKind::Return(None) => node("ret", vec![]),
        ast::StatementKind::Return(Some(e)) => node("ret", vec![m_expr(&e.node)]),
        ast::StatementKind::Empty => node("empty", vec![]),
        ast::StatementKind::Switch(c, b) => node("switch", vec![m_expr(&c.node), m_stmt(b)]),
        ast::StatementKind::CaseLabel(e, st) => node("case", vec![m_expr(&e.node), m_stmt(st)]),
        ast::StatementKind::DefaultLabel(st) => node("default", vec![m_stmt(st)]),
        _ => unsup("Statement"),
    }
}

fn space_name(s: ast::AddressSpace) -> &'static str {
    match s {
        ast::AddressSpace::Thread => "thread",
        ast::AddressSpace::Constant => "constant",
        ast::AddressSpace::ThreadGroup => "threadgroup",
        ast::AddressSpace::Device => "device",
        _ => "otherspace",
    }
}

/// `(val T name)` | `(ref space T name)` | `(tag T)`
fn m_param(p: &ast::FunctionParam) -> Sx {
    let (tn, mods) = match m_type(&p.param_type) {
        Some(x) => x,
        None => return unsup("ParamType"),
    };
    if p.default_expr.is_some() || !p.location_annotations.is_empty() {
        return unsup("Param");
    }
    match &p.declarator {
        ast::Declarator::Empty if mods.is_empty() => node("tag", vec![a(&tn)]),
        ast::Declarator::Identifier(..) if mods.is_empty() => match m_decl_name(&p.declarator) {
            Some(n) => node("val", vec![a(&tn), a(&n)]),
            None => unsup("Param"),
        },
        ast::Declarator::Reference(r) if r.attributes.is_empty() => match (m_decl_name(&r.inner), mods.as_slice()) {
            (Some(n), [ast::TypeModifier::AddressSpace(s)]) => node("ref", vec![a(space_name(*s)), a(&tn), a(&n)]),
            _ => unsup("Param"),
        },
        _ => unsup("Param"),
    }
}

/// `(fn name ret (params ...) (block ...))`
pub fn m_func(f: &ast::FunctionDefinition) -> Sx {
    let ret = match m_type(&f.returntype.return_type) {
        Some((n, mods)) if mods.is_empty() && f.returntype.location_annotations.is_empty() => a(&n),
        _ => unsup("ReturnType"),
    };
    let ps = f.params.iter().map(m_param).collect();
    let body = match &f.body {
        Some(b) => node("block", b.iter().map(m_stmt).collect()),
        None => unsup("NoBody"),
    };
    let mut items = vec![a(&f.name.node), ret, node("params", ps), body];
    if !f.attributes.is_empty() || !f.template_params.0.is_empty() || f.is_const || f.is_volatile {
        items.push(unsup("FunctionAttribute"));
    }
    node("fn", items)
}

/// functions and file-scope constants of the emitted module: `(fn ...)`, `(global name type init?)`
pub fn m_module(m: &ast::Module) -> Vec<Sx> {
    let mut out = Vec::new();
    for rd in &m.root_definitions {
        match rd {
            // a prototype (`generate_function(id, only_declare = true)`) declares, the definition that follows defines:
            // only definitions are compared and run
            ast::RootDefinition::Function(f) if f.body.is_none() => out.push(node("proto", vec![a(&f.name.node), a(&f.params.len().to_string())])),
            ast::RootDefinition::Function(f) => out.push(m_func(f)),
            ast::RootDefinition::GlobalVariable(g) => match m_type(&g.global_type) {
                Some((tn, mods)) if g.attributes.is_empty() && mods == [ast::TypeModifier::AddressSpace(ast::AddressSpace::Constant)] => {
                    for def in &g.defs {
                        match m_decl_name(&def.declarator) {
                            Some(n) => {
                                let mut items = vec![a(&n), a(&tn)];
                                match &def.init {
                                    None => {}
                                    Some(ast::Initializer::Expression(e)) => items.push(m_expr(&e.node)),
                                    Some(_) => items.push(unsup("Init")),
                                }
                                out.push(node("global", items));
                            }
                            None => out.push(unsup("GlobalDeclarator")),
                        }
                    }
                }
                _ => out.push(unsup("GlobalType")),
            },
            _ => out.push(unsup("RootDefinition")),
        }
    }
    out
}

// ------------------------------------------------------------------------------------------------ requests
fn unescape(s: &str) -> String {
    let mut o = String::new();
    let mut it = s.chars();
    while let Some(c) = it.next() {
        if c == '\\' {
            match it.next() {
                Some('n') => o.push('\n'),
                Some('t') => o.push('\t'),
                Some('r') => o.push('\r'),
                Some('\\') => o.push('\\'),
                Some(x) => {
                    o.push('\\');
                    o.push(x)
                }
                None => o.push('\\'),
            }
        } else {
            o.push(c);
        }
    }
    o
}

fn arg_vectors(rng: &mut Rng, params: &[(u8, T)], n: usize) -> Vec<Vec<V>> {
    let ints: [u32; 12] = [0, 1, 2, 3, 7, 31, 32, 0x7fff_ffff, 0x8000_0000, 0xffff_ffff, 0xffff_fff9, 1000];
    (0..n)
        .map(|k| {
            params
                .iter()
                .map(|(_, t)| {
                    let raw = if k == 0 { 0 } else if rng.chance(2, 3) { *rng.pick(&ints) } else { rng.next() as u32 };
                    match t {
                        T::Bool => V::B(raw & 1 == 1),
                        T::Int => V::I(raw),
                        T::Uint => V::U(raw),
                        T::Float => V::F(raw),
                        _ => V::Void,
                    }
                })
                .collect()
        })
        .collect()
}

fn show_vectors(vs: &[Vec<V>]) -> String {
    vs.iter().map(|v| v.iter().map(|x| x.show()).collect::<Vec<_>>().join(",")).collect::<Vec<_>>().join(";")
}

fn parse_vectors(s: &str) -> Option<Vec<Vec<V>>> {
    if s.is_empty() {
        return Some(vec![vec![]]);
    }
    s.split(';')
        .map(|v| if v.is_empty() { Some(vec![]) } else { v.split(',').map(V::parse).collect::<Option<Vec<V>>>() })
        .collect()
}

pub struct GlobalInfo {
    pub id: u32,
    pub name: String,
    pub ty: Option<T>,
    /// threaded as a parameter (static, not const) or a constant at file scope
    pub param_mode: bool,
    pub init: V,
}

pub struct Prepared {
    pub ir: ir::Module,
    pub prog: Vec<Sx>,
    /// (function id, source name, emitted name)
    pub funcs: Vec<(u32, String, String)>,
    pub vars: String,
    pub globs: String,
    pub globals: Vec<GlobalInfo>,
    pub funcs_ctx: String,
    pub unsupported_global: bool,
}

pub fn prepare(src: &str, hist: &mut Hist) -> Result<Prepared, String> {
    let ir = match front_end_src(src) {
        Ok(m) => m,
        Err(e) => return Err(format!("front end ({}): {}", e.stage(), one_line(&e.text().chars().take(100).collect::<String>()))),
    };
    let reserved = reserved_names();
    let reserved_refs: Vec<&str> = reserved.iter().map(|s| s.as_str()).collect();
    let names = ir::name_generator::NameMap::build(&ir, &reserved_refs, false);
    let mut cv = IrConv::new(&ir);
    let mut prog = Vec::new();
    let mut funcs = Vec::new();
    let mut global_ids = Vec::new();
    for rd in &ir.root_definitions {
        match rd {
            ir::RootDefinition::Function(id) => {
                if let Some(f) = cv.func(*id, hist) {
                    prog.push(f);
                    funcs.push((
                        id.0,
                        ir.function_registry.get_function_name(*id).to_string(),
                        names.get_name_leaf(ir::name_generator::NameSymbol::Function(*id)).to_string(),
                    ));
                }
            }
            ir::RootDefinition::GlobalVariable(id) => global_ids.push(*id),
            _ => {}
        }
    }
    let vars: Vec<String> = cv
        .vars
        .iter()
        .map(|v| {
            let id = ir::VariableId(*v);
            let lv = ir.variable_registry.get_local_variable(id);
            format!(
                "{}:{}:{}",
                v,
                names.get_name_leaf(ir::name_generator::NameSymbol::LocalVariable(id)),
                ir_type(&ir, lv.type_id).map(|t| t.name()).unwrap_or("unsupported")
            )
        })
        .collect();
    let mut globals = Vec::new();
    let mut globs = Vec::new();
    let mut unsupported_global = false;
    let ev = IrEval::new(&[]);
    for id in global_ids {
        let g = &ir.global_registry[id.0 as usize];
        let name = names.get_name_leaf(ir::name_generator::NameSymbol::GlobalVariable(id)).to_string();
        let t = ir_type(&ir, g.type_id);
        // the subset: `static [const] T name = <constant expression without calls or other globals>;`
        if g.storage_class != ir::GlobalStorage::Static || g.static_sampler.is_some() || g.is_intrinsic {
            unsupported_global = true;
        }
        let is_const = ir.type_registry.is_const(g.type_id);
        let init = match &g.init {
            Some(ir::Initializer::Expression(e)) => {
                let sx = IrConv::new(&ir).expr(e, &mut Hist::default());
                if sx.contains_head("call") || sx.contains_head("glob") || sx.contains_head("unsupported") {
                    unsupported_global = true;
                }
                ev.eval(&sx, &mut Default::default(), 1).unwrap_or(V::Void)
            }
            Some(_) => {
                unsupported_global = true;
                V::Void
            }
            None => V::Void,
        };
        globs.push(format!(
            "{}:{}:{}:{}:{}",
            id.0,
            name,
            t.map(|t| t.name()).unwrap_or("unsupported"),
            if is_const { "C" } else { "P" },
            init.show()
        ));
        globals.push(GlobalInfo { id: id.0, name, ty: t, param_mode: !is_const, init });
    }
    let funcs_ctx = funcs.iter().map(|(i, _, n)| format!("{}:{}", i, n)).collect::<Vec<_>>().join(",");
    Ok(Prepared { ir, prog, funcs, vars: vars.join(","), globs: globs.join(","), globals, funcs_ctx, unsupported_global })
}

fn panic_category(p: &str) -> String {
    if p.contains("negate with overflow") {
        "negate-overflow".into()
    } else if p.contains("cannot represent") {
        "cannot-represent".into()
    } else if p.contains("assertion") {
        "assert".into()
    } else if p.contains("unwrap") {
        "unwrap".into()
    } else {
        "other".into()
    }
}

pub fn run_program(src: &str, only: Option<(&str, &[Vec<V>])>, nvec: usize, rng: &mut Rng, out: &mut Out, hist: &mut Hist) {
    let src1 = one_line(src);
    let p = match prepare(src, hist) {
        Ok(p) => p,
        Err(why) => {
            hist.add("gen:skip:front-end");
            out.case(&format!("C02.gen\t{}\t-\t\t-\t-", src1), "skip", &format!("SKIP:{}", why));
            return;
        }
    };
    hist.add("gen:programs");
    let prog_text = p.prog.iter().map(|f| f.show()).collect::<Vec<_>>().join(" ");
    let emitted = guard(|| rssl_msl::verif_generate_ast(&p.ir));
    let module_sx: Option<Vec<Sx>> = match &emitted {
        Ok(Ok(m)) => Some(m_module(m)),
        _ => None,
    };
    let ir_eval = IrEval::new(&p.prog);
    let global_vals: Vec<(u32, V)> = p.globals.iter().map(|g| (g.id, g.init)).collect();
    // text leg (c02/text.rs): the public route's text is the printed tree, and the printed tree reads back as the tree
    let text_leg = match &emitted {
        Ok(Ok(m)) => Some(super::text::check_module(&p.ir, m, hist)),
        _ => None,
    };
    // the module as READ BACK from the emitted text, for the evaluator
    let reread_sx: Option<Vec<Sx>> = text_leg.as_ref().filter(|t| t.differs).and_then(|t| t.reread.as_ref()).map(m_module);

    for (fi, (fid, src_name, emitted_name)) in p.funcs.iter().enumerate() {
        if let Some((want, _)) = only {
            // "*": every function on the given argument vectors (enumerated streams)
            if want != "*" && want != src_name {
                continue;
            }
        }
        let f = &p.prog[fi];
        let params: Vec<(u8, T)> = f.args()[2]
            .args()
            .iter()
            .map(|q| {
                (
                    match q.args()[1].atom() {
                        "out" => 1u8,
                        "inout" => 2u8,
                        _ => 0u8,
                    },
                    T::parse(q.args()[2].atom()).unwrap_or(T::Void),
                )
            })
            .collect();
        let vectors: Vec<Vec<V>> = match only {
            Some((_, v)) => v.to_vec(),
            None => arg_vectors(rng, &params, nvec),
        };
        let req = format!(
            "C02.gen\t{}\t{}\t{}\tvars={};globs={};funcs={};target={}\t{}",
            src1,
            src_name,
            show_vectors(&vectors),
            p.vars,
            p.globs,
            p.funcs_ctx,
            fid,
            prog_text
        );
        let unsupported = p.prog.iter().any(|g| g.contains_head("unsupported") || g.contains_head("intr"))
            || p.vars.contains("unsupported")
            || p.globs.contains("unsupported")
            || p.unsupported_global;
        let mut fails: Vec<String> = Vec::new();
        let ir_results: Vec<Option<Outcome>> = vectors.iter().map(|v| ir_eval.run(*fid, v, &global_vals)).collect();
        let run_text = ir_results.iter().map(show_outcome).collect::<Vec<_>>().join(" | ");
        let obs = match (&emitted, &module_sx) {
            (Ok(Ok(_)), Some(items)) => {
                let defs: Vec<&Sx> = items.iter().filter(|i| i.head() == "fn" && i.args()[0].atom() == emitted_name).collect();
                if defs.is_empty() {
                    fails.push(format!("function {} missing from the exported module", emitted_name));
                    "missing".to_string()
                } else if unsupported || defs.iter().any(|d| d.contains_head("unsupported")) {
                    "unsupported".to_string()
                } else {
                    // the emitted tree under the C++/Metal reading, called as code outside the module would call it
                    let me = MslEval::new(items, false);
                    let statics: Vec<(String, V)> = p.globals.iter().filter(|g| g.param_mode).map(|g| (g.name.clone(), g.init)).collect();
                    let msl_text = vectors
                        .iter()
                        .map(|v| {
                            let top: Vec<TopArg> =
                                params.iter().zip(v).map(|((d, _), x)| if *d == 0 { TopArg::Val(*x) } else { TopArg::Var(*x) }).collect();
                            let got = me.run(emitted_name, &top, &statics);
                            msleval::take_stuck();
                            match got {
                                None => "none".to_string(),
                                Some((ret, finals, gl)) => {
                                    let mut k = 0;
                                    let gs: Vec<String> = p
                                        .globals
                                        .iter()
                                        .map(|g| {
                                            if g.param_mode {
                                                k += 1;
                                                gl[k - 1].show()
                                            } else {
                                                g.init.show()
                                            }
                                        })
                                        .collect();
                                    format!(
                                        "r={} o={} g={}",
                                        ret.show(),
                                        finals.iter().flatten().map(|x| x.show()).collect::<Vec<_>>().join(","),
                                        gs.join(",")
                                    )
                                }
                            }
                        })
                        .collect::<Vec<_>>()
                        .join(" | ");
                    format!("ast {} ;; run {} ;; msl {}", defs.iter().map(|d| d.show()).collect::<Vec<_>>().join(" "), run_text, msl_text)
                }
            }
            (Err(pn), _) => {
                if !unsupported {
                    fails.push(format!("panic {}", pn));
                }
                format!("panic {}", panic_category(pn))
            }
            (Ok(Err(e)), _) => {
                // a diagnostic of the Metal backend: the property does not speak about rejected programs
                hist.add("gen:diagnostic");
                format!("diagnostic {}", one_line(&format!("{:?}", e)).chars().take(60).collect::<String>())
            }
            _ => "generate-error".to_string(),
        };
        let obs = if unsupported && !obs.starts_with("panic") { "unsupported".to_string() } else { obs };
        hist.add(if obs == "unsupported" { "gen:fn:unsupported" } else { "gen:fn:supported" });
        // ---- oracle: the emitted Metal tree under C++ reference semantics == the IR under its typed semantics
        if fails.is_empty() && obs.starts_with("ast ") {
            if let Some(items) = &module_sx {
                let me = MslEval::new(items, false);
                let statics: Vec<(String, V)> = p.globals.iter().filter(|g| g.param_mode).map(|g| (g.name.clone(), g.init)).collect();
                // file-scope constants start with the value the IR gives them
                match me.init_mem() {
                    Some(_) => {}
                    None => fails.push("the initialisers of the emitted constants do not evaluate".into()),
                }
                for (v, want) in vectors.iter().zip(&ir_results) {
                    let want = match want {
                        Some(w) => w,
                        None => {
                            hist.add("gen:vector:ir-undefined");
                            continue;
                        }
                    };
                    hist.add("gen:vector:defined");
                    let top: Vec<TopArg> = params.iter().zip(v).map(|((d, _), x)| if *d == 0 { TopArg::Val(*x) } else { TopArg::Var(*x) }).collect();
                    let cmp = |got: &Option<(V, Vec<Option<V>>, Vec<V>)>| -> Result<(), String> {
                        let (ret, finals, gl) = match got {
                            Some(g) => g,
                            None => return Err("is undefined".into()),
                        };
                        if *ret != want.ret {
                            return Err(format!("returns {}", ret.show()));
                        }
                        for (i, f) in finals.iter().enumerate() {
                            if let Some(f) = f {
                                if *f != want.params[i] {
                                    return Err(format!("leaves {} in argument {}", f.show(), i));
                                }
                            }
                        }
                        let mut k = 0;
                        for (gi, g) in p.globals.iter().enumerate() {
                            if g.param_mode {
                                if gl[k] != want.globals[gi] {
                                    return Err(format!("leaves {} in static {}", gl[k].show(), g.name));
                                }
                                k += 1;
                            } else if want.globals[gi] != g.init {
                                return Err(format!("constant {} changed in the IR evaluation", g.name));
                            }
                        }
                        Ok(())
                    };
                    msleval::take_stuck();
                    let got = me.run(emitted_name, &top, &statics);
                    let why = msleval::take_stuck();
                    if let Err(diff) = cmp(&got) {
                        if let (None, Some((Stuck::Uninit, msg))) = (&got, &why) {
                            // undefined in the source as well only if the variable is a local of the source or the
                            // trampoline's copy of an `out` parameter (an `inout` copy must have been initialised)
                            let declared = msg.split('`').nth(1).unwrap_or("");
                            let is_copy = declared.starts_with("__");
                            let copy_of_out = is_copy && {
                                let pname = &declared[2..];
                                let var_id = p.vars.split(',').find_map(|v| {
                                    let f: Vec<&str> = v.split(':').collect();
                                    if f.len() == 3 && f[1] == pname { Some(f[0].to_string()) } else { None }
                                });
                                match var_id {
                                    Some(id) => p.prog.iter().any(|f| f.args()[2].args().iter().any(|q| q.args()[0].atom() == id && q.args()[1].atom() == "out")),
                                    None => false,
                                }
                            };
                            if !is_copy || copy_of_out {
                                hist.add("gen:vector:uninitialised-read");
                                continue;
                            }
                        }
                        if got.is_none() && matches!(why, Some((Stuck::InvalidSource, _))) {
                            // e.g. `switch` on a float: accepted by rssl's type checker, valid neither in HLSL nor in Metal
                            hist.add("gen:vector:source-not-valid-hlsl");
                            continue;
                        }
                        let why_kept = why.clone();
                        let detail = format!(
                            "{} args [{}]: IR gives {} but the emitted Metal {}{}",
                            emitted_name,
                            v.iter().map(|x| x.show()).collect::<Vec<_>>().join(","),
                            want.show(),
                            diff,
                            why.map(|w| format!(" (stuck at: {})", w.1)).unwrap_or_default()
                        );
                        // classification against the alternative reading / the known hazards
                        let alt = MslEval::new(items, true).run(emitted_name, &top, &statics);
                        msleval::take_stuck();
                        if let Some((Stuck::Class(c), _)) = &why_kept {
                            // the Metal reading itself names what is wrong with the emitted tree
                            fails.push(format!("class:{} ## {}", c, detail));
                        } else if cmp(&alt).is_ok() && items.iter().any(has_literal_hazard) {
                            fails.push(format!("class:metal-integer-literal-typing ## {}", detail));
                        } else if inout_order_hazard(&p.prog) {
                            fails.push(format!("class:inout-copy-in-after-later-arguments ## {}", detail));
                        } else {
                            fails.push(detail);
                        }
                        break;
                    }
                }
            }
        }
        // ---- text leg: the emitted TEXT of this function denotes the tree that was just judged
        if fails.is_empty() && matches!(emitted, Ok(Ok(_))) {
            if let Some(t) = &text_leg {
                let tf = t.fails_for(emitted_name);
                if let Some(first) = tf.first() {
                    // what the re-read text computes (the stronger reading: values, not trees)
                    let mut values = String::new();
                    if let (Some(items2), true) = (&reread_sx, obs.starts_with("ast ")) {
                        let me2 = MslEval::new(items2, false);
                        let statics: Vec<(String, V)> = p.globals.iter().filter(|g| g.param_mode).map(|g| (g.name.clone(), g.init)).collect();
                        for (v, want) in vectors.iter().zip(&ir_results) {
                            let want = match want {
                                Some(w) => w,
                                None => continue,
                            };
                            let top: Vec<TopArg> = params.iter().zip(v).map(|((d, _), x)| if *d == 0 { TopArg::Val(*x) } else { TopArg::Var(*x) }).collect();
                            msleval::take_stuck();
                            let got = me2.run(emitted_name, &top, &statics);
                            msleval::take_stuck();
                            if let Some((ret, _, _)) = got {
                                if ret != want.ret {
                                    values = format!(
                                        " ;; args [{}]: IR gives {} but the emitted Metal TEXT returns {}",
                                        v.iter().map(|x| x.show()).collect::<Vec<_>>().join(","),
                                        want.show(),
                                        ret.show()
                                    );
                                    hist.add("gen:text:value-differs");
                                    break;
                                }
                            }
                        }
                    }
                    fails.push(format!("{}{}", first, values));
                }
            }
        }
        let oracle = if !fails.is_empty() { format!("FAIL:{}", fails[0]) } else { "ok".to_string() };
        out.case(&req, &obs, &oracle);
    }
}

pub fn run_request(line: &str, out: &mut Out, hist: &mut Hist) {
    let f: Vec<&str> = line.split('\t').collect();
    if f.len() < 4 || f[0] != "C02.gen" {
        return;
    }
    let src = unescape(f[1]);
    let vecs = parse_vectors(f[3]).unwrap_or_else(|| vec![vec![]]);
    let mut rng = Rng::new(1);
    if f[2] == "-" {
        run_program(&src, None, 3, &mut rng, out, hist);
    } else {
        run_program(&src, Some((f[2], &vecs)), vecs.len(), &mut rng, out, hist);
    }
}

/// Operator chains (every tier, enumerated): for each scalar type and each binary operator the type checker accepts on it,
/// one program whose functions nest the operator in itself to the right / to both sides / under its same-precedence partners,
/// and below casts, calls, ?:, unary minus — the shapes whose PRINTED form depends on the formatter's parenthesis rule
/// (seeded mutant C02-4: `a + (b + c)` printed `a + b + c`).  Argument grids: where float regrouping changes the IEEE result
/// (1e30, -1e30, 1; 2^24, 1, 1; 1e-30, 1e30, 1e30) and integer edges.  Returns (source, function names, argument vectors).
pub fn chain_programs() -> Vec<(String, Vec<String>, Vec<Vec<V>>)> {
    let arith = ["+", "-", "*", "/"];
    let rel = ["<", "<=", ">", ">=", "==", "!="];
    let logic = ["&&", "||"];
    let bits = ["%", "<<", ">>", "&", "|", "^"];
    // operators of the same precedence level (printed without parentheses only in the left-nested form)
    let partners = |op: &str| -> Vec<&'static str> {
        match op {
            "+" | "-" => vec!["+", "-"],
            "*" | "/" | "%" => vec!["*", "/", "%"],
            "<<" | ">>" => vec!["<<", ">>"],
            "<" | "<=" | ">" | ">=" => vec!["<", ">="],
            "==" | "!=" => vec!["==", "!="],
            _ => vec![],
        }
    };
    let f = |x: f32| V::F(x.to_bits());
    let mut out = Vec::new();
    for ty in ["float", "int", "uint", "bool"] {
        let mut ops: Vec<&str> = Vec::new();
        match ty {
            "float" => {
                ops.extend(arith);
                ops.extend(rel);
                ops.extend(logic);
            }
            "bool" => {
                ops.extend(["+", "*", "&", "|", "^", "==", "!="]);
                ops.extend(logic);
            }
            _ => {
                ops.extend(arith);
                ops.extend(bits);
                ops.extend(rel);
                ops.extend(logic);
            }
        }
        let vectors: Vec<Vec<V>> = match ty {
            "float" => vec![
                vec![f(1e30), f(-1e30), f(1.0), f(1.0), V::B(true)],
                vec![f(16777216.0), f(1.0), f(1.0), f(1.0), V::B(false)],
                vec![f(1e-30), f(1e30), f(1e30), f(1e30), V::B(true)],
                vec![f(1.5), f(-2.25), f(3.0), f(0.1), V::B(false)],
                vec![f(f32::MAX), f(f32::MAX), f(-f32::MAX), f(2.0), V::B(true)],
            ],
            "int" => vec![
                vec![V::I(0x7fff_ffff), V::I(1), V::I(0xffff_ffff), V::I(2), V::B(true)],
                vec![V::I(5), V::I(3), V::I(2), V::I(1), V::B(false)],
                vec![V::I(0x8000_0000), V::I(0xffff_fffd), V::I(7), V::I(3), V::B(true)],
                vec![V::I(1 << 24), V::I(33), V::I(31), V::I(5), V::B(false)],
            ],
            "uint" => vec![
                vec![V::U(0xffff_ffff), V::U(1), V::U(0xffff_fffe), V::U(2), V::B(true)],
                vec![V::U(5), V::U(3), V::U(2), V::U(1), V::B(false)],
                vec![V::U(0x8000_0000), V::U(31), V::U(7), V::U(3), V::B(true)],
            ],
            _ => vec![
                vec![V::B(true), V::B(false), V::B(true), V::B(false), V::B(true)],
                vec![V::B(false), V::B(true), V::B(true), V::B(false), V::B(false)],
                vec![V::B(true), V::B(true), V::B(false), V::B(true), V::B(false)],
            ],
        };
        for op in ops {
            let mut bodies: Vec<String> = vec![
                format!("a {0} (b {0} c)", op),
                format!("a {0} (b {0} (c {0} d))", op),
                format!("(a {0} b) {0} (c {0} d)", op),
                format!("a {0} (b {0} c) {0} d", op),
                format!("a {0} ({1})(b {0} c)", op, ty),
                format!("({1})(a {0} (b {0} c))", op, ty),
                format!("a {0} h(b {0} (c {0} d))", op),
                format!("h(a {0} (b {0} c)) {0} (k ? b {0} c : d)", op),
                format!("(k ? a : b) {0} ((k ? c : d) {0} a)", op),
                format!("a {0} (-b {0} c)", op),
                format!("a {0} (b {0} c, c {0} d)", op),
            ];
            for q in partners(op) {
                if q != op {
                    bodies.push(format!("a {0} (b {1} c)", op, q));
                    bodies.push(format!("a {1} (b {0} (c {1} d))", op, q));
                }
            }
            let mut src = format!("{0} h({0} x)\n{{\n    return x;\n}}\n\n", ty);
            let mut names = Vec::new();
            for (i, b) in bodies.iter().enumerate() {
                let name = format!("f{}", i);
                src.push_str(&format!("{0} {1}({0} a, {0} b, {0} c, {0} d, bool k)\n{{\n    return {2};\n}}\n\n", ty, name, b));
                names.push(name);
            }
            // a statement form: compound assignment with a chain on the right, a chain as condition
            src.push_str(&format!(
                "{0} g0({0} a, {0} b, {0} c, {0} d, bool k)\n{{\n    {0} r = a {1} (b {1} c);\n    r = r {1} (c {1} (d {1} a));\n    if ((bool)(a {1} (b {1} d)))\n    {{\n        r = d {1} (r {1} b);\n    }}\n    return r;\n}}\n",
                ty, op
            ));
            names.push("g0".to_string());
            out.push((src, names, vectors.clone()));
        }
    }
    // `%=`: on floats the Metal exporter writes `x = metal::fmod(x, y)` for a plain target and a right operand free of writes
    // (fixes 92d66eb + 35faaaa) and refuses the module otherwise; on integers the operator stays
    let f32v = |x: f32| V::F(x.to_bits());
    for ty in ["float", "int"] {
        let vectors: Vec<Vec<V>> = if ty == "float" {
            vec![
                vec![f32v(7.5), f32v(2.0), f32v(3.25), f32v(0.5), V::B(true)],
                vec![f32v(-7.5), f32v(2.0), f32v(-1.5), f32v(4.0), V::B(false)],
                vec![f32v(1e30), f32v(3.0), f32v(1.0), f32v(1e-3), V::B(true)],
                vec![f32v(5.0), f32v(0.0), f32v(2.0), f32v(1.0), V::B(false)],
            ]
        } else {
            vec![
                vec![V::I(17), V::I(5), V::I(3), V::I(2), V::B(true)],
                vec![V::I(0xffff_ffef), V::I(5), V::I(0xffff_fffd), V::I(7), V::B(false)],
                vec![V::I(0x7fff_ffff), V::I(2), V::I(9), V::I(4), V::B(true)],
            ]
        };
        let one = if ty == "float" { "1.0f" } else { "1" };
        let init = if ty == "float" { "7.5f" } else { "7" };
        let accepted = [
            format!("a %= b;\n    return a;"),
            format!("a %= (b + c * d);\n    return a;"),
            format!("gs %= (k ? a : b);\n    return gs;"),
            format!("a %= b;\n    a %= c;\n    return a % d;"),
            format!("{0} r = a;\n    r %= (r + b);\n    return r + (r %= c);", ty),
            format!("a %= ({0})(k ? 3 : 5);\n    gs %= -a + {1};\n    return a + gs;", ty, one),
        ];
        let mut src = format!("static {0} gs = {1};\n\n{0} h({0} x)\n{{\n    return x;\n}}\n\n", ty, init);
        let mut names = Vec::new();
        for (i, b) in accepted.iter().enumerate() {
            let name = format!("r{}", i);
            src.push_str(&format!("{0} {1}({0} a, {0} b, {0} c, {0} d, bool k)\n{{\n    {2}\n}}\n\n", ty, name, b));
            names.push(name);
        }
        out.push((src, names, vectors.clone()));
        // right operands that write / a target that is not a plain place: refused on floats (one per module), exported on integers
        for (i, b) in [
            "a %= h(b);\n    return a;".to_string(),
            "a %= (a = b);\n    return a;".to_string(),
            "a %= b++;\n    return a + b;".to_string(),
            "gs %= (b, c);\n    return gs;".to_string(),
            "(a = b) %= c;\n    return a;".to_string(),
        ]
        .iter()
        .enumerate()
        {
            let src = format!(
                "static {0} gs = {1};\n\n{0} h({0} x)\n{{\n    gs = gs + x;\n    return x;\n}}\n\n{0} q{2}({0} a, {0} b, {0} c, {0} d, bool k)\n{{\n    {3}\n}}\n",
                ty, init, i, b
            )
            ;
            out.push((src, vec![format!("q{}", i)], vectors.clone()));
        }
    }
    out
}

pub fn run_stream(args: &Args, out: &mut Out, hist: &mut Hist) {
    let n = if args.thorough() { 3000 } else { 150 };
    let mut rng = Rng::new(args.seed ^ 0x5eed_c02);
    // operator chains first (enumerated, every tier)
    for (src, names, vectors) in chain_programs() {
        hist.add("gen:chain-programs");
        let _ = names;
        let mut arng = Rng::new(1);
        if let Err(pn) = guard(|| run_program(&src, Some(("*", &vectors[..])), vectors.len(), &mut arng, out, hist)) {
            hist.add("gen:harness-panic");
            out.case(&format!("C02.gen\t{}\t-\t\t-\t-", one_line(&src)), "harness-panic", &format!("SKIP:harness panic {}", pn));
        }
    }
    // aliasing calls first: statics passed as out/inout arguments to functions that touch them, one variable twice, ...
    let na = if args.thorough() { 2000 } else { 120 };
    for _ in 0..na {
        let mut prng = rng.fork();
        let src = alias_program(&mut prng);
        let mut arng = rng.fork();
        hist.add("gen:alias-programs");
        if let Err(pn) = guard(|| run_program(&src, None, 4, &mut arng, out, hist)) {
            hist.add("gen:harness-panic");
            out.case(&format!("C02.gen\t{}\t-\t\t-\t-", one_line(&src)), "harness-panic", &format!("SKIP:harness panic {}", pn));
        }
    }
    for k in 0..n {
        let opts = pgen::GenOpts { floats: k % 3 != 0, calls: true, max_depth: 1 + (k % 3) as u32 };
        // the generator of C01 also emits calls of built-in functions (not in the subset modelled here): draw again
        let mut src = String::new();
        for _ in 0..40 {
            let mut prng = rng.fork();
            src = pgen::Gen::new(&mut prng, opts).program();
            if !BUILTINS.iter().any(|(n, _)| src.contains(&format!("{}(", n))) {
                break;
            }
        }
        let mut arng = rng.fork();
        if let Err(pn) = guard(|| run_program(&src, None, 6, &mut arng, out, hist)) {
            hist.add("gen:harness-panic");
            out.case(&format!("C02.gen\t{}\t-\t\t-\t-", one_line(&src)), "harness-panic", &format!("SKIP:harness panic {}", pn));
        }
    }
}


// ------------------------------------------------------------------------------------------------ known hazards
fn lit_only(e: &Sx) -> bool {
    match e.head() {
        "lit" => e.args()[0].atom() == "int",
        "un" => matches!(e.args()[0].atom(), "Minus" | "Plus" | "BitwiseNot") && lit_only(&e.args()[1]),
        "bin" => lit_only(&e.args()[1]) && lit_only(&e.args()[2]),
        // `c ? 31 : -2147483647` between two literals is still the exact literal int in RSSL (and `int` in Metal)
        "tern" => e.args().len() == 3 && lit_only(&e.args()[1]) && lit_only(&e.args()[2]),
        _ => false,
    }
}

/// where Metal's integer literal types can differ from RSSL's exact literal int: a literal that does not fit `int`
/// (in particular `-2147483648`), or arithmetic on literals only
fn has_literal_hazard(e: &Sx) -> bool {
    if let Sx::L(items) = e {
        if e.head() == "lit" && e.args()[0].atom() == "int" {
            if e.args()[1].atom().parse::<u128>().map(|n| n >= (1u128 << 31)).unwrap_or(true) {
                return true;
            }
        }
        if e.head() == "bin" && lit_only(&e.args()[1]) && lit_only(&e.args()[2]) {
            return true;
        }
        return items.iter().any(has_literal_hazard);
    }
    false
}

fn param_dirs(prog: &[Sx], id: &str) -> Option<Vec<bool>> {
    prog.iter()
        .find(|f| f.head() == "fn" && f.args()[0].atom() == id)
        .map(|f| f.args()[2].args().iter().map(|q| q.args()[1].atom() != "in").collect())
}

/// does evaluating `e` possibly write the variable `target` (`(var n)` / `(glob n)`)?
fn may_write(prog: &[Sx], e: &Sx, target: &Sx) -> bool {
    if let Sx::L(items) = e {
        if e.head() == "op" {
            let name = e.args()[0].atom();
            let writes = name.ends_with("Assignment") || name.starts_with("Prefix") || name.starts_with("Postfix");
            if writes && e.args().len() > 1 && &e.args()[1] == target {
                return true;
            }
        }
        if e.head() == "call" {
            // a callee can write any static; and it writes the out/inout arguments
            if target.head() == "glob" {
                return true;
            }
            if let Some(dirs) = param_dirs(prog, e.args()[0].atom()) {
                for (d, a) in dirs.iter().zip(&e.args()[1..]) {
                    if *d && a == target {
                        return true;
                    }
                }
            }
        }
        return items.iter().any(|i| may_write(prog, i, target));
    }
    false
}

/// a call whose out/inout argument variable may be written by a later argument expression: the IR copies the value in
/// when it reaches the argument, the emitted trampoline when all arguments have been evaluated
fn inout_order_hazard_in(prog: &[Sx], e: &Sx) -> bool {
    if let Sx::L(items) = e {
        if e.head() == "call" {
            if let Some(dirs) = param_dirs(prog, e.args()[0].atom()) {
                let args = &e.args()[1..];
                for i in 0..args.len().min(dirs.len()) {
                    if dirs[i] {
                        for j in i + 1..args.len().min(dirs.len()) {
                            if !dirs[j] && may_write(prog, &args[j], &args[i]) {
                                return true;
                            }
                        }
                    }
                }
            }
        }
        return items.iter().any(|i| inout_order_hazard_in(prog, i));
    }
    false
}

fn inout_order_hazard(prog: &[Sx]) -> bool {
    prog.iter().any(|f| inout_order_hazard_in(prog, f))
}

// ------------------------------------------------------------------------------------------------ aliasing programs
/// small programs built around calls whose reference arguments alias: a static passed as out/inout argument to a
/// function that (transitively) reads/writes the same static, one variable passed to two out/inout parameters, an
/// out/inout argument also read (or written) by another argument expression
pub fn alias_program(rng: &mut Rng) -> String {
    let t = *rng.pick(&["int", "uint", "int", "float"]);
    let lit = |rng: &mut Rng| -> String {
        match t {
            "int" => rng.pick(&["0", "1", "2", "3", "7", "-1", "-5", "100"]).to_string(),
            "uint" => rng.pick(&["0u", "1u", "2u", "3u", "7u", "100u"]).to_string(),
            _ => rng.pick(&["0.0f", "1.0f", "2.5f", "-1.5f"]).to_string(),
        }
    };
    let mut out = String::new();
    out.push_str(&format!("static {} g1 = {};\nstatic {} g2 = {};\n\n", t, lit(rng), t, lit(rng)));
    // a function that only touches the statics
    out.push_str(&format!("void bump()\n{{\n    g1 = g1 + {};\n}}\n\n", lit(rng)));
    // the callee
    let d1 = *rng.pick(&["out", "inout", "inout"]);
    let second: Option<&str> = match rng.below(4) {
        0 => None,
        1 => Some("in"),
        2 => Some("out"),
        _ => Some("inout"),
    };
    let void_ret = rng.chance(1, 3);
    let mut decl = vec![format!("{} {} p1", d1, t)];
    if let Some(d2) = second {
        decl.push(format!("{}{} p2", if d2 == "in" { "".to_string() } else { format!("{} ", d2) }, t));
    }
    if rng.chance(1, 4) {
        // a prototype first: `generate_function(id, only_declare = true)`
        out.push_str(&format!("{} h({});\n\n", if void_ret { "void" } else { t }, decl.join(", ")));
    }
    out.push_str(&format!("{} h({})\n{{\n", if void_ret { "void" } else { t }, decl.join(", ")));
    if d1 == "out" {
        out.push_str(&format!("    p1 = {};\n", lit(rng)));
    }
    if second == Some("out") {
        out.push_str(&format!("    p2 = {};\n", lit(rng)));
    }
    let mut pool: Vec<String> = vec![
        // `%` on floats is `metal::fmod`
        "p1 = p1 % g1;".into(),
        format!("g1 = g1 % {};", lit(rng)),
        "p1 = p1 + g1;".into(),
        "g1 = g1 + p1;".into(),
        format!("g1 += {};", lit(rng)),
        format!("p1 += {};", lit(rng)),
        "g2 = g1 - p1;".into(),
        "if (p1 > g1)\n    {\n        g1 = p1;\n    }\n    else\n    {\n        p1 = g1;\n    }".into(),
        "bump();".into(),
        "g1 = p1;".into(),
        "p1 = g2;".into(),
    ];
    if second.is_some() {
        pool.push("g1 = g1 * p2;".into());
        pool.push("p1 = p1 - p2;".into());
        if second != Some("in") {
            pool.push("p2 = p2 + p1;".into());
            pool.push("p2 = g1;".into());
        }
    }
    let n = 2 + rng.below(4);
    for k in 0..n {
        out.push_str(&format!("    {}\n", rng.pick(&pool)));
        if void_ret && k == 0 && rng.chance(1, 3) {
            // `return;` (the parameters written so far are copied out all the same)
            out.push_str("    if (p1 > g2)\n    {\n        return;\n    }\n");
        }
    }
    if !void_ret {
        out.push_str(&format!("    return {};\n", rng.pick(&["g1 + p1", "p1", "g1", "g2 - p1"])));
    }
    out.push_str("}\n\n");
    // an intermediate function: forwards its own parameter and touches the static around the call
    let wrap = rng.chance(1, 2);
    if wrap {
        let inner_args = match second {
            None => "a".to_string(),
            Some("in") => format!("a, {}", rng.pick(&["g1", "a", "g2"])),
            Some(_) => format!("a, {}", rng.pick(&["g2", "a", "g1"])),
        };
        out.push_str(&format!(
            "void k(inout {} a)\n{{\n    a = a + {};\n    {}h({});\n    g1 = g1 + a;\n}}\n\n",
            t,
            lit(rng),
            if rng.chance(1, 2) { "bump();\n    " } else { "" },
            inner_args
        ));
    }
    // the caller
    out.push_str(&format!("{} f({} a)\n{{\n    {} x = a;\n    {} y = {};\n", t, t, t, t, lit(rng)));
    let ncalls = 1 + rng.below(2);
    for c in 0..ncalls {
        let first = *rng.pick(&["g1", "x", "g1", "g2", "y"]);
        let call = if wrap && rng.chance(1, 3) {
            format!("k({})", first)
        } else {
            match second {
                None => format!("h({})", first),
                Some("in") => {
                    let other = match rng.below(8) {
                        0 => first.to_string(),
                        1 => format!("{} + {}", first, lit(rng)),
                        2 => format!("{} * 2", first),
                        3 => "g1".to_string(),
                        4 => "x".to_string(),
                        // the ordering hazard (copy-in before / after the later argument)
                        5 => format!("({}++)", first),
                        6 => format!("({} = {})", first, lit(rng)),
                        _ => "g1 - g2".to_string(),
                    };
                    format!("h({}, {})", first, other)
                }
                Some(_) => {
                    let other = match rng.below(4) {
                        0 | 1 => first,
                        2 => "g1",
                        _ => "x",
                    };
                    format!("h({}, {})", first, other)
                }
            }
        };
        if call.starts_with("h(") && !void_ret && rng.chance(2, 3) {
            out.push_str(&format!("    {} r{} = {};\n    y = y + r{};\n", t, c, call, c));
        } else {
            out.push_str(&format!("    {};\n", call));
        }
    }
    out.push_str(&format!("    return {};\n}}\n", rng.pick(&["g1", "x + g1", "y + g2", "g1 - x", "x"])));
    out
}

pub fn dump(path: &str) {
    let src = std::fs::read_to_string(path).unwrap_or_default();
    match compile_src(&src, Tgt::Msl, Mode::NoPipeline) {
        CompileOutcome::Ok(ps) => println!("TEXT\n{}", ps[0].text()),
        other => println!("{:?}", other),
    }
    let mut hist = Hist::default();
    match prepare(&src, &mut hist) {
        Ok(p) => {
            for f in &p.prog {
                println!("IR  {}", f.show());
            }
            println!("CTX vars={};globs={};funcs={}", p.vars, p.globs, p.funcs_ctx);
            match guard(|| rssl_msl::verif_generate_ast(&p.ir)) {
                Ok(Ok(m)) => {
                    for i in m_module(&m) {
                        println!("AST {}", i.show());
                    }
                }
                other => println!("{:?}", other.map(|r| r.map(|_| ()))),
            }
        }
        Err(e) => println!("{}", e),
    }
}

import RsslVerif.Lemmas.Roundtrip
/-! Round trip, main induction. -/
set_option linter.unusedSimpArgs false
set_option linter.unusedVariables false
namespace RsslVerif.Lemmas.Roundtrip
open RsslVerif.Gen.FmtTables RsslVerif.Gen.ParseTables RsslVerif.Model.Format RsslVerif.Model.Parse
open RsslVerif.Lemmas.FmtParseTables

/-- parser level of the production that builds the node (a negative literal is printed as a sign and a literal: what
reads that text is the prefix production) -/
def _root_.RsslVerif.Model.Format.Expr.lvl : Expr → Nat
  | .lit l => if litNegative l then 2 else 0
  | .id _ => 0
  | .un op _ => if isPostfix op then 1 else 2
  | .bin op _ _ => binLevel op
  | .tern _ _ _ => 13
  | .sub _ _ => 1
  | .mem _ _ => 1
  | .call _ _ => 1

/-- the printed form without the outer parenthesis decision -/
def fmtBody (e : Expr) : List Piece := fmtSub e topPrec topSide

theorem wrap_false (b : List Piece) : wrap false b = b := rfl
theorem toks_wrap_true (b : List Piece) : toks (wrap true b) = .p .LeftParen :: (toks b ++ [.p .RightParen]) := by
  simp [wrap, lp, rp, pp]

theorem needParen_top_un (op : UnOp) : needParen (unPrec op) topPrec topSide = false := by cases op <;> decide
theorem needParen_top_bin (op : BinOp) : needParen (binPrec op) topPrec topSide = false := by cases op <;> decide

theorem fmtSub_eq (e : Expr) (outer : Nat) (side : Side) :
    fmtSub e outer side = wrap (needParen e.prec outer side) (fmtBody e) := by
  cases e with
  | lit l => simp only [fmtBody, fmtSub, Expr.prec, needParen_top_lit, wrap_false]
  | un op x => simp only [fmtBody, fmtSub, Expr.prec, needParen_top_un, wrap_false]
  | bin op l r => simp only [fmtBody, fmtSub, Expr.prec, needParen_top_bin, wrap_false]
  | _ => simp only [fmtBody, fmtSub, Expr.prec]; rfl

theorem binLevel_le (op : BinOp) : binLevel op ≤ 15 := by cases op <;> decide
theorem binLevel_ge (op : BinOp) : 3 ≤ binLevel op := by cases op <;> decide

theorem lvl_le (e : Expr) : e.lvl ≤ 15 := by
  cases e <;> simp [Expr.lvl]
  · split <;> omega
  · split <;> omega
  · exact binLevel_le _

/-- levels whose continuation is not a loop: a finished node of the level is final -/
def NonLoop (k : Nat) : Prop := k = 0 ∨ k = 2 ∨ k = 13 ∨ k = 14

instance (k : Nat) : Decidable (NonLoop k) := by unfold NonLoop; infer_instance

/-- what the caller knows about the result of reading a node of level `lv` at level `k` in front of `rest` -/
def Fin (e : Expr) (lv k : Nat) (term : Terminator) (rest : List Tok) (out : Expr × List Tok) : Prop :=
  if k = lv ∧ NonLoop k then out = (e, rest) ∧ ((k = 13 ∨ k = 14) → Inert k term rest)
  else Conts k term e rest out

/-- a comma expression needs the `Standard` terminator to be read back -/
def TermFits (e : Expr) (term : Terminator) : Prop := e.lvl = 15 → term = .Standard

/-- the round-trip invariant of one node, printed without outer parentheses -/
def RT (e : Expr) : Prop :=
  ∀ k term rest out, term ≠ .TypeList → e.lvl ≤ k → k ≤ 15 → TermFits e term → NoLow k term rest →
    Fin e e.lvl k term rest out → Parses k term (toks (fmtBody e) ++ rest) out

/-- finishing from a complete parse at a non-loop level -/
theorem finish_nonloop {e lv ts rest k term out} (hp : Parses lv term ts (e, rest)) (hnl : NonLoop lv)
    (hle : lv ≤ k) (hnp : lv < 2 → NoPrefix ts) (hno : NoLow k term rest) (hfin : Fin e lv k term rest out) :
    Parses k term ts out := by
  by_cases hk : k = lv
  · subst hk
    simp only [Fin, hnl, and_self, if_true] at hfin
    rw [hfin.1]; exact hp
  · have hc : Conts k term e rest out := by simpa [Fin, hk] using hfin
    obtain ⟨d, rfl⟩ : ∃ d, k = lv + d + 1 := ⟨k - lv - 1, by omega⟩
    exact raise hp hnp d out (fun i h1 h2 => hno i (by omega) h2) hc

/-- finishing from the own-level statement of a loop level -/
theorem finish_loop {e lv ts rest k term out} (hown : ∀ out', Conts lv term e rest out' → Parses lv term ts out')
    (hl : ¬ NonLoop lv) (hle : lv ≤ k) (hnp : lv < 2 → NoPrefix ts) (hno : NoLow k term rest)
    (hfin : Fin e lv k term rest out) : Parses k term ts out := by
  have hc : Conts k term e rest out := by
    by_cases hk : k = lv
    · subst hk; simpa [Fin, hl] using hfin
    · simpa [Fin, hk] using hfin
  have hlv1 : 1 ≤ lv := by
    rcases Nat.eq_zero_or_pos lv with h | h
    · exact absurd (Or.inl h) hl
    · exact h
  by_cases hk : k = lv
  · subst hk; exact hown out hc
  · have hp := hown (e, rest) (hno lv hlv1 (by omega) e)
    obtain ⟨d, rfl⟩ : ∃ d, k = lv + d + 1 := ⟨k - lv - 1, by omega⟩
    exact raise hp hnp d out (fun i h1 h2 => hno i (by omega) h2) hc

/-- a parenthesised expression is a leaf -/
theorem parses_paren {e : Expr} (hrt : RT e) (term : Terminator) (rest : List Tok) :
    Parses 0 term (.p .LeftParen :: (toks (fmtBody e) ++ .p .RightParen :: rest)) (e, rest) := by
  have hin : Parses 15 .Standard (toks (fmtBody e) ++ .p .RightParen :: rest) (e, .p .RightParen :: rest) := by
    apply hrt 15 .Standard _ _ (by decide) (lvl_le e) (Nat.le_refl _)
      (fun _ => rfl) (noLow_closes 15 _ _ _ (Or.inl rfl))
    have hI : Inert 15 .Standard (.p .RightParen :: rest) := inert_closes 15 _ _ _ (Or.inl rfl)
    unfold Fin
    split
    · rename_i h; exact absurd h.2 (by decide)
    · exact hI e
  obtain ⟨N, h⟩ := hin
  refine ⟨N + 1, fun f hf => ?_⟩
  obtain ⟨f', rfl, hf'⟩ := succ_of_pos hf
  unfold parseLvl
  simp [parenTerminator, h f' hf']

/-- the invariant for a sub-expression printed under `(outer, side)` -/
theorem rts {e : Expr} (hrt : RT e) (outer : Nat) (side : Side) (k : Nat) (term : Terminator) (rest : List Tok)
    (out : Expr × List Tok) (hterm : term ≠ .TypeList) (hk : k ≤ 15)
    (hpos : needParen e.prec outer side = false → e.lvl ≤ k ∧ TermFits e term)
    (hno : NoLow k term rest)
    (hfin : Fin e (if needParen e.prec outer side then 0 else e.lvl) k term rest out) :
    Parses k term (toks (fmtSub e outer side) ++ rest) out := by
  rw [fmtSub_eq]
  cases hp : needParen e.prec outer side with
  | true =>
    rw [hp] at hfin
    simp only [if_true] at hfin
    rw [toks_wrap_true]
    have := parses_paren hrt term rest
    simp only [List.cons_append, List.append_assoc, List.nil_append] at this ⊢
    exact finish_nonloop this (Or.inl rfl) (Nat.zero_le _) (fun _ => by simp [NoPrefix, prefixOp]) hno hfin
  | false =>
    rw [hp] at hfin
    simp only [wrap_false]
    obtain ⟨h1, h2⟩ := hpos hp
    exact hrt k term rest out hterm h1 hk h2 hno (by simpa using hfin)

/-- `Fin` when the caller wants the node itself back and knows the level is inert in front of `rest` -/
theorem fin_self (e : Expr) (lv k : Nat) (term : Terminator) (rest : List Tok) (hle : lv ≤ k)
    (hin : k ≠ 0 → Inert k term rest) : Fin e lv k term rest (e, rest) := by
  unfold Fin
  split
  · rename_i h
    refine ⟨rfl, fun h13 => hin (by omega)⟩
  · rename_i h
    by_cases hk0 : k = 0
    · subst hk0
      have : lv = 0 := by omega
      subst this
      exact absurd ⟨rfl, Or.inl rfl⟩ h
    · exact hin hk0 e

end RsslVerif.Lemmas.Roundtrip

import RsslVerif.Gen.MslDupSites
/-!
# C02 — the one place where the Metal exporter writes an operand more than once

`msl/src/generator.rs`, `generate_expression`, arm `Cast` to a struct type: `(S)value` is emitted as `S { v, v, … }`,
the generated operand copied once per scalar element of `S` (`get_member_count`), if the side-effect test accepts the
operand or the struct has exactly one element; otherwise the export fails with `UnsupportedCast`.

This file is the executable model of that decision, driven by the table `Gen.MslDupSites.structCastGuard` that the
translator re-extracts from the source (constructor ↦ the fields the test recurses into).  Core Lean only.
-/
namespace RsslVerif.Model.MslDup
open RsslVerif.Gen.MslDupSites

mutual
/-- an `ir::Expression` as the side-effect test sees it: the constructor's name and its fields in declaration order -/
inductive DExpr where
  | node (ctor : String) (fields : DFields)
  deriving Repr
/-- fields of a constructor: a payload that is not an expression (ids, types, swizzle slots, operators, call types —
abstracted to a number), a `Box<Expression>`, or a `Vec<Expression>` / `Vec<ConstructorSlot>` -/
inductive DFields where
  | nil
  | payload (tag : Nat) (rest : DFields)
  | one (e : DExpr) (rest : DFields)
  | many (es : DExprs) (rest : DFields)
  deriving Repr
inductive DExprs where
  | nil
  | cons (e : DExpr) (r : DExprs)
  deriving Repr
end

def DFields.length : DFields → Nat
  | .nil => 0
  | .payload _ r => r.length + 1
  | .one _ r => r.length + 1
  | .many _ r => r.length + 1

/-- the payload numbers of a constructor's fields, in order -/
def DFields.payloads : DFields → List Nat
  | .nil => []
  | .payload t r => t :: r.payloads
  | .one _ r => r.payloads
  | .many _ r => r.payloads

def findRow (rows : List GuardRow) (c : String) : Option GuardRow := rows.find? (fun r => r.ctor == c)

mutual
/-- the side-effect test as the table describes it: the arm of the constructor accepts iff the test accepts every field
it recurses into; fields it does not recurse into are NOT looked at (what the code does); no arm = the `_ => false` arm.
(A `Vec` field cannot be handed to a test on one expression: such a row does not type-check in Rust; the model refuses.) -/
def testExpr (rows : List GuardRow) : DExpr → Bool
  | .node c fs =>
    match findRow rows c with
    | none => false
    | some r => r.arity == fs.length && testFields rows r.recursed 0 fs
def testFields (rows : List GuardRow) (recursed : List Nat) (i : Nat) : DFields → Bool
  | .nil => true
  | .payload _ rest => testFields rows recursed (i + 1) rest
  | .one e rest => (if recursed.contains i then testExpr rows e else true) && testFields rows recursed (i + 1) rest
  | .many _ rest => (!recursed.contains i) && testFields rows recursed (i + 1) rest
end

/-- types as `get_member_count` sees them -/
inductive CTy where
  | leaf                                  -- scalar, vector, matrix, enum, object: one element
  | arr (elem : CTy) (len : Option Nat)   -- `Array(inner, Some(len))` / `Array(_, None)`
  | struct (members : List CTy)
  deriving Repr, Inhabited

mutual
/-- `get_member_count`: arrays multiply, structs add up, everything else is one; an unbounded array panics -/
def memberCount : CTy → Except String Nat
  | .leaf => .ok 1
  | .arr e (some n) => match memberCount e with
    | .ok k => .ok (k * n)
    | .error m => .error m
  | .arr _ none => .error "Can not cast to unbounded array"
  | .struct ms => memberCountList ms
def memberCountList : List CTy → Except String Nat
  | [] => .ok 0
  | m :: r => match memberCount m with
    | .ok k => match memberCountList r with
      | .ok s => .ok (k + s)
      | .error e => .error e
    | .error e => .error e
end

inductive CastOutcome where
  | repeated (n : Nat)          -- `BracedInit(type, [inner; n])`
  | unsupportedCast             -- `Err(GenerateError::UnsupportedCast)`
  | panic (msg : String)
  deriving Repr, DecidableEq, Inhabited

/-- the aggregate branch of the struct half of the Cast arm (operand of another type than the struct itself) -/
def structCast (rows : List GuardRow) (oneElementAnything : Bool) (ty : CTy) (operand : DExpr) : CastOutcome :=
  match memberCount ty with
  | .error m => .panic m
  | .ok n => if testExpr rows operand || (oneElementAnything && n == 1) then .repeated n else .unsupportedCast

/-- with the tables of the current source -/
def structCastNow (ty : CTy) (operand : DExpr) : CastOutcome :=
  structCast structCastGuard structCastAcceptsAnythingForOneElement ty operand

end RsslVerif.Model.MslDup

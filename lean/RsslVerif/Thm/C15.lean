import RsslVerif.Model.Names
import RsslVerif.Spec.Names
import RsslVerif.Gen.Reserved
import RsslVerif.Lemmas.Names
import RsslVerif.Lemmas.NamesTables
import RsslVerif.Lemmas.NamesOrder
import RsslVerif.Lemmas.NamesRename
import RsslVerif.Model.NamesEmit
import RsslVerif.Lemmas.NamesEmit
import RsslVerif.Spec.NamesResolve
import RsslVerif.Lemmas.NamesEmitWitness
/-!
# C15 — renaming is harmless and emitted names are hygienic: theorems about the model of `NameMap::build`

All statements are about `Model.Names.build reserved inp` for **every** input (any number of namespaces,
entries, locals, any reserved list), unless a hypothesis says otherwise.
-/
namespace RsslVerif.Thm.C15
open RsslVerif.Model.Names RsslVerif.Lemmas.Names RsslVerif.Lemmas.NamesTables RsslVerif.Lemmas.NamesOrder
open RsslVerif.Lemmas.NamesRename (renameInput renameNamed scopeSyms_rename nsFrom_rename Renaming build_rename prefix_renaming)

/-! ## the tables and the source facts the model rests on (re-extracted from /repo on every run) -/

/-- The lines of `NameMap::build` the model transcribes are still there, the candidate format is `{}_{}`,
symbols are pushed in the order namespace, struct, enum, global, function, and the two exporters pass
`intrinsics_are_reserved = true / false`. -/
theorem source_fingerprints :
    Gen.Reserved.candFormat = "{}_{}" ∧
    Gen.Reserved.pushOrder = ["Namespace", "Struct", "Enum", "EnumValue", "GlobalVariable", "Function"] ∧
    Gen.Reserved.fact_claimLoop = true ∧ Gen.Reserved.fact_keepCondition = true ∧
    Gen.Reserved.fact_scopeLoopInsert = true ∧
    Gen.Reserved.fact_scopeUsedStartsReserved = true ∧ Gen.Reserved.fact_allScopesStartsReserved = true ∧
    Gen.Reserved.fact_sortedByName = true ∧ Gen.Reserved.fact_usageOfAllFunctions = true ∧
    Gen.Reserved.fact_usageKinds = true ∧ Gen.Reserved.fact_usageReserves = true ∧
    Gen.Reserved.fact_localTest = true ∧
    Gen.Reserved.fact_localLoop = true ∧ Gen.Reserved.fact_localKeeps = true ∧
    Gen.Reserved.fact_counterStartsAtZero = true ∧
    Gen.Reserved.hlslIntrinsicsReserved = true ∧ Gen.Reserved.mslIntrinsicsReserved = false :=
  Lemmas.NamesTables.source_fingerprints

/-- **reserved_complete** (full): every entry of the independent keyword / built-in lists of HLSL and MSL is
in the `RESERVED_NAMES` table of the corresponding exporter.  (False before /repo 05e2470: the HLSL table had
the entry `"SamplerState,"` and 90 HLSL / 43 MSL names were missing.) -/
theorem reserved_complete :
    (∀ n ∈ Spec.Names.hlslKeywords, n ∈ Gen.Reserved.hlsl) ∧
    (∀ n ∈ Spec.Names.mslKeywords, n ∈ Gen.Reserved.msl) :=
  Lemmas.NamesTables.reserved_complete

/-! ## the former negation witnesses (now examples of the repaired behaviour, see `Lemmas/NamesTables.lean`) -/

/-- overloads `a`, `a` + function `a_0`: the user's `a_0` is kept, the overloads become `a_1`, `a_2`
(before /repo 0dfd8dd: `a_0, a_1, a_0_0`, which refuted unconditional verbatim) -/
example :
    (build Gen.Reserved.hlsl witnessVerbatim).toOption.map (·.map (·.name)) = some ["a_1", "a_2", "a_0"] ∧
    (build Gen.Reserved.msl witnessVerbatim).toOption.map (·.map (·.name)) = some ["a_1", "a_2", "a_0"] :=
  Lemmas.NamesTables.verbatim_witness_fixed

/-- function `kernel_0` called by a body + parameter `kernel` on MSL: the parameter becomes `kernel_1`
(before /repo 6bac604 it became `kernel_0` and captured the call) -/
example :
    (build Gen.Reserved.msl witnessCapture).toOption.map (·.map (fun n => (n.sym.kind, n.name))) =
      some [(.func, "f"), (.func, "kernel_0"), (.localVar, "kernel_1")] :=
  Lemmas.NamesTables.capture_witness_fixed

/-! ## structure of a successful `build` -/

/-- the keys of the sorted vector of a scope are pairwise different (they are the keys of a map) -/
theorem groupsOfKeys_keys_pairwise (keys : List String) (syms : List (String × Sym)) :
    ((groupsOfKeys keys syms).map (·.1)).Pairwise (· ≠ ·) := by
  unfold groupsOfKeys
  rw [List.map_map]
  have : ((fun x : String × List Sym => x.1) ∘ fun n => (n, (syms.filter (fun p => p.1 == n)).map (·.2))) = id := by
    funext n; rfl
  rw [this, List.map_id]
  exact (sortedNames_pairwise keys).imp (fun h => String.ne_of_lt h)

theorem groupsOf_keys_pairwise (syms : List (String × Sym)) :
    ((groupsOf syms).map (·.1)).Pairwise (· ≠ ·) :=
  groupsOfKeys_keys_pairwise _ _

theorem runScopes_spec {reserved : List String} {inp : Input} :
    ∀ (ss : List (Option Nat)) {out : List (Option Nat × St)}, runScopes reserved inp ss = .ok out →
      out.map (·.1) = ss ∧ ∀ p ∈ out, ScopeOk reserved p.2 := by
  intro ss
  induction ss with
  | nil => intro out h; simp [runScopes] at h; subst h; simp
  | cons s r ih =>
    intro out h
    unfold runScopes at h
    split at h
    · cases h
    · rename_i st hst
      split at h
      · cases h
      · rename_i rest hrest
        cases h
        obtain ⟨h1, h2⟩ := ih hrest
        refine ⟨by simp [h1], ?_⟩
        intro p hp
        rcases List.mem_cons.mp hp with hp | hp
        · subst hp; exact scopeRun_ok (groupsOf_keys_pairwise _) hst
        · exact h2 p hp

/-- what `build` returns when it succeeds -/
theorem build_ok {reserved : List String} {inp : Input} {names : List Named}
    (h : build reserved inp = .ok names) :
    ∃ scopes ls,
      runScopes reserved inp (scopeIds inp) = .ok scopes ∧
      assignLocals inp.locals (reserved ++ scopes.flatMap (fun p => p.2.gen) ++
          usedNames inp (scopes.flatMap fun p => p.2.out.map fun q => (⟨q.1, p.1, q.2⟩ : Named))) inp.locals = .ok ls ∧
      names = (scopes.flatMap fun p => p.2.out.map fun q => (⟨q.1, p.1, q.2⟩ : Named)) ++ numberLocals ls 0 := by
  unfold build at h
  split at h
  · cases h
  · split at h
    · cases h
    · rename_i scopes hs
      unfold finish at h
      simp only at h
      split at h
      · cases h
      · split at h
        · cases h
        · rename_i ls hl
          cases h
          exact ⟨scopes, ls, hs, hl, rfl⟩

theorem number_kind : ∀ (ls : List String) (i : Nat) (n : Named), n ∈ numberLocals ls i → n.sym.kind = .localVar ∧ n.name ∈ ls := by
  intro ls
  induction ls with
  | nil => intro i n h; simp [numberLocals] at h
  | cons x r ih =>
    intro i n h
    simp only [numberLocals, List.mem_cons] at h
    rcases h with h | h
    · subst h; simp
    · have := ih (i + 1) n h
      exact ⟨this.1, List.mem_cons_of_mem _ this.2⟩

/-! ## hygiene -/

/-- **never_reserved** (full, for the model): no namespace, struct, enum, global, function or local variable
is ever given a name from the reserved list, whatever the program and whatever the list. -/
theorem never_reserved {reserved : List String} {inp : Input} {names : List Named}
    (h : build reserved inp = .ok names) : ∀ n ∈ names, n.name ∉ reserved := by
  obtain ⟨scopes, ls, hs, hl, rfl⟩ := build_ok h
  obtain ⟨_, hinv⟩ := runScopes_spec _ hs
  intro n hn
  rcases List.mem_append.mp hn with hn | hn
  · obtain ⟨p, hp, hn⟩ := List.mem_flatMap.mp hn
    obtain ⟨q, hq, rfl⟩ := List.mem_map.mp hn
    exact (hinv p hp).out_fresh q hq
  · have hk := number_kind ls 0 n hn
    intro hr
    exact assignLocals_not_mem _ hl n.name hk.2 (List.mem_append_left _ (List.mem_append_left _ hr))

theorem pairwise_ne_of_mem {α : Type} {R : α → α → Prop} (hsymm : ∀ a b, R a b → R b a) :
    ∀ {l : List α}, l.Pairwise R → ∀ x ∈ l, ∀ y ∈ l, x ≠ y → R x y := by
  intro l
  induction l with
  | nil => intro _ x hx; simp at hx
  | cons a r ih =>
    intro hp x hx y hy hne
    rw [List.pairwise_cons] at hp
    rcases List.mem_cons.mp hx with ex | hx' <;> rcases List.mem_cons.mp hy with ey | hy'
    · exact absurd (ex.trans ey.symm) hne
    · rw [ex]; exact hp.1 y hy'
    · rw [ey]; exact hsymm _ _ (hp.1 x hx')
    · exact ih hp.2 x hx' y hy' hne

theorem scopeIds_pairwise (inp : Input) : (scopeIds inp).Pairwise (· ≠ ·) := by
  unfold scopeIds
  rw [List.pairwise_cons]
  refine ⟨by simp, ?_⟩
  rw [List.pairwise_map]
  have := List.pairwise_lt_range (n := inp.nss.length)
  exact this.imp (fun h e => by simp at e; omega)

/-- **injective_per_scope** (full, for the namespace-level scopes the function manages): two different
namespaces / structs / enums / globals / functions that live in the same scope never receive the same name. -/
theorem injective_per_scope {reserved : List String} {inp : Input} {names : List Named}
    (h : build reserved inp = .ok names) :
    ∀ a ∈ names, ∀ b ∈ names, a.sym.kind ≠ .localVar → b.sym.kind ≠ .localVar →
      a.scope = b.scope → a.sym ≠ b.sym → a.name ≠ b.name := by
  obtain ⟨scopes, ls, hs, hl, rfl⟩ := build_ok h
  obtain ⟨hfst, hinv⟩ := runScopes_spec _ hs
  intro a ha b hb hka hkb hscope hsym
  have glob : ∀ x, x ∈ (scopes.flatMap fun p => p.2.out.map fun q => (⟨q.1, p.1, q.2⟩ : Named)) ++ numberLocals ls 0 →
      x.sym.kind ≠ .localVar → ∃ p ∈ scopes, ∃ q ∈ p.2.out, x = ⟨q.1, p.1, q.2⟩ := by
    intro x hx hk
    rcases List.mem_append.mp hx with hx | hx
    · obtain ⟨p, hp, hx⟩ := List.mem_flatMap.mp hx
      obtain ⟨q, hq, rfl⟩ := List.mem_map.mp hx
      exact ⟨p, hp, q, hq, rfl⟩
    · exact absurd (number_kind ls 0 x hx).1 hk
  obtain ⟨p, hp, qa, hqa, rfl⟩ := glob a ha hka
  obtain ⟨p', hp', qb, hqb, rfl⟩ := glob b hb hkb
  have hpw : (scopes.map (·.1)).Pairwise (· ≠ ·) := hfst ▸ scopeIds_pairwise inp
  have hpp : p = p' := eq_of_fst_eq hpw p hp p' hp' hscope
  subst hpp
  have hne : qa ≠ qb := fun e => hsym (by rw [e])
  exact pairwise_ne_of_mem (R := fun (a b : Sym × String) => a.2 ≠ b.2) (fun _ _ h e => h e.symm)
    (hinv p hp).out_distinct qa hqa qb hqb hne

/-! ## verbatim and renaming -/

theorem runScopes_mem {reserved : List String} {inp : Input} :
    ∀ (ss : List (Option Nat)) {out : List (Option Nat × St)}, runScopes reserved inp ss = .ok out →
      ∀ s ∈ ss, ∃ st, (s, st) ∈ out ∧
        scopeRun reserved (groupsOf (scopeSyms inp s)) = .ok st := by
  intro ss
  induction ss with
  | nil => intro out _ s hs; simp at hs
  | cons a r ih =>
    intro out h s hs
    unfold runScopes at h
    split at h
    · cases h
    · rename_i st hst
      split at h
      · cases h
      · rename_i rest hrest
        cases h
        rcases List.mem_cons.mp hs with e | hs'
        · subst e; exact ⟨st, List.mem_cons_self .., hst⟩
        · obtain ⟨st', h1, h2⟩ := ih hrest s hs'
          exact ⟨st', List.mem_cons_of_mem _ h1, h2⟩

/-- **verbatim** (full, for the symbols `build` names per scope): a namespace / struct / enum / enum value /
global / function whose source name `n` is the only symbol of that name in its scope (`symbols.len() == 1`) and
is not reserved is given exactly `n` — without any side condition about generated names (the names that can be
kept are claimed before any name is generated, /repo 0dfd8dd).  Local variables are not covered: a local keeps
its name unless it is reserved, equal to a generated name, or equal to the name of a used function / global
(`locals_apart_from_used` is why). -/
theorem verbatim {reserved : List String} {inp : Input} {names : List Named}
    (h : build reserved inp = .ok names) {s : Option Nat} (hs : s ∈ scopeIds inp) {n : String} {sym : Sym}
    (hmem : (n, sym) ∈ scopeSyms inp s)
    (huniq : ((scopeSyms inp s).filter (fun p => p.1 == n)).map (·.2) = [sym])
    (hres : n ∉ reserved) :
    (⟨sym, s, n⟩ : Named) ∈ names := by
  obtain ⟨scopes, ls, hsc, hl, rfl⟩ := build_ok h
  obtain ⟨st, hst, hgs⟩ := runScopes_mem _ hsc s hs
  have hkeep : (sym, n) ∈ st.out :=
    scopeRun_keep hgs (mem_groupsOf.mpr ⟨⟨(n, sym), hmem, rfl⟩, huniq.symm⟩) hres
  apply List.mem_append_left
  exact List.mem_flatMap.mpr ⟨(s, st), hst, List.mem_map.mpr ⟨(sym, n), hkeep, rfl⟩⟩

/-- **renaming_equivariant_partial**: for an injective renaming `σ` of the identifiers, an entity that is alone
in its group and whose name is reserved neither before nor after the renaming is printed as `n` in the original
program and as `σ n` in the renamed one — the renamed output is the renaming of the output on that entity.
*Partial*: entities whose name is reserved or overloaded receive `name_k` forms; for those, and for local
variables, equivariance is only tested (the harness compares the real outputs of a program and of its skeleton
token by token), not proved. -/
theorem renaming_equivariant_partial (σ : String → String) (hinj : ∀ a b, σ a = σ b → a = b)
    {reserved : List String} {inp : Input} {names names' : List Named}
    (h : build reserved inp = .ok names) (h' : build reserved (renameInput σ inp) = .ok names')
    {s : Option Nat} (hs : s ∈ scopeIds inp) {n : String} {sym : Sym}
    (hmem : (n, sym) ∈ scopeSyms inp s)
    (huniq : ((scopeSyms inp s).filter (fun p => p.1 == n)).map (·.2) = [sym])
    (hres : n ∉ reserved) (hres' : σ n ∉ reserved) :
    (⟨sym, s, n⟩ : Named) ∈ names ∧ (⟨sym, s, σ n⟩ : Named) ∈ names' := by
  refine ⟨verbatim h hs hmem huniq hres, ?_⟩
  have hs' : s ∈ scopeIds (renameInput σ inp) := by
    simpa [scopeIds, renameInput] using hs
  apply verbatim h' hs'
  · rw [scopeSyms_rename]
    exact List.mem_map.mpr ⟨(n, sym), hmem, rfl⟩
  · rw [scopeSyms_rename, List.filter_map, List.map_map]
    have hf : ((fun p : String × Sym => p.1 == σ n) ∘ fun p : String × Sym => (σ p.1, p.2)) =
        (fun p : String × Sym => p.1 == n) := by
      funext p
      simp only [Function.comp]
      by_cases hp : p.1 = n
      · simp [hp]
      · have : σ p.1 ≠ σ n := fun e => hp (hinj _ _ e)
        rw [beq_eq_false_iff_ne.mpr hp, beq_eq_false_iff_ne.mpr this]
    rw [hf]
    simpa [Function.comp] using huniq
  · exact hres'

/-- **renaming_equivariant** (conditional, exact): let `σ` rename the identifiers such that
(1) `σ` is injective, (2) `σ x` is reserved iff `x` is, (3) `σ` commutes with the candidate format,
`σ (n_k) = (σ n)_k` — generated names follow their base name —, and (4) `σ` is an order embedding for `String::cmp`,
`σ a < σ b ↔ a < b`: exactly the order `NameMap::build` sorts the `(name, symbols)` vector of a scope by.  Then the name
map of the renamed module is the renamed name map: same success / same panic, and every symbol `s` that was given `x`
is given `σ x` — namespaces, structs, enums, enum values, globals, functions **and locals**, reserved and overloaded
names included.  (4) is what the *proof* uses to identify the sorted key vector of the renamed scope with the image of the
original one; on the real compiler an order-reversing renaming that satisfies (1)–(3) still gives the renamed assignment
(candidates of different groups never coincide; experiment in notes/C15.md, corpus).  (3) cannot be dropped:
`renaming_not_suffix_stable_witness`. -/
theorem renaming_equivariant {reserved : List String} {σ : String → String} (hσ : Renaming reserved σ) (inp : Input) :
    build reserved (renameInput σ inp) = (build reserved inp).map (List.map (renameNamed σ)) :=
  build_rename hσ inp

/-- non-vacuity: putting a prefix in front of every identifier satisfies (1)–(4) (for the empty reserved list); the
overloads `a`, `a` next to `a_0` become `pa_1`, `pa_2`, `pa_0` -/
example :
    Renaming [] (fun n => "p" ++ n) ∧
    (build [] (renameInput (fun n => "p" ++ n) witnessVerbatim)).toOption.map (·.map (·.name)) =
      some ["pa_1", "pa_2", "pa_0"] :=
  ⟨prefix_renaming "p", by decide⟩

/-- **renaming_not_suffix_stable_witness** (negation witness for the reading "generated names follow their base name"):
the overloads `a`, `a` next to a function `a_0` are printed `a_1`, `a_2`; rename `a ↦ c`, `a_0 ↦ zz` (injective, nothing
reserved, order kept) and the overloads are printed `c_0`, `c_1` — not `c_1`, `c_2`.  The output is equal up to *a*
renaming (which the harness checks entity by entity against the skeleton), not up to the given one extended to the
generated names. -/
theorem renaming_not_suffix_stable_witness :
    (build Gen.Reserved.hlsl witnessVerbatim).toOption.map (·.map (·.name)) = some ["a_1", "a_2", "a_0"] ∧
    (build Gen.Reserved.hlsl (renameInput (fun n => if n == "a" then "c" else if n == "a_0" then "zz" else n)
        witnessVerbatim)).toOption.map (·.map (·.name)) = some ["c_0", "c_1", "zz"] := by
  decide +kernel

theorem nsFrom_kind (scope : Option Nat) : ∀ (l : List (Option Nat × String)) (i : Nat) (q : String × Sym),
    q ∈ scopeSyms.nsFrom scope l i → q.2.kind = .ns := by
  intro l
  induction l with
  | nil => intro i q h; simp [scopeSyms.nsFrom] at h
  | cons a r ih =>
    intro i q h
    obtain ⟨p, n⟩ := a
    simp only [scopeSyms.nsFrom] at h
    split at h
    · rcases List.mem_cons.mp h with e | h'
      · subst e; rfl
      · exact ih _ q h'
    · exact ih _ q h

/-- **locals_apart_from_used**: no local variable is printed with the name given to a function or global
variable that some function body uses (`Input.used`, the usage analysis) — the defect "a local captures the use
of a global" (/repo 6bac604) cannot recur in the model.  (`hwf`: the module's entries are not local variables.) -/
theorem locals_apart_from_used {reserved : List String} {inp : Input} {names : List Named}
    (h : build reserved inp = .ok names) (hwf : ∀ e, e ∈ inp.entries → e.sym.kind ≠ .localVar) :
    ∀ l ∈ names, ∀ g ∈ names, l.sym.kind = .localVar → (g.sym.kind = .func ∨ g.sym.kind = .global) →
      g.sym ∈ inp.used → l.name ≠ g.name := by
  obtain ⟨scopes, ls, hs, hl, rfl⟩ := build_ok h
  intro l hl' g hg hkl hkg hused e
  have hgk : g.sym.kind ≠ .localVar := by rcases hkg with h1 | h1 <;> simp [h1]
  have hg' : g ∈ scopes.flatMap fun p => p.2.out.map fun q => (⟨q.1, p.1, q.2⟩ : Named) := by
    rcases List.mem_append.mp hg with h1 | h1
    · exact h1
    · exact absurd (number_kind ls 0 g h1).1 hgk
  have hgn : g.name ∈ usedNames inp (scopes.flatMap fun p => p.2.out.map fun q => (⟨q.1, p.1, q.2⟩ : Named)) := by
    unfold usedNames
    refine List.mem_filterMap.mpr ⟨g, hg', ?_⟩
    rcases hkg with h1 | h1 <;> simp [h1, hused]
  -- `l` comes from the local pass: a global-level result never has kind `localVar`
  have hll : l ∈ numberLocals ls 0 := by
    rcases List.mem_append.mp hl' with h1 | h1
    · exfalso
      obtain ⟨p, hp, hx⟩ := List.mem_flatMap.mp h1
      obtain ⟨q, hq, rfl⟩ := List.mem_map.mp hx
      have hp1 : p.1 ∈ scopeIds inp := by
        have := (runScopes_spec _ hs).1
        rw [← this]; exact List.mem_map.mpr ⟨p, hp, rfl⟩
      obtain ⟨st, hst, hrun⟩ := runScopes_mem _ hs p.1 hp1
      have hpw : (scopes.map (·.1)).Pairwise (· ≠ ·) := (runScopes_spec _ hs).1 ▸ scopeIds_pairwise inp
      have hpe : p = (p.1, st) := eq_of_fst_eq hpw p hp (p.1, st) hst rfl
      have hq' : q ∈ st.out := by rw [hpe] at hq; exact hq
      obtain ⟨r, hr, er⟩ := scopeRun_out_syms hrun q hq'
      unfold scopeSyms at hr
      rcases List.mem_append.mp hr with h2 | h2
      · have := nsFrom_kind _ _ _ _ h2
        rw [er] at this
        simp only at hkl
        rw [this] at hkl; cases hkl
      · obtain ⟨en, hen, rfl⟩ := List.mem_map.mp h2
        have := hwf en (List.mem_filter.mp hen).1
        simp only at er hkl
        rw [← er] at hkl
        exact this hkl
    · exact h1
  have := assignLocals_not_mem _ hl l.name (number_kind ls 0 l hll).2
  exact this (e ▸ List.mem_append_right _ hgn)

/-- non-vacuity of `verbatim` / `renaming_equivariant_partial`: a namespace `N` holding a struct, an
overloaded function and a global; the struct and the global satisfy the hypotheses and keep their names -/
example :
    let inp : Input := { nss := [(none, "N")], locals := ["p"], used := [],
                         entries := [⟨⟨.struct, 0⟩, some 0, "S"⟩, ⟨⟨.global, 0⟩, some 0, "g"⟩,
                                     ⟨⟨.func, 0⟩, some 0, "f"⟩, ⟨⟨.func, 1⟩, some 0, "f"⟩] }
    (build Gen.Reserved.msl inp).toOption.map (·.map (·.name)) = some ["N", "S", "f_0", "f_1", "g", "p"] ∧
    ((scopeSyms inp (some 0)).filter (fun p => p.1 == "g")).map (·.2) = [⟨.global, 0⟩] := by
  decide +kernel

/-! ## order independence (cited by C07) -/

/-- **build_scope_order_independent**: `NameMap::build` iterates two hash maps — `for scope in &scopes` and,
inside a scope, `Vec::from_iter(scope.1.iter())` before the sort.  `buildWith reserved inp order keys` is the
model with both iteration orders as parameters (`build` is the instance `order = scopeIds inp`, keys in push
order: `build_eq_buildWith`).  For **every** permutation `order` of the scope list and every listing `keys s`
of the names of scope `s` (any permutation), the function succeeds exactly when `build` does and returns the
same assignment (the same `(symbol, scope, name)` triples; only the order in which they are listed follows the
iteration).  Reasons: every scope starts from the reserved set, the key vector is sorted (`sortedNames_congr`:
a strictly sorted list is determined by its members), `used_names_all_scopes` is only read after the loop and
only through membership (`assignLocals_perm`). -/
theorem build_scope_order_independent {reserved : List String} {inp : Input}
    {order : List (Option Nat)} (horder : order.Perm (scopeIds inp))
    {keys : Option Nat → List String} (hkeys : ∀ s, (keys s).Perm ((scopeSyms inp s).map (·.1))) :
    (∀ names, build reserved inp = .ok names →
      ∃ names', buildWith reserved inp order keys = .ok names' ∧ names'.Perm names) ∧
    (∀ names', buildWith reserved inp order keys = .ok names' →
      ∃ names, build reserved inp = .ok names ∧ names.Perm names') := by
  have hk : ∀ s x, x ∈ keys s ↔ x ∈ (scopeSyms inp s).map (·.1) := fun s x => (hkeys s).mem_iff
  have hd : ∀ s x, x ∈ (fun s => (scopeSyms inp s).map (·.1)) s ↔ x ∈ (scopeSyms inp s).map (·.1) :=
    fun _ _ => Iff.rfl
  constructor
  · intro names h
    rw [build_eq_buildWith] at h
    exact buildWith_perm horder.symm hd hk h
  · intro names' h
    rw [build_eq_buildWith]
    exact buildWith_perm horder hk hd h

/-- non-vacuity: two namespaces that both overload `a`, scopes visited in reverse order and keys listed in
reverse: same assignment (`N::a_0, N::a_1, M::a_0, M::a_1`), listed in the other order -/
example :
    let inp : Input := { nss := [(none, "N"), (none, "M")], locals := [], used := [],
                         entries := [⟨⟨.func, 0⟩, some 0, "a"⟩, ⟨⟨.func, 1⟩, some 0, "a"⟩, ⟨⟨.global, 0⟩, some 0, "b"⟩,
                                     ⟨⟨.func, 2⟩, some 1, "a"⟩, ⟨⟨.func, 3⟩, some 1, "a"⟩] }
    (build [] inp).toOption.map (·.map (fun n => (n.sym.id, n.scope, n.name))) =
      some [(1, none, "M"), (0, none, "N"), (0, some 0, "a_0"), (1, some 0, "a_1"), (0, some 0, "b"),
            (2, some 1, "a_0"), (3, some 1, "a_1")] ∧
    (buildWith [] inp [some 1, some 0, none] (fun s => ((scopeSyms inp s).map (·.1)).reverse)).toOption.map
        (·.map (fun n => (n.sym.id, n.scope, n.name))) =
      some [(2, some 1, "a_0"), (3, some 1, "a_1"), (0, some 0, "a_0"), (1, some 0, "a_1"), (0, some 0, "b"),
            (1, none, "M"), (0, none, "N")] := by
  decide

/-- **the candidate loop of a scope terminates**: with the fuel the model uses the answer is never `"fuel"`,
i.e. the Rust `loop` finds a free `name_k` after at most `used_names.len()` collisions (pigeonhole on the
pairwise different candidates `name_0, name_1, …`). -/
theorem scope_loop_terminates (used : List String) (n : String) :
    ∃ c, firstFree used n (used.length + 1) 0 = .ok c ∧ c ∉ used ∧ ∃ k, c = cand n k := by
  obtain ⟨c, hc⟩ := firstFree_total used n
  obtain ⟨j, _, hj, _⟩ := firstFree_is_cand _ _ hc
  exact ⟨c, hc, firstFree_not_mem _ _ hc, j, hj⟩

/-! ## the emitted program: how the exporters consume the map (`Model/NamesEmit.lean`) -/

section Emitted
open RsslVerif.Model.NamesEmit RsslVerif.Lemmas.NamesEmit

theorem nodup_map_inj {α β : Type} {f : α → β} : ∀ {l : List α}, (l.map f).Nodup →
    ∀ {a b : α}, a ∈ l → b ∈ l → f a = f b → a = b := by
  intro l
  induction l with
  | nil => intro _ a b ha; simp at ha
  | cons x r ih =>
    intro hn a b ha hb e
    rw [List.map_cons, List.nodup_cons] at hn
    rcases List.mem_cons.mp ha with ha1 | ha1
    · rcases List.mem_cons.mp hb with hb1 | hb1
      · rw [ha1, hb1]
      · subst ha1; exact absurd (show f a ∈ r.map f from List.mem_map.mpr ⟨b, hb1, e.symm⟩) hn.1
    · rcases List.mem_cons.mp hb with hb1 | hb1
      · subst hb1; exact absurd (show f b ∈ r.map f from List.mem_map.mpr ⟨a, ha1, e⟩) hn.1
      · exact ih hn.2 ha1 hb1 e

theorem lookup_mem {names : List Named} {s : Sym} {x : Named} (h : lookup names s = some x) :
    x ∈ names ∧ x.sym = s := by
  unfold lookup at h
  have h2 := List.find?_some h
  exact ⟨List.mem_of_find?_eq_some h, by simpa using h2⟩

/-- a struct / enum / enum value / global / function named by `build` is an entry of the registries, in the scope the
name is given in -/
theorem named_entry {reserved : List String} {inp : Input} {names : List Named}
    (h : build reserved inp = .ok names) {x : Named} (hx : x ∈ names)
    (hk : x.sym.kind ≠ .localVar) (hk2 : x.sym.kind ≠ .ns) :
    ∃ e ∈ inp.entries, e.sym = x.sym ∧ e.scope = x.scope := by
  obtain ⟨scopes, ls, hs, hl, rfl⟩ := build_ok h
  rcases List.mem_append.mp hx with h1 | h1
  · obtain ⟨p, hp, hx'⟩ := List.mem_flatMap.mp h1
    obtain ⟨q, hq, rfl⟩ := List.mem_map.mp hx'
    have hp1 : p.1 ∈ scopeIds inp := by
      have := (runScopes_spec _ hs).1
      rw [← this]; exact List.mem_map.mpr ⟨p, hp, rfl⟩
    obtain ⟨st, hst, hrun⟩ := runScopes_mem _ hs p.1 hp1
    have hpw : (scopes.map (·.1)).Pairwise (· ≠ ·) := (runScopes_spec _ hs).1 ▸ scopeIds_pairwise inp
    have hpe : p = (p.1, st) := eq_of_fst_eq hpw p hp (p.1, st) hst rfl
    have hq' : q ∈ st.out := by rw [hpe] at hq; exact hq
    obtain ⟨r, hr, er⟩ := scopeRun_out_syms hrun q hq'
    unfold scopeSyms at hr
    rcases List.mem_append.mp hr with h2 | h2
    · have := nsFrom_kind _ _ _ _ h2
      rw [er] at this
      exact absurd this hk2
    · obtain ⟨en, hen, rfl⟩ := List.mem_map.mp h2
      have hf := List.mem_filter.mp hen
      refine ⟨en, hf.1, er, ?_⟩
      simpa using hf.2
  · exact absurd (number_kind ls 0 x h1).1 hk

/-- **emitted_never_reserved** (lift of `never_reserved` to the emitted program, full for the modelled declaration
kinds): every declaration the model of the exporters emits for an entity of the name map — struct, enum, enum value,
global (file scope, threaded Metal parameter, wrapper local, argument-buffer / inline-descriptor member), function,
method, parameter, local — is printed under a name that is not in the reserved list, on all four target
configurations.  (Namespace blocks are printed with a component of `get_name_qualified`; struct members, cbuffer
blocks and cbuffer members do not go through the map: `member_reserved_witness`, `cbuffer_reserved_witness`.) -/
theorem emitted_never_reserved {t : Target} {reserved : List String} {p : Program} {names : List Named}
    (h : build reserved (namesInput t p) = .ok names) {sc : Scope} {k n : String} {s : Sym}
    (htok : Tok.decl sc k n (.sym s) ∈ emit t names p) (hk : k ≠ "N") (hs : (lookup names s).isSome) :
    n ∉ reserved := by
  have hok := emit_decl_ok t names p _ htok
  simp only [DeclOk] at hok
  rcases hok with hok | hok
  · exact absurd hok hk
  · obtain ⟨x, hx⟩ := Option.isSome_iff_exists.mp hs
    have : n = x.name := by rw [hok]; simp [leaf, hx]
    rw [this]
    exact never_reserved h x (lookup_mem hx).1

/-- **introduced_names_reserved_as_modelled** (obligation on the regenerated tables): every fixed identifier the Metal /
HLSL generator introduces by itself into a scope that holds user-named entities — the implicit parameters
`thread_index_in_simdgroup` / `threads_per_simdgroup` / `o_mesh` / `o_payload` / `mesh_grid_properties`, the stage locals
`in` / `out`, the wrapper, stage-struct and argument-buffer names, the helper namespace — and every identifier constant of
`names.rs` is in the target's `RESERVED_NAMES`; the implicit-parameter table is part of the introduced names.
Not covered (and false): the numbered `format!` identifiers `set<i>`, `InlineDescriptor<n>`, `g_inlineDescriptor<n>`
(`Gen.Reserved.*IntroducedPatterns`), see `generated_name_clash_witness`; `generator/intrinsic_helpers.rs` declares only
inside `namespace helper`, in scopes that hold no user entity. -/
theorem introduced_names_reserved_as_modelled :
    (∀ n ∈ Gen.Reserved.mslIntroduced, n ∈ Gen.Reserved.msl) ∧
    (∀ n ∈ Gen.Reserved.mslFixed, n ∈ Gen.Reserved.msl) ∧
    (∀ n ∈ Gen.Reserved.hlslIntroduced, n ∈ Gen.Reserved.hlsl) ∧
    (∀ q ∈ Gen.Reserved.mslImplicitParams, q.2 ∈ Gen.Reserved.mslIntroduced) :=
  Lemmas.NamesTables.introduced_names_reserved_as_modelled

/-- **implicit_params_as_modelled**: the names, the triggering intrinsics and the order of the implicit wave parameters of
`Model.NamesEmit` are those of msl/src/generator.rs (+ pipeline.rs) today. -/
theorem implicit_params_as_modelled :
    Gen.Reserved.mslImplicitParams.lookup "ThreadIndexInSimdgroup" = some (waveName 0) ∧
    Gen.Reserved.mslImplicitParams.lookup "ThreadsPerSimdgroup" = some (waveName 1) ∧
    Gen.Reserved.mslImplicitIntrinsics =
      [("WaveGetLaneCount", "ThreadsPerSimdgroup", waveName (waveCode true)),
       ("WaveGetLaneIndex", "ThreadIndexInSimdgroup", waveName (waveCode false))] ∧
    Gen.Reserved.mslImplicitOrder.take 2 = ["ThreadIndexInSimdgroup", "ThreadsPerSimdgroup"] ∧
    Gen.Reserved.mslImplicitOrder.getLast? = some "Global" ∧
    Gen.Reserved.fact_implicitSorted = true :=
  Lemmas.NamesTables.implicit_params_as_modelled

/-- **implicit_params_apart_from_managed** (full, any program, any target, any reserved list that contains the two
implicit parameter names): no declaration of a map-managed entity anywhere in the emitted program — in particular no
parameter, local, threaded global or wrapper local of a function scope that also declares an implicit wave parameter — is
spelled like an implicit wave parameter.  The reason is the reservation (`hres`); without it the statement is false
(`implicit_param_clash_without_reservation_witness`). -/
theorem implicit_params_apart_from_managed {t : Target} {reserved : List String} {p : Program} {names : List Named}
    (hres : ∀ w, waveName w ∈ reserved)
    (h : build reserved (namesInput t p) = .ok names) {sc : Scope} {k n : String} {s : Sym}
    (htok : Tok.decl sc k n (.sym s) ∈ emit t names p) (hk : k ≠ "N") (hs : (lookup names s).isSome) (w : Nat) :
    n ≠ waveName w := by
  intro heq
  exact emitted_never_reserved h htok hk hs (heq ▸ hres w)

/-- the same for Metal with the regenerated `RESERVED_NAMES` (the hypothesis is discharged on the table) -/
theorem implicit_params_apart_from_managed_msl {p : Program} {names : List Named}
    (h : build Gen.Reserved.msl (namesInput .msl p) = .ok names) {sc : Scope} {k n : String} {s : Sym}
    (htok : Tok.decl sc k n (.sym s) ∈ emit .msl names p) (hk : k ≠ "N") (hs : (lookup names s).isSome) (w : Nat) :
    n ≠ waveName w :=
  implicit_params_apart_from_managed Lemmas.NamesTables.wave_names_reserved h htok hk hs w

/-- every declaration of a generated (`.gen`) entity the wave machinery emits is spelled `waveName w`: the declarations
`waveParams` produces are exactly the implicit parameters -/
theorem waveParams_decls (t : Target) (sc : Scope) (p : Program) (f : Nat) :
    ∀ tok ∈ waveParams t sc p f, ∃ w, tok = .decl sc "P" (waveName w) (.gen (waveName w)) := by
  intro tok htok
  unfold waveParams at htok
  split at htok
  · obtain ⟨w, _, rfl⟩ := List.mem_map.mp htok
    exact ⟨w, rfl⟩
  · simp at htok

/-- non-vacuity: on Metal, with the regenerated table, the helper of `pWave` declares the renamed user parameter next to
both implicit parameters, the entry point and the wrapper declare them as well (and HLSL declares none) -/
example :
    (Lemmas.NamesEmitWitness.toks .msl Lemmas.NamesEmitWitness.pWave).map (fun l => (l.map render).take 5) =
      some ["F:zqf", "(", "P:threads_per_simdgroup_0", "P:thread_index_in_simdgroup", "P:threads_per_simdgroup"] := by
  have := Lemmas.NamesEmitWitness.wave_params_emitted.1
  simp only [Option.map_eq_some_iff] at this ⊢
  obtain ⟨l, hl, hr⟩ := this
  exact ⟨l, hl, by rw [hr]; rfl⟩

/-- **the reservation is necessary** (seeded mutant C15-6 on the model): with `threads_per_simdgroup` removed from the
Metal table, `int zqf(int threads_per_simdgroup) { WaveGetLaneIndex(); WaveGetLaneCount(); threads_per_simdgroup; }`
declares two parameters `threads_per_simdgroup` in one function scope -/
theorem implicit_param_clash_without_reservation_witness :
    let l := Lemmas.NamesEmitWitness.toksWith (Gen.Reserved.msl.erase "threads_per_simdgroup") .msl Lemmas.NamesEmitWitness.pWave
    (l.map fun l => l.contains (.decl (.func 0) "P" "threads_per_simdgroup" (.sym ⟨.localVar, 0⟩))) = some true ∧
    (l.map fun l => l.contains (.decl (.func 0) "P" "threads_per_simdgroup" (.gen "threads_per_simdgroup"))) = some true :=
  Lemmas.NamesEmitWitness.wave_clash_without_reservation

/-- **emitted_injective_file_scope** (lift of `injective_per_scope`): two file-scope declarations of the emitted program
that sit in the same namespace block and declare different structs / enums / globals / functions carry different
names.  `hnodup`: every symbol has one registry entry (ordinals are unique). -/
theorem emitted_injective_file_scope {t : Target} {reserved : List String} {p : Program} {names : List Named}
    (h : build reserved (namesInput t p) = .ok names)
    (hnodup : ((namesInput t p).entries.map (·.sym)).Nodup)
    {ns : Option Nat} {ka na kb nb : String} {sa sb : Sym}
    (ha : Tok.decl (.file ns) ka na (.sym sa) ∈ emit t names p)
    (hb : Tok.decl (.file ns) kb nb (.sym sb) ∈ emit t names p)
    (hka : ka ≠ "N") (hkb : kb ≠ "N")
    (hsa : (lookup names sa).isSome) (hsb : (lookup names sb).isSome)
    (hla : sa.kind ≠ .localVar ∧ sa.kind ≠ .ns) (hlb : sb.kind ≠ .localVar ∧ sb.kind ≠ .ns)
    (hne : sa ≠ sb) : na ≠ nb := by
  obtain ⟨xa, hxa⟩ := Option.isSome_iff_exists.mp hsa
  obtain ⟨xb, hxb⟩ := Option.isSome_iff_exists.mp hsb
  obtain ⟨hma, hea⟩ := lookup_mem hxa
  obtain ⟨hmb, heb⟩ := lookup_mem hxb
  have scope_of : ∀ {k n : String} {s : Sym} {x : Named}, Tok.decl (.file ns) k n (.sym s) ∈ emit t names p →
      k ≠ "N" → x ∈ names → x.sym = s → s.kind ≠ .localVar ∧ s.kind ≠ .ns → x.scope = ns := by
    intro k n s x htok hk hm he hl
    have hf := emit_file_ok t names p _ htok
    simp only [FileOk] at hf
    rcases hf with hf | ⟨e, hem, hes, hesc⟩
    · exact absurd hf hk
    · obtain ⟨e', hem', hes', hesc'⟩ := named_entry h hm (he ▸ hl.1) (he ▸ hl.2)
      have : e = e' := by
        exact nodup_map_inj hnodup hem hem' (by rw [hes, hes', he])
      rw [← hesc', ← this, hesc]
  have hsca := scope_of ha hka hma hea hla
  have hscb := scope_of hb hkb hmb heb hlb
  have hna : na = xa.name := by
    rcases (emit_decl_ok t names p _ ha) with h1 | h1
    · exact absurd h1 hka
    · rw [h1]; simp [leaf, hxa]
  have hnb : nb = xb.name := by
    rcases (emit_decl_ok t names p _ hb) with h1 | h1
    · exact absurd h1 hkb
    · rw [h1]; simp [leaf, hxb]
  rw [hna, hnb]
  exact injective_per_scope h xa hma xb hmb (hea ▸ hla.1) (heb ▸ hlb.1) (hsca.trans hscb.symm)
    (by rw [hea, heb]; exact hne)

/-! ### uses resolve to the entity meant (programs without namespaces) -/

theorem numberLocals_scope : ∀ (ls : List String) (i : Nat) (n : Named), n ∈ numberLocals ls i → n.scope = none := by
  intro ls
  induction ls with
  | nil => intro i n h; simp [numberLocals] at h
  | cons x r ih =>
    intro i n h
    simp only [numberLocals, List.mem_cons] at h
    rcases h with h | h
    · subst h; rfl
    · exact ih _ n h

/-- without namespaces every name is given in the root scope -/
theorem flat_scope_none {reserved : List String} {inp : Input} {names : List Named}
    (h : build reserved inp = .ok names) (hnss : inp.nss = []) : ∀ x ∈ names, x.scope = none := by
  obtain ⟨scopes, ls, hs, hl, rfl⟩ := build_ok h
  intro x hx
  rcases List.mem_append.mp hx with h1 | h1
  · obtain ⟨p, hp, hx'⟩ := List.mem_flatMap.mp h1
    obtain ⟨q, hq, rfl⟩ := List.mem_map.mp hx'
    have hp1 : p.1 ∈ scopeIds inp := by
      have := (runScopes_spec _ hs).1
      rw [← this]; exact List.mem_map.mpr ⟨p, hp, rfl⟩
    simpa [scopeIds, hnss] using hp1
  · exact numberLocals_scope ls 0 x h1

theorem namesInput_entries_kind (t : Target) (p : Program) :
    ∀ e, e ∈ (namesInput t p).entries → e.sym.kind ≠ .localVar := by
  intro e he
  simp only [namesInput, List.mem_append] at he
  rcases he with ((((he | he) | he) | he) | he) | he
  · obtain ⟨d, _, hd⟩ := List.mem_filterMap.mp he
    cases hk : d.kind <;> simp [hk] at hd
    subst hd; simp
  · split at he
    · obtain ⟨c, _, rfl⟩ := List.mem_map.mp he; simp
    · simp at he
  · obtain ⟨d, _, hd⟩ := List.mem_flatMap.mp he
    cases hk : d.kind <;> simp [hk] at hd
    rcases hd with hd | ⟨v, w, _, rfl⟩
    · subst hd; simp
    · simp
  · obtain ⟨d, _, hd⟩ := List.mem_filterMap.mp he
    cases hk : d.kind <;> simp [hk] at hd
    · subst hd; simp
    · subst hd; simp
  · split at he
    · obtain ⟨c, _, rfl⟩ := List.mem_map.mp he; simp
    · simp at he
  · obtain ⟨d, _, hd⟩ := List.mem_flatMap.mp he
    cases hk : d.kind <;> simp [hk] at hd
    · obtain ⟨f, w, _, rfl⟩ := hd; simp
    · subst hd; simp

/-- **flat_used_name_unique**: in a program without namespaces, on every target configuration, a declaration
*anywhere* in the emitted program that carries the name printed for a function or global variable `g` some function
body uses, and that declares an entity of the name map (struct, enum, enum value, global in any of its generated
positions, function, method, parameter, local), declares `g` itself.  Ingredients: `locals_apart_from_used` (locals and
parameters), `injective_per_scope` (everything else: without namespaces all of it is named in one scope). -/
theorem flat_used_name_unique {t : Target} {reserved : List String} {p : Program} {names : List Named}
    (h : build reserved (namesInput t p) = .ok names)
    (hflat : ∀ d ∈ p.defs, d.ns = none) (hnss : p.nss = [])
    {g : Sym} {xg : Named} (hg : g.kind = .global ∨ g.kind = .func) (hused : g ∈ usedSyms t p)
    (hgn : lookup names g = some xg)
    {sc : Scope} {k : String} {s : Sym} (htok : Tok.decl sc k xg.name (.sym s) ∈ emit t names p)
    (hs : (lookup names s).isSome) : s = g := by
  obtain ⟨xs, hxs⟩ := Option.isSome_iff_exists.mp hs
  obtain ⟨hms, hes⟩ := lookup_mem hxs
  obtain ⟨hmg, heg⟩ := lookup_mem hgn
  have hstrict := emit_flat_strict t names p hflat _ htok
  simp only [DeclStrict] at hstrict
  have hname : xg.name = xs.name := by rw [hstrict]; simp [leaf, hxs]
  have hgk : xg.sym.kind = .func ∨ xg.sym.kind = .global := by
    rw [heg]; exact hg.symm
  by_cases hl : xs.sym.kind = .localVar
  · exact absurd hname.symm
      (locals_apart_from_used h (namesInput_entries_kind t p) xs hms xg hmg hl hgk (by rw [heg]; exact hused))
  · have hgl : xg.sym.kind ≠ .localVar := by rcases hgk with h1 | h1 <;> simp [h1]
    have hsc : xs.scope = xg.scope := by
      rw [flat_scope_none h (by simp [namesInput, hnss]) xs hms, flat_scope_none h (by simp [namesInput, hnss]) xg hmg]
    by_cases hsym : xs.sym = xg.sym
    · rw [← hes, hsym, heg]
    · exact absurd hname.symm (injective_per_scope h xs hms xg hmg hl hgl hsc hsym)

/-- a function or global named by a `use` in a function body is in the usage analysis of the model -/
theorem body_use_used {t : Target} {p : Program} {d : Def} (hd : d ∈ p.defs)
    {o : Nat} {n : String} {ps : List Nat} {body : List BTok} {en : Option Char}
    (hk : d.kind = .func o n ps body en) {k : Nat} (hb : BTok.use (.glob k) ∈ body) :
    (⟨.global, k⟩ : Sym) ∈ usedSyms t p := by
  unfold usedSyms
  refine List.mem_flatMap.mpr ⟨(o, body), ?_, ?_⟩
  · exact List.mem_filterMap.mpr ⟨d, hd, by simp [hk]⟩
  · refine List.mem_filterMap.mpr ⟨.glob k, ?_, rfl⟩
    exact List.mem_filterMap.mpr ⟨_, hb, rfl⟩

/-- **uses_resolve_to_same_entity** (full for programs without namespaces and the uses of functions and global
variables; all four target configurations): let `x` be the identifier printed for a function / global `g` that some body
uses.  Whatever function `f` the identifier is written in, every entity of the name map that C++ lookup
(`Spec.NamesResolve.resolveFlat`: the function's parameters and locals first — on Metal these include the threaded
globals —, then the file scope) finds for `x` is `g`.  What the statement does not cover is refuted on the current
code: declarations that bypass the map can still take the name (`cbuffer_reserved_witness`,
`generated_name_clash_witness`), with namespaces the relative path can be captured (`relative_path_capture_witness`,
`msl_threaded_leaf_clash_witness`), and a *type* name is not protected from locals (`local_captures_type_witness`). -/
theorem uses_resolve_to_same_entity {t : Target} {reserved : List String} {p : Program} {names : List Named}
    (h : build reserved (namesInput t p) = .ok names)
    (hflat : ∀ d ∈ p.defs, d.ns = none) (hnss : p.nss = [])
    {g : Sym} {xg : Named} (hg : g.kind = .global ∨ g.kind = .func) (hused : g ∈ usedSyms t p)
    (hgn : lookup names g = some xg) (f : Nat) :
    ∀ e ∈ Spec.NamesResolve.resolveFlat (emit t names p) f xg.name, ∀ s, e = .sym s → (lookup names s).isSome → s = g := by
  intro e he s hes hs
  obtain ⟨sc, k, htok⟩ := Spec.NamesResolve.mem_resolveFlat he
  subst hes
  exact flat_used_name_unique h hflat hnss hg hused hgn htok hs

/-- non-vacuity of `uses_resolve_to_same_entity` / `flat_used_name_unique` / the two lifts: a program with a struct, a
static global, a `ConstantBuffer<S>` called `texture`, a buffer address called `sampler`, a helper function and a
compute entry point.  On HLSL for Vulkan with buffer addresses `texture`, `sampler` are renamed; inside `h` the
identifier printed for the global `texture` resolves to that global, on Metal (where it is a threaded parameter of `h`)
as well. -/
example :
    let p := Lemmas.NamesEmitWitness.pGood
    (p.nss = [] ∧ ∀ d ∈ p.defs, d.ns = none) ∧
    (⟨.global, 1⟩ : Sym) ∈ usedSyms .vkba p ∧
    (Lemmas.NamesEmitWitness.namesOf .vkba p).map (fun l => l.filter (fun n => n.1 == .global)) =
      some [(.global, 0, "g"), (.global, 2, "sampler_0"), (.global, 1, "texture_0")] ∧
    (Lemmas.NamesEmitWitness.toks .vkba p).map (fun l => Spec.NamesResolve.resolveFlat l 0 "texture_0") =
      some [.sym ⟨.global, 1⟩] ∧
    (Lemmas.NamesEmitWitness.toks .msl p).map (fun l => Spec.NamesResolve.resolveFlat l 0 "texture") =
      some [.sym ⟨.global, 1⟩] ∧
    ((namesInput .vkba p).entries.map (·.sym)).Nodup := by
  decide +kernel

/-! ### the clauses that are false on the current code: witnesses (evaluated on the model with the regenerated tables;
each program is a corpus request compared with the real compiler, `checks/c15.py` WITNESSES) -/

open Lemmas.NamesEmitWitness in
/-- **never reserved is false for struct members** (Metal: `struct zqs { int kernel; }`) -/
theorem member_reserved_witness :
    has .msl pMember (.decl (.strct 0) "M" "kernel" (.member 0 0)) = true ∧ "kernel" ∈ Spec.Names.mslKeywords :=
  member_reserved

open Lemmas.NamesEmitWitness in
/-- **never reserved is false for cbuffer blocks and their members** (HLSL: `cbuffer abs { float4 int; }`) -/
theorem cbuffer_reserved_witness :
    has .dx pCbuffer (.decl (.file none) "C" "abs" (.cbuf 0)) = true ∧ "abs" ∈ Spec.Names.hlslKeywords ∧
    has .dx pCbuffer (.decl (.file none) "D" "int" (.cbufMember 0 0)) = true ∧ "int" ∈ Spec.Names.hlslKeywords :=
  cbuffer_reserved

open Lemmas.NamesEmitWitness in
/-- **uses resolve is false for cbuffer members of a namespace** (HLSL): declared inside `zqn`, used outside by leaf name -/
theorem cbuffer_member_dangling_witness :
    has .dx pCbufferNs (.use (.func 0) false ["zqm"] (.cbufMember 0 0)) = true ∧
    has .dx pCbufferNs (.decl (.file (some 0)) "D" "zqm" (.cbufMember 0 0)) = true ∧
    (toks .dx pCbufferNs).map (fun l => l.any fun tok => match tok with
      | .decl sc _ n _ => n == "zqm" && (sc == .file none || sc == .func 0)
      | _ => false) = some false :=
  cbuffer_member_dangling

open Lemmas.NamesEmitWitness in
/-- **distinct entities share a name**: a user global called `g_inlineDescriptor0` next to the generated one (Vulkan
with buffer addresses) -/
theorem generated_name_clash_witness :
    has .vkba pGenerated (.decl (.file none) "G" "g_inlineDescriptor0" (.gen "g_inlineDescriptor0")) = true ∧
    has .vkba pGenerated (.decl (.file none) "G" "g_inlineDescriptor0" (.sym ⟨.global, 0⟩)) = true :=
  generated_name_clash

open Lemmas.NamesEmitWitness in
/-- **uses resolve is false for type names**: a parameter called `S` in a function that names the struct `S` -/
theorem local_captures_type_witness :
    has .dx pLocalType (.decl (.func 0) "P" "S" (.sym ⟨.localVar, 0⟩)) = true ∧
    has .dx pLocalType (.use (.func 0) true ["S"] (.sym ⟨.struct, 0⟩)) = true ∧
    has .msl pLocalType (.decl (.func 0) "P" "S" (.sym ⟨.localVar, 0⟩)) = true ∧
    has .msl pLocalType (.use (.func 0) true ["S"] (.sym ⟨.struct, 0⟩)) = true :=
  local_captures_type

open Lemmas.NamesEmitWitness in
/-- **uses resolve is false in the Metal entry wrapper**: the entry point's parameter `S` captures the call of the
entry point `S` -/
theorem wrapper_param_captures_entry_witness :
    has .msl pWrapper (.decl .wrapper "P" "S" (.sym ⟨.localVar, 0⟩)) = true ∧
    has .msl pWrapper (.use .wrapper false ["S"] (.sym ⟨.func, 0⟩)) = true :=
  wrapper_param_captures_entry

open Lemmas.NamesEmitWitness in
/-- **distinct entities share a name** (Metal): `N::x` and `M::x` are both threaded as parameter `x` -/
theorem msl_threaded_leaf_clash_witness :
    has .msl pThreaded (.decl (.func 0) "P" "x" (.sym ⟨.global, 0⟩)) = true ∧
    has .msl pThreaded (.decl (.func 0) "P" "x" (.sym ⟨.global, 1⟩)) = true :=
  msl_threaded_leaf_clash

open Lemmas.NamesEmitWitness in
/-- **distinct entities share a name** (Vulkan with buffer addresses): `zqn::x` and `x` are both member `x` of
`InlineDescriptor0` -/
theorem inline_member_leaf_clash_witness :
    has .vkba pInline (.decl (.genStruct "InlineDescriptor0") "M" "x" (.sym ⟨.global, 0⟩)) = true ∧
    has .vkba pInline (.decl (.genStruct "InlineDescriptor0") "M" "x" (.sym ⟨.global, 1⟩)) = true :=
  inline_member_leaf_clash

open Lemmas.NamesEmitWitness in
/-- **uses resolve is false with namespaces**: inside `S` the relative path `N` printed for the global `::N` names the
function `S::N` -/
theorem relative_path_capture_witness :
    has .dx pRelative (.use (.func 0) false ["N"] (.sym ⟨.global, 0⟩)) = true ∧
    has .dx pRelative (.decl (.file (some 0)) "F" "N" (.sym ⟨.func, 0⟩)) = true ∧
    has .dx pRelative (.decl (.file none) "G" "N" (.sym ⟨.global, 0⟩)) = true :=
  relative_path_capture

open Lemmas.NamesEmitWitness in
/-- **verbatim is false for methods**: `S::f` and `T::f`, each unique in its struct, are printed `f_0` and `f_1` -/
theorem methods_not_verbatim_witness :
    has .dx pMethods (.decl (.strct 0) "m" "f_0" (.sym ⟨.func, 0⟩)) = true ∧
    has .dx pMethods (.decl (.strct 1) "m" "f_1" (.sym ⟨.func, 1⟩)) = true :=
  methods_not_verbatim

open Lemmas.NamesEmitWitness in
/-- **distinct entities share a name**: the method `log2`, renamed `log2_0` in the root scope, meets the member `log2_0` -/
theorem member_method_clash_witness :
    has .dx pMemberMethod (.decl (.strct 0) "M" "log2_0" (.member 0 0)) = true ∧
    has .dx pMemberMethod (.decl (.strct 0) "m" "log2_0" (.sym ⟨.func, 0⟩)) = true :=
  member_method_clash

end Emitted

end RsslVerif.Thm.C15

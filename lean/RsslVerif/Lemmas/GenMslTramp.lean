import RsslVerif.Lemmas.GenMslFunc
/-! Metal exporter, the out/inout trampoline: executing `generate_function_out_trampoline_body` in a frame whose
reference parameters are bound to arbitrary caller variables (possibly aliasing each other and the statics) is
copy-in, the call of the target on the trampoline's own locals, copy-out in parameter order. -/
namespace RsslVerif.Lemmas.GenMsl
open RsslVerif.Gen.HlslGenTables RsslVerif.Gen.MslGenTables RsslVerif.Model RsslVerif.Model.GenMsl RsslVerif.Spec.Sem
open RsslVerif.Model.Ir (Ty Var Const Dir)
open RsslVerif.Model.GenHlsl (GenErr)
set_option linter.unusedSimpArgs false

abbrev Params := List (Nat × Dir × Ty)
abbrev CArgs := List (Val × Option Var)

def slotsOf (ps : Params) : List Var := ps.map fun p => Var.loc p.1

/-! ## stores: by-value binding, copy-in, copy-out -/

/-- what `bindArgs` stores for the by-value parameters -/
def bindIn : Params → CArgs → Store → Store
  | (pid, _, _) :: ps, (v, none) :: l, σ => bindIn ps l (σ.set (.loc pid) v)
  | _ :: ps, _ :: l, σ => bindIn ps l σ
  | _, _, σ => σ

/-- what the declarations of the trampoline store: `T __p = p;` for inout, `T __p;` for out -/
def copyIn : Params → CArgs → Store → Store
  | (pid, d, _) :: ps, (_, some x) :: l, σ => copyIn ps l (if d = .inout then σ.set (.loc pid) (σ x) else σ)
  | _ :: ps, _ :: l, σ => copyIn ps l σ
  | _, _, σ => σ

/-- what the copies back store: `p = __p;` in parameter order -/
def copyOut : Params → CArgs → Store → Store
  | (pid, _, _) :: ps, (_, some x) :: l, σ => copyOut ps l (σ.set x (σ (.loc pid)))
  | _ :: ps, _ :: l, σ => copyOut ps l σ
  | _, _, σ => σ

/-- the values the typed function is entered with: the argument value for `in`, the current value of the argument
variable for `inout`, whatever the parameter slot holds for `out` (the declaration `T __p;` has no initialiser) -/
def valsIn : Params → CArgs → Store → List Val
  | (pid, d, _) :: ps, (v, o) :: l, σ =>
    (match o with
      | none => v
      | some x => if d = .inout then σ x else σ (.loc pid)) :: valsIn ps l σ
  | _, _, _ => []

/-- the argument variables are outside the parameter slots (and the scratch slot `xo`), kinds and types fit -/
def ArgsOK (vty : Var → Ty) (slots : List Var) (xo : Var) : Params → CArgs → Prop
  | (pid, d, T) :: ps, (_, o) :: l =>
    vty (.loc pid) = T ∧
    (match o with
      | none => d = .in_
      | some x => d ≠ .in_ ∧ vty x = T ∧ x ∉ slots ∧ x ≠ xo) ∧
    ArgsOK vty slots xo ps l
  | [], [] => True
  | _, _ => False

theorem set_comm (σ : Store) (x y : Var) (v w : Val) (h : x ≠ y) : (σ.set x v).set y w = (σ.set y w).set x v := by
  funext z; simp only [Store.set]; by_cases h1 : z = y <;> by_cases h2 : z = x <;> simp_all

theorem not_mem_slots_cons {pid : Nat} {d : Dir} {T : Ty} {ps : Params} {y : Var}
    (h : y ∉ slotsOf ((pid, d, T) :: ps)) : y ≠ .loc pid ∧ y ∉ slotsOf ps := by
  simp only [slotsOf, List.map_cons, List.mem_cons, not_or] at h
  exact ⟨h.1, by simpa [slotsOf] using h.2⟩

theorem bindIn_set {vty : Var → Ty} {slots : List Var} {xo : Var} :
    ∀ (ps : Params) (l : CArgs) (σ : Store) (y : Var) (w : Val), ArgsOK vty slots xo ps l →
      y ∉ slotsOf ps → bindIn ps l (σ.set y w) = (bindIn ps l σ).set y w
  | [], [], σ, y, w, _, _ => rfl
  | [], _ :: _, σ, y, w, h, _ => by simp [ArgsOK] at h
  | _ :: _, [], σ, y, w, h, _ => by simp [ArgsOK] at h
  | (pid, d, T) :: ps, (v, o) :: l, σ, y, w, h, hy => by
    simp only [ArgsOK] at h
    obtain ⟨hy1, hy2⟩ := not_mem_slots_cons hy
    have ih := fun σ' => bindIn_set ps l σ' y w h.2.2 hy2
    cases o with
    | none => simp only [bindIn]; rw [set_comm _ _ _ _ _ hy1, ih]
    | some x => simp only [bindIn]; exact ih σ

theorem bindIn_off {vty : Var → Ty} {slots : List Var} {xo : Var} :
    ∀ (ps : Params) (l : CArgs) (σ : Store) (y : Var), ArgsOK vty slots xo ps l →
      y ∉ slotsOf ps → bindIn ps l σ y = σ y
  | [], [], σ, y, _, _ => rfl
  | [], _ :: _, σ, y, h, _ => by simp [ArgsOK] at h
  | _ :: _, [], σ, y, h, _ => by simp [ArgsOK] at h
  | (pid, d, T) :: ps, (v, o) :: l, σ, y, h, hy => by
    simp only [ArgsOK] at h
    obtain ⟨hy1, hy2⟩ := not_mem_slots_cons hy
    have ih := fun σ' => bindIn_off ps l σ' y h.2.2 hy2
    cases o with
    | none => simp only [bindIn]; rw [ih]; simp [Store.set, hy1]
    | some x => simp only [bindIn]; exact ih σ

theorem valsIn_set {vty : Var → Ty} {slots : List Var} {xo : Var} :
    ∀ (ps : Params) (l : CArgs) (σ : Store) (y : Var) (w : Val), ArgsOK vty slots xo ps l →
      y ∉ slotsOf ps → y ∈ slots → valsIn ps l (σ.set y w) = valsIn ps l σ
  | [], [], σ, y, w, _, _, _ => rfl
  | [], _ :: _, σ, y, w, h, _, _ => by simp [ArgsOK] at h
  | _ :: _, [], σ, y, w, h, _, _ => by simp [ArgsOK] at h
  | (pid, d, T) :: ps, (v, o) :: l, σ, y, w, h, hy, hys => by
    simp only [ArgsOK] at h
    obtain ⟨hy1, hy2⟩ := not_mem_slots_cons hy
    have ih := valsIn_set ps l σ y w h.2.2 hy2 hys
    cases o with
    | none => simp [valsIn, ih]
    | some x =>
      have hx : x ≠ y := by
        intro hxy; subst hxy
        exact h.2.1.2.2.1 hys
      simp [valsIn, ih, Store.set, hx, hy1.symm]

/-- **by-value binding followed by the copy-in declarations is the typed semantics' parameter binding** with the values
`valsIn` (all stores involved differ from `σ` only on the parameter slots, the argument variables lie outside) -/
theorem copyIn_bindIn {vty : Var → Ty} {slots : List Var} {xo : Var} :
    ∀ (ps : Params) (l : CArgs) (σ : Store), ArgsOK vty slots xo ps l → (ps.map (·.1)).Nodup →
      (∀ y ∈ slotsOf ps, y ∈ slots) →
      copyIn ps l (bindIn ps l σ) = Ir.bindParams ps (valsIn ps l σ) σ
  | [], [], σ, _, _, _ => rfl
  | [], _ :: _, σ, h, _, _ => by simp [ArgsOK] at h
  | _ :: _, [], σ, h, _, _ => by simp [ArgsOK] at h
  | (pid, d, T) :: ps, (v, o) :: l, σ, h, hnd, hsub => by
    simp only [ArgsOK] at h
    have hnd2 : (pid :: ps.map (·.1)).Nodup := hnd
    have hnd' := (List.nodup_cons.mp hnd2).2
    have hpid : Var.loc pid ∉ slotsOf ps := by
      have := (List.nodup_cons.mp hnd2).1
      simp only [slotsOf, List.mem_map, not_exists, not_and]
      intro p hp he
      injection he with he
      exact this (by rw [← he]; exact List.mem_map_of_mem hp)
    have hpids : Var.loc pid ∈ slots := hsub _ (by simp [slotsOf])
    have hsub' : ∀ y ∈ slotsOf ps, y ∈ slots := by
      intro y hy; apply hsub; simp only [slotsOf, List.map_cons, List.mem_cons]; right; simpa [slotsOf] using hy
    cases o with
    | none =>
      simp only [bindIn, copyIn, valsIn, Ir.bindParams]
      rw [copyIn_bindIn ps l _ h.2.2 hnd' hsub', valsIn_set ps l σ _ v h.2.2 hpid hpids]
    | some x =>
      obtain ⟨hd, hvx, hxs, hxo⟩ := h.2.1
      have hxps : x ∉ slotsOf ps := fun hc => hxs (hsub' x hc)
      by_cases hio : d = .inout
      · simp only [bindIn, copyIn, valsIn, Ir.bindParams, hio, if_true]
        rw [bindIn_off ps l σ x h.2.2 hxps, ← bindIn_set ps l σ _ _ h.2.2 hpid,
          copyIn_bindIn ps l _ h.2.2 hnd' hsub', valsIn_set ps l σ _ _ h.2.2 hpid hpids]
      · simp only [bindIn, copyIn, valsIn, Ir.bindParams, hio, if_false]
        rw [set_self, copyIn_bindIn ps l σ h.2.2 hnd' hsub']

theorem writeBack_congr : ∀ (lvs : List (Option Var)) (fs : List Val) (σA σB : Store) (y : Var),
    σA y = σB y → writeBack lvs fs σA y = writeBack lvs fs σB y
  | [], fs, σA, σB, y, h => by simpa [writeBack] using h
  | some x :: r, [], σA, σB, y, h => by simpa [writeBack] using h
  | none :: r, [], σA, σB, y, h => by simpa [writeBack] using h
  | some x :: r, v :: vs, σA, σB, y, h => by
    simp only [writeBack]
    apply writeBack_congr
    simp only [Store.set]; split <;> simp_all
  | none :: r, v :: vs, σA, σB, y, h => by
    simp only [writeBack]
    exact writeBack_congr r vs σA σB y h

theorem writeBack_off : ∀ (lvs : List (Option Var)) (fs : List Val) (σ : Store) (y : Var),
    (∀ x, some x ∈ lvs → x ≠ y) → writeBack lvs fs σ y = σ y
  | [], fs, σ, y, _ => by simp [writeBack]
  | some x :: r, [], σ, y, _ => by simp [writeBack]
  | none :: r, [], σ, y, _ => by simp [writeBack]
  | some x :: r, v :: vs, σ, y, h => by
    simp only [writeBack]
    rw [writeBack_off r vs _ y (fun x' hx' => h x' (List.mem_cons_of_mem _ hx'))]
    have : x ≠ y := h x (by simp)
    simp [Store.set, this.symm]
  | none :: r, v :: vs, σ, y, h => by
    simp only [writeBack]
    exact writeBack_off r vs σ y (fun x' hx' => h x' (List.mem_cons_of_mem _ hx'))

/-- the copies back are the typed semantics' `writeBack` of the final contents of the parameter slots -/
theorem copyOut_writeBack {vty : Var → Ty} {slots : List Var} {xo : Var} :
    ∀ (ps : Params) (l : CArgs) (σ : Store), ArgsOK vty slots xo ps l → (∀ y ∈ slotsOf ps, y ∈ slots) →
      copyOut ps l σ = writeBack (l.map (·.2)) (ps.map (fun p => σ (.loc p.1))) σ
  | [], [], σ, _, _ => rfl
  | [], _ :: _, σ, h, _ => by simp [ArgsOK] at h
  | _ :: _, [], σ, h, _ => by simp [ArgsOK] at h
  | (pid, d, T) :: ps, (v, o) :: l, σ, h, hsub => by
    simp only [ArgsOK] at h
    have hsub' : ∀ y ∈ slotsOf ps, y ∈ slots := by
      intro y hy; apply hsub; simp only [slotsOf, List.map_cons, List.mem_cons]; right; simpa [slotsOf] using hy
    cases o with
    | none => simp only [copyOut, List.map_cons, writeBack]; exact copyOut_writeBack ps l σ h.2.2 hsub'
    | some x =>
      obtain ⟨hd, hvx, hxs, hxo⟩ := h.2.1
      simp only [copyOut, List.map_cons, writeBack]
      rw [copyOut_writeBack ps l _ h.2.2 hsub']
      congr 1
      apply List.map_congr_left
      intro p hp
      have : x ≠ Var.loc p.1 := fun hc => hxs (hsub' _ (by rw [hc]; simp only [slotsOf]; exact List.mem_map_of_mem hp))
      simp [Store.set, this.symm]

/-! ## the frame of a trampoline call -/

/-- how the names of the trampoline's parameters and locals resolve in its frame: a by-value parameter at its slot, a
reference parameter at the caller's variable, the local `__p` at the parameter slot of the typed function -/
def TEnv (cx : Ctx) (env : Ast.Env) : Params → CArgs → Prop
  | (pid, _, _) :: ps, (_, o) :: l =>
    (match o with
      | none => env.res (cx.locName pid) = some (.loc pid)
      | some x => env.res (cx.locName pid) = some x ∧ env.res (trampLocal cx pid) = some (.loc pid)) ∧
    TEnv cx env ps l
  | _, _ => True

theorem execs_cons_run (M : Msl.MWorld) (env : Ast.Env) (rt : Ty) (fuel : Nat) (s : HlslAst.Stmt) (r : HlslAst.Stmts) (σ σ1 : Store)
    (h : Msl.exec M env rt fuel .run s σ = some (.normal, σ1)) :
    Msl.execs M env rt fuel .run (.cons s r) σ = Msl.execs M env rt fuel .run r σ1 := by
  simp [Msl.execs, h]

/-- the declarations of the trampoline: `T __p = p;` copies the caller's variable in, `T __p;` leaves the slot alone -/
theorem decls_exec {cx : Ctx} {vty : Var → Ty} {slots : List Var} {xo : Var} (M : Msl.MWorld) (env : Ast.Env)
    (hvty : env.vty = vty) (rt : Ty) (fuel : Nat) (rest : HlslAst.Stmts) :
    ∀ (ps : Params) (l : CArgs) (decls : HlslAst.Stmts) (σ : Store),
      trampDecls cx ps = .ok decls → ArgsOK vty slots xo ps l → TEnv cx env ps l →
      Msl.execs M env rt fuel .run (appendStmts decls rest) σ = Msl.execs M env rt fuel .run rest (copyIn ps l σ)
  | [], [], decls, σ, hg, _, _ => by simp [trampDecls] at hg; subst hg; rfl
  | [], _ :: _, decls, σ, _, h, _ => by simp [ArgsOK] at h
  | _ :: _, [], decls, σ, _, h, _ => by simp [ArgsOK] at h
  | (pid, d, T) :: ps, (v, o) :: l, decls, σ, hg, h, he => by
    simp only [ArgsOK] at h
    simp only [TEnv] at he
    simp only [trampDecls] at hg
    cases hr : trampDecls cx ps with
    | error e => simp [hr] at hg
    | ok restD =>
      simp only [hr] at hg
      have ih := fun σ' => decls_exec M env hvty rt fuel rest ps l restD σ' hr h.2.2 he.2
      cases o with
      | none =>
        have hd : d = .in_ := h.2.1
        simp [hd] at hg; subst hg
        simp only [copyIn]; exact ih σ
      | some x =>
        obtain ⟨hd, hvx, hxs, hxo⟩ := h.2.1
        obtain ⟨hrx, hrl⟩ := he.1
        simp only [hd, if_false] at hg
        cases htn : GenMsl.typeName T with
        | error e => simp [htn] at hg
        | ok tn =>
          simp [htn] at hg; subst hg
          have htn' := typeName_tyOfName htn
          simp only [appendStmts, copyIn]
          by_cases hio : d = .inout
          · have hex : Msl.exec M env rt fuel .run (.var tn (trampLocal cx pid) (some (.ident (cx.locName pid)))) σ =
                some (.normal, σ.set (.loc pid) (σ x)) := by
              simp [Msl.exec, skip, htn', Msl.execVarDef, hrl, Msl.typeOf, hrx, hvty, hvx, Msl.eval, Msl.convR, Msl.convert, setOf, normalOf]
            simp only [hio, if_true]
            rw [execs_cons_run M env rt fuel _ _ σ _ hex]
            exact ih _
          · have hex : Msl.exec M env rt fuel .run (.var tn (trampLocal cx pid) none) σ = some (.normal, σ) := by
              simp [Msl.exec, skip, htn', Msl.execVarDef, hrl, normalOf]
            simp only [hio, if_false]
            rw [execs_cons_run M env rt fuel _ _ σ _ hex]
            exact ih _

/-- the copies back, executed: `p = __p;` in parameter order -/
theorem copyOut_exec {cx : Ctx} {vty : Var → Ty} {slots : List Var} {xo : Var} (M : Msl.MWorld) (env : Ast.Env)
    (hvty : env.vty = vty) (rt : Ty) (fuel : Nat) (rest : HlslAst.Stmts) :
    ∀ (ps : Params) (l : CArgs) (σ : Store), ArgsOK vty slots xo ps l → TEnv cx env ps l →
      Msl.execs M env rt fuel .run (appendStmts (trampCopyOut cx ps) rest) σ = Msl.execs M env rt fuel .run rest (copyOut ps l σ)
  | [], [], σ, _, _ => rfl
  | [], _ :: _, σ, h, _ => by simp [ArgsOK] at h
  | _ :: _, [], σ, h, _ => by simp [ArgsOK] at h
  | (pid, d, T) :: ps, (v, o) :: l, σ, h, he => by
    simp only [ArgsOK] at h
    simp only [TEnv] at he
    have ih := fun σ' => copyOut_exec M env hvty rt fuel rest ps l σ' h.2.2 he.2
    cases o with
    | none =>
      have hd : d = .in_ := h.2.1
      simp only [trampCopyOut, hd, if_true, copyOut]; exact ih σ
    | some x =>
      obtain ⟨hd, hvx, hxs, hxo⟩ := h.2.1
      obtain ⟨hrx, hrl⟩ := he.1
      have hex : Msl.exec M env rt fuel .run
          (.expr (.bin .Assignment (.ident (cx.locName pid)) (.ident (trampLocal cx pid)))) σ =
          some (.normal, σ.set x (σ (.loc pid))) := by
        simp [Msl.exec, skip, Msl.eval, astBinSem, Msl.lvalOf, hrx, Msl.typeOf, hrl, hvty, h.1, hvx, Msl.convR, Msl.convert,
          dropVal, normalOf]
      simp only [trampCopyOut, hd, if_false, appendStmts, copyOut]
      rw [execs_cons_run M env rt fuel _ _ σ _ hex]
      exact ih _

/-- parameter kinds/types of the user parameters as the Metal signature lists them -/
def mParamsOf (ps : Params) : List (Msl.PK × Ty) := ps.map fun p => (pkOf p.2.1, p.2.2)

theorem mParams_dirs (ps : Params) : mParams (ps.map fun p => (p.2.1, p.2.2)) = mParamsOf ps := by
  simp [mParams, mParamsOf, List.map_map, Function.comp_def]

/-- the user arguments of the inner call: the values of the by-value parameters, the trampoline's locals by reference -/
theorem trampArgs_eval {cx : Ctx} {vty : Var → Ty} {slots : List Var} {xo : Var} (M : Msl.MWorld) (env : Ast.Env)
    (hvty : env.vty = vty) (tailA : HlslAst.Exprs) (tailP : List (Msl.PK × Ty)) (tailM : List Msl.MArg) (σ : Store)
    (htail : Msl.evalArgs M env tailA tailP σ = some (tailM, σ)) :
    ∀ (ps : Params) (l : CArgs), ArgsOK vty slots xo ps l → TEnv cx env ps l →
      Msl.evalArgs M env (appendArgs (trampArgs cx ps) tailA) (mParamsOf ps ++ tailP) σ =
        some (slotArgs ps (ps.map fun p => σ (.loc p.1)) ++ tailM, σ)
  | [], [], _, _ => by simpa [trampArgs, appendArgs, mParamsOf, slotArgs] using htail
  | [], _ :: _, h, _ => by simp [ArgsOK] at h
  | _ :: _, [], h, _ => by simp [ArgsOK] at h
  | (pid, d, T) :: ps, (v, o) :: l, h, he => by
    simp only [ArgsOK] at h
    simp only [TEnv] at he
    have ih := trampArgs_eval M env hvty tailA tailP tailM σ htail ps l h.2.2 he.2
    have hmp : mParamsOf ((pid, d, T) :: ps) = (pkOf d, T) :: mParamsOf ps := rfl
    cases o with
    | none =>
      have hd : d = .in_ := h.2.1
      subst hd
      have hres : env.res (cx.locName pid) = some (.loc pid) := he.1
      simp only [hmp, trampArgs, if_true, appendArgs, List.cons_append, pkOf, Msl.evalArgs, Msl.typeOf, hres, Option.map, hvty, h.1,
        Msl.eval, Msl.convR, Msl.convert, ih, List.map_cons, slotArgs]
    | some x =>
      obtain ⟨hd, hvx, hxs, hxo⟩ := h.2.1
      obtain ⟨hrx, hrl⟩ := he.1
      have hpk : pkOf d = Msl.PK.ref := by cases d <;> simp_all [pkOf]
      simp only [hmp, trampArgs, hd, if_false, appendArgs, List.cons_append, hpk, Msl.evalArgs, Msl.lvalOf, hrl, hvty, h.1, if_true, ih,
        List.map_cons, slotArgs]

theorem copyOut_off {vty : Var → Ty} {slots : List Var} {xo : Var} :
    ∀ (ps : Params) (l : CArgs) (σ : Store), ArgsOK vty slots xo ps l → copyOut ps l σ xo = σ xo
  | [], [], σ, _ => rfl
  | [], _ :: _, σ, h => by simp [ArgsOK] at h
  | _ :: _, [], σ, h => by simp [ArgsOK] at h
  | (pid, d, T) :: ps, (v, o) :: l, σ, h => by
    simp only [ArgsOK] at h
    cases o with
    | none => simp only [copyOut]; exact copyOut_off ps l σ h.2.2
    | some x =>
      simp only [copyOut]
      rw [copyOut_off ps l _ h.2.2]
      have : x ≠ xo := h.2.1.2.2.2
      simp [Store.set, this.symm]

theorem tag_is_tag : Msl.isTagArg (.call tagType .nil) = true := by decide

theorem hasTag_trampCall (cx : Ctx) (ps : Params) (gs : List Nat) :
    Msl.hasTagArg (appendArgs (trampArgs cx ps) (.cons (.call tagType .nil) (globalArgs cx gs))) = true := by
  rw [hasTag_append]; simp [Msl.hasTagArg, tag_is_tag]

theorem execs_append_run (M : Msl.MWorld) (env : Ast.Env) (rt : Ty) (fuel : Nat) (s : HlslAst.Stmt) (σ : Store) :
    Msl.execs M env rt fuel .run (.cons s .nil) σ =
      (match Msl.exec M env rt fuel .run s σ with
        | none => none
        | some (.seeking, σ1) => some (.normal, σ1)
        | some (fl, σ1) => some (fl, σ1)) := by
  simp only [Msl.execs]
  cases Msl.exec M env rt fuel .run s σ with
  | none => rfl
  | some p => obtain ⟨fl, σ1⟩ := p; cases fl <;> simp [endOf]

/-- **the body of the trampoline, executed** in a frame whose reference parameters denote arbitrary caller variables
outside the parameter slots: copy-in, the target on the parameter slots (by the target's specification `hT` the typed
function run from the store at hand), the result kept in `out`, copy-out in parameter order, `return out` -/
theorem tramp_body_exec {W : World} {cx : Ctx} {vty : Var → Ty} {slots : List Var} {xo : Var} (M : Msl.MWorld) (env : Ast.Env)
    (fn : Ir.Func) (gs : List Nat) (rtn : String) (body : HlslAst.Stmts) (fuel : Nat) (sc : List Var) (l : CArgs)
    (hvty : env.vty = vty) (hrtn : Ast.tyOfName rtn = some fn.ret)
    (hbody : trampolineBody cx fn rtn gs = .ok body)
    (hok : ArgsOK vty slots xo fn.params l) (henv : TEnv cx env fn.params l)
    (hout : env.res trampolineResultName = some xo) (hxoty : vty xo = fn.ret)
    (hfres : env.fres (cx.funcName fn.id) = some fn.id) (hnf : cx.funcName fn.id ≠ Msl.fmodName)
    (hglob : ∀ σ, Msl.evalArgs M env (globalArgs cx gs) (globParams cx gs) σ = some (globMArgs gs, σ))
    (hsig : M.msig fn.id true = some (fn.ret, mParamsOf fn.params ++ (Msl.PK.tag, Ty.void) :: globParams cx gs))
    (hT : ∀ σ', M.mphi fn.id true (slotArgs fn.params (fn.params.map fun p => σ' (.loc p.1)) ++ Msl.MArg.tag :: globMArgs gs) σ' =
      (Ir.callFunc W fuel fn (fn.params.map fun p => σ' (.loc p.1)) σ').map (fun r => (r.1, Msl.restore sc σ' r.2.2))) :
    ∀ σ0, Msl.execs M env fn.ret fuel .run body σ0 =
      match Ir.callFunc W fuel fn (fn.params.map fun p => copyIn fn.params l σ0 (.loc p.1)) (copyIn fn.params l σ0) with
      | none => none
      | some (ret, _, σ1) =>
        if fn.ret = .void then some (.normal, copyOut fn.params l (Msl.restore sc (copyIn fn.params l σ0) σ1))
        else some (.ret (some ret), copyOut fn.params l ((Msl.restore sc (copyIn fn.params l σ0) σ1).set xo ret)) := by
  intro σ0
  simp only [trampolineBody] at hbody
  cases hd : trampDecls cx fn.params with
  | error e => simp [hd] at hbody
  | ok decls =>
    simp [hd] at hbody
    subst hbody
    rw [decls_exec M env hvty fn.ret fuel _ fn.params l decls σ0 hd hok henv]
    generalize copyIn fn.params l σ0 = σc
    -- the call
    have hnotfmod : (cx.funcName fn.id == Msl.fmodName) = false := by simpa using hnf
    have htag := hasTag_trampCall cx fn.params gs
    have htail : Msl.evalArgs M env (.cons (.call tagType .nil) (globalArgs cx gs)) ((Msl.PK.tag, Ty.void) :: globParams cx gs) σc =
        some (Msl.MArg.tag :: globMArgs gs, σc) := by
      simp [Msl.evalArgs, tag_is_tag, hglob σc]
    have hargs := trampArgs_eval M env hvty _ _ _ σc htail fn.params l hok henv
    have hcallT : Msl.typeOf M.msig env (.call (cx.funcName fn.id)
        (appendArgs (trampArgs cx fn.params) (.cons (.call tagType .nil) (globalArgs cx gs)))) = some fn.ret := by
      simp [Msl.typeOf, hnotfmod, hfres, htag, hsig]
    have hcall : Msl.eval M env (.call (cx.funcName fn.id)
        (appendArgs (trampArgs cx fn.params) (.cons (.call tagType .nil) (globalArgs cx gs)))) σc =
        (Ir.callFunc W fuel fn (fn.params.map fun p => σc (.loc p.1)) σc).map (fun r => (r.1, Msl.restore sc σc r.2.2)) := by
      simp only [Msl.eval, hnotfmod, Bool.false_eq_true, if_false, hfres, htag, hsig, hargs, hT σc]
    by_cases hv : fn.ret = .void
    · -- no result to keep
      have hnr : ¬ fn.ret ≠ .void := by simpa using hv
      simp only [hnr, if_false, if_pos hv]
      cases hir : Ir.callFunc W fuel fn (fn.params.map fun p => σc (.loc p.1)) σc with
      | none =>
        simp only [appendStmts, Msl.execs, Msl.exec, skip, hcall, hir, Option.map, dropVal, normalOf]
      | some r =>
        obtain ⟨ret, fin, σ1⟩ := r
        have hex : Msl.exec M env fn.ret fuel .run (.expr (.call (cx.funcName fn.id)
            (appendArgs (trampArgs cx fn.params) (.cons (.call tagType .nil) (globalArgs cx gs))))) σc =
            some (.normal, Msl.restore sc σc σ1) := by
          simp [Msl.exec, skip, hcall, hir, dropVal, normalOf]
        rw [execs_cons_run M env fn.ret fuel _ _ σc _ hex, copyOut_exec M env hvty fn.ret fuel .nil fn.params l _ hok henv]
        simp [Msl.execs, endOf]
    · have hnr : fn.ret ≠ .void := hv
      simp only [hnr, ne_eq, not_false_eq_true, if_true, if_neg hv, if_false, ↓reduceIte]
      cases hir : Ir.callFunc W fuel fn (fn.params.map fun p => σc (.loc p.1)) σc with
      | none =>
        simp only [appendStmts, Msl.execs, Msl.exec, skip, hrtn, Msl.execVarDef, hout, hcallT, hcall, hir, Option.map, Msl.convR, setOf,
          normalOf]
      | some r =>
        obtain ⟨ret, fin, σ1⟩ := r
        have hex : Msl.exec M env fn.ret fuel .run (.var rtn trampolineResultName (some (.call (cx.funcName fn.id)
            (appendArgs (trampArgs cx fn.params) (.cons (.call tagType .nil) (globalArgs cx gs)))))) σc =
            some (.normal, (Msl.restore sc σc σ1).set xo ret) := by
          simp [Msl.exec, skip, hrtn, Msl.execVarDef, hout, hcallT, hcall, hir, Msl.convR, Msl.convert, setOf, normalOf]
        rw [execs_cons_run M env fn.ret fuel _ _ σc _ hex,
          copyOut_exec M env hvty fn.ret fuel (.cons (.ret (some (.ident trampolineResultName))) .nil) fn.params l _ hok henv]
        have hread : copyOut fn.params l ((Msl.restore sc σc σ1).set xo ret) xo = ret := by
          rw [copyOut_off fn.params l _ hok]; simp [Store.set]
        simp [Msl.execs, Msl.exec, skip, Msl.typeOf, hout, hvty, hxoty, Msl.eval, Msl.convR, Msl.convert, retOf, hread]

end RsslVerif.Lemmas.GenMsl

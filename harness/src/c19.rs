//! C19: layout-consistency validation. Compiles generated programs whose buffer element types are the
//! request's types with `validate_layout_consistency(true)` and judges the verdict with two independent
//! reference layout calculators (HLSL structured-buffer packing, Metal struct layout).
//!
//! request : C19.check \t <use> \t <type>;<type>;...
//!   use   : sb | rwsb | bload | rwbload | rwbstore | baload | rwbaload | rwbastore
//!   type  : h i u f d b            scalar half/int/uint/float/double/bool
//!           f3 (f1..f4)             vector          f2x3  matrix (2 rows, 3 columns; suffix r / c = row_major /
//!                                   column_major modifier on the member)
//!           ?name                   a type name the language does not have (float16_t, uint64_t, ...)
//!           ei eu                   enum with underlying int / uint
//!           [N type]                array of N elements
//!           {type type ...}         struct (members in order)
//! observe : ok | unknown@K | mismatch@K hlsl=SIZE/ALIGN metal=SIZE/ALIGN | panic:<message>
//!           | error:<first line of an unexpected compile error>
//!   (K = index of the blamed type in the request, `?` when the message carries no location)
use crate::util::*;

#[derive(Clone, Debug, PartialEq)]
pub enum Ty {
    Scalar(char),
    Vec(char, u32),
    /// scalar, rows, columns, 'r' row_major / 'c' column_major / '-' no modifier
    Mat(char, u32, u32, char),
    Enum(bool),
    /// a type name that is not declared in the language
    Undeclared(String),
    /// an object type (texture, sampler, raw buffer) as a member: no layout
    Object(String),
    Arr(Box<Ty>, u64),
    Struct(Vec<Ty>),
    /// `$k` / `c$k`: the type *named* by entry `k` of the request's type table (an earlier entry), i.e. the same
    /// struct definition (same `StructId`), not a copy of it; `true` = spelled with `const` in front.
    /// Only in `C19.prog` requests.
    Ref(usize, bool),
}

const OBJECTS: &[&str] = &["Texture2D", "SamplerState", "ByteAddressBuffer", "RWTexture3D"];

const USES: &[&str] = &[
    "sb", "rwsb", "bload", "rwbload", "rwbstore", "baload", "rwbaload", "rwbastore",
];

// ------------------------------------------------------------------------------------------------
// type syntax
// ------------------------------------------------------------------------------------------------
pub fn show(t: &Ty) -> String {
    match t {
        Ty::Scalar(c) => c.to_string(),
        Ty::Vec(c, n) => format!("{}{}", c, n),
        Ty::Mat(c, r, k, m) => format!("{}{}x{}{}", c, r, k, if *m == '-' { String::new() } else { m.to_string() }),
        Ty::Undeclared(n) => format!("?{}", n),
        Ty::Object(n) => format!("@{}", n),
        Ty::Enum(false) => "ei".into(),
        Ty::Enum(true) => "eu".into(),
        Ty::Arr(t, n) => format!("[{} {}]", n, show(t)),
        Ty::Struct(ms) => format!("{{{}}}", ms.iter().map(show).collect::<Vec<_>>().join(" ")),
        Ty::Ref(k, c) => format!("{}${}", if *c { "c" } else { "" }, k),
    }
}

fn tokens(s: &str) -> Vec<String> {
    let mut out = Vec::new();
    let mut cur = String::new();
    for c in s.chars() {
        if "{}[]".contains(c) || c.is_whitespace() {
            if !cur.is_empty() {
                out.push(std::mem::take(&mut cur));
            }
            if !c.is_whitespace() {
                out.push(c.to_string());
            }
        } else {
            cur.push(c);
        }
    }
    if !cur.is_empty() {
        out.push(cur);
    }
    out
}

/// `limit` = number of table entries a `$k` may refer to (the index of the entry being parsed)
fn parse_ty(toks: &[String], i: &mut usize, limit: usize) -> Option<Ty> {
    let t = toks.get(*i)?.clone();
    *i += 1;
    match t.as_str() {
        "{" => {
            let mut ms = Vec::new();
            while toks.get(*i)? != "}" {
                ms.push(parse_ty(toks, i, limit)?);
            }
            *i += 1;
            Some(Ty::Struct(ms))
        }
        "[" => {
            let n: u64 = toks.get(*i)?.parse().ok()?;
            *i += 1;
            let e = parse_ty(toks, i, limit)?;
            if toks.get(*i)? != "]" {
                return None;
            }
            *i += 1;
            Some(Ty::Arr(Box::new(e), n))
        }
        "ei" => Some(Ty::Enum(false)),
        "eu" => Some(Ty::Enum(true)),
        w if w.starts_with('$') || w.starts_with("c$") => {
            let c = w.starts_with('c');
            let digits = &w[if c { 2 } else { 1 }..];
            if digits.is_empty() || !digits.chars().all(|d| d.is_ascii_digit()) {
                return None;
            }
            let k: usize = digits.parse().ok()?;
            if k >= limit {
                return None;
            }
            Some(Ty::Ref(k, c))
        }
        w if w.starts_with('@') && OBJECTS.contains(&&w[1..]) => Some(Ty::Object(w[1..].to_string())),
        w if w.starts_with('?') && w.len() > 1 && w[1..].chars().all(|c| c.is_ascii_alphanumeric() || c == '_') => {
            Some(Ty::Undeclared(w[1..].to_string()))
        }
        w => {
            let cs: Vec<char> = w.chars().collect();
            if w == "v" {
                return Some(Ty::Scalar('v')); // void: only as the type argument of a typed load (C19.prog)
            }
            if !"hiufdb".contains(cs[0]) {
                return None;
            }
            let d = |c: char| c.to_digit(10);
            match cs.len() {
                1 => Some(Ty::Scalar(cs[0])),
                2 => Some(Ty::Vec(cs[0], d(cs[1])?)),
                4 if cs[2] == 'x' => Some(Ty::Mat(cs[0], d(cs[1])?, d(cs[3])?, '-')),
                5 if cs[2] == 'x' && (cs[4] == 'r' || cs[4] == 'c') => Some(Ty::Mat(cs[0], d(cs[1])?, d(cs[3])?, cs[4])),
                _ => None,
            }
        }
    }
}

pub fn parse_types(s: &str) -> Option<Vec<Ty>> {
    parse_table(s, false)
}

/// a type list; with `refs` an entry may mention earlier entries as `$k` / `c$k`
pub fn parse_table(s: &str, refs: bool) -> Option<Vec<Ty>> {
    let mut out = Vec::new();
    for (k, part) in s.split(';').enumerate() {
        let toks = tokens(part);
        let mut i = 0;
        let t = parse_ty(&toks, &mut i, if refs { k } else { 0 })?;
        if i != toks.len() {
            return None;
        }
        // `const` is not a valid modifier of a field: `c$k` only as a whole entry
        fn const_ref_below(t: &Ty, top: bool) -> bool {
            match t {
                Ty::Ref(_, c) => *c && !top,
                Ty::Arr(e, _) => const_ref_below(e, false),
                Ty::Struct(ms) => ms.iter().any(|m| const_ref_below(m, false)),
                _ => false,
            }
        }
        if const_ref_below(&t, true) {
            return None;
        }
        out.push(t);
    }
    Some(out)
}

/// the structure an entry denotes: every `$k` replaced by (the expansion of) entry `k`. The reference calculators
/// and the oracle only ever see expanded types: a layout is a function of the structure alone.
pub fn expand(t: &Ty, table: &[Ty]) -> Ty {
    match t {
        Ty::Ref(k, _) => match table.get(*k) {
            Some(e) => expand(e, &table[..*k]),
            None => Ty::Undeclared("missing_entry".into()),
        },
        Ty::Arr(e, n) => Ty::Arr(Box::new(expand(e, table)), *n),
        Ty::Struct(ms) => Ty::Struct(ms.iter().map(|m| expand(m, table)).collect()),
        other => other.clone(),
    }
}

pub fn expand_table(table: &[Ty]) -> Vec<Ty> {
    (0..table.len()).map(|k| expand(&table[k], &table[..k])).collect()
}

fn refers_to(t: &Ty, k: usize) -> bool {
    match t {
        Ty::Ref(j, _) => *j == k,
        Ty::Arr(e, _) => refers_to(e, k),
        Ty::Struct(ms) => ms.iter().any(|m| refers_to(m, k)),
        _ => false,
    }
}

fn count_refs(t: &Ty, hist: &mut Hist) {
    match t {
        Ty::Ref(_, c) => hist.add(if *c { "ref:const" } else { "ref:plain" }),
        Ty::Arr(e, _) => {
            if matches!(**e, Ty::Ref(..)) {
                hist.add("ref:array-element");
            }
            count_refs(e, hist)
        }
        Ty::Struct(ms) => {
            let n = ms.iter().filter(|m| matches!(m, Ty::Ref(..))).count();
            if n >= 2 {
                hist.add("ref:several-in-one-struct");
            }
            ms.iter().for_each(|m| count_refs(m, hist))
        }
        _ => {}
    }
}

fn mentions_ref(t: &Ty) -> bool {
    match t {
        Ty::Ref(..) => true,
        Ty::Arr(e, _) => mentions_ref(e),
        Ty::Struct(ms) => ms.iter().any(mentions_ref),
        _ => false,
    }
}

// ------------------------------------------------------------------------------------------------
// source text
// ------------------------------------------------------------------------------------------------
fn scalar_name(c: char) -> &'static str {
    match c {
        'h' => "half",
        'i' => "int",
        'u' => "uint",
        'f' => "float",
        'd' => "double",
        'v' => "void",
        _ => "bool",
    }
}

/// a name used as a template argument: `A<B<x> >` (the closing brackets must not form `>>`)
fn targ(name: &str) -> String {
    if name.ends_with('>') { format!("{} ", name) } else { name.to_string() }
}

struct Src {
    lines: Vec<String>,
    next: usize,
    /// 0 = plain spelling; otherwise the seed of the spelling choices (typedef, namespace, template struct,
    /// base struct, method, `dword`, `vector<T, n>`, `matrix<T, r, c>`): the layout must not depend on them
    style: u64,
    /// `C19.prog`: the name each finished entry of the type table goes by (what `$k` is spelled as) and the line a
    /// diagnostic located at that entry's struct definition points at
    entry_names: Vec<String>,
    entry_lines: Vec<usize>,
}

impl Src {
    fn choose(&self, salt: u64, n: u64) -> u64 {
        if self.style == 0 {
            return 0;
        }
        let mut z = self.style.wrapping_mul(0x9E37_79B9_7F4A_7C15) ^ salt.wrapping_mul(0xD1B5_4A32_D192_ED03);
        z ^= z >> 29;
        z = z.wrapping_mul(0xBF58_476D_1CE4_E5B9);
        z ^= z >> 32;
        z % n
    }

    /// spelling of a type: (modifier prefix of a member declaration, type name, array suffix)
    fn spell(&mut self, t: &Ty) -> (String, String, String) {
        match t {
            // the entry's own name: the same definition, whatever else was declared in between
            Ty::Ref(k, c) => (
                if *c { "const ".to_string() } else { String::new() },
                self.entry_names.get(*k).cloned().unwrap_or_else(|| "missing_entry".into()),
                String::new(),
            ),
            Ty::Undeclared(n) => (String::new(), n.clone(), String::new()),
            Ty::Object(n) => (
                String::new(),
                if n == "RWTexture3D" { "RWTexture3D<float4>".into() } else { n.clone() },
                String::new(),
            ),
            Ty::Scalar(c) => {
                let salt = self.next as u64 * 31 + 5;
                self.next += 1;
                let n = if *c == 'u' && self.choose(salt, 3) == 1 { "dword" } else { scalar_name(*c) };
                (String::new(), n.into(), String::new())
            }
            Ty::Vec(c, n) => {
                let salt = self.next as u64 * 31 + 7;
                self.next += 1;
                if self.choose(salt, 4) == 1 {
                    (String::new(), format!("vector<{}, {}>", scalar_name(*c), n), String::new())
                } else {
                    (String::new(), format!("{}{}", scalar_name(*c), n), String::new())
                }
            }
            Ty::Mat(c, r, k, m) => {
                let salt = self.next as u64 * 31 + 9;
                self.next += 1;
                let pre = match m {
                    'r' => "row_major ",
                    'c' => "column_major ",
                    _ => "",
                };
                if self.choose(salt, 4) == 1 {
                    (pre.into(), format!("matrix<{}, {}, {}>", scalar_name(*c), r, k), String::new())
                } else {
                    (pre.into(), format!("{}{}x{}", scalar_name(*c), r, k), String::new())
                }
            }
            Ty::Enum(unsigned) => {
                let id = self.next;
                self.next += 1;
                let init = if *unsigned { " = 4294967295" } else { "" };
                let extra = if self.choose(id as u64 * 31 + 11, 3) == 1 && !*unsigned {
                    format!(", E{}_B = -7, E{}_C", id, id)
                } else {
                    String::new()
                };
                self.lines.push(format!("enum E{} {{ E{}_A{}{} }};", id, id, init, extra));
                (String::new(), format!("E{}", id), String::new())
            }
            Ty::Arr(e, n) => {
                let (pre, base, suffix) = self.spell(e);
                let id = self.next;
                self.next += 1;
                match self.choose(id as u64 * 31 + 29, 6) {
                    // the array type through a typedef (chains of them for several dimensions)
                    1 if pre.is_empty() => {
                        self.lines.push(format!("typedef {} AT{}[{}]{};", base, id, n, suffix));
                        (pre, format!("AT{}", id), String::new())
                    }
                    // the dimension as a named constant / a constant expression
                    2 if *n < 1000 => {
                        self.lines.push(format!("static const uint K{} = {};", id, n));
                        (pre, base, format!("[K{}]{}", id, suffix))
                    }
                    3 if *n >= 2 && *n < 1000 => (pre, base, format!("[{} + 1]{}", n - 1, suffix)),
                    _ => (pre, base, format!("[{}]{}", n, suffix)),
                }
            }
            Ty::Struct(ms) => {
                let mut decls = Vec::new();
                for (k, m) in ms.iter().enumerate() {
                    let (mut pre, mut base, suffix) = self.spell(m);
                    let mut name = format!("m{}{}", k, suffix);
                    // member decorations that must not change the layout: `static` (the compiler treats and emits a
                    // static member as an ordinary one), `precise`, interpolation modifiers, semantics
                    let salt = (self.next as u64) * 131 + k as u64 * 7 + 3;
                    if pre.is_empty() && !matches!(m, Ty::Undeclared(_) | Ty::Object(_)) {
                        match self.choose(salt, 12) {
                            1 => pre = "static ".into(),
                            2 if matches!(m, Ty::Scalar('f') | Ty::Vec('f', _)) => pre = "precise ".into(),
                            3 if matches!(m, Ty::Scalar('f') | Ty::Vec('f', _)) => pre = "nointerpolation ".into(),
                            4 if matches!(m, Ty::Scalar(_) | Ty::Vec(..)) => name = format!("{} : TEXCOORD{}", name, k),
                            // the member's type through a typedef, plain or of the const-qualified type (then the member's
                            // type id is a `Modifier` layer: `const` itself is not a valid modifier of a field)
                            5 | 6 if !matches!(m, Ty::Mat(..)) => {
                                let id = self.next;
                                self.next += 1;
                                let c = self.choose(salt, 12) == 5;
                                self.lines.push(format!("typedef {}{} {}T{};", if c { "const " } else { "" }, base, if c { "C" } else { "P" }, id));
                                base = format!("{}T{}", if c { "C" } else { "P" }, id);
                            }
                            7 => pre = "[[c19]] ".into(),
                            _ => {}
                        }
                    }
                    decls.push((pre, base, name));
                }
                let id = self.next;
                self.next += 1;
                let variant = self.choose(id as u64 * 31 + 13, 9);
                // several declarators in one member declaration (`float m0, m1[2];`), stray semicolons
                let merge = self.choose(id as u64 * 31 + 19, 3) == 1;
                let stray = self.choose(id as u64 * 31 + 23, 5) == 1;
                let join = |ds: &[(String, String, String)]| -> String {
                    let mut out = String::new();
                    let mut k = 0;
                    while k < ds.len() {
                        let d = &ds[k];
                        out.push_str(&format!(" {}{} {}", d.0, d.1, d.2));
                        k += 1;
                        while merge && k < ds.len() && ds[k].0 == d.0 && ds[k].1 == d.1 && !d.2.contains(':') && !ds[k].2.contains(':') {
                            out.push_str(&format!(", {}", ds[k].2));
                            k += 1;
                        }
                        out.push_str(if stray { ";;" } else { ";" });
                    }
                    out
                };
                let body: String = join(&decls);
                let name;
                match variant {
                    3 => {
                        self.lines.push(format!("namespace N{} {{ struct S{} {{{} }}; }}", id, id, body));
                        name = format!("N{}::S{}", id, id);
                    }
                    4 if !decls.is_empty() && decls[0].0.is_empty() && !decls[0].2.contains('[') && !decls[0].1.starts_with("CT") => {
                        let rest: String = join(&decls[1..]);
                        self.lines.push(format!(
                            "template<typename T> struct S{} {{ T m0;{} }};", id, rest
                        ));
                        name = format!("S{}<{}>", id, targ(&decls[0].1));
                    }
                    5 if decls.len() >= 2 => {
                        let j = 1 + self.choose(id as u64 * 31 + 17, decls.len() as u64 - 1) as usize;
                        let base: String = join(&decls[..j]);
                        let rest: String = join(&decls[j..]);
                        self.lines.push(format!(
                            "struct B{} {{{} }}; struct S{} : B{} {{{} }};", id, base, id, id, rest
                        ));
                        name = format!("S{}", id);
                    }
                    6 => {
                        self.lines.push(format!(
                            "struct S{} {{{} float len{}() {{ return 1.0; }} }};", id, body, id
                        ));
                        name = format!("S{}", id);
                    }
                    7 => {
                        self.lines.push(format!("struct S{} {{{} }}; typedef S{} T{};", id, body, id, id));
                        name = format!("T{}", id);
                    }
                    // two base structs (their members come first, in the order of the base list)
                    8 if decls.len() >= 2 => {
                        let j = 1 + self.choose(id as u64 * 31 + 17, decls.len() as u64 - 1) as usize;
                        self.lines.push(format!(
                            "struct B{}a {{{} }}; struct B{}b {{{} }}; struct S{} : B{}a, B{}b {{{} float len{}() {{ return 1.0; }} }};",
                            id, join(&decls[..1]), id, join(&decls[1..j]), id, id, id, join(&decls[j..]), id
                        ));
                        name = format!("S{}", id);
                    }
                    _ => {
                        self.lines.push(format!("struct S{} {{{} }};", id, body));
                        name = format!("S{}", id);
                    }
                }
                (String::new(), name, String::new())
            }
        }
    }

    /// a name usable as a template argument for the type (arrays go through a typedef), and the 1-based line
    /// a diagnostic located at the type's definition points at (meaningful for structs only)
    fn top(&mut self, t: &Ty) -> (String, usize) {
        if let Ty::Ref(k, c) = t {
            // another spelling of entry k: a typedef (the same type id), or a typedef of `const` entry k (the type id
            // of the const-qualified type); a diagnostic located at the type points at entry k's definition
            let id = self.next;
            self.next += 1;
            let base = self.entry_names.get(*k).cloned().unwrap_or_else(|| "missing_entry".into());
            self.lines.push(format!("typedef {}{} R{};", if *c { "const " } else { "" }, base, id));
            return (format!("R{}", id), self.entry_lines.get(*k).copied().unwrap_or(0));
        }
        let (_pre, base, suffix) = self.spell(t);
        let def_line = self.lines.len();
        if suffix.is_empty() {
            (base, def_line)
        } else {
            let id = self.next;
            self.next += 1;
            self.lines.push(format!("typedef {} A{}{};", base, id, suffix));
            (format!("A{}", id), def_line)
        }
    }
}

/// program text and, per request type, the 1-based line a diagnostic about it points at
pub fn source(usage: &str, tys: &[Ty]) -> (String, Vec<usize>) {
    let mut s = Src { lines: Vec::new(), next: 0, style: 0, entry_names: Vec::new(), entry_lines: Vec::new() };
    let mut blame = Vec::new();
    let mut names = Vec::new();
    for t in tys {
        let (_pre, base, suffix) = s.spell(t);
        // arrays cannot be template arguments; the generators never put one at the top
        names.push(format!("{}{}", base, suffix));
        blame.push(s.lines.len()); // line of the struct definition (if it is one)
    }
    match usage {
        "sb" | "rwsb" => {
            let obj = if usage == "sb" { "StructuredBuffer" } else { "RWStructuredBuffer" };
            for (k, n) in names.iter().enumerate() {
                s.lines.push(format!("{}<{}> g{};", obj, n, k));
                blame[k] = s.lines.len();
            }
            s.lines.push("void main() {}".into());
        }
        _ => {
            let obj = match usage {
                "bload" => "ByteAddressBuffer",
                "rwbload" | "rwbstore" => "RWByteAddressBuffer",
                "baload" => "BufferAddress",
                _ => "RWBufferAddress",
            };
            s.lines.push(format!("{} gb;", obj));
            s.lines.push("void main() {".into());
            for (k, n) in names.iter().enumerate() {
                if usage.ends_with("store") {
                    s.lines.push(format!("  {} v{}; gb.Store(0, v{});", n, k, k));
                } else {
                    s.lines.push(format!("  {} v{} = gb.Load<{}>(0);", n, k, n));
                }
            }
            s.lines.push("}".into());
        }
    }
    (s.lines.join("\n") + "\n", blame)
}

// ------------------------------------------------------------------------------------------------
// the real code
// ------------------------------------------------------------------------------------------------
pub enum Real {
    Accepted,
    /// layout check passed but a later stage failed (compile() did not succeed)
    AcceptedThenError(String),
    Unknown(Option<usize>),
    Mismatch(Option<usize>, [u64; 4]),
    Error(String),
    Panic(String),
}

/// verdict of compile() with validation on; locations are 1-based line numbers of main.rssl
fn run_real_lines(src: &str, target: &str, pipeline_mode: bool) -> Real {
    run_real_opts(src, target, pipeline_mode, false)
}

/// `opt`: the other values of compile()'s options that must not matter to validation: debug source information, a user
/// define, buffer addresses supported only when the program uses one, the pipeline picked by name (`P`)
fn run_real_opts(src: &str, target: &str, pipeline_mode: bool, opt: bool) -> Real {
    let text = src.to_string();
    let tgt = match target {
        "dx" => rssl::Target::HlslForDirectX,
        "msl" => rssl::Target::Msl,
        _ => rssl::Target::HlslForVulkan,
    };
    let r = guard(move || {
        let mut files = [("main.rssl", text.as_str())];
        let mut args = rssl::CompileArgs::new("main.rssl", &mut files, tgt)
            .support_buffer_address(matches!(tgt, rssl::Target::HlslForVulkan) && (!opt || text.contains("BufferAddress ")))
            .validate_layout_consistency(true);
        if !pipeline_mode {
            args = args.no_pipeline_mode();
        }
        let defs = [("C19_EXTRA", "1")];
        if opt {
            args = args.source_info(true).defines(&defs);
            if pipeline_mode {
                args = args.pipeline_name(Some("P"));
            }
        }
        match rssl::compile(args) {
            Ok(_) => Ok(()),
            Err(e) => Err(format!("{}", e)),
        }
    });
    let msg = match r {
        Err(p) => {
            // a panic: inside the layout checker, or in a later stage after the layout check passed?
            let text = src.to_string();
            let direct = guard(move || match front_end_src(&text) {
                Ok(ir) => Some(rssl::ir::layout_checker::check_layout(&ir).is_ok()),
                Err(_) => None,
            });
            return match direct {
                Ok(Some(true)) => Real::AcceptedThenError(format!("panic: {}", p)),
                Err(q) => Real::Panic(q),
                _ => Real::Panic(p),
            };
        }
        Ok(Ok(())) => return Real::Accepted,
        Ok(Err(m)) => m,
    };
    if std::env::var("C19_DEBUG").is_ok() {
        eprintln!("--- source\n{}--- message\n{}", src, msg);
    }
    let line = |m: &str| -> Option<usize> {
        // "main.rssl:LINE:COL: error: ..."
        let a = m.find("main.rssl:")? + "main.rssl:".len();
        let b = a + m[a..].find(|c: char| !c.is_ascii_digit())?;
        m[a..b].parse().ok()
    };
    if msg.contains("struct has unknown size") {
        return Real::Unknown(line(&msg));
    }
    if let Some(p) = msg.find("struct has size=") {
        // "struct has size=A align=B on HLSL but size=C align=D on Metal": the four numbers with their labels
        let rest = &msg[p..];
        let want = ["struct has size=", " align=", " on HLSL but size=", " align=", " on Metal"];
        let mut nums = Vec::new();
        let mut at = 0usize;
        let mut good = true;
        for (k, w) in want.iter().enumerate() {
            if !rest[at..].starts_with(w) {
                good = false;
                break;
            }
            at += w.len();
            if k + 1 < want.len() {
                let e = at + rest[at..].find(|c: char| !c.is_ascii_digit()).unwrap_or(rest.len() - at);
                match rest[at..e].parse::<u64>() {
                    Ok(v) => nums.push(v),
                    Err(_) => {
                        good = false;
                        break;
                    }
                }
                at = e;
            }
        }
        if good && nums.len() == 4 {
            return Real::Mismatch(line(&msg), [nums[0], nums[1], nums[2], nums[3]]);
        }
        return Real::Error(format!("unparsable layout message: {}", msg.lines().next().unwrap_or("")));
    }
    // an error that does not come from the layout checker: did the layout check itself pass?
    let text = src.to_string();
    let direct = guard(move || match front_end_src(&text) {
        Ok(ir) => Some(rssl::ir::layout_checker::check_layout(&ir).is_ok()),
        Err(_) => None,
    });
    match direct {
        Ok(Some(true)) => Real::AcceptedThenError(msg.lines().next().unwrap_or("").to_string()),
        _ => Real::Error(msg.lines().next().unwrap_or("").to_string()),
    }
}

fn map_loc(r: Real, f: impl Fn(usize) -> Option<usize>) -> Real {
    match r {
        Real::Unknown(l) => Real::Unknown(l.and_then(&f)),
        Real::Mismatch(l, n) => Real::Mismatch(l.and_then(&f), n),
        other => other,
    }
}

fn run_real(src: &str, blame: &[usize]) -> Real {
    map_loc(run_real_lines(src, "vk", false), |line| blame.iter().position(|l| *l == line))
}

fn show_k(k: Option<usize>) -> String {
    k.map(|k| k.to_string()).unwrap_or_else(|| "?".into())
}

fn show_real(r: &Real) -> String {
    match r {
        Real::Accepted | Real::AcceptedThenError(_) => "ok".into(),
        Real::Unknown(k) => format!("unknown@{}", show_k(*k)),
        Real::Mismatch(k, n) => format!(
            "mismatch@{} hlsl={}/{} metal={}/{}",
            show_k(*k), n[0], n[1], n[2], n[3]
        ),
        Real::Error(m) => format!("error:{}", m),
        Real::Panic(p) => {
            let msg = p.splitn(2, ": ").nth(1).unwrap_or(p);
            format!("panic:{}", msg)
        }
    }
}

// ------------------------------------------------------------------------------------------------
// independent reference layout calculators (the property's own words)
// ------------------------------------------------------------------------------------------------
#[derive(Clone, Copy, PartialEq)]
pub enum Rule {
    HlslSB,
    Metal,
}

#[derive(Clone, Debug, PartialEq)]
pub struct RefLayout {
    pub size: u64,
    pub align: u64,
    /// (path, absolute byte offset) of every field, recursively, in declaration order
    pub fields: Vec<(String, u64)>,
    /// some struct strictly below the top needs tail padding
    pub inner_tail_pad: bool,
}

fn up(x: u64, a: u64) -> u64 {
    x.div_ceil(a) * a
}

/// bool is a 32-bit value in an HLSL structured buffer and one byte in Metal
fn scalar_bytes(rule: Rule, c: char) -> Option<u64> {
    match c {
        'v' => None,
        'h' => Some(2),
        'i' | 'u' | 'f' => Some(4),
        'd' => Some(8),
        'b' => Some(if rule == Rule::HlslSB { 4 } else { 1 }),
        _ => None,
    }
}

/// returns (size, align, fields relative to the start, needs tail padding somewhere at-or-below)
fn reference(rule: Rule, t: &Ty, path: &str, top: bool) -> Option<(u64, u64, Vec<(String, u64)>, bool, bool)> {
    // (size, align, fields, self_tail_pad, inner_tail_pad)
    match t {
        // (the calculators are only called on expanded types)
        Ty::Undeclared(_) | Ty::Object(_) | Ty::Ref(..) => None,
        Ty::Scalar(c) => {
            let b = scalar_bytes(rule, *c)?;
            Some((b, b, vec![], false, false))
        }
        Ty::Enum(_) => Some((4, 4, vec![], false, false)),
        Ty::Vec(c, n) => {
            let b = scalar_bytes(rule, *c)?;
            if *n < 1 || *n > 4 {
                return None;
            }
            let n = *n as u64;
            match rule {
                Rule::HlslSB => Some((n * b, b, vec![], false, false)),
                Rule::Metal => {
                    let lanes = if n == 3 { 4 } else { n };
                    Some((lanes * b, lanes * b, vec![], false, false))
                }
            }
        }
        // `floatRxC` = R rows, C columns.  HLSL structured buffer: R*C scalars, tightly packed, aligned like the
        // scalar (row_major / column_major only permute the elements).  Metal: the compiler emits
        // `metal::float{C}x{R}` = C columns, each an R-component vector with the vector's size and alignment; Metal
        // has matrices of half and float with 2-4 rows and columns only.
        Ty::Mat(c, r, k, _) => {
            if !(1..=4).contains(r) || !(1..=4).contains(k) {
                return None;
            }
            let b = scalar_bytes(rule, *c)?;
            let (r, k) = (*r as u64, *k as u64);
            match rule {
                Rule::HlslSB => Some((r * k * b, b, vec![], false, false)),
                Rule::Metal => {
                    if !(*c == 'h' || *c == 'f') || r < 2 || k < 2 {
                        return None;
                    }
                    let lanes = if r == 3 { 4 } else { r };
                    Some((k * lanes * b, lanes * b, vec![], false, false))
                }
            }
        }
        Ty::Arr(e, n) => {
            if *n == 0 {
                return None;
            }
            let (es, ea, ef, self_pad, inner_pad) = reference(rule, e, "", false)?;
            let stride = up(es, ea);
            let mut fields = Vec::new();
            // (only the first 64 elements are listed: lengths go up to 2^32)
            for k in 0..(*n).min(64) {
                let base = k.checked_mul(stride)?;
                if k < 64 {
                    fields.push((format!("{}[{}]", path, k), base));
                    for (p, o) in &ef {
                        fields.push((format!("{}[{}]{}", path, k, p), base + o));
                    }
                }
            }
            let _ = top;
            Some((n.checked_mul(stride)?, ea, fields, false, self_pad || inner_pad))
        }
        Ty::Struct(ms) => {
            if ms.is_empty() {
                // HLSL: no members, no bytes.  Metal is C++: every complete object type has size >= 1
                return Some((if rule == Rule::HlslSB { 0 } else { 1 }, 1, vec![], false, false));
            }
            let mut cur = 0u64;
            let mut align = 1u64;
            let mut fields = Vec::new();
            let mut inner = false;
            for (k, m) in ms.iter().enumerate() {
                let (s, a, f, self_pad, inner_pad) = reference(rule, m, "", false)?;
                let off = up(cur, a);
                let name = format!("{}.m{}", path, k);
                fields.push((name.clone(), off));
                for (p, o) in f {
                    fields.push((format!("{}{}", name, p), off + o));
                }
                cur = off + s;
                align = align.max(a);
                inner |= self_pad || inner_pad;
            }
            let size = up(cur, align);
            Some((size, align, fields, size != cur, inner))
        }
    }
}

pub fn ref_layout(rule: Rule, t: &Ty) -> Option<RefLayout> {
    let (size, align, fields, _self_pad, inner) = reference(rule, t, "", true)?;
    Some(RefLayout { size, align, fields, inner_tail_pad: inner })
}

/// first difference between the two reference layouts, if any
fn difference(h: &RefLayout, m: &RefLayout) -> Option<String> {
    if h.size != m.size {
        return Some(format!("size {} vs {}", h.size, m.size));
    }
    for ((p, a), (_, b)) in h.fields.iter().zip(&m.fields) {
        if a != b {
            return Some(format!("offset of {} {} vs {}", p, a, b));
        }
    }
    None
}

fn has_undeclared(t: &Ty) -> bool {
    match t {
        Ty::Undeclared(_) => true,
        Ty::Arr(e, _) => has_undeclared(e),
        Ty::Struct(ms) => ms.iter().any(has_undeclared),
        _ => false,
    }
}

fn contains_empty_struct(t: &Ty) -> bool {
    match t {
        Ty::Struct(ms) => ms.is_empty() || ms.iter().any(contains_empty_struct),
        Ty::Arr(e, _) => contains_empty_struct(e),
        _ => false,
    }
}

/// the type without its empty-struct members (None when nothing is left)
fn strip_empty(t: &Ty) -> Option<Ty> {
    match t {
        Ty::Struct(ms) => {
            let kept: Vec<Ty> = ms.iter().filter_map(strip_empty).collect();
            if kept.is_empty() { None } else { Some(Ty::Struct(kept)) }
        }
        Ty::Arr(e, n) => strip_empty(e).map(|e| Ty::Arr(Box::new(e), *n)),
        other => Some(other.clone()),
    }
}

fn agrees(t: &Ty) -> Option<bool> {
    let h = ref_layout(Rule::HlslSB, t)?;
    let m = ref_layout(Rule::Metal, t)?;
    Some(difference(&h, &m).is_none())
}

/// Why a structure used at one of the property's sites must not pass validation: (defect class, detail).
/// `None`: the two reference layouts agree (or the type is not a structure: the property is silent).
fn must_reject(t: &Ty) -> Option<(&'static str, String)> {
    if !matches!(t, Ty::Struct(_)) {
        return None;
    }
    if has_undeclared(t) {
        return Some(("undeclared-type", "a member type is not declared".into()));
    }
    let (h, m) = match (ref_layout(Rule::HlslSB, t), ref_layout(Rule::Metal, t)) {
        (Some(h), Some(m)) => (h, m),
        _ => return Some(("no-reference-layout", "one of the two rule sets has no layout for it".into())),
    };
    let d = difference(&h, &m)?;
    if contains_empty_struct(t) {
        let caused_by_empty = match strip_empty(t) {
            None => true,
            Some(u) => agrees(&u) == Some(true),
        };
        if caused_by_empty {
            return Some(("empty-struct", d));
        }
    }
    let class = if h.inner_tail_pad || m.inner_tail_pad {
        "nested-tail-pad"
    } else if h.size == m.size {
        "offsets-only"
    } else {
        "sizes"
    };
    Some((class, d))
}

/// a type used at a site the property names; `site_class` = Some(..) for the kinds of site that get their own
/// defect class (a finding there must not hide a finding at an ordinary site)
struct Use<'a> {
    ty: &'a Ty,
    site_class: Option<&'static str>,
    what: String,
}

enum Blamed<'a> {
    Type(&'a Ty),
    Unlocated,
}

const WEAK_CLASSES: &[&str] = &["site-sbarr", "site-sbarr-typedef", "site-sbmem", "empty-struct"];

/// The property's oracle on the real verdict. Returns the oracle string and a statistics class.
fn judge(uses: &[Use], all: &[Ty], blamed: Blamed, real: &Real) -> (String, String) {
    match real {
        Real::Accepted | Real::AcceptedThenError(_) => {
            // every structure used at a property site must have identical reference layouts
            let mut bad: Vec<(String, String)> = Vec::new();
            for u in uses {
                if let Some((class, d)) = must_reject(u.ty) {
                    let class = u.site_class.unwrap_or(class);
                    bad.push((class.to_string(), format!("{} {} differs: {}", u.what, show(u.ty), d)));
                }
            }
            let pick = bad.iter().find(|(c, _)| !WEAK_CLASSES.contains(&c.as_str())).or(bad.first());
            if let Some((class, detail)) = pick {
                if let Real::AcceptedThenError(e) = real {
                    // compile() as a whole did not succeed: the property's premise is false
                    return (
                        format!("SKIP:layout check accepted a differing type but a later stage failed: {}", e),
                        "accepted-then-error".into(),
                    );
                }
                return (format!("FAIL:accepted/{} {}", class, detail), format!("accepted-differ-{}", class));
            }
            if let Real::AcceptedThenError(_) = real {
                return ("ok".into(), "accepted-then-error".into());
            }
            ("ok".into(), "accepted-agree".into())
        }
        Real::Mismatch(_, n) => {
            let t = match blamed {
                Blamed::Type(t) => t,
                Blamed::Unlocated if all.len() == 1 => &all[0],
                // a structure always has a location: the blamed type is not one, the property is silent
                Blamed::Unlocated => return ("ok".into(), "rejected-unlocated".into()),
            };
            if !matches!(t, Ty::Struct(_)) {
                return ("ok".into(), "rejected-non-struct".into());
            }
            match (ref_layout(Rule::HlslSB, t), ref_layout(Rule::Metal, t)) {
                (Some(h), Some(m)) => {
                    if n[0] != h.size || n[2] != m.size {
                        let class = if contains_empty_struct(t) {
                            "empty-struct"
                        } else if h.inner_tail_pad || m.inner_tail_pad {
                            "nested-tail-pad"
                        } else {
                            "sizes"
                        };
                        (
                            format!(
                                "FAIL:rejected/{} {} reported hlsl={} metal={} but true sizes are hlsl={} metal={}",
                                class, show(t), n[0], n[2], h.size, m.size
                            ),
                            format!("rejected-wrong-size-{}", class),
                        )
                    } else if n[1] != h.align || n[3] != m.align {
                        (
                            format!(
                                "FAIL:rejected/align {} reported align hlsl={} metal={} but true alignments are hlsl={} metal={}",
                                show(t), n[1], n[3], h.align, m.align
                            ),
                            "rejected-wrong-align".into(),
                        )
                    } else if difference(&h, &m).is_none() {
                        ("ok".into(), "rejected-though-agree".into())
                    } else if h.size == m.size {
                        ("ok".into(), "rejected-true-sizes-offsets-differ".into())
                    } else {
                        ("ok".into(), "rejected-true-sizes".into())
                    }
                }
                _ => (format!("FAIL:rejected/no-reference-layout {}", show(t)), "rejected-unknown".into()),
            }
        }
        Real::Unknown(_) => {
            // a clean diagnostic without sizes; fine when some type has no reference layout
            let any_none = all
                .iter()
                .any(|t| ref_layout(Rule::HlslSB, t).is_none() || ref_layout(Rule::Metal, t).is_none());
            if any_none {
                ("ok".into(), "unknown-size".into())
            } else {
                ("ok".into(), "unknown-size-though-known".into())
            }
        }
        Real::Error(e) => {
            if all.iter().any(has_undeclared) {
                // a type the language does not have: a clean diagnostic, as it must be
                ("ok".into(), "undeclared-type-error".into())
            } else {
                (format!("SKIP:compile error outside the layout checker: {}", e), "other-error".into())
            }
        }
        // panics are C08's subject; C19 only needs the model to predict them
        Real::Panic(_) => ("ok".into(), "panic".into()),
    }
}

fn oracle(tys: &[Ty], real: &Real) -> (String, String) {
    let uses: Vec<Use> = tys.iter().map(|t| Use { ty: t, site_class: None, what: String::new() }).collect();
    let blamed = match real {
        Real::Mismatch(Some(k), _) if *k < tys.len() => Blamed::Type(&tys[*k]),
        _ => Blamed::Unlocated,
    };
    judge(&uses, tys, blamed, real)
}

// ------------------------------------------------------------------------------------------------
// whole programs: which uses of a type does validation look at? (C19.prog)
//
// request : C19.prog \t <target>:<mode>:<style> \t <type>;<type>;... \t <site>,<site>,...
//   target: vk | dx | msl          mode: np (no_pipeline_mode) | pipe (a Pipeline block, pipeline mode)
//   style : 0 = plain spelling, otherwise the seed of spelling choices (see `Src`)
//   site  : <kind>@<type index>           a global declaration, in source order
//           <kind>.<wrap>@<type index>    a typed load / store
//   global kinds: sb rwsb sbc sbtd sbreg (structured buffers, spelled differently)
//                 sbarr rwsbarr sbarr2 sbarru sbbl (arrays of structured buffers; sbbl = [[rssl::bindless]])
//                 sbtdarr (`typedef StructuredBuffer<S> A[2]; A g;`) sbarrtd (`… A g[3];`: an array of a typedef'd array)
//                 sbarrtd2 (`… typedef const A B[2]; B g[3];`: two modifiers between three array layers)
//                 sbmem (a structured buffer that is a member of a global struct) sbparam (a function parameter)
//                 cb (ConstantBuffer<T>) cbuf (cbuffer member) gv gs st (plain / groupshared / static variable)
//   load/store  : bload bload2 rwbload rwbload2 rwbstore rwbstoret baload rwbaload rwbastore rwbastoret
//                 (…2 = the overload with a status out-parameter, …t = explicit template argument)
//   wrap        : m (in main) u (in a function nobody calls) t (in a function template instantiated from main)
//                 t0 (in a function template that is never instantiated) me (in a struct method)
//                 p (buffer is a function parameter) a (buffer is an element of a global array of buffers)
//                 gi (initialiser of a static global) da (default argument of a function) ex (operand of sizeof in
//                 main, no variable of the type anywhere); gi / da: plain loads only, ex: loads only
//                 dt / dta (default argument of a function template that nobody instantiates: `Load<T>` / `Load<T[2]>`
//                 of the template parameter; the site's type is declared but not used; plain loads only)
// observe : ok | unknown@L | mismatch@L hlsl=SIZE/ALIGN metal=SIZE/ALIGN | error | panic:<message>
//   L = G<site index> (located at that global) | T<type index> (located at that struct's definition) | ?
// ------------------------------------------------------------------------------------------------
pub const GLOBAL_KINDS: &[&str] = &[
    "sb", "rwsb", "sbc", "sbtd", "sbreg", "sbarr", "rwsbarr", "sbarr2", "sbarru", "sbbl", "sbtdarr", "sbarrtd", "sbarrtd2", "sbmem",
    "sbparam", "cb", "cbuf", "gv", "gs", "st",
    // wave 11: other declaration forms of the same things
    "sbmulti", "sbns", "sbst", "sbex", "sblocal", "cbmem",
    // sbtwo: ONE struct template instantiated twice, both instances element types: `WT<float>` (agrees) first, then `WT<S>`
    // = `{S}`; decoy: resources and variables of every other kind holding a float3 (12/4 vs 16/16), used in main through
    // untyped / non-templated intrinsics - validation must not look at any of them (the site's type is only declared)
    "sbtwo", "decoy",
];
/// how compile() is called: np / pipe as before; npo = no pipeline mode + source_info + a user define + buffer addresses
/// supported only when a site needs them; pname = two pipelines in the file, `pipeline_name` selects one, source_info
pub const MODES: &[&str] = &["np", "pipe", "npo", "pname"];
pub const FN_KINDS: &[&str] = &[
    "bload", "bload2", "rwbload", "rwbload2", "rwbstore", "rwbstoret", "baload", "rwbaload", "rwbastore", "rwbastoret",
];
pub const WRAPS: &[&str] = &[
    "m", "u", "t", "t0", "me", "p", "a", "gi", "da", "ex", "dt", "dta",
    // wave 11: pd (default argument on a PROTOTYPE that is never defined) pf (prototype first, body after main)
    // ns (function in a namespace) lp (inside for / if of an uncalled function) tt (template instantiated from another
    // template) two (one function template instantiated twice: an agreeing struct first) tm (method of a struct template,
    // instantiated by naming W<S>) mt (method template) sl (initialiser of a static local) hb (raw buffer that is a member
    // of a global struct)
    "pd", "pf", "ns", "lp", "tt", "two", "tm", "mt", "sl", "hb",
];

#[derive(Clone, Debug)]
pub struct Site {
    pub kind: String,
    /// empty for globals
    pub wrap: String,
    pub ty: usize,
}

#[derive(Clone, Debug)]
pub struct Prog {
    pub target: String,
    pub pipe: bool,
    /// the option variant of the mode (npo / pname)
    pub opt: bool,
    pub style: u64,
    pub tys: Vec<Ty>,
    pub sites: Vec<Site>,
}

fn show_site(s: &Site) -> String {
    if s.wrap.is_empty() {
        format!("{}@{}", s.kind, s.ty)
    } else {
        format!("{}.{}@{}", s.kind, s.wrap, s.ty)
    }
}

pub fn mode_name(p: &Prog) -> &'static str {
    match (p.pipe, p.opt) {
        (false, false) => "np",
        (true, false) => "pipe",
        (false, true) => "npo",
        (true, true) => "pname",
    }
}

pub fn show_prog(p: &Prog) -> String {
    format!(
        "C19.prog\t{}:{}:{}\t{}\t{}",
        p.target,
        mode_name(p),
        p.style,
        p.tys.iter().map(show).collect::<Vec<_>>().join(";"),
        p.sites.iter().map(show_site).collect::<Vec<_>>().join(",")
    )
}

pub fn parse_prog(f: &[&str]) -> Option<Prog> {
    if f.len() != 4 || f[0] != "C19.prog" {
        return None;
    }
    let h: Vec<&str> = f[1].split(':').collect();
    if h.len() != 3 || !["vk", "dx", "msl"].contains(&h[0]) || !MODES.contains(&h[1]) {
        return None;
    }
    let style: u64 = h[2].parse().ok()?;
    let tys = parse_table(f[2], true)?;
    let mut sites = Vec::new();
    for part in f[3].split(',') {
        let (lhs, k) = part.split_once('@')?;
        let ty: usize = k.parse().ok()?;
        if ty >= tys.len() {
            return None;
        }
        let (kind, wrap) = match lhs.split_once('.') {
            Some((k, w)) => (k, w),
            None => (lhs, ""),
        };
        let mut good = if wrap.is_empty() { GLOBAL_KINDS.contains(&kind) } else { FN_KINDS.contains(&kind) && WRAPS.contains(&wrap) };
        if ["gi", "da", "dt", "dta", "pd", "sl"].contains(&wrap) && !["bload", "rwbload", "baload", "rwbaload"].contains(&kind) {
            good = false;
        }
        if wrap == "ex" && !["bload", "bload2", "rwbload", "rwbload2", "baload", "rwbaload"].contains(&kind) {
            good = false;
        }
        if !good {
            return None;
        }
        sites.push(Site { kind: kind.into(), wrap: wrap.into(), ty });
    }
    // `void` can only be the whole type argument of a typed load that is really type checked
    fn mentions_void(t: &Ty) -> bool {
        match t {
            Ty::Scalar('v') => true,
            Ty::Arr(e, _) => mentions_void(e),
            Ty::Struct(ms) => ms.iter().any(mentions_void),
            _ => false,
        }
    }
    let expanded = expand_table(&tys);
    for (k, t) in expanded.iter().enumerate() {
        // (`void` cannot be referred to either: a reference makes the entry `mention` void without being it)
        if mentions_void(t) && mentions_ref(&tys[k]) {
            return None;
        }
        if mentions_void(t) {
            let fine = *t == Ty::Scalar('v')
                && sites.iter().filter(|s| s.ty == k).all(|s| {
                    ["bload", "bload2", "rwbload", "rwbload2", "baload", "rwbaload"].contains(&s.kind.as_str())
                        && ["m", "u", "me", "p", "a"].contains(&s.wrap.as_str())
                });
            if !fine {
                return None;
            }
        }
    }
    Some(Prog { target: h[0].into(), pipe: h[1] == "pipe" || h[1] == "pname", opt: h[1] == "npo" || h[1] == "pname", style, tys, sites })
}

/// where a diagnostic line points
struct ProgLines {
    site_line: Vec<usize>,
    type_line: Vec<usize>,
}

fn prog_source(p: &Prog) -> (String, ProgLines) {
    let mut s = Src { lines: Vec::new(), next: 0, style: p.style, entry_names: Vec::new(), entry_lines: Vec::new() };
    let mut names = Vec::new();
    let mut type_line = Vec::new();
    for t in &p.tys {
        let (n, l) = s.top(t);
        s.entry_names.push(n.clone());
        s.entry_lines.push(l);
        names.push(n);
        type_line.push(l);
    }
    let mut site_line = vec![0usize; p.sites.len()];
    // globals, in site order
    for (i, site) in p.sites.iter().enumerate() {
        if !site.wrap.is_empty() {
            continue;
        }
        let n = &names[site.ty];
        let a = targ(n);
        let line = match site.kind.as_str() {
            "sb" => format!("StructuredBuffer<{}> g{};", a, i),
            "rwsb" => format!("RWStructuredBuffer<{}> g{};", a, i),
            "sbc" => format!("const StructuredBuffer<const {}> g{};", a, i),
            "sbtd" => format!("typedef StructuredBuffer<{}> SBT{}; SBT{} g{};", a, i, i, i),
            "sbreg" => format!("StructuredBuffer<{}> g{} : register(t{});", a, i, i + 7),
            "sbarr" => format!("StructuredBuffer<{}> g{}[4];", a, i),
            "rwsbarr" => format!("RWStructuredBuffer<{}> g{}[2];", a, i),
            "sbarr2" => format!("StructuredBuffer<{}> g{}[2][3];", a, i),
            "sbarru" => format!("StructuredBuffer<{}> g{}[];", a, i),
            "sbbl" => format!("[[rssl::bindless]] [[rssl::bind_group(1)]] StructuredBuffer<{}> g{}[1024];", a, i),
            "sbtdarr" => format!("typedef StructuredBuffer<{}> SBA{}[2]; SBA{} g{};", a, i, i, i),
            "sbarrtd" => format!("typedef StructuredBuffer<{}> SBA{}[2]; SBA{} g{}[3];", a, i, i, i),
            "sbarrtd2" => format!(
                "typedef StructuredBuffer<{}> SBA{}[2]; typedef const SBA{} SBB{}[2]; SBB{} g{}[3];", a, i, i, i, i, i
            ),
            "sbmem" => format!("struct H{} {{ StructuredBuffer<{}> p; }}; H{} g{};", i, a, i, i),
            "sbparam" => format!("void fparam{}(StructuredBuffer<{}> p) {{}}", i, a),
            "cb" => format!("ConstantBuffer<{}> g{};", a, i),
            "cbuf" => format!("cbuffer CB{} {{ {} cbm{}; }}", i, n, i),
            "sbtwo" => format!(
                "template<typename T> struct WT{} {{ T m; }}; StructuredBuffer<WT{}<float> > g{}z; StructuredBuffer<WT{}<{}> > g{};",
                i, i, i, i, a, i
            ),
            "decoy" => format!(
                "Buffer<float3> d{i}a; RWBuffer<float3> d{i}b; Texture2D<float3> d{i}c; RWTexture2D<float3> d{i}d; SamplerState d{i}e; \
                 ByteAddressBuffer d{i}f; static const float3 d{i}g = float3(1, 2, 3); float3 d{i}h; groupshared float3 d{i}j[2]; \
                 RWByteAddressBuffer d{i}l; StructuredBuffer<float> d{i}s; RWStructuredBuffer<uint> d{i}u;",
                i = i
            ),
            "sbmulti" => format!("StructuredBuffer<{}> g{}x[2], g{};", a, i, i),
            "sbns" => format!("namespace NG {{ StructuredBuffer<{}> g{}; }}", a, i), // every such site reopens `NG`
            "sbst" => format!("static StructuredBuffer<{}> g{};", a, i),
            "sbex" => format!("extern StructuredBuffer<{}> g{};", a, i),
            // a local variable of buffer type: declared in main (below); like a parameter it is not a buffer that exists
            "sblocal" => continue,
            "cbmem" => format!("struct H{} {{ StructuredBuffer<{}> p; float q; }}; ConstantBuffer<H{}> g{};", i, a, i, i),
            "gv" => format!("{} g{};", n, i),
            "gs" => format!("groupshared {} g{}[2];", n, i),
            _ => format!("static {} g{};", n, i),
        };
        s.lines.push(line);
        site_line[i] = s.lines.len();
    }
    // the raw buffers the typed loads / stores go through
    let needs = |pred: &dyn Fn(&Site) -> bool| p.sites.iter().any(|x| !x.wrap.is_empty() && pred(x));
    let obj_of = |kind: &str| -> (&'static str, &'static str) {
        match kind {
            "bload" | "bload2" => ("ByteAddressBuffer", "gbab"),
            "rwbload" | "rwbload2" | "rwbstore" | "rwbstoret" => ("RWByteAddressBuffer", "grw"),
            "baload" => ("BufferAddress", "gba"),
            _ => ("RWBufferAddress", "grwba"),
        }
    };
    for (obj, var) in [
        ("ByteAddressBuffer", "gbab"),
        ("RWByteAddressBuffer", "grw"),
        ("BufferAddress", "gba"),
        ("RWBufferAddress", "grwba"),
    ] {
        if needs(&|x| obj_of(&x.kind).1 == var && !["p", "me", "a", "hb"].contains(&x.wrap.as_str())) {
            s.lines.push(format!("{} {};", obj, var));
        }
        if needs(&|x| obj_of(&x.kind).1 == var && x.wrap == "a") {
            s.lines.push(format!("{} {}_a[4];", obj, var));
        }
    }
    // statements of one typed load / store through buffer expression `b` with type name `n`
    let stmts = |site: &Site, i: usize, b: &str, n: &str| -> String {
        if n == "void" {
            return match site.kind.as_str() {
                "bload2" | "rwbload2" => format!("uint st{}; {}.Load<void>(0, st{});", i, b, i),
                _ => format!("{}.Load<void>(0);", b),
            };
        }
        match site.kind.as_str() {
            "bload" | "rwbload" | "baload" | "rwbaload" => format!("{} v{} = {}.Load<{}>(0);", n, i, b, targ(n)),
            "bload2" | "rwbload2" => format!("uint st{}; {} v{} = {}.Load<{}>(0, st{});", i, n, i, b, targ(n), i),
            "rwbstore" | "rwbastore" => format!("{} v{}; {}.Store(0, v{});", n, i, b, i),
            _ => format!("{} v{}; {}.Store<{}>(0, v{});", n, i, b, targ(n), i),
        }
    };
    // functions other than main, in site order
    for (i, site) in p.sites.iter().enumerate() {
        if site.wrap.is_empty() {
            continue;
        }
        let (obj, var) = obj_of(&site.kind);
        let n = &names[site.ty];
        match site.wrap.as_str() {
            "u" => s.lines.push(format!("void fu{}() {{ {} }}", i, stmts(site, i, var, n))),
            "p" => s.lines.push(format!("void fp{}({} b) {{ {} }}", i, obj, stmts(site, i, "b", n))),
            "me" => s.lines.push(format!(
                "struct M{} {{ float q; void run({} b) {{ {} }} }};", i, obj, stmts(site, i, "b", n)
            )),
            "t" | "t0" => s.lines.push(format!(
                "template<typename T> void ft{}() {{ {} }}", i, stmts(site, i, var, "T")
            )),
            "gi" => s.lines.push(format!("static {} gi{} = {}.Load<{}>(0);", n, i, var, targ(n))),
            "pd" => s.lines.push(format!("float fpd{}(uint q = sizeof({}.Load<{}>(0)));", i, var, targ(n))),
            "pf" => s.lines.push(format!("void fpf{}();", i)),
            "ns" => s.lines.push(format!("namespace NF {{ void f{}() {{ {} }} }}", i, stmts(site, i, var, n))), // reopened
            "lp" => s.lines.push(format!(
                "void flp{}() {{ for (uint k = 0; k < 2; ++k) {{ if (k == 1) {{ {} }} }} }}", i, stmts(site, i, var, n)
            )),
            "tt" => s.lines.push(format!(
                "template<typename T> void ft{}() {{ {} }} template<typename T> void ftt{}() {{ ft{}<T>(); }}",
                i, stmts(site, i, var, "T"), i, i
            )),
            "two" => s.lines.push(format!(
                "struct Z{} {{ float z; }}; template<typename T> void ft{}() {{ {} }}", i, i, stmts(site, i, var, "T")
            )),
            "tm" => s.lines.push(format!(
                "template<typename T> struct W{} {{ float q; void run() {{ {} }} }};", i, stmts(site, i, var, "T")
            )),
            "mt" => s.lines.push(format!(
                "struct W{} {{ float q; template<typename T> void run() {{ {} }} }};", i, stmts(site, i, var, "T")
            )),
            "hb" => s.lines.push(format!("struct HB{} {{ {} b; }}; HB{} ghb{};", i, obj, i, i)),
            "da" => s.lines.push(format!(
                "float fda{}(uint q = sizeof({}.Load<{}>(0))) {{ return 0; }}", i, var, targ(n)
            )),
            "dt" => s.lines.push(format!(
                "template<typename T> float fdt{}(uint q = sizeof({}.Load<T>(0))) {{ return 0; }}", i, var
            )),
            "dta" => s.lines.push(format!(
                "template<typename T> float fdt{}(uint q = sizeof({}.Load<T[2]>(0))) {{ return 0; }}", i, var
            )),
            _ => {}
        }
    }
    if p.pipe {
        s.lines.push("[numthreads(8, 8, 1)]".into());
    }
    s.lines.push("void main() {".into());
    for (i, site) in p.sites.iter().enumerate() {
        let (_obj, var) = obj_of(&site.kind);
        let n = &names[site.ty];
        match site.wrap.as_str() {
            "m" => s.lines.push(format!("  {}", stmts(site, i, var, n))),
            "a" => s.lines.push(format!("  {}", stmts(site, i, &format!("{}_a[1]", var), n))),
            "t" => s.lines.push(format!("  ft{}<{}>();", i, targ(n))),
            "tt" => s.lines.push(format!("  ftt{}<{}>();", i, targ(n))),
            "two" => s.lines.push(format!("  ft{}<Z{}>(); ft{}<{}>();", i, i, i, targ(n))),
            "tm" => s.lines.push(format!("  W{}<{}> w{};", i, targ(n), i)),
            "mt" => s.lines.push(format!("  W{} w{}; w{}.run<{}>();", i, i, i, targ(n))),
            "sl" => s.lines.push(format!("  static {}", stmts(site, i, var, n))),
            "hb" => s.lines.push(format!("  {}", stmts(site, i, &format!("ghb{}.b", i), n))),
            "pf" => s.lines.push(format!("  fpf{}();", i)),
            "" if site.kind == "decoy" => s.lines.push(format!(
                "  float3 da{i} = d{i}a.Load(0); float3 db{i} = d{i}b[0]; float3 dc{i} = d{i}c.Load(int3(0, 0, 0)); \
                 d{i}d[uint2(0, 0)] = da{i}; uint3 dd{i} = d{i}f.Load3(0); d{i}l.Store3(0, dd{i}); float de{i} = d{i}s[0]; \
                 uint df{i}; InterlockedAdd(d{i}u[0], 1, df{i}); float3 dg{i} = asfloat(dd{i});",
                i = i
            )),
            "" if site.kind == "sblocal" => {
                s.lines.push(format!("  StructuredBuffer<{}> l{};", targ(n), i));
                site_line[i] = s.lines.len();
            }
            "ex" => s.lines.push(match site.kind.as_str() {
                "bload2" | "rwbload2" => format!("  uint st{}; sizeof({}.Load<{}>(0, st{}));", i, var, targ(n), i),
                _ => format!("  sizeof({}.Load<{}>(0));", var, targ(n)),
            }),
            _ => {}
        }
    }
    s.lines.push("}".into());
    // bodies that come after main (their prototypes stand before it)
    for (i, site) in p.sites.iter().enumerate() {
        if site.wrap == "pf" {
            let (_obj, var) = obj_of(&site.kind);
            s.lines.push(format!("void fpf{}() {{ {} }}", i, stmts(site, i, var, &names[site.ty])));
        }
    }
    if p.pipe {
        if p.opt {
            // a second pipeline that is not the one asked for, declared first
            s.lines.push("[numthreads(1, 1, 1)]".into());
            s.lines.push("void main2() {}".into());
            s.lines.push("Pipeline Q { ComputeShader = main2; }".into());
        }
        s.lines.push("Pipeline P { ComputeShader = main; }".into());
    }
    (s.lines.join("\n") + "\n", ProgLines { site_line, type_line })
}

/// the sites the property speaks about: a structured buffer's element type, the type of a typed load / store
fn property_site(site: &Site) -> Option<Option<&'static str>> {
    if site.wrap.is_empty() {
        match site.kind.as_str() {
            "sb" | "rwsb" | "sbc" | "sbtd" | "sbreg" | "sbmulti" | "sbns" | "sbst" | "sbex" | "sbtwo" => Some(None),
            "sbarr" | "rwsbarr" | "sbarr2" | "sbarru" | "sbbl" | "sbtdarr" => Some(Some("site-sbarr")),
            "sbarrtd" | "sbarrtd2" => Some(Some("site-sbarr-typedef")),
            "sbmem" | "cbmem" => Some(Some("site-sbmem")),
            // a parameter type is not a buffer: the buffer is whatever global is passed. constant buffers, cbuffer
            // members and plain variables are not named by the property
            _ => None,
        }
    } else if ["t0", "dt", "dta"].contains(&site.wrap.as_str()) {
        None // the template is never instantiated: no load or store of the type exists
    } else {
        Some(None)
    }
}

fn show_label(line: Option<usize>, lines: &ProgLines) -> String {
    match line {
        None => "?".into(),
        Some(l) => {
            if let Some(i) = lines.site_line.iter().position(|x| *x == l) {
                format!("G{}", i)
            } else if let Some(k) = lines.type_line.iter().position(|x| *x == l) {
                format!("T{}", k)
            } else {
                format!("L{}", l)
            }
        }
    }
}

fn run_prog(p: &Prog, out: &mut Out, hist: &mut Hist) {
    let req = show_prog(p);
    let (src, lines) = prog_source(p);
    let real = run_real_opts(&src, &p.target, p.pipe, p.opt);
    let line = match &real {
        Real::Unknown(l) | Real::Mismatch(l, _) => *l,
        _ => None,
    };
    let label = show_label(line, &lines);
    let obs = match &real {
        Real::Accepted | Real::AcceptedThenError(_) => "ok".to_string(),
        Real::Unknown(_) => format!("unknown@{}", label),
        Real::Mismatch(_, n) => format!("mismatch@{} hlsl={}/{} metal={}/{}", label, n[0], n[1], n[2], n[3]),
        Real::Error(_) => "error".to_string(),
        Real::Panic(m) => format!("panic:{}", m.splitn(2, ": ").nth(1).unwrap_or(m)),
    };
    // the oracle judges structures: every `$k` is replaced by what it names
    let xt = expand_table(&p.tys);
    // the element type at the site: the entry itself, or (sbtwo) the instance `WT<S>` = a struct with the one member S
    let site_tys: Vec<Ty> = p
        .sites
        .iter()
        .map(|s| if s.kind == "sbtwo" { Ty::Struct(vec![xt[s.ty].clone()]) } else { xt[s.ty].clone() })
        .collect();
    let uses: Vec<Use> = p
        .sites
        .iter()
        .enumerate()
        .filter_map(|(i, s)| {
            property_site(s).map(|c| Use { ty: &site_tys[i], site_class: c, what: format!("[{}]", show_site(s)) })
        })
        .collect();
    let blamed = match line {
        Some(l) => {
            if let Some(i) = lines.site_line.iter().position(|x| *x == l) {
                Blamed::Type(&site_tys[i])
            } else if let Some(k) = lines.type_line.iter().position(|x| *x == l) {
                Blamed::Type(&xt[k])
            } else {
                Blamed::Unlocated
            }
        }
        None => Blamed::Unlocated,
    };
    // with several types and no location the blamed one is not a structure (structures always have one)
    let all: Vec<Ty> = xt.clone();
    let (orc, class) = judge(&uses, &all, blamed, &real);
    if std::env::var("C19_DEBUG").is_ok() {
        eprintln!("--- {}\n{}", req, src);
    }
    hist.add(&format!("prog-class:{}", class));
    hist.add(&format!("prog-target:{}:{}", p.target, mode_name(p)));
    hist.add(&format!("prog-style:{}", if p.style == 0 { "plain" } else { "varied" }));
    hist.add(&format!("prog-types:{}", p.tys.len()));
    hist.add(&format!("prog-sites:{}", p.sites.len()));
    for s in &p.sites {
        if s.wrap.is_empty() {
            hist.add(&format!("site:{}", s.kind));
        } else {
            hist.add(&format!("site:{}", s.kind));
            hist.add(&format!("wrap:{}", s.wrap));
        }
    }
    for (k, t) in xt.iter().enumerate() {
        hist.add(&format!("depth:{}", depth(t)));
        note_shape(t, hist, true);
        count_refs(&p.tys[k], hist);
    }
    let shared = (0..p.tys.len()).filter(|k| p.tys.iter().any(|t| refers_to(t, *k))).count();
    hist.add(&format!("prog-shared-entries:{}", shared));
    out.case(&req, &obs, &orc);
}

// ------------------------------------------------------------------------------------------------
// running and statistics
// ------------------------------------------------------------------------------------------------
fn depth(t: &Ty) -> usize {
    match t {
        Ty::Struct(ms) => 1 + ms.iter().map(depth).max().unwrap_or(0),
        Ty::Arr(e, _) => depth(e),
        _ => 0,
    }
}

fn note_shape(t: &Ty, hist: &mut Hist, top: bool) {
    match t {
        Ty::Scalar(c) => hist.add(&format!("leaf:{}", scalar_name(*c))),
        Ty::Vec(c, n) => {
            hist.add(&format!("leaf:{}", scalar_name(*c)));
            hist.add(&format!("vec:{}", n));
        }
        Ty::Mat(c, r, k, m) => {
            hist.add("leaf:matrix");
            hist.add(&format!("matrix:{}{}x{}{}", c, r, k, m));
        }
        Ty::Undeclared(n) => hist.add(&format!("leaf:undeclared:{}", n)),
        Ty::Object(n) => hist.add(&format!("leaf:object:{}", n)),
        Ty::Enum(_) => hist.add("leaf:enum"),
        Ty::Arr(e, n) => {
            hist.add(&format!("array-len:{}", n));
            hist.add(match **e {
                Ty::Struct(_) => "array-of:struct",
                Ty::Arr(..) => "array-of:array",
                Ty::Vec(..) => "array-of:vector",
                _ => "array-of:scalar",
            });
            note_shape(e, hist, false);
        }
        Ty::Ref(..) => hist.add("leaf:ref"),
        Ty::Struct(ms) => {
            if top {
                hist.add(&format!("members:{}", ms.len()));
            } else {
                hist.add("nested-struct");
            }
            for m in ms {
                note_shape(m, hist, false);
            }
        }
    }
}

fn run_one(usage: &str, tys: &[Ty], out: &mut Out, hist: &mut Hist) {
    let req = format!(
        "C19.check\t{}\t{}",
        usage,
        tys.iter().map(show).collect::<Vec<_>>().join(";")
    );
    let (src, blame) = source(usage, tys);
    let real = run_real(&src, &blame);
    let (orc, class) = oracle(tys, &real);
    hist.add(&format!("use:{}", usage));
    hist.add(&format!("class:{}", class));
    hist.add(&format!("types:{}", tys.len()));
    for t in tys {
        hist.add(&format!("depth:{}", depth(t)));
        note_shape(t, hist, true);
    }
    out.case(&req, &show_real(&real), &orc);
}

// ------------------------------------------------------------------------------------------------
// generators
// ------------------------------------------------------------------------------------------------
const SCALARS: &[char] = &['h', 'i', 'u', 'f', 'd'];

fn leaves() -> Vec<Ty> {
    let mut v = Vec::new();
    for c in SCALARS {
        v.push(Ty::Scalar(*c));
        for n in 2..=4 {
            v.push(Ty::Vec(*c, n));
        }
    }
    v.push(Ty::Enum(false));
    v
}

fn random_leaf(rng: &mut Rng) -> Ty {
    match rng.below(20) {
        0 => Ty::Enum(rng.chance(1, 4)),
        1..=8 => Ty::Scalar(*rng.pick(SCALARS)),
        _ => Ty::Vec(*rng.pick(SCALARS), rng.range(2, 4) as u32),
    }
}

fn random_member(rng: &mut Rng, depth_left: u32) -> Ty {
    let t = if depth_left > 0 && rng.chance(1, 4) {
        random_struct(rng, depth_left - 1, 4)
    } else {
        random_leaf(rng)
    };
    if rng.chance(1, 5) {
        let inner = Ty::Arr(Box::new(t), rng.range(1, 4) as u64);
        if rng.chance(1, 8) {
            Ty::Arr(Box::new(inner), rng.range(1, 3) as u64)
        } else {
            inner
        }
    } else {
        t
    }
}

/// struct of nesting depth <= depth_left + 1 with 1..=max_members members
fn random_struct(rng: &mut Rng, depth_left: u32, max_members: i64) -> Ty {
    let n = rng.range(1, max_members);
    Ty::Struct((0..n).map(|_| random_member(rng, depth_left)).collect())
}

/// structs biased towards the interesting region: member sizes that sum to equal totals
fn random_tight_struct(rng: &mut Rng) -> Ty {
    // few distinct scalar types, vectors of 2 and 4, so that both rules often give the same size
    let pool: Vec<Ty> = match rng.below(3) {
        0 => vec![Ty::Scalar('f'), Ty::Vec('f', 2), Ty::Vec('f', 4), Ty::Scalar('d'), Ty::Scalar('u')],
        1 => vec![Ty::Scalar('h'), Ty::Vec('h', 2), Ty::Vec('h', 4), Ty::Scalar('f'), Ty::Vec('h', 3)],
        _ => vec![Ty::Scalar('i'), Ty::Vec('u', 2), Ty::Vec('d', 2), Ty::Scalar('d'), Ty::Vec('f', 3), Ty::Scalar('f')],
    };
    let n = rng.range(2, 6);
    let mut ms: Vec<Ty> = (0..n).map(|_| rng.pick(&pool).clone()).collect();
    if rng.chance(1, 3) {
        let k = rng.below(ms.len() as u64) as usize;
        let inner_n = rng.range(1, 3);
        ms[k] = Ty::Struct((0..inner_n).map(|_| rng.pick(&pool).clone()).collect());
    }
    if rng.chance(1, 6) {
        let k = rng.below(ms.len() as u64) as usize;
        ms[k] = Ty::Arr(Box::new(ms[k].clone()), rng.range(1, 4) as u64);
    }
    Ty::Struct(ms)
}

pub fn run(args: &Args, out: &mut Out) {
    let mut hist = Hist::default();
    if let Some(lines) = args.request_lines() {
        for line in lines {
            let f: Vec<&str> = line.split('\t').collect();
            if f.first() == Some(&"C19.ref") && f.len() == 2 {
                // the two reference calculators on one type (cross-checked against Spec/LayoutFull.lean)
                let obs = match parse_types(f[1]) {
                    Some(tys) if tys.len() == 1 => {
                        let one = |r: Rule| match ref_layout(r, &tys[0]) {
                            Some(l) => format!(
                                "{}/{}/{}",
                                l.size,
                                l.align,
                                l.fields.iter().map(|(_, o)| o.to_string()).collect::<Vec<_>>().join(",")
                            ),
                            None => "none".into(),
                        };
                        format!("h={} m={}", one(Rule::HlslSB), one(Rule::Metal))
                    }
                    _ => "bad-request".into(),
                };
                out.case(&line, &obs, "ok");
                continue;
            }
            if f.first() == Some(&"C19.raw") && f.len() == 3 {
                // a hand-written program (`\n` = line break), for probing what the front end builds; not judged and
                // not modelled (the model answers `unsupported-op`)
                let src = f[2].replace("\\n", "\n");
                let real = run_real_lines(&src, f[1], false);
                let obs = match &real {
                    Real::Accepted => "ok".to_string(),
                    Real::AcceptedThenError(e) => format!("ok-then:{}", e),
                    Real::Unknown(l) => format!("unknown@L{}", show_k(*l)),
                    Real::Mismatch(l, n) => format!("mismatch@L{} hlsl={}/{} metal={}/{}", show_k(*l), n[0], n[1], n[2], n[3]),
                    Real::Error(e) => format!("error:{}", e),
                    Real::Panic(m) => format!("panic:{}", m),
                };
                out.case(&line, &obs, "ok");
                continue;
            }
            if f.first() == Some(&"C19.prog") {
                match parse_prog(&f) {
                    Some(p) => run_prog(&p, out, &mut hist),
                    None => out.case(&line, "bad-request", "SKIP:bad request"),
                }
                continue;
            }
            if f.len() != 3 || f[0] != "C19.check" || !USES.contains(&f[1]) {
                out.case(&line, "bad-request", "SKIP:bad request");
                continue;
            }
            match parse_types(f[2]) {
                Some(tys) if tys.iter().any(|t| show(t).split(|c: char| !c.is_alphanumeric()).any(|w| w == "v")) => {
                    out.case(&line, "bad-request", "SKIP:bad request")
                }
                Some(tys) => run_one(f[1], &tys, out, &mut hist),
                None => out.case(&line, "bad-request", "SKIP:bad request"),
            }
        }
        out.stat(&format!("{{\"stream\":\"requests\",\"hist\":{}}}", hist.json()));
        return;
    }
    let mut rng = Rng::new(args.seed);
    let thorough = args.thorough();
    let lv = leaves();

    // 1. every leaf type on its own and every flat struct with 1 and 2 members (exhaustive)
    for a in &lv {
        if !matches!(a, Ty::Enum(_)) {
            // an enum cannot be a structured buffer's element type
            run_one("sb", &[a.clone()], out, &mut hist);
        }
        run_one("sb", &[Ty::Struct(vec![a.clone()])], out, &mut hist);
    }
    for a in &lv {
        for b in &lv {
            run_one("sb", &[Ty::Struct(vec![a.clone(), b.clone()])], out, &mut hist);
        }
    }
    // 2. three members: exhaustive in the thorough tier, a sample otherwise
    let mut triples = Vec::new();
    for a in &lv {
        for b in &lv {
            for c in &lv {
                triples.push(Ty::Struct(vec![a.clone(), b.clone(), c.clone()]));
            }
        }
    }
    let n3 = if thorough { triples.len() } else { 600 };
    for k in 0..n3 {
        let t = if thorough { triples[k].clone() } else { rng.pick(&triples).clone() };
        run_one("sb", &[t], out, &mut hist);
    }
    // 3. depth 2: { {a b} c }, { c {a b} }, { [n {a b}] }, { [n a] b } over a reduced alphabet
    let small: Vec<Ty> = vec![
        Ty::Scalar('h'), Ty::Scalar('f'), Ty::Scalar('d'), Ty::Vec('h', 2), Ty::Vec('f', 2),
        Ty::Vec('f', 3), Ty::Vec('f', 4), Ty::Vec('h', 3), Ty::Enum(false),
    ];
    let mut d2 = Vec::new();
    for a in &small {
        for b in &small {
            let inner = Ty::Struct(vec![a.clone(), b.clone()]);
            for c in &small {
                d2.push(Ty::Struct(vec![inner.clone(), c.clone()]));
                d2.push(Ty::Struct(vec![c.clone(), inner.clone()]));
            }
            for n in 1..=4u64 {
                d2.push(Ty::Struct(vec![Ty::Arr(Box::new(inner.clone()), n)]));
                d2.push(Ty::Struct(vec![Ty::Arr(Box::new(a.clone()), n), b.clone()]));
            }
        }
    }
    let nd2 = if thorough { d2.len() } else { 500 };
    for k in 0..nd2 {
        let t = if thorough { d2[k].clone() } else { rng.pick(&d2).clone() };
        run_one("sb", &[t], out, &mut hist);
    }
    // 4. random structs to depth 3 with 1-6 members, arrays 1-4, nested structs, enums; all uses
    let n = args.n.unwrap_or(if thorough { 150000 } else { 2500 });
    for k in 0..n {
        let usage = if k % 3 == 0 { *rng.pick(USES) } else { "sb" };
        let count = if rng.chance(1, 8) { rng.range(2, 3) } else { 1 };
        let mut tys = Vec::new();
        for _ in 0..count {
            let t = match rng.below(10) {
                0..=3 => random_tight_struct(&mut rng),
                4..=8 => random_struct(&mut rng, 2, 6),
                _ => random_struct(&mut rng, 1, 3),
            };
            tys.push(t);
        }
        // now and then a member without a layout (bool / matrix): the "unknown size" verdict
        if rng.chance(1, 40) {
            if let Ty::Struct(ms) = &mut tys[0] {
                let bad = if rng.chance(1, 2) { Ty::Scalar('b') } else { Ty::Mat('f', 2, 2, '-') };
                let at = rng.below(ms.len() as u64 + 1) as usize;
                ms.insert(at, bad);
            }
        }
        run_one(usage, &tys, out, &mut hist);
    }
    prog_streams(args, &mut rng, out, &mut hist);
    out.stat(&format!(
        "{{\"stream\":\"generated\",\"tier\":{},\"seed\":{},\"hist\":{}}}",
        json_str(&args.tier),
        args.seed,
        hist.json()
    ));
}

// ------------------------------------------------------------------------------------------------
// generators for whole programs
// ------------------------------------------------------------------------------------------------
const WIDE_SCALARS: &[char] = &['h', 'i', 'u', 'f', 'd', 'b'];
const MAJORS: &[char] = &['-', 'r', 'c'];
const UNDECLARED: &[&str] = &[
    "float16_t", "float32_t", "float64_t", "int16_t", "uint16_t", "int64_t", "uint64_t", "min16float", "min10float",
    "min16int", "min12int", "min16uint", "uint8_t", "long", "unsigned", "short", "char", "size_t",
];

fn all_sites() -> Vec<(String, String)> {
    let mut v: Vec<(String, String)> = GLOBAL_KINDS.iter().map(|k| (k.to_string(), String::new())).collect();
    for k in FN_KINDS {
        for w in WRAPS {
            let plain_load = ["bload", "rwbload", "baload", "rwbaload"].contains(k);
            let load = plain_load || ["bload2", "rwbload2"].contains(k);
            if (["gi", "da", "dt", "dta", "pd", "sl"].contains(w) && !plain_load) || (*w == "ex" && !load) {
                continue;
            }
            v.push((k.to_string(), w.to_string()));
        }
    }
    v
}

fn wide_leaf(rng: &mut Rng) -> Ty {
    match rng.below(24) {
        0 => {
            if rng.chance(1, 3) { Ty::Object(rng.pick(OBJECTS).to_string()) } else { Ty::Enum(rng.chance(1, 3)) }
        }
        1..=8 => Ty::Scalar(*rng.pick(WIDE_SCALARS)),
        9..=18 => Ty::Vec(*rng.pick(WIDE_SCALARS), rng.range(1, 4) as u32),
        _ => Ty::Mat(*rng.pick(WIDE_SCALARS), rng.range(1, 4) as u32, rng.range(1, 4) as u32, *rng.pick(MAJORS)),
    }
}

/// the property's grid widened: bool, 1-vectors, matrices, empty structs, arrays of arrays of arrays, any depth
fn wide_struct(rng: &mut Rng, depth_left: u32, max_members: i64, exotic: u64) -> Ty {
    if rng.chance(1, 40) {
        return Ty::Struct(vec![]);
    }
    let n = rng.range(1, max_members);
    let mut ms = Vec::new();
    for _ in 0..n {
        let mut t = if depth_left > 0 && rng.chance(1, 3) {
            wide_struct(rng, depth_left - 1, 4, exotic)
        } else if rng.chance(exotic, 100) {
            wide_leaf(rng)
        } else {
            random_leaf(rng)
        };
        let mut dims = 0;
        while dims < 3 && rng.chance(1, 5) {
            t = Ty::Arr(Box::new(t), rng.range(1, 4) as u64);
            dims += 1;
        }
        ms.push(t);
    }
    Ty::Struct(ms)
}

/// a chain of structs nested `depth` deep with a vector at the bottom, so that tail padding matters at every level
fn deep_chain(rng: &mut Rng, depth: u32) -> Ty {
    let mut t = Ty::Struct(vec![random_leaf(rng), random_leaf(rng)]);
    for _ in 1..depth {
        let mut ms = vec![t];
        if rng.chance(1, 2) {
            ms.insert(if rng.chance(1, 2) { 0 } else { 1 }, random_leaf(rng));
        }
        if rng.chance(1, 4) {
            let k = rng.below(ms.len() as u64) as usize;
            ms[k] = Ty::Arr(Box::new(ms[k].clone()), rng.range(1, 3) as u64);
        }
        t = Ty::Struct(ms);
    }
    t
}

/// a random structure whose two reference layouts agree
fn agreeing_struct(rng: &mut Rng) -> Ty {
    for _ in 0..40 {
        let t = match rng.below(4) {
            0 => random_struct(rng, 2, 4),
            1 => wide_struct(rng, 2, 4, 10),
            _ => random_tight_struct(rng),
        };
        if agrees(&t) == Some(true) {
            return t;
        }
    }
    // no vectors: the two rule sets coincide
    let n = rng.range(1, 5);
    Ty::Struct((0..n).map(|_| Ty::Scalar(*rng.pick(SCALARS))).collect())
}

fn prog_streams(args: &Args, rng: &mut Rng, out: &mut Out, hist: &mut Hist) {
    let thorough = args.thorough();
    let sites = all_sites();
    let bad = Ty::Struct(vec![Ty::Scalar('f'), Ty::Vec('f', 2)]); // 12 bytes in HLSL, 16 in Metal
    let bad2 = Ty::Struct(vec![Ty::Scalar('h'), Ty::Vec('h', 2), Ty::Scalar('f')]); // 12 / 12, offsets differ
    let good = Ty::Struct(vec![Ty::Scalar('f'), Ty::Scalar('f')]);
    let targets = ["vk", "dx", "msl"];
    let mk = |target: &str, pipe: bool, style: u64, tys: Vec<Ty>, ss: Vec<(&(String, String), usize)>| Prog {
        target: target.into(),
        pipe,
        opt: false,
        style,
        tys,
        sites: ss.into_iter().map(|(s, k)| Site { kind: s.0.clone(), wrap: s.1.clone(), ty: k }).collect(),
    };
    // P1. every kind of site on its own with a structure whose two layouts differ, on every target, in both modes;
    //     and with one whose layouts agree
    for s in &sites {
        for t in targets {
            for pipe in [false, true] {
                run_prog(&mk(t, pipe, 0, vec![bad.clone()], vec![(s, 0)]), out, hist);
                if thorough {
                    run_prog(&mk(t, pipe, 0, vec![bad2.clone()], vec![(s, 0)]), out, hist);
                    run_prog(&mk(t, pipe, 0, vec![good.clone()], vec![(s, 0)]), out, hist);
                }
            }
        }
        run_prog(&mk("vk", false, 0, vec![good.clone()], vec![(s, 0)]), out, hist);
        run_prog(&mk("msl", true, rng.next() | 1, vec![bad2.clone()], vec![(s, 0)]), out, hist);
        // the other option values of compile(): source info, a define, buffer addresses only when needed, one of two
        // pipelines picked by name
        for t in targets {
            for pipe in [false, true] {
                let mut p = mk(t, pipe, 0, vec![bad.clone()], vec![(s, 0)]);
                p.opt = true;
                run_prog(&p, out, hist);
            }
        }
    }
    // P2. two sites: an agreeing structure at one and a differing one at the other, in both orders; the same
    //     differing structure first at a site validation ignores and then at one it must look at (and vice versa)
    for s in &sites {
        let reps = if thorough { 6 } else { 1 };
        for _ in 0..reps {
            let other = rng.pick(&sites).clone();
            let t = *rng.pick(&targets);
            let pipe = rng.chance(1, 2);
            let style = if rng.chance(1, 2) { 0 } else { rng.next() | 1 };
            let opt = rng.chance(1, 3);
            let mko = |tys: Vec<Ty>, ss: Vec<(&(String, String), usize)>| {
                let mut p = mk(t, pipe, style, tys, ss);
                p.opt = opt;
                p
            };
            run_prog(&mko(vec![good.clone(), bad.clone()], vec![(&other, 0), (s, 1)]), out, hist);
            run_prog(&mko(vec![good.clone(), bad.clone()], vec![(s, 1), (&other, 0)]), out, hist);
            run_prog(&mko(vec![bad.clone()], vec![(&other, 0), (s, 0)]), out, hist);
            run_prog(&mko(vec![bad2.clone(), bad.clone()], vec![(&other, 0), (s, 1)]), out, hist);
        }
    }
    // P3. the widened type universe, one member type at a time, through a structured buffer and a typed load
    let mut wide = Vec::new();
    for c in WIDE_SCALARS {
        wide.push(Ty::Scalar(*c));
        for n in 1..=4 {
            wide.push(Ty::Vec(*c, n));
        }
        for r in 1..=4 {
            for k in 1..=4 {
                for m in MAJORS {
                    wide.push(Ty::Mat(*c, r, k, *m));
                }
            }
        }
    }
    wide.push(Ty::Enum(false));
    wide.push(Ty::Enum(true));
    wide.push(Ty::Struct(vec![]));
    for u in UNDECLARED {
        wide.push(Ty::Undeclared(u.to_string()));
    }
    for o in OBJECTS {
        wide.push(Ty::Object(o.to_string()));
    }
    let sb = ("sb".to_string(), String::new());
    let ld = ("bload".to_string(), "m".to_string());
    let st = ("rwbastore".to_string(), "u".to_string());
    for (j, w) in wide.iter().enumerate() {
        let is_mat = matches!(w, Ty::Mat(..));
        if is_mat && !thorough && !rng.chance(1, 4) {
            continue;
        }
        let shapes = vec![
            Ty::Struct(vec![w.clone()]),
            Ty::Struct(vec![w.clone(), Ty::Scalar('f')]),
            Ty::Struct(vec![Ty::Scalar('h'), w.clone()]),
            Ty::Struct(vec![Ty::Arr(Box::new(w.clone()), 3), Ty::Scalar('i')]),
            Ty::Struct(vec![Ty::Scalar('f'), Ty::Struct(vec![w.clone()]), Ty::Scalar('f')]),
        ];
        for (q, shape) in shapes.into_iter().enumerate() {
            if !thorough && q >= 3 && !rng.chance(1, 3) {
                continue;
            }
            let site = match (j + q) % 3 {
                0 => &sb,
                1 => &ld,
                _ => &st,
            };
            let style = if (j + q) % 2 == 0 { 0 } else { rng.next() | 1 };
            run_prog(&mk(targets[(j + q) % 3], q % 2 == 1, style, vec![shape], vec![(site, 0)]), out, hist);
        }
        // the leaf itself as the element type, where the language allows it
        if !matches!(w, Ty::Struct(_) | Ty::Object(_)) {
            run_prog(&mk("vk", false, 0, vec![w.clone()], vec![(&ld, 0)]), out, hist);
            if !matches!(w, Ty::Enum(_)) {
                run_prog(&mk("msl", false, 0, vec![w.clone()], vec![(&sb, 0)]), out, hist);
            }
        }
    }
    // `void` as the type argument of a typed load: no layout, a clean diagnostic
    for k in ["bload", "bload2", "rwbload", "rwbload2", "baload", "rwbaload"] {
        for w in ["m", "u", "me", "p", "a"] {
            let site = (k.to_string(), w.to_string());
            run_prog(&mk(*rng.pick(&targets), rng.chance(1, 2), 0, vec![Ty::Scalar('v')], vec![(&site, 0)]), out, hist);
            run_prog(
                &mk("vk", false, 0, vec![good.clone(), Ty::Scalar('v'), bad.clone()], vec![(&sb, 0), (&site, 1), (&ld, 2)]),
                out,
                hist,
            );
        }
    }
    // P4. nesting depth 4-7
    let n_deep = if thorough { 4000 } else { 200 };
    for k in 0..n_deep {
        let t = deep_chain(rng, 4 + (k % 4) as u32);
        let site = rng.pick(&sites).clone();
        let style = if rng.chance(1, 2) { 0 } else { rng.next() | 1 };
        let mut p = mk(*rng.pick(&targets), rng.chance(1, 2), style, vec![t], vec![(&site, 0)]);
        p.opt = rng.chance(1, 3);
        run_prog(&p, out, hist);
    }
    // P5. random programs: 1-3 types, 1-5 sites of any kind
    let n = if thorough { 60000 } else { 1500 };
    for _ in 0..n {
        let nt = rng.range(1, 3) as usize;
        let mut tys = Vec::new();
        // half of the programs: every structure agrees except (perhaps) one, so that a use site validation does not
        // look at decides the verdict
        let mostly_agreeing = rng.chance(1, 2);
        let odd_one = if rng.chance(3, 4) { rng.below(nt as u64) as usize } else { usize::MAX };
        for k in 0..nt {
            if mostly_agreeing && k != odd_one {
                tys.push(agreeing_struct(rng));
                continue;
            }
            tys.push(match rng.below(10) {
                0..=2 => random_tight_struct(rng),
                3..=5 => random_struct(rng, 2, 5),
                6..=7 => wide_struct(rng, 3, 5, 25),
                8 => wide_struct(rng, 1, 3, 60),
                _ => {
                    // a non-structure at the top: vector, enum, array of structs (typed loads / stores only)
                    match rng.below(3) {
                        0 => wide_leaf(rng),
                        1 => Ty::Arr(Box::new(random_tight_struct(rng)), rng.range(1, 3) as u64),
                        _ => Ty::Arr(Box::new(random_leaf(rng)), rng.range(1, 4) as u64),
                    }
                }
            });
        }
        let ns = rng.range(1, 5) as usize;
        let mut ss = Vec::new();
        for _ in 0..ns {
            let k = rng.below(nt as u64) as usize;
            let top_struct = matches!(tys[k], Ty::Struct(_));
            // structured buffers need a struct / scalar / vector / matrix element; everything else goes through a load
            let s = loop {
                let s = rng.pick(&sites);
                let needs_struct = s.1.is_empty() && !["gv", "gs", "st", "cbuf"].contains(&s.0.as_str());
                if top_struct || !needs_struct || matches!(tys[k], Ty::Scalar(_) | Ty::Vec(..) | Ty::Mat(..)) && s.0 != "cb" {
                    break s;
                }
            };
            ss.push((s, k));
        }
        let style = if rng.chance(1, 2) { 0 } else { rng.next() | 1 };
        let mut p = mk(*rng.pick(&targets), rng.chance(1, 3), style, tys.clone(), ss);
        p.opt = rng.chance(1, 3);
        run_prog(&p, out, hist);
    }
    // P6. many: 8-24 sites over 3-6 types, the one differing structure (if any) anywhere; one struct of 10-24 members
    let n = if thorough { 4000 } else { 150 };
    for q in 0..n {
        if q % 2 == 0 {
            // many TYPES: 9-14 checked element types, every one agreeing but one near the end (or the very last)
            let nt = rng.range(9, 14) as usize;
            let odd = if rng.chance(1, 2) { nt - 1 } else { nt - 1 - rng.below(3) as usize };
            let mut tys = Vec::new();
            for k in 0..nt {
                tys.push(if k == odd { if rng.chance(1, 2) { bad.clone() } else { random_struct(rng, 2, 4) } } else { agreeing_struct(rng) });
            }
            let plain: Vec<(String, String)> = ["sb", "rwsb", "sbns", "sbex", "sbst", "sbreg", "sbmulti"]
                .iter()
                .map(|k| (k.to_string(), String::new()))
                .collect();
            let loads: Vec<(String, String)> =
                ["m", "pf", "mt", "hb", "lp"].iter().map(|w| ("rwbload".to_string(), w.to_string())).collect();
            let pool = if rng.chance(1, 2) { &plain } else { &loads };
            let ss: Vec<(&(String, String), usize)> = (0..nt).map(|k| (rng.pick(pool), k)).collect();
            let mut p = mk(*rng.pick(&targets), rng.chance(1, 3), 0, tys, ss);
            p.opt = rng.chance(1, 3);
            run_prog(&p, out, hist);
            continue;
        }
        let nt = rng.range(3, 6) as usize;
        let odd_one = if rng.chance(3, 4) { rng.below(nt as u64) as usize } else { usize::MAX };
        let mut tys = Vec::new();
        for k in 0..nt {
            tys.push(if k == odd_one {
                if q % 3 == 0 {
                    Ty::Struct((0..rng.range(10, 24)).map(|_| random_leaf(rng)).collect())
                } else {
                    random_struct(rng, 2, 5)
                }
            } else if q % 3 == 1 && k == 0 {
                Ty::Struct((0..rng.range(10, 24)).map(|_| Ty::Scalar(*rng.pick(SCALARS))).collect())
            } else {
                agreeing_struct(rng)
            });
        }
        let ns = rng.range(8, 24) as usize;
        let mut ss = Vec::new();
        for _ in 0..ns {
            ss.push((rng.pick(&sites), rng.below(nt as u64) as usize));
        }
        let style = if rng.chance(1, 2) { 0 } else { rng.next() | 1 };
        let mut p = mk(*rng.pick(&targets), rng.chance(1, 3), style, tys, ss);
        p.opt = rng.chance(1, 3);
        run_prog(&p, out, hist);
    }
    sharing_streams(args, rng, out, hist);
}

/// `{pre? member post?}`
fn in_context(pre: &Option<Ty>, member: Ty, post: &Option<Ty>) -> Vec<Ty> {
    let mut ms = Vec::new();
    if let Some(p) = pre {
        ms.push(p.clone());
    }
    ms.push(member);
    if let Some(p) = post {
        ms.push(p.clone());
    }
    ms
}

/// One compilation with SEVERAL checked element types that share struct definitions: the same struct (empty, small,
/// nested) is a member of 2-4 checked types and occurs several times inside one type, in different alignment
/// contexts; several buffers and typed loads in one program, in every order. The layout of a struct must not depend
/// on what was laid out before it (no state between the queries): a first query whose result is hidden in padding
/// followed by one where it decides the size / an offset.
fn sharing_streams(args: &Args, rng: &mut Rng, out: &mut Out, hist: &mut Hist) {
    let thorough = args.thorough();
    let sites = all_sites();
    let targets = ["vk", "dx", "msl"];
    let site = |k: &str, w: &str| (k.to_string(), w.to_string());
    let mk = |target: &str, pipe: bool, style: u64, tys: Vec<Ty>, ss: Vec<((String, String), usize)>| Prog {
        target: target.into(),
        pipe,
        opt: false,
        style,
        tys,
        sites: ss.into_iter().map(|(s, k)| Site { kind: s.0, wrap: s.1, ty: k }).collect(),
    };
    let sc = |c: char| Ty::Scalar(c);
    let pres: Vec<Option<Ty>> =
        vec![None, Some(sc('h')), Some(sc('u')), Some(Ty::Vec('f', 2)), Some(sc('d')), Some(Ty::Vec('h', 3))];
    let posts: Vec<Option<Ty>> =
        vec![None, Some(sc('h')), Some(sc('f')), Some(sc('u')), Some(Ty::Vec('f', 2)), Some(sc('d'))];
    let mut contexts = Vec::new();
    for a in &pres {
        for b in &posts {
            contexts.push((a.clone(), b.clone()));
        }
    }
    // the pairs of use sites the two checked types sit at: the type that is CHECKED first is the one at the earlier
    // global, else the one loaded in the function that is type checked first (functions before main)
    let site_pairs: Vec<((String, String), (String, String))> = vec![
        (site("sb", ""), site("sb", "")),
        (site("sb", ""), site("bload", "m")),
        (site("bload", "m"), site("rwsb", "")),
        (site("bload", "m"), site("rwbload", "m")),
        (site("rwbstore", "m"), site("bload", "u")),
        (site("baload", "u"), site("rwbastore", "u")),
        (site("sbarr", ""), site("sbc", "")),
        (site("bload", "t"), site("bload2", "ex")),
        (site("rwbload", "me"), site("sbtd", "")),
        (site("bload", "gi"), site("bload", "da")),
        (site("sbarrtd", ""), site("rwbaload", "p")),
        (site("rwbstoret", "a"), site("sbbl", "")),
    ];
    // S1. one shared sub-struct, two checked structs, every pair of contexts (in both orders by construction);
    //     S2. the same two contexts inside ONE checked struct. Exhaustive for the empty struct; the other shared
    //     structs are sampled in the quick tier.
    let shared_pool: Vec<Ty> = vec![
        Ty::Struct(vec![]),
        Ty::Struct(vec![sc('h')]),
        Ty::Struct(vec![Ty::Vec('f', 2), sc('f')]),
        Ty::Struct(vec![Ty::Vec('h', 3)]),
        Ty::Struct(vec![Ty::Struct(vec![])]),
        Ty::Struct(vec![sc('f'), Ty::Struct(vec![])]),
        Ty::Struct(vec![sc('d'), sc('h')]),
        Ty::Struct(vec![Ty::Arr(Box::new(Ty::Struct(vec![])), 2)]),
        // shared definitions that are not structs: one enum (the same `EnumId`), a typedef'd array, a vector
        Ty::Enum(false),
        Ty::Arr(Box::new(sc('h')), 3),
        Ty::Arr(Box::new(Ty::Struct(vec![sc('f'), Ty::Struct(vec![])])), 2),
        Ty::Vec('h', 3),
    ];
    let mut n = 0usize;
    for (si, shared) in shared_pool.iter().enumerate() {
        for (ia, ca) in contexts.iter().enumerate() {
            for (ib, cb) in contexts.iter().enumerate() {
                n += 1;
                if si > 0 && !thorough && !rng.chance(1, 12) {
                    continue;
                }
                let (sa, sb) = site_pairs[(ia * 7 + ib + si) % site_pairs.len()].clone();
                // a member is the shared struct itself, now and then an array of it
                let member = |k: usize| {
                    if (ia + 2 * ib + k) % 9 == 4 {
                        Ty::Arr(Box::new(Ty::Ref(0, false)), 1 + ((ia + ib) % 3) as u64)
                    } else {
                        Ty::Ref(0, false)
                    }
                };
                let a = Ty::Struct(in_context(&ca.0, member(0), &ca.1));
                let b = Ty::Struct(in_context(&cb.0, member(1), &cb.1));
                let t = targets[n % 3];
                let pipe = n % 5 == 0;
                let style = if n % 4 == 0 { rng.next() | 1 } else { 0 };
                // now and then the shared struct is a checked element type itself: after the types that contain it
                // (it was laid out as a member before), between them, or first
                let mut ss = vec![(sa.clone(), 1), (sb.clone(), 2)];
                let shared_is_struct = matches!(shared, Ty::Struct(_));
                if (ia + ib) % 4 == 1 && shared_is_struct {
                    let sx = site_pairs[(ia + 3 * ib) % site_pairs.len()].0.clone();
                    ss.insert((ia + ib / 4) % 3, (sx, 0));
                }
                run_prog(&mk(t, pipe, style, vec![shared.clone(), a, b], ss), out, hist);
                let mut both = in_context(&ca.0, member(0), &ca.1);
                both.extend(in_context(&cb.0, member(1), &cb.1));
                let mut ss = vec![(sa, 1)];
                if (ia + ib) % 4 == 3 && shared_is_struct {
                    ss.insert((ia / 2) % 2, (sb, 0));
                }
                run_prog(&mk(t, pipe, style, vec![shared.clone(), Ty::Struct(both)], ss), out, hist);
            }
        }
    }
    // S3. random type tables with systematic sharing: every entry after the first is built from earlier entries
    //     (members, arrays of them, several times), 2-4 of the entries are checked at 2-5 sites in random order
    let n3 = if thorough { 40000 } else { 1200 };
    for _ in 0..n3 {
        // scalars only: the two rule sets agree except for what the empty structs do
        let calm = rng.chance(1, 2);
        let leaf = |rng: &mut Rng| if calm { Ty::Scalar(*rng.pick(SCALARS)) } else { random_leaf(rng) };
        let nt = rng.range(3, 6) as usize;
        let mut tys: Vec<Ty> = Vec::new();
        tys.push(match rng.below(6) {
            0 | 1 => Ty::Struct(vec![]),
            2 => rng.pick(&shared_pool).clone(),
            3 if !calm => rng.pick(&shared_pool).clone(),
            3 => Ty::Struct(vec![leaf(rng)]),
            4 => Ty::Struct(vec![leaf(rng), leaf(rng)]),
            _ => agreeing_struct(rng),
        });
        // (a const-qualified name is only used as a whole element type: an array of it or a variable initialised from
        // it runs into unrelated diagnostics of the type checker)
        let plain_entry = |tys: &Vec<Ty>, rng: &mut Rng, j: usize| -> usize {
            let is_const = |j: usize| {
                let mut j = j;
                loop {
                    match &tys[j] {
                        Ty::Ref(_, true) => return true,
                        Ty::Ref(i, false) => j = *i,
                        _ => return false,
                    }
                }
            };
            let mut j = j;
            for _ in 0..8 {
                if !is_const(j) {
                    return j;
                }
                j = rng.below(j as u64 + 1) as usize;
            }
            0
        };
        for k in 1..nt {
            let r = rng.below(20);
            if r == 0 {
                tys.push(Ty::Ref(rng.below(k as u64) as usize, rng.chance(1, 2)));
                continue;
            }
            if r == 1 {
                let j0 = rng.below(k as u64) as usize;
                let j = plain_entry(&tys, rng, j0);
                tys.push(Ty::Arr(Box::new(Ty::Ref(j, false)), rng.range(1, 3) as u64));
                continue;
            }
            if r == 2 {
                // a second small struct to share
                tys.push(if rng.chance(1, 2) { Ty::Struct(vec![]) } else { Ty::Struct(vec![leaf(rng)]) });
                continue;
            }
            let nm = rng.range(1, 6);
            let mut ms = Vec::new();
            let mut has_ref = false;
            for _ in 0..nm {
                if rng.chance(2, 5) {
                    // recent entries more often: chains of nesting
                    let j = if rng.chance(1, 2) { k - 1 } else { rng.below(k as u64) as usize };
                    let j = plain_entry(&tys, rng, j);
                    let mut m = Ty::Ref(j, false);
                    if rng.chance(1, 5) {
                        m = Ty::Arr(Box::new(m), rng.range(1, 3) as u64);
                    }
                    ms.push(m);
                    has_ref = true;
                } else {
                    ms.push(leaf(rng));
                }
            }
            if !has_ref {
                let at = rng.below(ms.len() as u64 + 1) as usize;
                let j0 = rng.below(k as u64) as usize;
                let j = plain_entry(&tys, rng, j0);
                ms.insert(at, Ty::Ref(j, false));
            }
            tys.push(Ty::Struct(ms));
        }
        let xt = expand_table(&tys);
        let ns = rng.range(2, 5) as usize;
        let mut ss = Vec::new();
        for _ in 0..ns {
            // later entries (the ones that share) more often
            let k = if rng.chance(2, 3) { rng.range(1, nt as i64 - 1) as usize } else { rng.below(nt as u64) as usize };
            let top_struct = matches!(xt[k], Ty::Struct(_));
            let s = loop {
                let s = if rng.chance(1, 2) {
                    rng.pick(&sites).clone()
                } else {
                    // the sites validation looks at
                    let p = rng.pick(&site_pairs);
                    if rng.chance(1, 2) { p.0.clone() } else { p.1.clone() }
                };
                let needs_struct = s.1.is_empty() && !["gv", "gs", "st", "cbuf"].contains(&s.0.as_str());
                if top_struct || !needs_struct {
                    break s;
                }
            };
            ss.push((s, k));
        }
        let style = if rng.chance(2, 3) { 0 } else { rng.next() | 1 };
        run_prog(&mk(*rng.pick(&targets), rng.chance(1, 4), style, tys, ss), out, hist);
    }
    // S4. one struct under several names: itself, a typedef, a typedef of the const-qualified type, a typedef of
    //     that; two uses through two of the names (the same type id: checked once, at its first use; a different
    //     one: checked twice), first use inside a function nobody calls included
    let names: Vec<Ty> = vec![Ty::Ref(0, false), Ty::Ref(0, true), Ty::Ref(2, false)];
    let alias_sites: Vec<(String, String)> = vec![
        site("sb", ""), site("rwsb", ""), site("sbc", ""), site("sbarr", ""), site("sbarrtd2", ""), site("cb", ""),
        site("gv", ""), site("bload", "m"), site("bload", "u"), site("rwbstore", "u"), site("baload", "t"),
        site("bload", "t0"), site("rwbload", "me"), site("bload2", "ex"), site("rwbaload", "da"),
    ];
    let differing = Ty::Struct(vec![sc('f'), Ty::Vec('f', 2)]);
    let agreeing = Ty::Struct(vec![sc('f'), sc('f')]);
    let with_empty = Ty::Struct(vec![sc('u'), Ty::Struct(vec![]), sc('u')]);
    for base in [&differing, &agreeing, &with_empty] {
        for s1 in &alias_sites {
            for s2 in &alias_sites {
                for a in 0..4usize {
                    for b in 0..4usize {
                        if !thorough && !rng.chance(1, 18) {
                            continue;
                        }
                        let mut tys = vec![base.clone()];
                        tys.extend(names.iter().cloned());
                        let t = *rng.pick(&targets);
                        run_prog(
                            &mk(t, rng.chance(1, 4), 0, tys, vec![(s1.clone(), a), (s2.clone(), b)]),
                            out,
                            hist,
                        );
                    }
                }
            }
        }
    }
}

import RsslVerif.Lemmas.ConstEvalNoPanic
import RsslVerif.Gen.EvalSites
import RsslVerif.Lemmas.ConstEvalFloatRound
import RsslVerif.Lemmas.ConstPosEnum
import RsslVerif.Lemmas.ConstBinop
import RsslVerif.Lemmas.InstCache
/-!
# C13 — compile-time constant evaluation matches run-time semantics

Theorems about `Model.ConstEval.eval` — the model of `evaluate_constexpr` / `evaluate_operator` /
`evaluate_cast` (typer/src/evaluator.rs) whose per-arm arithmetic is read from `Gen.EvalTable`, regenerated
from the Rust source on every run — against `Spec.HlslConst.eval`, the value HLSL defines.

All statements quantify over *every* expression tree (no depth bound) and every operand value.
`wfE e` ("well-formed") only says that the constants occurring in `e` fit their Rust types, enum constants
are not nested, and operator nodes have the number of operands their arm of `evaluate_operator` reads.
-/
namespace RsslVerif.Thm.C13
open RsslVerif.Gen.EvalTable RsslVerif.Model.ConstEval RsslVerif.Lemmas.ConstEval
open RsslVerif.Spec.HlslConst (fitsLit litArith)

/-- **Agreement.**  Whenever the evaluator returns a value for a well-formed expression, it is the value the
    specification defines (exact for literals, 32-bit two's complement for `int`/`uint`, shift counts
    masked to five bits, C comparisons/logic, HLSL conversions), and the value is again in range.
    Proved by mutual induction over expressions and operand lists. -/
theorem consteval_agrees (e : Expr) (hwf : wfE e = true) (v : Constant) (h : eval e = .ok v) :
    RsslVerif.Spec.HlslConst.eval e = some v ∧ wf v = true :=
  eval_agrees e hwf v h

/-- non-vacuity: a depth-3 tree mixing a cast, wrap-around and a masked shift evaluates to a value -/
example : eval (.op .LeftShift (.cons (.op .Subtract (.cons (.lit (.uint32 0)) (.cons (.lit (.uint32 1)) .nil)))
            (.cons (.cast (.scalar .UInt32) (.lit (.intLit 33))) .nil))) = .ok (.uint32 4294967294) := by decide

example : wfE (.op .LeftShift (.cons (.op .Subtract (.cons (.lit (.uint32 0)) (.cons (.lit (.uint32 1)) .nil)))
            (.cons (.cast (.scalar .UInt32) (.lit (.intLit 33))) .nil))) = true := by decide

/-- **No panic.**  Evaluation of a well-formed expression whose operator nodes have admissible operand kinds
    (`kindsOk`: enum operands are not mixed with operands of another type, `~` is applied to an integer —
    what the type checker guarantees) never hits a `panic!`, `assert!`, `unreachable!`, slice index or
    arithmetic overflow check of the modelled functions: not on overflow, not on out-of-range shifts, not on
    `INT_MIN / -1`.  The proof uses the generated table only through `tableSafe_ok` / `castTableSafe_ok`. -/
theorem consteval_no_panic (e : Expr) (hwf : wfE e = true) (hk : kindsOk e = true) (msg : String) :
    eval e ≠ .error (.panic msg) :=
  eval_noPanic e hwf hk msg

/-- tie to the source: every arm of the regenerated operator and cast tables that non-enum operands can
    reach computes with `wrapping_*`, `checked_*`→`Err`, zero-guarded or overflow-free operations -/
theorem tables_panic_free : tableSafe = true ∧ castTableSafe = true := ⟨tableSafe_ok, castTableSafe_ok⟩

/-- non-vacuity: `INT_MIN / -1`, `0u - 1u`, `1 << 32` and `-INT_MIN` satisfy the hypotheses ... -/
example : wfE (.op .Divide (.cons (.lit (.int32 (-2147483648))) (.cons (.lit (.int32 (-1))) .nil))) = true
    ∧ kindsOk (.op .Divide (.cons (.lit (.int32 (-2147483648))) (.cons (.lit (.int32 (-1))) .nil))) = true
    ∧ eval (.op .Divide (.cons (.lit (.int32 (-2147483648))) (.cons (.lit (.int32 (-1))) .nil)))
        = .ok (.int32 (-2147483648)) := by decide

/-- ... and the operand-kind hypothesis is needed: `~true` reaches the `panic!` of the `BitwiseNot` arm -/
example : eval (.op .BitwiseNot (.cons (.lit (.bool true)) .nil)) = .error (.panic "unexpected type in BitwiseNot") := by
  decide

/-- Division or modulus by a zero constant is reported as *not constant*: whatever the dividend (any
    kind, any value), `evaluate_operator` returns `Err(())` — no value and no panic. -/
theorem div_mod_zero_not_constant (o : Op) (ho : o = .Divide ∨ o = .Modulus) (a b : Constant)
    (hz : b = .intLit 0 ∨ b = .int32 0 ∨ b = .uint32 0) :
    applyOp o [a, b] = .error .notConst := by
  rcases ho with rfl | rfl <;> rcases hz with rfl | rfl | rfl <;> cases a <;> simp [c13]

/-- ... and so is every expression `x / z`, `x % z` whose right operand evaluates to an integer zero (also
    a zero of an enum type): it never evaluates to a value. -/
theorem div_mod_zero_not_constant_expr (o : Op) (ho : o = .Divide ∨ o = .Modulus) (ea eb : Expr) (b : Constant)
    (hb : eval eb = .ok b)
    (hz : S.strip b = .intLit 0 ∨ S.strip b = .int32 0 ∨ S.strip b = .uint32 0) (r : Constant) :
    eval (.op o (.cons ea (.cons eb .nil))) ≠ .ok r := by
  intro h
  simp only [eval] at h
  cases ha : evalArgs (.cons ea (.cons eb .nil)) ⟨[], none⟩ with
  | error err => simp [ha] at h
  | ok acc =>
    simp only [ha] at h
    obtain ⟨hvals, hlen⟩ := evalArgs_prefix _ _ _ ha
    cases hea : eval ea with
    | error err => simp [prefixVals, hea, argsLen] at hlen
    | ok a =>
      simp [prefixVals, hea, hb] at hvals
      unfold finishOp at h
      simp [hvals, div_mod_zero_not_constant o ho (S.strip a) (S.strip b) hz] at h

/-- **Literal arithmetic is exact or not constant, never wrong**: if `+ - * / % << >>` on two untyped
    literals returns a value, that value is the exact mathematical result (quotient truncated toward zero,
    remainder with the sign of the dividend, `x·2^n`, `⌊x / 2^n⌋`) and it fits the literal representation. -/
theorem literal_exact (o : Op)
    (ho : o = .Add ∨ o = .Subtract ∨ o = .Multiply ∨ o = .Divide ∨ o = .Modulus ∨ o = .LeftShift ∨ o = .RightShift)
    (x y : Int) (hx : fitsLit x = true) (hy : fitsLit y = true) (r : Constant)
    (h : applyOp o [.intLit x, .intLit y] = .ok r) :
    ∃ z, litArith o x y = some z ∧ r = .intLit z ∧ fitsLit z = true := by
  have hx' : plain (.intLit x) = true := by simpa [c13] using hx
  have hy' : plain (.intLit y) = true := by simpa [c13] using hy
  have hn : arityOk o 2 = true := by rcases ho with rfl | rfl | rfl | rfl | rfl | rfl | rfl <;> decide
  have hb := (binop_agrees o hn hx' hy' h).1
  rcases ho with rfl | rfl | rfl | rfl | rfl | rfl | rfl <;>
    simp only [S.binop, S.relOf] at hb <;>
    (cases hl : litArith _ x y with
     | none => simp [hl, S.bitArith] at hb
     | some z =>
       simp only [hl, RsslVerif.Spec.HlslConst.lit?] at hb
       by_cases hf : fitsLit z = true
       · simp [hf] at hb; exact ⟨z, rfl, hb.symm, hf⟩
       · simp [hf] at hb)

/-- unary minus on a literal: exact or not constant -/
theorem literal_neg_exact (x : Int) (hx : fitsLit x = true) (r : Constant)
    (h : applyOp .Minus [.intLit x] = .ok r) : r = .intLit (-x) ∧ fitsLit (-x) = true := by
  have hx' : plain (.intLit x) = true := by simpa [c13] using hx
  have hb := (unop_agrees .Minus (by decide) hx' h).1
  simp [S.unop, RsslVerif.Spec.HlslConst.lit?] at hb
  exact ⟨hb.2.symm, hb.1⟩

/-- non-vacuity of `literal_exact`: `2^63 * 2^63` is evaluated exactly; `2^64 * 2^64` is refused -/
example : applyOp .Multiply [.intLit (2 ^ 63), .intLit (2 ^ 63)] = .ok (.intLit (2 ^ 126)) := by decide
example : applyOp .Multiply [.intLit (2 ^ 64), .intLit (2 ^ 64)] = .error .notConst := by decide

/-! ## the float conversions used by constant casts are the IEEE-754 / Rust `as` conversions

`consteval_agrees` compares the evaluator with `Spec.HlslConst`, and both take the float conversions from
`Model.ConstEvalFloat`.  The theorems below remove that common assumption: the model's `round` (integer → float,
binary64 → binary32) is the correctly rounded result in the sense of IEEE 754 round-to-nearest-ties-to-even
(`Spec.Dec2Bin.IsNearestEven`, the same statement property C10 proves for decimal literals), widening is exact, and
float → integer truncates toward zero and saturates. -/

open RsslVerif.Model.ConstEvalFloat in
/-- **Round to nearest, ties to even.**  For every binary format with at least one stored significand bit and two
    exponent bits (binary32 and binary64 are the instances used), every magnitude `m · 2^e` (`m > 0`, any `e`):
    the bit pattern `round f false m e` is the one IEEE 754 prescribes for the exact rational `m · 2^e` — no
    representable value is nearer, a tie goes to the even significand, subnormals are gradual, values at or above
    `2^(emax+1)` after rounding become `+∞`; and a negative value is its magnitude's pattern plus the sign bit. -/
theorem float_round_nearest_even (f : Fmt) (hp : 1 ≤ f.mant) (he : 2 ≤ f.exp) (m : Nat) (e : Int) (hm : 0 < m) :
    RsslVerif.Spec.Dec2Bin.IsNearestEven (RsslVerif.Lemmas.ConstEvalFloat.toSpec f)
      (RsslVerif.Lemmas.ConstEvalFloat.num m e) (RsslVerif.Lemmas.ConstEvalFloat.den e) (round f false m e) ∧
    round f true m e = f.signBit + round f false m e :=
  ⟨RsslVerif.Lemmas.ConstEvalFloat.round_isNearestEven f hp he m e hm, RsslVerif.Lemmas.ConstEvalFloat.round_neg f hp m e⟩

open RsslVerif.Model.ConstEvalFloat in
/-- **`(float)z`, `(double)z` for an integer constant** (`z as f32` / `z as f64`): the correctly rounded value of
    `|z|`, with the sign of `z`; zero gives `+0`. -/
theorem int_to_float_nearest_even (f : Fmt) (hp : 1 ≤ f.mant) (he : 2 ≤ f.exp) (z : Int) :
    (0 < z → RsslVerif.Spec.Dec2Bin.IsNearestEven (RsslVerif.Lemmas.ConstEvalFloat.toSpec f) z.natAbs 1 (ofInt f z)) ∧
    (z < 0 → ofInt f z = f.signBit + ofInt f (-z)) ∧ ofInt f 0 = 0 := by
  refine ⟨RsslVerif.Lemmas.ConstEvalFloat.ofInt_isNearestEven f hp he z, ?_, ?_⟩
  · intro hz
    rw [RsslVerif.Lemmas.ConstEvalFloat.ofInt_eq f hp, RsslVerif.Lemmas.ConstEvalFloat.ofInt_eq f hp]
    have h1 : ¬ (-z < 0) := by omega
    have h2 : ¬ (0 < z) := by omega
    simp [hz, h2]
  · rw [RsslVerif.Lemmas.ConstEvalFloat.ofInt_eq f hp]; simp [RsslVerif.Spec.Dec2Bin.nearestRat]

open RsslVerif.Model.ConstEvalFloat in
/-- **`(float)d` for a finite double constant** (and any finite float → float conversion): the sign is kept and the
    magnitude `m · 2^e` is correctly rounded to the target format (overflow to infinity, underflow to subnormals/zero);
    infinities are kept. -/
theorem float_to_float_nearest_even (src dst : Fmt) (hp : 1 ≤ dst.mant) (he : 2 ≤ dst.exp) (bits : Nat) (n : Bool) (m : Nat) (e : Int)
    (hd : decode src bits = .fin n m e) :
    convert src dst bits = (if n then dst.signBit else 0) + round dst false m e ∧
    (0 < m → RsslVerif.Spec.Dec2Bin.IsNearestEven (RsslVerif.Lemmas.ConstEvalFloat.toSpec dst)
      (RsslVerif.Lemmas.ConstEvalFloat.num m e) (RsslVerif.Lemmas.ConstEvalFloat.den e) (round dst false m e)) := by
  refine ⟨?_, RsslVerif.Lemmas.ConstEvalFloat.round_isNearestEven dst hp he m e⟩
  rw [RsslVerif.Lemmas.ConstEvalFloat.convert_fin src dst hp bits n m e hd,
    RsslVerif.Lemmas.ConstEvalFloat.round_eq_nearestRat dst hp]
  simp

open RsslVerif.Model.ConstEvalFloat in
/-- the link to property C10: on every non-negative finite double the model's `(float)d` is `Spec.Dec2Bin.narrow32`,
    the narrowing C10 proves correct for `f`-suffixed literals — constants and literals are rounded by one definition -/
theorem float_narrowing_is_c10_narrow32 (bits : Nat) (h : bits < RsslVerif.Spec.Dec2Bin.binary64.infBits) :
    convert f64 f32 bits = RsslVerif.Spec.Dec2Bin.narrow32 bits :=
  RsslVerif.Lemmas.ConstEvalFloat.convert_f64_f32_eq_narrow32 bits h

open RsslVerif.Model.ConstEvalFloat in
/-- **`(double)f` for a finite float constant loses nothing**: the binary64 pattern encodes a significand/exponent
    pair of exactly the same value (both sides counted in units of `2^-1074`), with the same sign. -/
theorem float_widen_exact (bits : Nat) (n : Bool) (m : Nat) (e : Int) (hd : decode f32 bits = .fin n m e) :
    ∃ (m' : Nat) (q' : Int), -1074 ≤ q' ∧ m' ≤ 2 ^ 53 ∧
      m' * 2 ^ (q' + 1074).toNat = m * 2 ^ (e + 1074).toNat ∧
      convert f32 f64 bits = (if n then f64.signBit else 0) + RsslVerif.Spec.Dec2Bin.encode RsslVerif.Spec.Dec2Bin.binary64 m' q' :=
  RsslVerif.Lemmas.ConstEvalFloat.widen_exact bits n m e hd

open RsslVerif.Model.ConstEvalFloat in
/-- **`(int)x`, `(uint)x` for a float constant** (`v as i32` / `v as u32`): a finite `± m · 2^e` is truncated toward
    zero (`mag = ⌊m · 2^e⌋`, stated cross-multiplied) and then saturated to the target range; `±∞` saturates; NaN gives 0;
    the result is always inside the range. -/
theorem float_to_int_trunc_saturate (lo hi : Int) (h0 : lo ≤ 0) (h1 : 0 ≤ hi) :
    (∀ (n : Bool) (m : Nat) (e : Int), ∃ mag : Nat,
        mag * RsslVerif.Lemmas.ConstEvalFloat.den e ≤ RsslVerif.Lemmas.ConstEvalFloat.num m e ∧
        RsslVerif.Lemmas.ConstEvalFloat.num m e < (mag + 1) * RsslVerif.Lemmas.ConstEvalFloat.den e ∧
        toIntSat lo hi (.fin n m e) = RsslVerif.Lemmas.ConstEvalFloat.clamp lo hi (if n then -(mag : Int) else mag)) ∧
    (∀ n p, toIntSat lo hi (.nan n p) = 0) ∧
    (∀ n, toIntSat lo hi (.inf n) = if n then lo else hi) ∧
    (∀ v, lo ≤ toIntSat lo hi v ∧ toIntSat lo hi v ≤ hi) :=
  ⟨RsslVerif.Lemmas.ConstEvalFloat.toIntSat_fin lo hi, fun _ _ => rfl, fun _ => rfl,
   RsslVerif.Lemmas.ConstEvalFloat.toIntSat_range lo hi h0 h1⟩

open RsslVerif.Model.ConstEvalFloat in
/-- non-vacuity: binary32 and binary64 satisfy the format hypotheses; `16777217` is a tie and rounds to the even
    neighbour `16777216.0f`; `3e9f` saturates to `INT_MAX`; `-1.5f` truncates to `-1`, which saturates to `0u` -/
example : (1 ≤ f32.mant ∧ 2 ≤ f32.exp) ∧ (1 ≤ f64.mant ∧ 2 ≤ f64.exp) ∧
    ofInt f32 16777217 = 0x4b800000 ∧ ofInt f32 16777219 = 0x4b800002 ∧
    toIntSat (-(2 ^ 31)) (2 ^ 31 - 1) (decode f32 0x4f32d05e) = 2147483647 ∧
    toIntSat (-(2 ^ 31)) (2 ^ 31 - 1) (decode f32 0xbfc00000) = -1 ∧
    toIntSat 0 (2 ^ 32 - 1) (decode f32 0xbfc00000) = 0 := by decide

/-! ## the positions that demand a constant -/

/-- The reviewed inventory of every call of `evaluate_constexpr` outside `evaluator.rs`
    (file, function, expression argument, module argument, origin of the expression, reassigned before the call).
    Each call passes the IR the type checker built for the source expression and the module being built:

    * `parse_declarator` — array sizes (harness position `array`)
    * `parse_rootdefinition_enum` — enum values; the one site that rewrites the expression first: an enum-typed
      initialiser receives the implicit conversion to its underlying type (`enum`, `enumnext`)
    * `parse_expr_unaryop` — folding of a unary operator on a literal; the expression is the `IntrinsicOp` node just
      built (covered by every `C13.eval` case that came through the type checker)
    * `parse_assert_eval` (twice) — both operands of `assert_eval` (`assert`)
    * `parse_rootdefinition_globalvariable`, `parse_vardef` — initialisers of `const` globals / locals (`constint`,
      `constuint`, `localconst`)
    * `parse_expr_as_u32` — `[[rssl::bind_group(n)]]` (`bindgroup`)
    * `add_stage` — `numthreads` arguments (`numthreads`); `extract_uint32`, `extract_float` — pipeline
      and static sampler properties (`pipelineprop`, `maxanisotropy`, `writemask`; `minlod`, `maxlod`)
    * `parse_statement` — case labels (`case`); `parse_statement_attribute` — `[unroll(n)]` (`unroll`)
    * `parse_and_evaluate_constant_expression` — template value arguments and their defaults (`template`) -/
def reviewedSites : List (String × String × String × String × String × Bool) := [
  ("typer/src/typer/declarations.rs", "parse_declarator", "&expr_ir", "&mut context.module", "parse_expr", false),
  ("typer/src/typer/enums.rs", "parse_rootdefinition_enum", "&expr_ir.0", "&mut context.module", "parse_expr", true),
  ("typer/src/typer/expressions.rs", "parse_expr_unaryop", "&expr_with_op", "&mut context.module", "ir::Expression::IntrinsicOp", false),
  ("typer/src/typer/expressions.rs", "parse_assert_eval", "&left_expr_ir", "&mut context.module", "parse_expr_internal", false),
  ("typer/src/typer/expressions.rs", "parse_assert_eval", "&right_expr_ir", "&mut context.module", "parse_expr_internal", false),
  ("typer/src/typer/globals.rs", "parse_rootdefinition_globalvariable", "expr", "&mut context.module", "initializer-expression", false),
  ("typer/src/typer/globals.rs", "parse_expr_as_u32", "&expr_ir", "&mut context.module", "parse_expr", false),
  ("typer/src/typer/pipelines.rs", "add_stage", "expr", "&mut context.module", "closure-parameter", false),
  ("typer/src/typer/pipelines.rs", "extract_uint32", "&value_expr.0", "&mut context.module", "parse_expr", false),
  ("typer/src/typer/pipelines.rs", "extract_float", "&value_expr.0", "&mut context.module", "parse_expr", false),
  ("typer/src/typer/statements.rs", "parse_statement", "&value_expr.0", "&mut context.module", "parse_expr", false),
  ("typer/src/typer/statements.rs", "parse_statement_attribute", "&expr", "&mut context.module", "parse_expr", false),
  ("typer/src/typer/statements.rs", "parse_vardef", "expr", "&mut context.module", "initializer-expression", false),
  ("typer/src/typer/types.rs", "parse_and_evaluate_constant_expression", "&ir_expr.0", "&mut context.module", "parse_expr", false)]

/-- **Positions use the evaluator unchanged** (tie to the source, not a model of the type checker): the calls
    of `evaluate_constexpr` found in the workspace are exactly the reviewed ones; every one hands over a type
    checker result (`parse_expr*`, an initialiser expression, the folded operator node) together with
    `context.module`, and only the enum-value site rewrites the expression before the call. A new call site, a
    site that starts to pre-process its expression, or a removed site makes this obligation fail until reviewed.
    What each site does with the *result* (`to_uint64`, range checks, storing it) is checked by the
    correspondence run (`C13.pos`), not here. -/
theorem positions_use_eval :
    (RsslVerif.Gen.EvalSites.evalSites.all fun s => reviewedSites.contains s) = true ∧
    (reviewedSites.all fun s => RsslVerif.Gen.EvalSites.evalSites.contains s) = true ∧
    (RsslVerif.Gen.EvalSites.evalSites.all fun s => s.2.2.2.1 == "&mut context.module") = true ∧
    (RsslVerif.Gen.EvalSites.evalSites.filter fun s => s.2.2.2.2.2).map (fun s => s.2.1)
      = ["parse_rootdefinition_enum"] := by
  decide

/-! ## what a position does with the evaluated constant: the boundary between untyped literals and typed values

`Model.ConstPos` reads the conversions and guards of every site from `Gen.PosTable` (re-extracted on every run from
`Constant::to_uint64` / `to_f32`, `parse_declarator`, `add_stage`, `extract_uint32`, `parse_expr_as_u32`,
`parse_statement_attribute`, `parse_statement`, `parse_and_evaluate_constant_expression`, `parse_rootdefinition_enum`,
`end_enum`). -/

open RsslVerif.Model.ConstPos RsslVerif.Lemmas.ConstPos RsslVerif.Gen.PosTable

/-- tie to the source: the reviewed reading of the five count-taking sites.  Array sizes unwrap an enum, refuse 0 and
    take 64 bits; `numthreads`, unsigned pipeline / sampler properties and `bind_group` / `vk::binding` take 32 bits
    (0 allowed, enums not unwrapped); `[unroll(n)]` takes 64 bits; `WriteMask` 8 bits. -/
theorem position_rules_as_reviewed :
    arraySize = ⟨true, true, false⟩ ∧ numthreads = ⟨false, false, true⟩ ∧ pipelineUint = ⟨false, false, true⟩ ∧
    exprAsU32 = ⟨false, false, true⟩ ∧ unroll = ⟨false, false, false⟩ ∧ writeMaskMax = 255 := by decide

/-- **Counts (array sizes, `numthreads`, `unroll`, `bind_group`, `vk::binding`, unsigned properties).**
    Whatever the kind of the constant — untyped literal, `int`, `uint`, `bool`, for array sizes also an enum — an
    accepted count `n` is the integer value of what the specification says the expression evaluates to, and it lies
    in the range of the place (`[0, 2^64)`, not 0 where 0 is refused, `< 2^32` where 32 bits are required). -/
theorem position_count_agrees (r : SizeRule) (e : Expr) (hwf : wfE e = true) (n : Int)
    (h : sizeSite r (eval e) = .count n) :
    ∃ v, RsslVerif.Spec.HlslConst.eval e = some v ∧ countOf r v = some n ∧ 0 ≤ n ∧ n ≤ 2 ^ 64 - 1 ∧
      (r.rejectZero = true → n ≠ 0) ∧ (r.max32 = true → n ≤ 2 ^ 32 - 1) := by
  cases hev : eval e with
  | error err => cases err <;> simp [hev, sizeSite] at h
  | ok v =>
    obtain ⟨h1, h2⟩ := eval_agrees e hwf v hev
    rw [hev] at h
    exact ⟨v, h1, sizeSite_sound r v h2 n h⟩

/-- ... and every integer-like value that fits the place is accepted with exactly that count (no kind is refused
    that has an in-range integer value; out-of-range values, floats and non-constant expressions are refused). -/
theorem position_count_complete (r : SizeRule) (e : Expr) (hwf : wfE e = true) (v : Constant) (n : Int)
    (hev : eval e = .ok v) (hc : countOf r v = some n) (h0 : 0 ≤ n) (h1 : n ≤ 2 ^ 64 - 1)
    (hz : r.rejectZero = true → n ≠ 0) (hm : r.max32 = true → n ≤ 2 ^ 32 - 1) :
    sizeSite r (eval e) = .count n := by
  rw [hev]
  exact sizeSite_complete r v (eval_agrees e hwf v hev).2 n hc h0 h1 hz hm

/-- a rejection is justified by the value: zero, beyond 32 bits, or no integer value in `[0, 2^64)` at all -/
theorem position_count_rejections (r : SizeRule) (e : Expr) (hwf : wfE e = true) (v : Constant) (hev : eval e = .ok v) :
    (sizeSite r (eval e) = .zeroSize → countOf r v = some 0) ∧
    (sizeSite r (eval e) = .outOfRange → ∃ n, countOf r v = some n ∧ 2 ^ 32 - 1 < n) ∧
    (sizeSite r (eval e) = .notConstant →
      countOf r v = none ∨ ∃ n, countOf r v = some n ∧ (n < 0 ∨ 2 ^ 64 - 1 < n)) := by
  rw [hev]
  exact sizeSite_reject r v (eval_agrees e hwf v hev).2

/-- non-vacuity: `float a[(int)-1]`, `a[0]`, `a[4294967296]`, `a[E0C]` (enum value 5), `numthreads(4294967296, ..)` -/
example : sizeSite arraySize (eval (.cast (.scalar .Int32) (.lit (.intLit (-1))))) = .notConstant ∧
    sizeSite arraySize (eval (.lit (.intLit 0))) = .zeroSize ∧
    sizeSite arraySize (eval (.lit (.intLit 4294967296))) = .count 4294967296 ∧
    sizeSite arraySize (eval (.enumValue 0 (.int32 5))) = .count 5 ∧
    sizeSite numthreads (eval (.enumValue 0 (.int32 5))) = .notConstant ∧
    sizeSite numthreads (eval (.lit (.intLit 4294967296))) = .outOfRange := by decide

/-- **Case labels and const initialisers** keep the evaluated constant: the recorded constant is the specified value. -/
theorem case_label_value (e : Expr) (hwf : wfE e = true) (c : Constant) (h : caseSite (eval e) = .stored c) :
    RsslVerif.Spec.HlslConst.eval e = some c := by
  cases hev : eval e with
  | error err => cases err <;> simp [hev, caseSite] at h
  | ok v =>
    have ha := (eval_agrees e hwf v hev).1
    rw [hev, caseSite_ok] at h
    cases h
    exact ha

theorem const_initialiser_value (isConst : Bool) (e : Expr) (hwf : wfE e = true) (c : Constant)
    (h : constInitSite isConst (eval e) = .stored c) :
    isConst = true ∧ RsslVerif.Spec.HlslConst.eval e = some c := by
  unfold constInitSite at h
  cases isConst with
  | false => simp [constInitNeedsConst] at h
  | true =>
    simp only [constInitNeedsConst, Bool.not_true, Bool.and_false] at h
    cases hev : eval e with
    | error err => cases err <;> simp [hev] at h
    | ok v =>
      have ha := (eval_agrees e hwf v hev).1
      simp [hev] at h
      cases h
      exact ⟨rfl, ha⟩

/-- **Template value arguments** are bound to the specified value of the argument expression, kind included: `bool`
    and integer kinds only. -/
theorem template_argument_value (e : Expr) (hwf : wfE e = true) (c : Constant) (h : templateSite (eval e) = .stored c) :
    RsslVerif.Spec.HlslConst.eval e = some c ∧
    (c.kind = .Bool ∨ c.kind = .IntLiteral ∨ c.kind = .Int32 ∨ c.kind = .UInt32 ∨ c.kind = .Int64 ∨ c.kind = .UInt64) := by
  cases hev : eval e with
  | error err => cases err <;> simp [hev, templateSite] at h
  | ok v =>
    have ha := (eval_agrees e hwf v hev).1
    rw [hev, templateSite_ok] at h
    split at h
    · rename_i hk
      cases h
      exact ⟨ha, hk⟩
    · cases h

/-- **... but not converted to the declared parameter type** — the full statement "the parameter has the value HLSL
    defines" is *false* on the pinned source; witnesses (replayed on the real compiler as `C13.pos template -1` and
    `C13.pos template_bool 2`, known finding): `template<uint N>` instantiated with `-1` binds the literal `-1` where
    the conversion to `uint` gives `4294967295`; `template<bool B>` instantiated with `2` binds `2`, not `true`. -/
theorem template_argument_not_converted :
    templateSite (eval (.lit (.intLit (-1)))) = .stored (.intLit (-1)) ∧
    RsslVerif.Spec.HlslConst.castScalar .UInt32 (.intLit (-1)) = some (.uint32 4294967295) ∧
    templateSite (eval (.lit (.intLit 2))) = .stored (.intLit 2) ∧
    RsslVerif.Spec.HlslConst.castScalar .Bool (.intLit 2) = some (.bool true) :=
  templateSite_does_not_convert

/-- **Float-valued properties (`MinLOD`, `MaxLOD`)**: an accepted value is the constant converted to `float` by the
    HLSL rules (32-bit kinds; 64-bit integer constants do not arise from source). -/
theorem lod_property_value (e : Expr) (hwf : wfE e = true) (b : Nat) (h : lodSite (eval e) = .lod b) :
    ∃ v, RsslVerif.Spec.HlslConst.eval e = some v ∧
      (v.kind ≠ .Int64 ∧ v.kind ≠ .UInt64 → RsslVerif.Spec.HlslConst.castScalar .Float32 v = some (.float32 b)) := by
  cases hev : eval e with
  | error err => cases err <;> simp [hev, lodSite] at h
  | ok v =>
    simp only [hev, lodSite] at h
    cases ht : toF32 v with
    | none => simp [ht] at h
    | some b' =>
      simp only [ht] at h
      cases h
      exact ⟨v, (eval_agrees e hwf v hev).1, fun h64 => toF32_sound v h64 b ht⟩

/-- ... and complete (since `Constant::to_f32` has an arm for untyped float literals and no sign guard on `int`; the
    former witnesses `MinLOD = 0.5` and `MinLOD = (int)-1` are corpus lines): every constant the HLSL rules convert to
    `float` — `bool`, an untyped integer or float literal, `int` of either sign, `uint`, `half`, `float`, `double` — is
    accepted with exactly the converted value. -/
theorem lod_property_complete (e : Expr) (hwf : wfE e = true) (v : Constant) (b : Nat) (hev : eval e = .ok v)
    (hc : RsslVerif.Spec.HlslConst.castScalar .Float32 v = some (.float32 b)) :
    lodSite (eval e) = .lod b := by
  rw [hev]
  simp [lodSite, toF32_complete v (eval_agrees e hwf v hev).2 b hc]

/-- a refusal of a constant is justified: it has no conversion to `float` (an enum, a string) -/
theorem lod_property_rejections (e : Expr) (hwf : wfE e = true) (v : Constant) (hev : eval e = .ok v)
    (h : lodSite (eval e) = .notConstant) :
    RsslVerif.Spec.HlslConst.castScalar .Float32 v = none := by
  rw [hev] at h
  simp only [lodSite] at h
  cases ht : toF32 v with
  | none => exact toF32_none v (eval_agrees e hwf v hev).2 ht
  | some b => simp [ht] at h

/-- non-vacuity: `MinLOD = 0.5` (untyped float literal) is `0x3f000000`, `MinLOD = (int)-1` is `-1.0f`,
    `MinLOD = 16777217` rounds to even, `MinLOD = E0C` (an enum) is refused -/
example : lodSite (eval (.lit (.floatLit 0x3fe0000000000000))) = .lod 0x3f000000 ∧
    lodSite (eval (.cast (.scalar .Int32) (.lit (.intLit (-1))))) = .lod 0xbf800000 ∧
    lodSite (eval (.lit (.intLit 16777217))) = .lod 0x4b800000 ∧
    lodSite (eval (.enumValue 0 (.int32 5))) = .notConstant := by decide

/-! ## enum definitions -/

/-- **Enum values have C semantics, and the underlying type is deduced from the range.**  For every list of
    enumerators (any length; initialisers are arbitrary well-formed trees, possibly built from earlier enumerators,
    which the type checker inlines as literals): if the definition is accepted with underlying type `u` and values
    `out`, there are integers `vs` with `EnumSeq none ms vs` — an initialiser gives the value the specification
    defines for it (an enum-typed one through its underlying type), the first enumerator without initialiser is 0,
    any other is its predecessor plus one — such that `out` is `vs` represented in `u` without wrap-around, and `u`
    is `int` exactly when 0 and every value fit `int`, otherwise `uint` (and then they fit `uint`). -/
theorem enum_values_c_semantics (ms : List Member) (hw : membersWf ms = true) (u : Scalar) (out : List Constant)
    (h : defineEnum ms = .ok (u, out)) :
    ∃ vs : List Int, EnumSeq none ms vs ∧ out = vs.map (mk u) ∧
      ((u = .Int32 ∧ AllIn (-(2 ^ 31)) (2 ^ 31 - 1) vs) ∨
       (u = .UInt32 ∧ ¬ AllIn (-(2 ^ 31)) (2 ^ 31 - 1) vs ∧ AllIn 0 (2 ^ 32 - 1) vs)) :=
  defineEnum_spec ms hw u out h

/-- the range rejection (`enum range .. can not fit in any type`) happens only when the C values fit neither `int`
    nor `uint` -/
theorem enum_rejected_only_out_of_range (ms : List Member) (hw : membersWf ms = true) (lo hi : Int)
    (h : defineEnum ms = .error (.cannotDeduce lo hi)) :
    ∃ vs : List Int, EnumSeq none ms vs ∧ ¬ AllIn (-(2 ^ 31)) (2 ^ 31 - 1) vs ∧ ¬ AllIn 0 (2 ^ 32 - 1) vs :=
  defineEnum_cannotDeduce ms hw lo hi h

/-- the overflow rejection (`enum value overflows the type of the previous value`) is raised only when the previous
    enumerator already has the largest value of its own type: `2^127-1` for an untyped literal, `INT_MAX`, `UINT_MAX` -/
theorem enum_overflow_only_at_type_max (i j : Nat) (l : Constant) (h : nextValue i l = .error (.overflow j)) :
    j = i ∧ ∃ v, (l = .intLit v ∧ 2 ^ 127 - 1 ≤ v) ∨ (l = .int32 v ∧ 2 ^ 31 - 1 ≤ v) ∨ (l = .uint32 v ∧ 2 ^ 32 - 1 ≤ v) :=
  nextValue_overflow h

/-- **An enum definition never panics**: not when the successor of `INT_MAX` / `UINT_MAX` / the largest literal is
    needed (that is `EnumValueOverflow`), not on a `bool` enumerator, not in the range computation or the conversion
    to the underlying type.  Hypotheses (`membersOk`, executable, evaluated by the model on every definition of the
    correspondence run): the initialisers satisfy the hypotheses of `consteval_no_panic`, and an initialiser of
    integer / enum type evaluates, if at all, to an integer-like constant. -/
theorem enum_no_panic (ms : List Member) (hok : membersOk ms = true) (msg : String) :
    defineEnum ms ≠ .error (.panic msg) :=
  defineEnum_noPanic ms hok msg

/-- non-vacuity: `enum { A, B, C = 10, D, E = A + 2, F }` (the reference to `A` is the literal the type checker
    inlines) has the values 0 1 10 11 2 3 in `int`; `enum { A = 2147483647, B }` continues in `uint`;
    `enum { A = (int)2147483647, B }` is an overflow error, `enum { A = -1, B = 4294967295u }` a range error;
    the hypotheses hold for them -/
example :
    defineEnum [none, none, some (.scalar .IntLiteral, .lit (.intLit 10)), none,
                some (.scalar .Int32, .op .Add (.cons (.lit (.int32 0)) (.cons (.cast (.scalar .Int32) (.lit (.intLit 2))) .nil))), none]
      = .ok (.Int32, [.int32 0, .int32 1, .int32 10, .int32 11, .int32 2, .int32 3]) ∧
    defineEnum [some (.scalar .IntLiteral, .lit (.intLit 2147483647)), none]
      = .ok (.UInt32, [.uint32 2147483647, .uint32 2147483648]) ∧
    defineEnum [some (.scalar .Int32, .cast (.scalar .Int32) (.lit (.intLit 2147483647))), none] = .error (.overflow 1) ∧
    defineEnum [some (.scalar .IntLiteral, .lit (.intLit (-1))), some (.scalar .UInt32, .lit (.uint32 4294967295))]
      = .error (.cannotDeduce (-1) 4294967295) ∧
    membersOk [some (.scalar .Int32, .cast (.scalar .Int32) (.lit (.intLit 2147483647))), none] = true ∧
    membersWf [some (.scalar .IntLiteral, .lit (.intLit 2147483647)), none] = true := by decide


/-! ## operands of different kinds: the type `parse_expr_binop` converts both operands to -/
section CommonType
open RsslVerif.Gen.RankTable RsslVerif.Gen.TypingTables RsslVerif.Model.ConstBinop RsslVerif.Lemmas.ConstBinop
open RsslVerif.Spec

/-- **The common operand type is the one HLSL's usual arithmetic conversions give** — for every binary operator and every
    pair of operand shapes (`bool`, untyped integer / float literal, `int`, `uint`, `half`, `float`, `double`, an enum with
    underlying type `int` or `uint`), in both orders: `bool` is promoted to `int` (also for the six comparisons — `TWO == true`
    compares `2` with `1`), an enum takes part through its underlying type (`E1M > (int)0` with `E1M = 4294967295u` is an
    unsigned comparison; `E0C + 1` is done in `int`), `int` meets `uint` as `uint`, an integer meets a float as that float,
    `&&` / `||` work on `bool`, the bit operators refuse floats; operators of other arms have no common type on either
    side. `commonTy` is computed from the tables re-extracted on every run (`Gen.TypingTables`: ranks, `require_integer`,
    short-circuit test; `Gen.BinopTyping`: how an enum operand enters the rank comparison, the bool remap and the operators
    it applies to).

    *Partial*: the one pair of `deviates` is excluded, on which the pinned code chooses another type — an untyped integer
    literal with a `bool`: the `bool` is converted to the literal kind (`binop_common_type_literal_pairs`: no typed kind is
    ever chosen; the folder has no rule for that conversion, so no constant results — observed `notconst` on every such
    case of the run). Two enum operands are taken to be of one enum type (`sameEnum`; operands of different enum types are
    refused). -/
theorem binop_common_type_as_specified_partial (op : BinOp) (l r : OpShape)
    (hsame : HlslUsualConv.sameEnum l r = true) (hdev : deviates l r = false) :
    commonTy op l r = HlslUsualConv.commonTy op l r :=
  commonTy_table op (binOp_mem_all op) l (shape_mem_all l) r (shape_mem_all r) hsame hdev

/-- non-vacuity: the cases the seeded mutant C13-4 changed (`enum == bool`, `bool < bool`), `int + uint`, `enum + float`,
    `bool & uint`, `float & int` refused, a `uint`-backed enum next to `int` / `bool`, an enum next to an untyped literal —
    all inside the hypotheses -/
example :
    commonTy .equality .enumInt (.scalar .bool) = some (.scalar .int32) ∧
    commonTy .lessThan (.scalar .bool) (.scalar .bool) = some (.scalar .int32) ∧
    commonTy .add (.scalar .int32) (.scalar .uInt32) = some (.scalar .uInt32) ∧
    commonTy .multiply .enumInt (.scalar .float32) = some (.scalar .float32) ∧
    commonTy .bitwiseAnd (.scalar .bool) (.scalar .uInt32) = some (.scalar .uInt32) ∧
    commonTy .bitwiseAnd (.scalar .float32) (.scalar .int32) = none ∧
    commonTy .subtract .enumUInt .enumUInt = some .right ∧
    commonTy .greaterThan .enumUInt (.scalar .int32) = some (.scalar .uInt32) ∧
    commonTy .add (.scalar .intLiteral) .enumInt = some (.scalar .int32) ∧
    deviates .enumInt (.scalar .bool) = false ∧ HlslUsualConv.sameEnum .enumInt (.scalar .bool) = true ∧
    deviates .enumUInt (.scalar .int32) = false ∧ deviates (.scalar .intLiteral) .enumUInt = false := by decide

/-- **An enum operand takes part through its underlying type** — no exception: for every operator, an enum with underlying
    type `int` or `uint` next to an operand of *any* shape (every scalar kind, untyped literals included, or the same enum),
    in both orders, gets the type the usual arithmetic conversions give; and next to an operand that is not an enum the
    code treats it exactly as a value of its underlying type. (Until fix `80dd7f9` this was the negative
    `binop_common_type_uint_enum_not_as_specified`: every enum ranked below `bool`, so `E1M > (int)0` was a signed
    comparison, and an enum next to an untyped literal was converted to the literal kind, i.e. refused.) In particular
    `uint`-backed enum × `int` / `bool` is `uint`, and enum × untyped integer literal is the underlying type. -/
theorem binop_common_type_enum_operand_as_specified (op : BinOp) (e s : OpShape) (he : e = .enumInt ∨ e = .enumUInt)
    (hsame : HlslUsualConv.sameEnum e s = true) :
    commonTy op e s = HlslUsualConv.commonTy op e s ∧ commonTy op s e = HlslUsualConv.commonTy op s e ∧
    (s.isEnum = false → commonTy op e s = commonTy op e.underlying s ∧ commonTy op s e = commonTy op s e.underlying) := by
  have hm : e ∈ [OpShape.enumInt, .enumUInt] := by rcases he with h | h <;> simp [h]
  have h1 := commonTy_enum_table op (binOp_mem_all op) e hm s (shape_mem_all s) hsame
  exact ⟨h1.1, h1.2, commonTy_enum_underlying_table op (binOp_mem_all op) e hm s (shape_mem_all s)⟩

/-- the former witnesses, now positive: `E1M > (int)0` and `true + E1M` are done in `uint`, as specified; an enum next to an
    untyped literal is done in the underlying type -/
example :
    commonTy .greaterThan .enumUInt (.scalar .int32) = some (.scalar .uInt32) ∧
    HlslUsualConv.commonTy .greaterThan .enumUInt (.scalar .int32) = some (.scalar .uInt32) ∧
    commonTy .add (.scalar .bool) .enumUInt = some (.scalar .uInt32) ∧
    HlslUsualConv.commonTy .add (.scalar .bool) .enumUInt = some (.scalar .uInt32) ∧
    commonTy .equality .enumUInt (.scalar .intLiteral) = some (.scalar .uInt32) ∧
    commonTy .leftShift .enumInt (.scalar .intLiteral) = some (.scalar .int32) := by decide

/-- on the pair excluded above (an untyped integer literal with a `bool`) the code never chooses a typed kind: the common
    type is the untyped integer literal kind (or `bool` for `&&` / `||`) -/
theorem binop_common_type_literal_pairs (op : BinOp) (t : Target)
    (h : commonTy op (.scalar .intLiteral) (.scalar .bool) = some t ∨ commonTy op (.scalar .bool) (.scalar .intLiteral) = some t) :
    t = .scalar .intLiteral ∨ (op.shortCircuit = true ∧ t = .scalar .bool) :=
  commonTy_literal_bool op (binOp_mem_all op) t h

end CommonType

/-! ## Several instantiations of one template in one compilation

A template value argument is evaluated once per use (`template_argument_value`); what the *body* of the instantiation
sees is decided by the cache of instantiations: a use is bound to an instantiation found by `find_instantiation` /
the struct template map, and only built when none is found. -/
section Instantiation
open RsslVerif.Gen.InstTable RsslVerif.Model.InstCache RsslVerif.Model.ConstPos RsslVerif.Lemmas.InstCache

/-- **The lookup is exact.** For every history of instantiations (any cache contents, in any order), with the comparison
    *extracted from the source of `find_instantiation`*: the search returns an entry only if it is registered, belongs to
    the requested template and its recorded argument list **equals** the requested one — same length, and argument by
    argument the same type or the same constant, kind and value (`-1 ≠ -2`, `3 ≠ 3u`, `1 ≠ true`, `E0B ≠ 1`);
    and it does return one whenever such an entry exists. -/
theorem instantiation_lookup_is_exact {α : Type} (cache : List (Entry α)) (parent : Nat) (key : List Arg) :
    (∀ e, find fnKeyMode parent key cache = some e → e ∈ cache ∧ e.parent = parent ∧ e.key = key) ∧
    ((∃ e ∈ cache, e.parent = parent ∧ e.key = key) → (find fnKeyMode parent key cache).isSome = true) := by
  rw [fnKeyMode_exact]
  exact ⟨fun e h => find_sound parent key cache e h, find_complete parent key cache⟩

/-- **Each instantiation sees its own argument.** Whatever a template body computes from its arguments (`build`: array
    sizes, case labels, initialisers, the arguments handed on to further templates ...), for every sequence of uses of any
    templates with any arguments — repeated, interleaved, in any order — starting from any cache whose entries were built
    from their own recorded arguments (the empty one in particular): every use is bound to exactly what building the
    template from *that use's* argument list gives, independent of which other instantiations exist or came first. -/
theorem each_instantiation_sees_its_own_argument {α : Type} (build : Nat → List Arg → α)
    (uses : List (Nat × List Arg)) (cache : List (Entry α)) (hinv : ∀ e ∈ cache, e.val = build e.parent e.key) :
    run fnKeyMode build cache uses = uses.map (fun pk => build pk.1 pk.2) := by
  rw [fnKeyMode_exact]
  exact run_exact build uses cache hinv

/-- ... down to the argument *expressions*: uses `tf<e>()` of templates with one value parameter, each argument accepted by
    `parse_and_evaluate_constant_expression` with the constant `c`: the use is bound to the instantiation built from the
    value the specification gives `e` (kind included). -/
theorem each_instantiation_sees_the_value_of_its_argument_expression {α : Type} (build : Nat → List Arg → α)
    (uses : List (Nat × Expr × Constant))
    (hacc : ∀ u ∈ uses, wfE u.2.1 = true ∧ templateSite (eval u.2.1) = .stored u.2.2) :
    run fnKeyMode build [] (uses.map (fun u => (u.1, [Arg.const u.2.2]))) = uses.map (fun u => build u.1 [Arg.const u.2.2]) ∧
    ∀ u ∈ uses, RsslVerif.Spec.HlslConst.eval u.2.1 = some u.2.2 := by
  refine ⟨?_, fun u hu => (template_argument_value u.2.1 (hacc u hu).1 u.2.2 (hacc u hu).2).1⟩
  rw [each_instantiation_sees_its_own_argument build _ [] (by intro e he; cases he), List.map_map]
  rfl

/-- non-vacuity: `tf<-1>(); tf<-2>(); tf<(int)-1>(); tf<-1>(); tf<1 - 3>()` — three instantiations are built (`-1`, `-2`,
    `(int)-1`), the fourth use finds the first, the fifth (a constant expression folding to `-2`) the second -/
example :
    let neg := fun (a b : Int) => eval (.op .Subtract (.cons (.lit (.intLit a)) (.cons (.lit (.intLit b)) .nil)))
    templateSite (neg 1 3) = .stored (.intLit (-2)) ∧
    run fnKeyMode (fun _ k => k) [] [(0, [.const (.intLit (-1))]), (0, [.const (.intLit (-2))]), (0, [.const (.int32 (-1))]),
      (0, [.const (.intLit (-1))]), (0, [.const (.intLit (-2))])] =
      [[.const (.intLit (-1))], [.const (.intLit (-2))], [.const (.int32 (-1))], [.const (.intLit (-1))], [.const (.intLit (-2))]] ∧
    (find fnKeyMode 0 [.const (.intLit (-2))]
      [(⟨0, [.const (.intLit (-1))], 10⟩ : Entry Nat), ⟨1, [.const (.intLit (-2))], 11⟩, ⟨0, [.const (.intLit (-2))], 12⟩]).map (·.val) = some 12 := by
  decide

/-- **Struct templates** (`ensure_struct_template`: a map keyed by the argument list, asked with the provided arguments
    and with the list completed by the defaults): for every sequence of uses `TS<args>` with at most as many arguments as
    the template has parameters, every use is bound to the struct built from *its own* arguments completed by the
    defaults. -/
theorem struct_instantiation_sees_its_own_arguments {α : Type} (build : List Arg → α) (defaults : List Arg)
    (uses : List (List Arg)) (hlen : ∀ k ∈ uses, k.length ≤ defaults.length) :
    structMapKeyedByArgs = true ∧
    runStruct build defaults [] uses = uses.map (fun k => build (complete defaults k)) :=
  ⟨argEq_is_derived.2, runStruct_exact build defaults uses [] hlen (by intro e he; cases he)⟩

/-- non-vacuity: `template<int N = 7> struct TS`: `TS<-1>`, `TS<>`, `TS<-2>`, `TS<7>`, `TS<-1>` -/
example : runStruct (fun k => k) [.const (.intLit 7)] []
    [[.const (.intLit (-1))], [], [.const (.intLit (-2))], [.const (.intLit 7)], [.const (.intLit (-1))]] =
    [[.const (.intLit (-1))], [.const (.intLit 7)], [.const (.intLit (-2))], [.const (.intLit 7)], [.const (.intLit (-1))]] := by
  decide

/-- **Why the key must be the constant itself** (negation witness for a key that matches value arguments "by value"
    through `to_uint64`): `Constant::to_uint64` — its arms are the extracted `Gen.PosTable.toUint64Table` — is `None` for
    every negative constant (and every enum), so such a comparison identifies `-1` with `-2`: the second of
    `tf<-1>(); tf<-2>()` is bound to the instantiation whose parameter is `-1`; it also binds `tf<3u>()` after `tf<3>()`
    to the instantiation typed by the untyped literal. -/
theorem to_uint64_key_identifies_negative_arguments :
    sameKey .byToUint64 [.const (.intLit (-1))] [.const (.intLit (-2))] = true ∧
    sameKey .byToUint64 [.const (.int32 (-1))] [.const (.int32 (-2147483648))] = true ∧
    sameKey .byToUint64 [.const (.intLit 3)] [.const (.uint32 3)] = true ∧
    sameKey .byToUint64 [.const (.enum 0 (.int32 1))] [.const (.enum 0 (.int32 5))] = true ∧
    run .byToUint64 (fun _ k => k) [] [(0, [.const (.intLit (-1))]), (0, [.const (.intLit (-2))])] =
      [[.const (.intLit (-1))], [.const (.intLit (-1))]] ∧
    run fnKeyMode (fun _ k => k) [] [(0, [.const (.intLit (-1))]), (0, [.const (.intLit (-2))])] =
      [[.const (.intLit (-1))], [.const (.intLit (-2))]] := by
  decide

end Instantiation

end RsslVerif.Thm.C13

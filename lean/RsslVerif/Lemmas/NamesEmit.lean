import RsslVerif.Model.NamesEmit
import RsslVerif.Lemmas.Names
/-!
Lemmas about `Model.NamesEmit.emit`: where the tokens of the emitted program come from.
-/
namespace RsslVerif.Lemmas.NamesEmit
open RsslVerif.Model.Names RsslVerif.Model.NamesEmit

/-! ### combinators for "every token of the list satisfies P" -/

def All (P : Tok → Prop) (l : List Tok) : Prop := ∀ tok ∈ l, P tok

theorem all_nil {P : Tok → Prop} : All P [] := fun _ h => by simp at h

theorem all_cons {P : Tok → Prop} {a : Tok} {l : List Tok} (ha : P a) (hl : All P l) : All P (a :: l) := by
  intro tok h
  rcases List.mem_cons.mp h with h | h
  · subst h; exact ha
  · exact hl _ h

theorem all_append {P : Tok → Prop} {a b : List Tok} (ha : All P a) (hb : All P b) : All P (a ++ b) := by
  intro tok h
  rcases List.mem_append.mp h with h | h
  · exact ha _ h
  · exact hb _ h

theorem all_flatMap {α : Type} {P : Tok → Prop} {l : List α} {f : α → List Tok} (h : ∀ x ∈ l, All P (f x)) :
    All P (l.flatMap f) := by
  intro tok ht
  obtain ⟨x, hx, hf⟩ := List.mem_flatMap.mp ht
  exact h x hx _ hf

theorem all_map {α : Type} {P : Tok → Prop} {l : List α} {f : α → Tok} (h : ∀ x ∈ l, P (f x)) :
    All P (l.map f) := by
  intro tok ht
  obtain ⟨x, hx, rfl⟩ := List.mem_map.mp ht
  exact h x hx

theorem all_replicate {P : Tok → Prop} {n : Nat} {a : Tok} (ha : P a) : All P (List.replicate n a) := by
  intro tok h
  obtain ⟨_, rfl⟩ := List.mem_replicate.mp h
  exact ha

theorem all_ite {P : Tok → Prop} {c : Prop} [Decidable c] {a b : List Tok} (ha : All P a) (hb : All P b) :
    All P (if c then a else b) := by
  split
  · exact ha
  · exact hb

/-! ### a declaration of an entity of the name map is printed with the leaf name the map gives it -/

def DeclStrict (names : List Named) : Tok → Prop
  | .decl _ _ n (.sym s) => n = leaf names s
  | _ => True

/-- the same with namespace blocks excepted (their name is a component of `get_name_qualified`) -/
def DeclOk (names : List Named) : Tok → Prop
  | .decl _ k n (.sym s) => k = "N" ∨ n = leaf names s
  | _ => True

theorem DeclStrict.weak {names : List Named} {tok : Tok} (h : DeclStrict names tok) : DeclOk names tok := by
  unfold DeclOk
  split
  · exact Or.inr h
  · trivial

theorem all_imp {P Q : Tok → Prop} {l : List Tok} (h : ∀ tok, P tok → Q tok) (hl : All P l) : All Q l :=
  fun tok ht => h tok (hl tok ht)

theorem memberDecls_ok (names : List Named) (sc : Scope) (k : String) (mk : Nat → Ent)
    (hmk : ∀ i s, mk i ≠ .sym s) : ∀ (ms : List String) (i : Nat), All (DeclStrict names) (memberDecls sc k mk ms i) := by
  intro ms
  induction ms with
  | nil => intro i; exact all_nil
  | cons m r ih =>
    intro i
    refine all_cons ?_ (ih _)
    unfold DeclStrict
    split
    · rename_i heq
      injection heq with _ _ _ h4
      exact absurd h4 (hmk _ _)
    · trivial

theorem typeToks_ok (names : List Named) (sc : Scope) (p : Program) (g : Nat) :
    All (DeclStrict names) (typeToks sc names p g) := by
  unfold typeToks
  split
  · exact all_cons trivial all_nil
  · split
    · exact all_cons trivial all_nil
    · exact all_nil

theorem memberTok_ok (names : List Named) (sc : Scope) (p : Program) (g : Nat) :
    All (DeclStrict names) (memberTok sc p g) := by
  unfold memberTok
  split
  · split
    · split
      · split
        · exact all_cons trivial all_nil
        · exact all_nil
      · exact all_nil
    · exact all_nil
  · exact all_nil

theorem waveParams_ok (names : List Named) (t : Target) (sc : Scope) (p : Program) (f : Nat) :
    All (DeclStrict names) (waveParams t sc p f) := by
  unfold waveParams
  exact all_ite (all_map fun _ _ => trivial) all_nil

theorem waveArgs_ok (names : List Named) (t : Target) (sc : Scope) (p : Program) (f : Nat) :
    All (DeclStrict names) (waveArgs t sc p f) := by
  unfold waveArgs
  exact all_ite (all_map fun _ _ => trivial) all_nil

theorem useToks_ok (t : Target) (names : List Named) (sc : Scope) (p : Program) (r : Ref) :
    All (DeclStrict names) (useToks t sc names p r) := by
  cases r <;> simp only [useToks]
  case glob k =>
    split
    · exact all_append (all_append (all_ite (typeToks_ok _ _ _ _) all_nil) (all_cons trivial all_nil)) (memberTok_ok _ _ _ _)
    · exact all_append (all_cons trivial all_nil) (memberTok_ok _ _ _ _)
  case func k =>
    split
    · exact all_nil
    · exact all_append (all_append (all_cons trivial all_nil) (waveArgs_ok _ _ _ _ _)) (all_ite (all_map fun _ _ => trivial) all_nil)
  case loc k => exact all_cons trivial all_nil
  case enumVal v => exact all_cons trivial all_nil
  case cbMember c i =>
    split
    · exact all_cons trivial (all_cons trivial all_nil)
    · exact all_cons trivial all_nil
  case structTy k => exact all_cons trivial all_nil
  case enumTy k => exact all_cons trivial all_nil
  case nothing => exact all_nil
  case wave c => exact all_ite (all_cons trivial all_nil) all_nil

theorem bodyToks_ok (t : Target) (names : List Named) (sc : Scope) (p : Program) (body : List BTok) :
    All (DeclStrict names) (bodyToks t sc names p body) := by
  unfold bodyToks
  refine all_flatMap fun b _ => ?_
  cases b with
  | lv k => exact all_cons (rfl) all_nil
  | op => exact all_cons trivial all_nil
  | cl => exact all_cons trivial all_nil
  | use r => exact useToks_ok _ _ _ _ _

theorem defToks_ok (t : Target) (names : List Named) (p : Program) (d : Def) :
    All (DeclStrict names) (defToks t names p d) := by
  unfold defToks
  split
  · exact all_append (all_append (all_append (all_cons (rfl) (all_cons trivial all_nil))
      (memberDecls_ok names _ _ _ (fun _ _ => by simp) _ _))
      (all_flatMap fun f _ => all_cons (rfl) (all_cons trivial (all_cons trivial all_nil))))
      (all_cons trivial all_nil)
  · exact all_append (all_append (all_cons (rfl) (all_cons trivial all_nil))
      (all_map fun _ _ => rfl)) (all_cons trivial all_nil)
  · exact all_ite all_nil (all_cons (rfl) all_nil)
  · refine all_ite (all_ite (all_cons (rfl) all_nil) all_nil) ?_
    exact all_append (all_append (typeToks_ok _ _ _ _) (all_cons (rfl) all_nil))
      (all_ite (all_cons trivial (all_cons trivial all_nil)) all_nil)
  · refine all_ite ?_ ?_
    · exact all_append (all_append (all_cons (rfl) (all_cons trivial all_nil))
        (memberDecls_ok names _ _ _ (fun _ _ => by simp) _ _)) (all_cons trivial all_nil)
    · exact all_append (all_append (all_cons trivial (all_cons trivial all_nil))
        (memberDecls_ok names _ _ _ (fun _ _ => by simp) _ _)) (all_cons trivial all_nil)
  · exact all_append (all_append (all_append (all_append (all_append (all_cons (rfl) (all_cons trivial all_nil))
      (all_map fun _ _ => rfl)) (waveParams_ok _ _ _ _ _))
      (all_ite (all_flatMap fun g _ => all_append (typeToks_ok _ _ _ _) (all_cons (rfl) all_nil)) all_nil))
      (bodyToks_ok _ _ _ _ _)) (all_cons trivial all_nil)

theorem wrap_all {P : Tok → Prop} (names : List Named) (p : Program) (hcl : P .cl) (hop : P .op)
    (hns : ∀ sc n e, P (.decl sc "N" n e)) :
    ∀ (l : List (Option Nat × List Tok)) (cur : List String),
      (∀ x ∈ l, All P x.2) → All P (wrap names p cur l) := by
  intro l
  induction l with
  | nil =>
    intro cur _
    simp only [wrap]
    exact all_map fun _ _ => hcl
  | cons x rest ih =>
    intro cur hl
    obtain ⟨ns, toks⟩ := x
    have hrest : ∀ y ∈ rest, All P y.2 := fun y hy => hl y (List.mem_cons_of_mem _ hy)
    simp only [wrap]
    split
    · exact ih _ hrest
    · refine all_append (all_append (all_append (all_replicate hcl) ?_) (hl (ns, toks) (List.mem_cons_self ..))) (ih _ hrest)
      exact all_flatMap fun j _ => all_cons (hns ..) (all_cons hop all_nil)

theorem inlinePrelude_ok (names : List Named) (p : Program) : All (DeclStrict names) (inlinePrelude names p) := by
  unfold inlinePrelude
  refine all_flatMap fun s _ => ?_
  exact all_append (all_append (all_cons trivial (all_cons trivial all_nil)) (all_map fun _ _ => rfl))
    (all_cons trivial (all_cons trivial (all_cons trivial all_nil)))

theorem mslEpilogue_ok (names : List Named) (p : Program) : All (DeclStrict names) (mslEpilogue names p) := by
  unfold mslEpilogue
  split
  · refine all_append (all_append (all_append (all_append (all_append ?_ (all_cons trivial (all_cons trivial all_nil))) ?_) ?_) ?_)
      (all_cons trivial all_nil)
    · unfold argBufferToks
      refine all_flatMap fun i _ => ?_
      exact all_append (all_append (all_cons trivial (all_cons trivial all_nil))
        (all_flatMap fun g _ => all_append (typeToks_ok _ _ _ _) (all_cons (rfl) all_nil))) (all_cons trivial all_nil)
    · unfold wrapperParams
      refine all_append (all_append ?_ (all_flatMap fun i _ => all_cons trivial (all_cons trivial all_nil)))
        (waveParams_ok _ _ _ _ _)
      split
      · exact all_cons (rfl) all_nil
      · exact all_nil
    · unfold wrapperLocals
      exact all_flatMap fun g _ => all_ite all_nil (all_cons (rfl) all_nil)
    · unfold wrapperCall
      refine all_append (all_append (all_append (all_cons trivial all_nil) ?_) (waveArgs_ok _ _ _ _ _)) ?_
      · split
        · exact all_cons trivial all_nil
        · exact all_nil
      · exact all_flatMap fun g _ => all_ite (all_cons trivial (all_cons trivial all_nil)) (all_cons trivial all_nil)
  · exact all_nil

/-- **every declaration of a map-managed entity in the emitted program carries the map's leaf name** (namespace
blocks aside, whose name is a component of `get_name_qualified`) -/
theorem emit_decl_ok (t : Target) (names : List Named) (p : Program) : All (DeclOk names) (emit t names p) := by
  unfold emit
  refine all_append (all_append (all_ite (all_imp (fun _ => DeclStrict.weak) (inlinePrelude_ok _ _)) all_nil) ?_)
    (all_ite (all_imp (fun _ => DeclStrict.weak) (mslEpilogue_ok _ _)) all_nil)
  refine wrap_all names p trivial trivial (fun _ _ e => ?_) _ _ ?_
  · cases e <;> first | exact Or.inl rfl | trivial
  · intro x hx
    obtain ⟨d, _, rfl⟩ := List.mem_map.mp hx
    exact all_imp (fun _ => DeclStrict.weak) (defToks_ok _ _ _ _)

/-- a program without namespaces: no namespace block is opened, the definitions follow one another -/
theorem wrap_flat (names : List Named) (p : Program) :
    ∀ (l : List (Option Nat × List Tok)), (∀ x ∈ l, x.1 = none) → wrap names p [] l = l.flatMap (·.2) := by
  intro l
  induction l with
  | nil => intro _; simp [wrap]
  | cons x rest ih =>
    intro h
    obtain ⟨ns, toks⟩ := x
    have hns : ns = none := h (ns, toks) (List.mem_cons_self ..)
    subst hns
    have hrest := ih (fun y hy => h y (List.mem_cons_of_mem _ hy))
    simp only [wrap, List.flatMap_cons]
    split
    · rename_i hc
      have : toks = [] := by
        simp only [Bool.and_eq_true, List.isEmpty_iff] at hc
        exact hc.1
      subst this
      simpa using hrest
    · simp [nsPath, commonPrefix, hrest]

theorem emit_flat (t : Target) (names : List Named) (p : Program) (hflat : ∀ d ∈ p.defs, d.ns = none) :
    emit t names p = (if t == .vkba then inlinePrelude names p else []) ++
      p.defs.flatMap (defToks t names p) ++ (if t.isMsl then mslEpilogue names p else []) := by
  unfold emit
  rw [wrap_flat]
  · simp [List.flatMap_map]
  · intro x hx
    obtain ⟨d, hd, rfl⟩ := List.mem_map.mp hx
    exact hflat d hd

theorem emit_flat_strict (t : Target) (names : List Named) (p : Program) (hflat : ∀ d ∈ p.defs, d.ns = none) :
    All (DeclStrict names) (emit t names p) := by
  rw [emit_flat t names p hflat]
  exact all_append (all_append (all_ite (inlinePrelude_ok _ _) all_nil) (all_flatMap fun d _ => defToks_ok _ _ _ _))
    (all_ite (mslEpilogue_ok _ _) all_nil)

/-! ### a file-scope declaration of a struct / enum / global / function sits in the namespace the registries record -/

/-- the registries hold an entry for the symbol with this scope -/
def HasEntry (t : Target) (p : Program) (s : Sym) (ns : Option Nat) : Prop :=
  ∃ e ∈ (namesInput t p).entries, e.sym = s ∧ e.scope = ns

def FileOk (t : Target) (p : Program) : Tok → Prop
  | .decl (.file ns) k _ (.sym s) => k = "N" ∨ HasEntry t p s ns
  | _ => True

theorem fileOk_of_not_file {t : Target} {p : Program} {sc : Scope} {k n : String} {e : Ent}
    (h : ∀ ns, sc ≠ .file ns) : FileOk t p (.decl sc k n e) := by
  unfold FileOk
  split
  · rename_i heq
    injection heq with h1 _ _ _
    exact absurd h1 (h _)
  · trivial

theorem memberDecls_all {P : Tok → Prop} (sc : Scope) (k : String) (mk : Nat → Ent)
    (h : ∀ m i, P (.decl sc k m (mk i))) : ∀ (ms : List String) (i : Nat), All P (memberDecls sc k mk ms i) := by
  intro ms
  induction ms with
  | nil => intro i; exact all_nil
  | cons m r ih => intro i; exact all_cons (h _ _) (ih _)

theorem typeToks_file (t : Target) (names : List Named) (sc : Scope) (p : Program) (g : Nat) :
    All (FileOk t p) (typeToks sc names p g) := by
  unfold typeToks
  split
  · exact all_cons trivial all_nil
  · split
    · exact all_cons trivial all_nil
    · exact all_nil

theorem memberTok_file (t : Target) (sc : Scope) (p : Program) (g : Nat) : All (FileOk t p) (memberTok sc p g) := by
  unfold memberTok
  split
  · split
    · split
      · split
        · exact all_cons trivial all_nil
        · exact all_nil
      · exact all_nil
    · exact all_nil
  · exact all_nil

theorem fileOk_gen {t : Target} {p : Program} {sc : Scope} {k n g : String} : FileOk t p (.decl sc k n (.gen g)) := by
  unfold FileOk
  split
  · rename_i heq
    injection heq with _ _ _ h4
    cases h4
  · trivial

theorem waveParams_file (t' t : Target) (sc : Scope) (p : Program) (f : Nat) :
    All (FileOk t' p) (waveParams t sc p f) := by
  unfold waveParams
  exact all_ite (all_map fun _ _ => fileOk_gen) all_nil

theorem waveArgs_file (t' t : Target) (sc : Scope) (p : Program) (f : Nat) :
    All (FileOk t' p) (waveArgs t sc p f) := by
  unfold waveArgs
  exact all_ite (all_map fun _ _ => trivial) all_nil

theorem useToks_file (t : Target) (names : List Named) (sc : Scope) (p : Program) (r : Ref) :
    All (FileOk t p) (useToks t sc names p r) := by
  cases r <;> simp only [useToks]
  case glob k =>
    split
    · exact all_append (all_append (all_ite (typeToks_file _ _ _ _ _) all_nil) (all_cons trivial all_nil)) (memberTok_file _ _ _ _)
    · exact all_append (all_cons trivial all_nil) (memberTok_file _ _ _ _)
  case func k =>
    split
    · exact all_nil
    · exact all_append (all_append (all_cons trivial all_nil) (waveArgs_file _ _ _ _ _)) (all_ite (all_map fun _ _ => trivial) all_nil)
  case loc k => exact all_cons trivial all_nil
  case enumVal v => exact all_cons trivial all_nil
  case cbMember c i =>
    split
    · exact all_cons trivial (all_cons trivial all_nil)
    · exact all_cons trivial all_nil
  case structTy k => exact all_cons trivial all_nil
  case enumTy k => exact all_cons trivial all_nil
  case nothing => exact all_nil
  case wave c => exact all_ite (all_cons trivial all_nil) all_nil

theorem bodyToks_file (t : Target) (names : List Named) (f : Nat) (p : Program) (body : List BTok) :
    All (FileOk t p) (bodyToks t (.func f) names p body) := by
  unfold bodyToks
  refine all_flatMap fun b _ => ?_
  cases b with
  | lv k => exact all_cons (fileOk_of_not_file (fun _ => by simp)) all_nil
  | op => exact all_cons trivial all_nil
  | cl => exact all_cons trivial all_nil
  | use r => exact useToks_file _ _ _ _ _

theorem mem_entries {t : Target} {p : Program} {e : Entry}
    (h : e ∈ structEntries p ∨ e ∈ enumEntries p ∨ e ∈ globalEntries p ∨ e ∈ funcEntries p) :
    e ∈ (namesInput t p).entries := by
  simp only [namesInput, List.mem_append]
  rcases h with h | h | h | h
  · exact Or.inl (Or.inl (Or.inl (Or.inl (Or.inl h))))
  · exact Or.inl (Or.inl (Or.inl (Or.inr h)))
  · exact Or.inl (Or.inl (Or.inr h))
  · exact Or.inr h

theorem defToks_file (t : Target) (names : List Named) (p : Program) (d : Def) (hd : d ∈ p.defs) :
    All (FileOk t p) (defToks t names p d) := by
  obtain ⟨ns, kind⟩ := d
  unfold defToks
  cases kind with
  | struct o n ms fs =>
    simp only
    refine all_append (all_append (all_append (all_cons (Or.inr ?_) (all_cons trivial all_nil))
      (memberDecls_all _ _ _ (fun _ _ => fileOk_of_not_file (fun _ => by simp)) _ _))
      (all_flatMap fun f _ => all_cons (fileOk_of_not_file (fun _ => by simp)) (all_cons trivial (all_cons trivial all_nil))))
      (all_cons trivial all_nil)
    exact ⟨⟨⟨.struct, o⟩, ns, n⟩, mem_entries (Or.inl (List.mem_filterMap.mpr ⟨_, hd, rfl⟩)), rfl, rfl⟩
  | enum o n vs =>
    simp only
    refine all_append (all_append (all_cons (Or.inr ?_) (all_cons trivial all_nil))
      (all_map fun _ _ => fileOk_of_not_file (fun _ => by simp))) (all_cons trivial all_nil)
    refine ⟨⟨⟨.enum, o⟩, ns, n⟩, mem_entries (Or.inr (Or.inl ?_)), rfl, rfl⟩
    exact List.mem_flatMap.mpr ⟨_, hd, List.mem_cons_self ..⟩
  | glob o n s =>
    simp only
    refine all_ite all_nil (all_cons (Or.inr ?_) all_nil)
    exact ⟨⟨⟨.global, o⟩, ns, n⟩, mem_entries (Or.inr (Or.inr (Or.inl (List.mem_filterMap.mpr ⟨_, hd, rfl⟩)))), rfl, rfl⟩
  | res o n kind opts =>
    simp only
    have he : HasEntry t p ⟨.global, o⟩ ns :=
      ⟨⟨⟨.global, o⟩, ns, n⟩, mem_entries (Or.inr (Or.inr (Or.inl (List.mem_filterMap.mpr ⟨_, hd, rfl⟩)))), rfl, rfl⟩
    refine all_ite (all_ite (all_cons (Or.inr he) all_nil) all_nil) ?_
    exact all_append (all_append (typeToks_file _ _ _ _ _) (all_cons (Or.inr he) all_nil))
      (all_ite (all_cons trivial (all_cons trivial all_nil)) all_nil)
  | cbuf c n g ms =>
    simp only
    split
    · rename_i hm
      refine all_append (all_append (all_cons (Or.inr ?_) (all_cons trivial all_nil))
        (memberDecls_all _ _ _ (fun _ _ => fileOk_of_not_file (fun _ => by simp)) _ _)) (all_cons trivial all_nil)
      refine ⟨⟨⟨.struct, cbStruct p c⟩, ns, n ++ "Type"⟩, ?_, rfl, rfl⟩
      simp only [namesInput, hm, if_true, List.mem_append]
      refine Or.inl (Or.inl (Or.inl (Or.inl (Or.inr ?_))))
      exact List.mem_map.mpr ⟨(c, ns, n), List.mem_filterMap.mpr ⟨_, hd, rfl⟩, rfl⟩
    · exact all_append (all_append (all_cons trivial (all_cons trivial all_nil))
        (memberDecls_all _ _ _ (fun _ _ => trivial) _ _)) (all_cons trivial all_nil)
  | func o n ps body entry =>
    simp only
    refine all_append (all_append (all_append (all_append (all_append (all_cons (Or.inr ?_) (all_cons trivial all_nil))
      (all_map fun _ _ => fileOk_of_not_file (fun _ => by simp))) (waveParams_file _ _ _ _ _))
      (all_ite (all_flatMap fun g _ => all_append (typeToks_file _ _ _ _ _)
        (all_cons (fileOk_of_not_file (fun _ => by simp)) all_nil)) all_nil))
      (bodyToks_file _ _ _ _ _)) (all_cons trivial all_nil)
    refine ⟨⟨⟨.func, o⟩, ns, n⟩, mem_entries (Or.inr (Or.inr (Or.inr ?_))), rfl, rfl⟩
    exact List.mem_flatMap.mpr ⟨_, hd, List.mem_cons_self ..⟩

theorem inlinePrelude_file (t : Target) (names : List Named) (p : Program) : All (FileOk t p) (inlinePrelude names p) := by
  unfold inlinePrelude
  refine all_flatMap fun s _ => ?_
  exact all_append (all_append (all_cons trivial (all_cons trivial all_nil))
    (all_map fun _ _ => fileOk_of_not_file (fun _ => by simp)))
    (all_cons trivial (all_cons trivial (all_cons trivial all_nil)))

theorem mslEpilogue_file (t : Target) (names : List Named) (p : Program) : All (FileOk t p) (mslEpilogue names p) := by
  unfold mslEpilogue
  split
  · refine all_append (all_append (all_append (all_append (all_append ?_ (all_cons trivial (all_cons trivial all_nil))) ?_) ?_) ?_)
      (all_cons trivial all_nil)
    · unfold argBufferToks
      refine all_flatMap fun i _ => ?_
      exact all_append (all_append (all_cons trivial (all_cons trivial all_nil))
        (all_flatMap fun g _ => all_append (typeToks_file _ _ _ _ _)
          (all_cons (fileOk_of_not_file (fun _ => by simp)) all_nil))) (all_cons trivial all_nil)
    · unfold wrapperParams
      refine all_append (all_append ?_ (all_flatMap fun i _ => all_cons trivial (all_cons trivial all_nil)))
        (waveParams_file _ _ _ _ _)
      split
      · exact all_cons (fileOk_of_not_file (fun _ => by simp)) all_nil
      · exact all_nil
    · unfold wrapperLocals
      exact all_flatMap fun g _ => all_ite all_nil (all_cons (fileOk_of_not_file (fun _ => by simp)) all_nil)
    · unfold wrapperCall
      refine all_append (all_append (all_append (all_cons trivial all_nil) ?_) (waveArgs_file _ _ _ _ _)) ?_
      · split
        · exact all_cons trivial all_nil
        · exact all_nil
      · exact all_flatMap fun g _ => all_ite (all_cons trivial (all_cons trivial all_nil)) (all_cons trivial all_nil)
  · exact all_nil

theorem emit_file_ok (t : Target) (names : List Named) (p : Program) : All (FileOk t p) (emit t names p) := by
  unfold emit
  refine all_append (all_append (all_ite (inlinePrelude_file _ _ _) all_nil) ?_) (all_ite (mslEpilogue_file _ _ _) all_nil)
  refine wrap_all names p trivial trivial (fun sc _ e => ?_) _ _ ?_
  · unfold FileOk
    split
    · rename_i heq
      injection heq with _ h2 _ _
      exact Or.inl h2.symm
    · trivial
  · intro x hx
    obtain ⟨d, hd, rfl⟩ := List.mem_map.mp hx
    exact defToks_file _ _ _ _ hd

end RsslVerif.Lemmas.NamesEmit

import RsslVerif.Model.Progress
import RsslVerif.Model.DefinedLoc
import RsslVerif.Model.PipelineProps
import RsslVerif.Driver.Util
/-! Line-protocol front end of the C08 models (TokenStream bookkeeping, ConditionChain, macro scan with locations). -/
namespace RsslVerif.Driver.C08
open RsslVerif.Model.Progress RsslVerif.Driver

/-! ### `C08.defscan`: `Macro::parse` of the definitions, then `apply_macros(command, macros, true)` -/
section DefScan
open RsslVerif.Model.DefinedLoc RsslVerif.Gen.ArithSites

/-- `i3:10:13` identifier 3 · `l r c` parentheses, comma · `b` blank · `e` endline · `h` `##` · `n7` literal · `o` other -/
def parseTok (s : String) : Option Tok :=
  match s.splitOn ":" with
  | [k, a, b] =>
    match a.toNat?, b.toNat? with
    | some a, some b =>
      let kind : Option K :=
        if k == "l" then some .lparen else if k == "r" then some .rparen else if k == "c" then some .comma
        else if k == "b" then some .blank else if k == "e" then some .endline else if k == "h" then some .hashhash
        else if k == "o" then some .other
        else if k.startsWith "i" then (k.drop 1).toNat?.map K.id
        else if k.startsWith "n" then (k.drop 1).toNat?.map K.lit
        else none
      kind.map (⟨·, a, b⟩)
    | _, _ => none
  | _ => none

def parseToks (s : String) : Option (List Tok) :=
  if s == "-" then some [] else sequenceOpt ((s.splitOn " ").map parseTok)

/-- `textMode = false`: the tokens are the condition of an `#if` (`trim_whitespace`, `apply_defined = true`);
    `textMode = true`: ordinary source text, several lines, scanned by `flush_normal` with `apply_defined = false` -/
def defScan (defs : List (List Tok)) (cmd : List Tok) (textMode : Bool := false) : String :=
  let rec build : List (List Tok) → List Macro → Except Err (List Macro)
    | [], ms => .ok ms
    | d :: r, ms =>
      match parseDefine d with
      | .error e => .error e
      | .ok m => build r (addMacro ms m)
  match build defs [] with
  | .error _ => "err:invalid-define"
  | .ok ms =>
    match applyMacros (fun _ _ => none) bodyRescanFlag argExpandFlag 100000 ms (if textMode then cmd else trim cmd) (!textMode) with
    | .ok _ => "done"
    | .error .invalidDefine => "err:invalid-define"
    | .error .macroRequiresArguments => "err:requires-arguments"
    | .error .macroArgumentsNeverEnd => "err:arguments-never-end"
    | .error .macroExpectsDifferentNumberOfArguments => "err:different-number"
    | .error .concatMissingLeftToken => "err:concat-left"
    | .error .concatMissingRightToken => "err:concat-right"
    | .error .concatFailed => "unsupported: the result of ## needs the lexer"
    | .error (.panic s) => "panic:" ++ s
    | .error .subOverflow => "panic:attempt to subtract with overflow"
    | .error .hang => "hang"
    | .error .fuel => "model: out of fuel"

end DefScan

/-- `3,1e,2` -> [(3,false),(1,true),(2,false)] : raw token lengths produced by the real single-token lexer -/
def parseScript (s : String) : Option (List (Nat × Bool)) :=
  if s == "-" then some [] else
  sequenceOpt ((s.splitOn ",").map fun item =>
    let endl := item.endsWith "e"
    let num := if endl then (item.dropEnd 1).toString else item
    num.toNat?.map (·, endl))

/-- the single-token lexer replayed from the script: at offset `off` it returns the token that starts there -/
def scriptLex (script : List (Nat × Bool)) : Lex := fun off =>
  let rec go (pos : Nat) : List (Nat × Bool) → Option (Nat × Bool)
    | [] => none
    | (l, e) :: r => if pos == off then some (pos + l, e) else go (pos + l) r
  go 0 script

def showSpan (sp : Span) : String :=
  toString sp.start ++ "-" ++ toString sp.stop ++ (if sp.endl then "e" else "")

/-- Directive letters → the tree of files.  `i I d D l L e n` as in `harness/src/c08.rs`, `x` a directive line that
    starts with a number (`#3`), `(`..`)` an `#include` of a file holding the enclosed lines, anything else a text
    line; the id of a text line is the index of its letter in the whole string.  Every call consumes a letter, so
    `length + 1` fuel is enough.  Result: (lines, letters after the closing parenthesis, next index). -/
def parseLines : Nat → Nat → List Char → Bool → Option (Lines × List Char × Nat)
  | 0, _, _, _ => none
  | _ + 1, k, [], nested => if nested then none else some (.nil, [], k)
  | fuel + 1, k, c :: r, nested =>
    if c == ')' then (if nested then some (.nil, r, k + 1) else none)
    else if c == '(' then
      match parseLines fuel (k + 1) r true with
      | none => none
      | some (inner, r', k') =>
        match parseLines fuel k' r' nested with
        | none => none
        | some (rest, r'', k'') => some (.cons (.incl inner) rest, r'', k'')
    else
      let d : Dir :=
        match c with
        | 'i' => Dir.ifD true
        | 'I' => Dir.ifD false
        | 'd' => Dir.ifD true
        | 'D' => Dir.ifD false
        | 'l' => Dir.elif true
        | 'L' => Dir.elif false
        | 'e' => Dir.els
        | 'n' => Dir.endif
        | 'x' => Dir.junk
        | _ => Dir.text k
      match parseLines fuel (k + 1) r nested with
      | none => none
      | some (rest, r', k') => some (.cons d rest, r', k')

def parseDirs (s : String) : Option Lines :=
  (parseLines (s.length + 1) 0 s.toList false).map (·.1)

/-- `name@column,name@column,..` (an empty string = an empty block) -/
def parseProps (s : String) : Option (List (String × Nat)) :=
  if s == "-" then some [] else
  sequenceOpt ((s.splitOn ",").map fun f =>
    match f.splitOn "@" with
    | [n, c] => c.toNat?.map fun k => (n, k)
    | _ => none)

open RsslVerif.Model.PipelineProps RsslVerif.Gen.PipelineProps in
/-- C08.pipeprops: the duplicate check and the state loop of `parse_pipeline` (`g` graphics, `c` compute) or the duplicate
    check and the walk of `parse_static_sampler` (`s`), with the comparison and the tables re-extracted from the source.
    What `add_stage` and the stage validation do is not modelled: a block whose stage assignments are not exactly the
    valid set of its kind is `unsupported` unless the duplicate check already answered. -/
def pipeProps (kind : String) (ps : List (String × Nat)) : String :=
  let render (o : Out) : String :=
    match o with
    | .panic n => if n.startsWith "RenderTargetFormat" then "panic:RenderTargetFormat" else s!"panic:{n}"
    | o => o.render
  if kind == "s" then
    match runSampler samplerDupCompare samplerProps ps with
    | some o => render o
    | none => "unsupported: the duplicate check of parse_static_sampler compares in an unrecognised way"
  else
    let isCompute := kind == "c"
    let wanted := if isCompute then ["ComputeShader"] else ["VertexShader", "PixelShader"]
    let stages := (ps.map (·.1)).filter (fun n => stageProps.contains n)
    let stagesValid := wanted.all (fun w => stages.count w == 1) && stages.length == wanted.length &&
      -- `is_compute` is read from the first stage
      (isCompute || stages.head? != some "ComputeShader")
    match runAs pipelineDupCompare stateArms stageProps isCompute ps with
    | none => "unsupported: the duplicate check of parse_pipeline compares in an unrecognised way"
    | some (.dup l) => render (.dup l)
    | some o => if stagesValid then render o else "unsupported: stage assignments other than the valid set of the kind (add_stage / stage validation are not modelled)"

def handle (op : String) (args : List String) : String :=
  match op, args with
  | "C08.pipeprops", [kind, props] =>
    match parseProps props with
    | some ps => pipeProps kind ps
    | none => "bad-request"
  | "C08.lex", [bytesHex, script] =>
    if script == "!" then "unsupported: the single-token lexer failed (C10 models which bytes do)" else
    match parseScript script with
    | none => "bad-request"
    | some sc =>
      let len := bytesHex.length / 2
      match readToEnd (scriptLex sc) (len + 2) (Stream.new len) [] with
      | some (.tokens l) => " ".intercalate (l.map showSpan)
      | some .lexError => "model: lexer error"
      | some .panicAssertEndline => "panic:assert !last_was_endline"
      | some .panicNoProgress => "panic:no progress"
      | none => "model: out of fuel"
  | "C08.cond", [letters] =>
    match parseDirs letters with
    | none => "bad-request"
    | some f =>
      match runFile f with
      | .ok ids => "ok:" ++ ",".intercalate (ids.map toString)
      | .error .elseNotMatched => "err:else-not-matched"
      | .error .endIfNotMatched => "err:endif-not-matched"
      | .error .notFinished => "err:not-finished"
      | .error .elseAfterElse => "err:else-after-else"
      | .error .elifAfterElse => "err:elif-after-else"
      | .error .unknownCommand => "err:unknown-command"
      | .error .panicSlice => "panic:range start index out of range for slice"
  | "C08.defscan", [defsS, cmdS, _scenario] =>
    let defs := if defsS == "-" then some [] else sequenceOpt ((defsS.splitOn "|").map parseToks)
    match defs, parseToks cmdS with
    | some ds, some cmd => defScan ds cmd
    | _, _ => "bad-request"
  | "C08.textscan", [defsS, cmdS, _scenario] =>
    let defs := if defsS == "-" then some [] else sequenceOpt ((defsS.splitOn "|").map parseToks)
    match defs, parseToks cmdS with
    | some ds, some cmd => defScan ds cmd true
    | _, _ => "bad-request"
  | "C08.compile", _ => "unsupported: whole-compiler totality is observed by the supervised run, not predicted"
  | _, _ => "unsupported-op"

end RsslVerif.Driver.C08

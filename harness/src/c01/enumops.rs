//! Enum operands of binary operations (C01.vfn, every tier).  Since fix 80dd7f9 an enum that meets a value of another type
//! takes part with its *underlying* type (`most_significant_non_vector`): a uint based enum next to an int / bool is
//! computed in uint (`(uint)E1M > (uint)i`, was `(int)E1M > i`), and an enum next to an untyped literal (`x == 0`, `x + 1`,
//! `x << 1`), which the type checker used to reject, is accepted and done in the underlying type.  Exhaustive small shapes:
//! {int based, uint based enum} x {variable, enumerator} x 14 other operands (int / uint / float / bool variables, int /
//! uint / float / bool literals (an unsuffixed float literal next to a run-time value is literal arithmetic, which neither evaluator
//! interprets: not generated), negative and out-of-int-range literals, a cast literal, an enumerator / variable of the same
//! enum) x 18 binary operators x both operand orders, each a one-statement function on a grid with 0, -1, INT_MIN / INT_MAX,
//! UINT_MAX, NaN; plus compound assignments with an enum on the right and `?:` with an enum arm.  The two Rust evaluators
//! judge (typed IR against re-parsed text under C rules: an unscoped enumeration promotes to its underlying type).
#![allow(dead_code)]

/// (tag, definition, type name, variable initialiser from `int k`, an enumerator, a second enumerator)
const ENUMS: [(&str, &str, &str, &str, &str, &str); 2] = [
    ("int", "enum E { EA, EB = 5, EC, EN = -3 };", "E", "k > 0 ? EB : (k < 0 ? EN : EA)", "E::EN", "EB"),
    ("uint", "enum U { UA = 0, UB = 7, UM = 4294967295u };", "U", "k > 0 ? UM : (k < 0 ? UB : UA)", "U::UM", "UB"),
];

/// the other operand: (tag, text); `$2` = the second enumerator of the same enum, `y` = a second variable of the enum
const OTHERS: [(&str, &str); 14] = [
    ("int-var", "i"),
    ("uint-var", "u"),
    ("float-var", "f"),
    ("bool-var", "b"),
    ("lit-0", "0"),
    ("lit-1", "1"),
    ("lit-neg", "-1"),
    ("lit-big", "4294967295"),
    ("lit-uint", "3u"),
    ("lit-float32", "2.5f"),
    ("lit-true", "true"),
    ("cast-lit", "(int)-1"),
    ("same-enumerator", "$2"),
    ("same-var", "y"),
];

const ARITH: [(&str, &str); 5] = [("add", "+"), ("sub", "-"), ("mul", "*"), ("div", "/"), ("mod", "%")];
const BITS: [(&str, &str); 5] = [("and", "&"), ("or", "|"), ("xor", "^"), ("shl", "<<"), ("shr", ">>")];
const CMPS: [(&str, &str); 6] = [("lt", "<"), ("le", "<="), ("gt", ">"), ("ge", ">="), ("eq", "=="), ("ne", "!=")];
const LOGIC: [(&str, &str); 2] = [("land", "&&"), ("lor", "||")];

pub fn grid_text() -> String {
    // int i, uint u, float f, bool b, int k (selects the value of the enum variables)
    [
        "i:00000000,u:00000000,f:00000000,b:0,i:00000000",
        "i:ffffffff,u:00000007,f:40200000,b:1,i:00000001",
        "i:00000005,u:ffffffff,f:bf800000,b:0,i:ffffffff",
        "i:7fffffff,u:80000000,f:7fc00000,b:1,i:00000001",
        "i:80000000,u:00000001,f:4f800000,b:0,i:00000001",
        "i:fffffffd,u:fffffffd,f:c0400000,b:1,i:ffffffff",
        "i:00000021,u:00000020,f:40e00000,b:1,i:00000000",
    ]
    .join(";")
}

fn func(def: &str, ty: &str, init: &str, second: &str, ret: &str, body: &str) -> String {
    format!(
        "{}\n{} f1(int i, uint u, float f, bool b, int k)\n{{\n    {} x = {};\n    {} y = k == 0 ? {} : x;\n{}\n}}\n",
        def, ret, ty, init, ty, second, body
    )
}

pub fn stream() -> Vec<(String, String)> {
    let mut out = Vec::new();
    for (et, def, ty, init, c1, c2) in ENUMS {
        for (xn, x) in [("var", "x"), ("enumerator", c1)] {
            for (on, o) in OTHERS {
                let o = o.replace("$2", c2);
                let float_side = on == "float-var" || on == "lit-float32";
                for (order, l, r) in [("xo", x, o.as_str()), ("ox", o.as_str(), x)] {
                    let tag = |opn: &str| format!("enumop[{}]:{}:{}:{}:{}", et, xn, on, opn, order);
                    for (opn, op) in ARITH {
                        // the result goes through a declaration of the type C gives the operation only when that is float;
                        // an int / uint result is returned as uint (no bit is lost either way)
                        let (ret, body) = if float_side {
                            ("float", format!("    float r = {} {} {};\n    return r;", l, op, r))
                        } else {
                            ("uint", format!("    return (uint)({} {} {});", l, op, r))
                        };
                        out.push((tag(opn), func(def, ty, init, c2, ret, &body)));
                    }
                    if !float_side {
                        for (opn, op) in BITS {
                            out.push((tag(opn), func(def, ty, init, c2, "uint", &format!("    return (uint)({} {} {});", l, op, r))));
                        }
                    }
                    for (opn, op) in CMPS {
                        out.push((tag(opn), func(def, ty, init, c2, "int", &format!("    int r = 0;\n    if ({} {} {})\n    {{\n        r = 1;\n    }}\n    bool c = {} {} {};\n    return r + (c ? 2 : 0);", l, op, r, l, op, r))));
                    }
                    for (opn, op) in LOGIC {
                        out.push((tag(opn), func(def, ty, init, c2, "bool", &format!("    return {} {} {};", l, op, r))));
                    }
                }
            }
            // the enum on the right of a compound assignment (converted to the target's type) and as an arm of `?:`
            for (opn, op) in [("add", "+="), ("sub", "-="), ("mul", "*="), ("div", "/="), ("mod", "%="), ("and", "&="), ("or", "|="), ("xor", "^="), ("shl", "<<="), ("shr", ">>=")] {
                out.push((format!("enumop[{}]:{}:assign-int:{}", et, xn, opn), func(def, ty, init, c2, "int", &format!("    i {} {};\n    return i;", op, x))));
                out.push((format!("enumop[{}]:{}:assign-uint:{}", et, xn, opn), func(def, ty, init, c2, "uint", &format!("    u {} {};\n    return u;", op, x))));
            }
            for (opn, op) in [("add", "+="), ("sub", "-="), ("mul", "*="), ("div", "/=")] {
                out.push((format!("enumop[{}]:{}:assign-float:{}", et, xn, opn), func(def, ty, init, c2, "float", &format!("    f {} {};\n    return f;", op, x))));
            }
            // (`b ? x : i`, `b ? x : 0` — an enum and another type as the two arms — are still rejected by the type checker)
            out.push((format!("enumop[{}]:{}:same-var:tern", et, xn), func(def, ty, init, c2, "uint", &format!("    return (uint)(b ? {} : y) + (uint)(b ? y : {});", x, x))));
            // nested: the result of an enum operation meets another operand
            out.push((format!("enumop[{}]:{}:nested", et, xn), func(def, ty, init, c2, "uint", &format!("    return (uint)(({} + i) * u) + (uint)({} >> 1) + (({} > i) == ({} > u) ? 16u : 32u);", x, x, x, x))));
        }
    }
    out
}

import RsslVerif.Lemmas.FixpointArith
import RsslVerif.Lemmas.FixpointPlace
set_option linter.unusedSimpArgs false
/-!
Lemmas for C04 `reelab_no_new_casts`, part 3: the conditional operator, the assignment family and the unary
operators are rebuilt identically from re-elaborated operands.  Core Lean only.
-/
namespace RsslVerif.Lemmas.FixpointForms
open RsslVerif.Gen.RankTable RsslVerif.Gen.TypingTables
open RsslVerif.Model.Conv RsslVerif.Model.Overload RsslVerif.Model.IrTyping RsslVerif.Model.Elab
open RsslVerif.Model.Fixpoint RsslVerif.Lemmas.ElabConv RsslVerif.Lemmas.Elab RsslVerif.Lemmas.ElabExact
open RsslVerif.Lemmas.ElabRelease RsslVerif.Lemmas.FixpointElab RsslVerif.Lemmas.FixpointArith RsslVerif.Lemmas.FixpointArithDim
open RsslVerif.Lemmas.FixpointPlace

/-! ## `?:` — the common type of the arms is stable -/

@[simp] theorem mostSig_idem1 (l r : Scalar) : mostSigScalar (mostSigScalar l r) r = mostSigScalar l r := by
  cases l <;> cases r <;> decide
@[simp] theorem mostSig_idem2 (l r : Scalar) : mostSigScalar l (mostSigScalar l r) = mostSigScalar l r := by
  cases l <;> cases r <;> decide
@[simp] theorem mostSig_idem3 (l : Scalar) : mostSigScalar l l = l := by
  cases l <;> decide

/-! since fix c05bffa the element kind of `?:` is remapped (`IntLiteral` → `int`, `FloatLiteral` → `float`) unless both
    arms are scalars; the remapped kind is again stable when an arm is replaced by the common type -/
@[simp] theorem ternRemap_idem1 (l r : Scalar) :
    litTernRemap (mostSigScalar (litTernRemap (mostSigScalar l r)) r) = litTernRemap (mostSigScalar l r) := by
  cases l <;> cases r <;> decide
@[simp] theorem ternRemap_idem2 (l r : Scalar) :
    litTernRemap (mostSigScalar l (litTernRemap (mostSigScalar l r))) = litTernRemap (mostSigScalar l r) := by
  cases l <;> cases r <;> decide
@[simp] theorem ternRemap_idem3 (l : Scalar) : litTernRemap (litTernRemap l) = litTernRemap l := by
  cases l <;> decide

def vdim (n1 n2 : Nat) : Nat := if n1 = 1 ∨ n2 = 1 then max n1 n2 else min n1 n2

theorem vdim_idem (n1 n2 : Nat) :
    vdim (vdim n1 n2) n2 = vdim n1 n2 ∧ vdim n1 (vdim n1 n2) = vdim n1 n2 ∧ vdim (vdim n1 n2) (vdim n1 n2) = vdim n1 n2 := by
  unfold vdim
  refine ⟨?_, ?_, ?_⟩ <;> (repeat' split) <;> omega

theorem ternTargets_vv (s1 s2 : Scalar) (n1 n2 : Nat) :
    ternTargets (.vector s1 n1) (.vector s2 n2) =
      .ok (.vector (litTernRemap (mostSigScalar s1 s2)) (vdim n1 n2),
           .vector (litTernRemap (mostSigScalar s1 s2)) (vdim n1 n2)) := by
  unfold vdim
  by_cases hc : n1 = 1 ∨ n2 = 1 <;>
    simp [ternTargets, ternScalar, Layer.extractScalar, mostSignificantDimension, Layer.ofDim, hc]

theorem ternTargets_stable {la lb lt la0 lb0 : Layer} (h : ternTargets la lb = .ok (lt, lt))
    (ha : la0 = la ∨ la0 = lt) (hb : lb0 = lb ∨ lb0 = lt) : ternTargets la0 lb0 = .ok (lt, lt) := by
  cases la <;> cases lb
  case vector.vector s1 n1 s2 n2 =>
    rw [ternTargets_vv] at h
    simp at h
    subst h
    obtain ⟨d1, d2, d3⟩ := vdim_idem n1 n2
    rcases ha with rfl | rfl <;> rcases hb with rfl | rfl <;> rw [ternTargets_vv] <;> simp [*]
  all_goals
    simp [ternTargets, ternScalar, Layer.extractScalar, mostSignificantDimension, Layer.transformScalar, Layer.ofDim] at h
  all_goals (try (obtain ⟨h1, h2⟩ := h; subst h1; first | (cases h2; done) | skip))
  all_goals (try subst h)
  all_goals (try (rcases ha with rfl | rfl <;> rcases hb with rfl | rfl <;>
    simp [ternTargets, ternScalar, Layer.extractScalar, mostSignificantDimension, Layer.transformScalar, Layer.ofDim] <;> done))
  · injection h2 with h2; subst h2
    rcases ha with rfl | rfl <;> rcases hb with rfl | rfl <;>
      simp [ternTargets, ternScalar, Layer.extractScalar, mostSignificantDimension]
  · injection h2 with h2; subst h2
    rcases ha with rfl | rfl <;> rcases hb with rfl | rfl <;>
      simp [ternTargets, ternScalar, Layer.extractScalar, mostSignificantDimension]

theorem ternTargets_floatLit_left (lb x : Layer) :
    ternTargets (.scalar .floatLiteral) lb ≠ .ok (.scalar .int32, x) := by
  cases lb with
  | scalar s => cases s <;> simp +decide [ternTargets, ternScalar, litTernRemap, Layer.extractScalar, mostSignificantDimension, Layer.ofDim, mostSigScalar]
  | vector s n => cases s <;> simp +decide [ternTargets, ternScalar, litTernRemap, Layer.extractScalar, mostSignificantDimension, Layer.ofDim, mostSigScalar]
  | matrix s p q => cases s <;> simp +decide [ternTargets, ternScalar, litTernRemap, Layer.extractScalar, mostSignificantDimension, Layer.transformScalar, mostSigScalar]
  | enum i => simp [ternTargets, Layer.extractScalar, mostSignificantDimension]
  | other i => simp [ternTargets, Layer.extractScalar, mostSignificantDimension]

theorem ternTargets_floatLit_right (la x : Layer) :
    ternTargets la (.scalar .floatLiteral) ≠ .ok (x, .scalar .int32) := by
  cases la with
  | scalar s => cases s <;> simp +decide [ternTargets, ternScalar, litTernRemap, Layer.extractScalar, mostSignificantDimension, Layer.ofDim, mostSigScalar]
  | vector s n => cases s <;> simp +decide [ternTargets, ternScalar, litTernRemap, Layer.extractScalar, mostSignificantDimension, Layer.ofDim, mostSigScalar]
  | matrix s p q => cases s <;> simp +decide [ternTargets, ternScalar, litTernRemap, Layer.extractScalar, mostSignificantDimension, Layer.transformScalar, mostSigScalar]
  | enum i => simp [ternTargets, Layer.extractScalar, mostSignificantDimension]
  | other i => simp [ternTargets, Layer.extractScalar, mostSignificantDimension]

theorem convert_inv {e e' : IExpr} {s d t : ETy} (h : convert e s d = .ok (some (e', t))) :
    ∃ c, find s d = .ok (some c) ∧ applyConv c e = .ok e' ∧ t = d := by
  unfold convert at h
  split at h
  · simp at h
  · simp at h
  · rename_i c hf
    split at h
    · simp at h
    · rename_i e2 ha
      rw [targetType_ok hf] at h
      simp at h
      exact ⟨c, hf, by rw [ha, h.1], h.2.symm⟩

theorem and3_idem (m : Nat) : (m &&& 3) &&& 3 = m &&& 3 := by
  rw [Nat.and_assoc]; rfl

/-- the type the arms of `?:` are converted to -/
def TTy (τa : ETy) (lt : Layer) : ETy := (Ty.mk { rest := τa.ty.mod.rest &&& 3 } lt).r

theorem boolR_ne_int32 : boolR ≠ (scalarTy .int32).r := by decide

/-- **`?:` is stable under re-elaboration.** -/
theorem elabTern_stable {c' a' b' n : IExpr} {τc τa τb τ : ETy}
    (h : elabTern c' τc a' τa b' τb = .ok (n, τ)) :
    ∃ D cc ca cb c2 a2 b2, find τc boolR = .ok (some cc) ∧ applyConv cc c' = .ok c2 ∧
      find τa D = .ok (some ca) ∧ find τb D = .ok (some cb) ∧ D.vt = .rvalue ∧
      applyConv ca a' = .ok a2 ∧ applyConv cb b' = .ok b2 ∧ n = .tern c2 a2 b2 ∧
      (∀ c0 τc0 a0 τa0 b0 τb0, Back τc boolR c' c2 c0 τc0 → Back τa D a' a2 a0 τa0 → Back τb D b' b2 b0 τb0 →
        elabTern c0 τc0 a0 τa0 b0 τb0 = .ok (n, τ)) := by
  unfold elabTern at h
  split at h
  · simp at h
  · rename_i lt rt htt
    split at h
    · simp at h
    · rename_i heq
      simp at heq; subst heq
      split at h
      · simp at h
      · simp at h
      · rename_i ca hca
        split at h
        · simp at h
        · simp at h
        · rename_i cb hcb
          unfold ternBuild at h
          split at h
          · simp at h
          · rename_i a2 ha2
            split at h
            · simp at h
            · rename_i b2 hb2
              rw [targetType_ok hca, targetType_ok hcb] at h
              simp only [ne_eq, not_true_eq_false, if_false] at h
              split at h
              · simp at h
              · rename_i hvm
                split at h
                · simp at h
                · simp at h
                · rename_i c2 tc hcc
                  simp at h
                  obtain ⟨cc, hfc, hac, _⟩ := convert_inv hcc
                  refine ⟨TTy τa lt, cc, ca, cb, c2, a2, b2, hfc, hac, hca, hcb, rfl, ha2, hb2, h.1.symm, ?_⟩
                  intro c0 τc0 a0 τa0 b0 τb0 hbc hba hbb
                  -- the left arm decides the modifier of the common type
                  have hD0 : TTy τa0 lt = TTy τa lt := by
                    cases hba with
                    | same => rfl
                    | exact _ => simp [TTy, Ty.r, and3_idem]
                    | relit _ hD hτ =>
                      rcases hτ with rfl | rfl
                      · rfl
                      · exfalso
                        have hl : lt = .scalar .int32 := by
                          have := congrArg (fun (t : ETy) => t.ty.layer) hD
                          simpa [TTy, Ty.r, scalarTy] using this
                        subst hl
                        exact ternTargets_floatLit_left _ _ htt
                  have hla : τa0.ty.layer = τa.ty.layer ∨ τa0.ty.layer = lt := by
                    cases hba with
                    | same => exact Or.inl rfl
                    | exact _ => exact Or.inr rfl
                    | relit _ hD hτ =>
                      rcases hτ with rfl | rfl
                      · exact Or.inl rfl
                      · exfalso
                        have hl : lt = .scalar .int32 := by
                          have := congrArg (fun (t : ETy) => t.ty.layer) hD
                          simpa [TTy, Ty.r, scalarTy] using this
                        subst hl
                        exact ternTargets_floatLit_left _ _ htt
                  have hlb : τb0.ty.layer = τb.ty.layer ∨ τb0.ty.layer = lt := by
                    cases hbb with
                    | same => exact Or.inl rfl
                    | exact _ => exact Or.inr rfl
                    | relit _ hD hτ =>
                      rcases hτ with rfl | rfl
                      · exact Or.inl rfl
                      · exfalso
                        have hl : lt = .scalar .int32 := by
                          have := congrArg (fun (t : ETy) => t.ty.layer) hD
                          simpa [TTy, Ty.r, scalarTy] using this
                        subst hl
                        exact ternTargets_floatLit_right _ _ htt
                  have htt0 := ternTargets_stable htt hla hlb
                  obtain ⟨ca0, hca0, ha20⟩ := back_find hca ha2 hba
                  obtain ⟨cb0, hcb0, hb20⟩ := back_find hcb hb2 hbb
                  have hcc0 := back_convert hfc hac hbc
                  have hvm0 : τc0.ty.layer.isVecOrMat = false := by
                    cases hbc with
                    | same => simpa using hvm
                    | exact _ => rfl
                    | relit _ hD _ => exact absurd hD boolR_ne_int32
                  unfold TTy at hD0
                  unfold elabTern
                  simp only [htt0, ne_eq, not_true_eq_false, if_false, hD0, hca0, hcb0]
                  unfold ternBuild
                  simp only [ha20, hb20, targetType_ok hca0, targetType_ok hcb0, ne_eq, not_true_eq_false, if_false, hvm0,
                    hcc0]
                  simp [h.1, h.2]

/-! ## the assignment family -/

/-- **Assignments are stable under re-elaboration** (the left operand is never converted; since fix 4575004 the written
    operand is asked for its IR type again — `check_mutable_place` — in the exported environment: same answer). -/
theorem elabAssign_stable {Γ Γ' : Env} (hR : Renamed Γ Γ') {o : BinOp} {a b' n : IExpr} {τa τb τ : ETy}
    (h : elabAssign Γ o a τa b' τb = .ok (n, τ)) :
    ∃ c b2 i, find τb τa.ty.r = .ok (some c) ∧ applyConv c b' = .ok b2 ∧ o.toIOp = some i ∧
      n = .op i (.cons a (.cons b2 .nil)) ∧
      (∀ b0 τb0, Back τb τa.ty.r b' b2 b0 τb0 → elabAssign Γ' o a τa b0 τb0 = .ok (n, τ)) := by
  unfold elabAssign at h
  split at h
  · simp at h
  · rename_i hconst
    split at h
    · simp at h
    · rename_i hlv
      split at h
      · simp at h
      · rename_i hplace
        have hplace' : checkMutablePlace Γ' a = .ok () := checkMutablePlace_renamed hR hplace
        split at h
        · simp at h
        · simp at h
        · rename_i b2 tb hc
          obtain ⟨c, hf, ha, htb⟩ := convert_inv hc
          subst htb
          split at h
          · simp at h
          · rename_i i hi
            split at h
            · simp at h
            · rename_i out hout
              simp at h
              refine ⟨c, b2, i, hf, ha, hi, h.1.symm, ?_⟩
              intro b0 τb0 hb
              have hc0 := back_convert hf ha hb
              unfold elabAssign
              simp only [hconst, hlv, if_false, hplace', hc0, hi, hout]
              simp [h.1, h.2]

/-- an accepted assignment is an operator node over the unconverted left operand -/
theorem elabAssign_node {Γ : Env} {o : BinOp} {a b' n : IExpr} {τa τb τ : ETy}
    (h : elabAssign Γ o a τa b' τb = .ok (n, τ)) :
    ∃ c b2 i, applyConv c b' = .ok b2 ∧ n = .op i (.cons a (.cons b2 .nil)) := by
  unfold elabAssign at h
  split at h
  · simp at h
  · split at h
    · simp at h
    · split at h
      · simp at h
      · split at h
        · simp at h
        · simp at h
        · rename_i b2 tb hc
          obtain ⟨c, _, ha, _⟩ := convert_inv hc
          split at h
          · simp at h
          · rename_i i _
            split at h
            · simp at h
            · simp at h
              exact ⟨c, b2, i, ha, h.1.symm⟩

/-! ## unary operators -/

variable {Γ Γ' : Env}

theorem unelab_op1 {o : IOp} {u : UnOp} {e : IExpr} {s' : SExpr} (ho : opSyn o = some (.un u))
    (hu : Unelab Γ' (.op o (.cons e .nil)) s') : ∃ x', s' = .un u x' ∧ Unelab Γ' e x' := by
  cases hu with
  | un ho' hu' =>
    rw [ho] at ho'
    simp at ho'
    subst ho'
    exact ⟨_, rfl, hu'⟩

theorem unelab_op2 {o : IOp} {b : BinOp} {x y : IExpr} {s' : SExpr} (ho : opSyn o = some (.bin b))
    (hu : Unelab Γ' (.op o (.cons x (.cons y .nil))) s') :
    ∃ x' y', s' = .bin b x' y' ∧ Unelab Γ' x x' ∧ Unelab Γ' y y' := by
  cases hu with
  | bin ho' hx hy =>
    rw [ho] at ho'
    simp at ho'
    subst ho'
    exact ⟨_, _, rfl, hx, hy⟩

theorem elabE_un {o : UnOp} {x' : SExpr} {e n : IExpr} {τ τ' : ETy}
    (h1 : elabE false Γ' x' = .ok (e, τ)) (h2 : elabUn Γ' o e τ = .ok (n, τ')) :
    elabE false Γ' (.un o x') = .ok (n, τ') := by
  simp [elabE, h1, h2, selfCheck]

theorem intR_layer : intR.ty.layer = .scalar .int32 := rfl
theorem boolR_layer : boolR.ty.layer = .scalar .bool := rfl

theorem castOperand_inv {f : Err} {e e2 : IExpr} {τ inp : ETy} (h : castOperand f e τ inp = .ok e2) :
    (τ = inp ∧ e2 = e) ∨ (τ ≠ inp ∧ ∃ c, find τ inp = .ok (some c) ∧ applyConv c e = .ok e2) := by
  unfold castOperand at h
  split at h
  · rename_i he; simp at h; exact Or.inl ⟨he, h.symm⟩
  · rename_i hne
    split at h
    · simp at h
    · simp at h
    · rename_i c hf
      exact Or.inr ⟨hne, c, hf, h⟩

theorem castOperand_of_back {f : Err} {e e2 e0 : IExpr} {τ inp τ0 : ETy} {c : Conversion} (hne : τ ≠ inp)
    (hf : find τ inp = .ok (some c)) (ha : applyConv c e = .ok e2) (hb : Back τ inp e e2 e0 τ0) :
    castOperand f e0 τ0 inp = .ok e2 := by
  obtain ⟨c0, hf0, ha0⟩ := back_find hf ha hb
  unfold castOperand
  split
  · rename_i he
    cases hb with
    | same => exact absurd he hne
    | exact _ => rfl
    | relit h1 h2 _ => subst h2; cases he
  · simp only [hf0, ha0]

theorem unmod_scalarTy (k : Scalar) : (scalarTy k).r.ty.unmod.r = (scalarTy k).r := rfl

/-- `parse_expr_unaryop` on the same operand in the exported environment: only the `++` / `--` arms read the
    environment (`check_mutable_place`, since fix 4575004), and they get the same answer -/
theorem elabUn_renamed (hR : Renamed Γ Γ') {o : UnOp} {e : IExpr} {τ : ETy} {r : IExpr × ETy}
    (h : elabUn Γ o e τ = .ok r) : elabUn Γ' o e τ = .ok r := by
  cases o
  case prefixIncrement | prefixDecrement | postfixIncrement | postfixDecrement =>
    simp only [elabUn] at h ⊢
    split at h
    · simp at h
    · split at h
      · simp at h
      · rename_i hplace
        rw [checkMutablePlace_renamed hR hplace]
        exact h
  all_goals exact h

/-- **Unary operators are stable under re-elaboration.**  `ih`: the operand re-elaborates to itself; `hlit`: a literal
    operand has a kind with a spelling (it was not re-tagged: operands of unary operators are elaborated without a
    requested type). -/
theorem elabUn_stable (hR : Renamed Γ Γ') {o : UnOp} {e' n : IExpr} {τ τ' : ETy} (hty : HasType Γ e' τ)
    (h : elabUn Γ o e' τ = .ok (n, τ'))
    (ih : ∀ s', Unelab Γ' e' s' → elabE false Γ' s' = .ok (e', τ))
    (hlit : ∀ k, e' = .lit k → rereadKind k = k) :
    ∀ s', Unelab Γ' n s' → elabE false Γ' s' = .ok (n, τ') := by
  intro s' hu
  -- an operator node over the unconverted operand
  have plain : ∀ (i : IOp) (u : UnOp), opSyn i = some (.un u) → n = .op i (.cons e' .nil) →
      elabUn Γ' u e' τ = .ok (n, τ') → elabE false Γ' s' = .ok (n, τ') := by
    intro i u hi hn hel
    subst hn
    obtain ⟨x', rfl, hx⟩ := unelab_op1 hi hu
    exact elabE_un (ih _ hx) hel
  -- an operator node over a converted operand
  have conv : ∀ (i : IOp) (u : UnOp) (e2 : IExpr) (inp : ETy) (c : Conversion), opSyn i = some (.un u) →
      n = .op i (.cons e2 .nil) → inp.vt = .rvalue → find τ inp = .ok (some c) → applyConv c e' = .ok e2 →
      (∀ e0 τ0, Back τ inp e' e2 e0 τ0 → elabUn Γ' u e0 τ0 = .ok (n, τ')) → elabE false Γ' s' = .ok (n, τ') := by
    intro i u e2 inp c hi hn hr hf ha hk
    subst hn
    obtain ⟨x', rfl, hx⟩ := unelab_op1 hi hu
    obtain ⟨e0, τ0, hel, hb⟩ := reconv hty ih hf ha (Or.inl hr) _ hx
    exact elabE_un hel (hk e0 τ0 hb)
  cases o with
  | prefixIncrement =>
    have h' := elabUn_renamed hR h
    simp only [elabUn] at h
    split at h
    · simp at h
    · split at h
      · simp at h
      · simp at h; exact plain _ _ opSyn_prefixIncrement h.1.symm h'
  | prefixDecrement =>
    have h' := elabUn_renamed hR h
    simp only [elabUn] at h
    split at h
    · simp at h
    · split at h
      · simp at h
      · simp at h; exact plain _ _ opSyn_prefixDecrement h.1.symm h'
  | postfixIncrement =>
    have h' := elabUn_renamed hR h
    simp only [elabUn] at h
    split at h
    · simp at h
    · split at h
      · simp at h
      · simp at h; exact plain _ _ opSyn_postfixIncrement h.1.symm h'
  | postfixDecrement =>
    have h' := elabUn_renamed hR h
    simp only [elabUn] at h
    split at h
    · simp at h
    · split at h
      · simp at h
      · simp at h; exact plain _ _ opSyn_postfixDecrement h.1.symm h'
  | plus =>
    have h' := elabUn_renamed hR h
    simp only [elabUn] at h
    split at h
    · simp at h
    · simp at h
    · simp at h; exact plain _ _ opSyn_plus h.1.symm h'
  | minus =>
    have h' := elabUn_renamed hR h
    simp only [elabUn] at h
    split at h
    · simp at h
    · simp at h
    · split at h
      · rename_i k
        split at h
        · -- folded: the node is the literal itself
          simp at h
          obtain ⟨hn, hτ⟩ := h
          subst hn
          have hτk : τ = (scalarTy k).r := lit_type hty
          have := elabE_unelab_lit hu
          rw [hlit k rfl] at this
          rw [this, ← hτ, hτk]
          rfl
        · simp at h; exact plain _ _ opSyn_minus h.1.symm h'
      · simp at h; exact plain _ _ opSyn_minus h.1.symm h'
  | logicalNot =>
    simp only [elabUn] at h
    split at h
    · simp at h
    · simp at h
    · rename_i l hne hno
      split at h
      · simp at h
      · rename_i e2 hco
        simp at h
        obtain ⟨hn, hτ⟩ := h
        by_cases hb : τ.ty.layer.extractScalar = some .bool
        · -- a bool operand is used as it is
          simp only [hb, if_true] at hco hτ
          rcases castOperand_inv hco with ⟨_, he⟩ | ⟨hne', _⟩
          · subst he
            apply plain _ _ opSyn_logicalNot hn.symm
            rw [← hn, ← hτ]
            cases hl : τ.ty.layer <;> simp_all [elabUn, castOperand]
          · exact absurd rfl hne'
        · simp only [hb, if_false] at hco hτ
          rcases castOperand_inv hco with ⟨he, _⟩ | ⟨hne', c, hf, ha⟩
          · exfalso; apply hb; rw [he]; rfl
          · apply conv _ _ e2 boolR c opSyn_logicalNot hn.symm rfl hf ha
            intro e0 τ0 hbk
            have hco0 : castOperand (.reject "UnaryOperationWrongTypes") e0 τ0 boolR = .ok e2 :=
              castOperand_of_back hne' hf ha hbk
            rw [← hn, ← hτ]
            cases hbk with
            | same =>
              cases hl : τ.ty.layer <;> simp_all [elabUn]
            | exact _ =>
              simp [elabUn, boolR, scalarTy, Ty.r, Layer.extractScalar, castOperand, Ty.unmod]
            | relit _ hD _ => exact absurd hD boolR_ne_int32
  | bitwiseNot =>
    have h' := elabUn_renamed hR h
    simp only [elabUn] at h
    split at h
    · simp at h
    · simp at h; exact plain _ _ opSyn_bitwiseNot h.1.symm h'
    · simp at h; exact plain _ _ opSyn_bitwiseNot h.1.symm h'
    · simp at h; exact plain _ _ opSyn_bitwiseNot h.1.symm h'
    · rename_i hl
      split at h
      · simp at h
      · rename_i e2 hco
        simp at h
        obtain ⟨hn, hτ⟩ := h
        rcases castOperand_inv hco with ⟨he, _⟩ | ⟨hne', c, hf, ha⟩
        · rw [he] at hl; cases hl
        · apply conv _ _ e2 intR c opSyn_bitwiseNot hn.symm rfl hf ha
          intro e0 τ0 hbk
          have hco0 : castOperand unwrapPanic e0 τ0 intR = .ok e2 := castOperand_of_back hne' hf ha hbk
          rw [← hn, ← hτ]
          cases hbk with
          | same => simp [elabUn, hl, hco]
          | exact _ => simp [elabUn, intR, scalarTy, Ty.r, Ty.unmod]
          | relit _ _ hτ' =>
            rcases hτ' with rfl | rfl <;> cases hl
    · simp at h
  | dereference => simp [elabUn] at h
  | addressOf => simp [elabUn] at h

end RsslVerif.Lemmas.FixpointForms

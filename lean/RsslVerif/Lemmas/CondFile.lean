import RsslVerif.Model.CondFile
import RsslVerif.Lemmas.MacroSubst
import RsslVerif.Spec.CPre
/-!
# Lemmas for C11, part 4: the composed model (`Model.CondFile`)

* tokens without identifiers go through both macro loops unchanged (`applyMacros_noIds`, `topLoop_noIds`);
* what one directive line of an included file does to the **shared** condition chain
  (`include_endif`, `include_else`, `include_ifdef`);
* the `defined` operand is protected (`topLoop_defined_step`).
-/
namespace RsslVerif.Lemmas.CondFile
open RsslVerif.Gen.CondTables RsslVerif.Model.CondExpr RsslVerif.Model.Macro RsslVerif.Model.CondFile
open RsslVerif.Lemmas.MacroSubst

/-- no identifier and no `Concat` token -/
def noIds (ts : List PTok) : Bool :=
  ts.all (fun t => match t.tok with | .id _ => false | .concat => false | _ => true)

theorem inert_of_noIds (env : List Entry) (ts : List PTok) (h : noIds ts = true) : Inert env ts := by
  intro t ht
  have := List.all_eq_true.mp h t ht
  unfold InertTok
  cases hk : t.tok <;> simp_all

theorem applyMacros_noIds (ms : List Macro) (ts : List PTok) (h : noIds ts = true) :
    applyMacros ms ts = .ok ts := by
  unfold applyMacros
  exact applyLoop_inert _ _ _ (Nat.le_refl _) (by simpa [SearchPos.start] using inert_of_noIds _ ts h)

theorem applyMacros_nil (ms : List Macro) : applyMacros ms [] = .ok [] := applyMacros_noIds ms [] rfl

theorem flush_nil (st : FState) : flush st [] = .ok st := by
  unfold flush
  split
  · simp [applyMacros_nil]
  · rfl

theorem flush_noIds (st : FState) (act : List PTok) (h : noIds act = true) :
    flush st act = .ok (if active st.chain then { st with out := st.out ++ act } else st) := by
  unfold flush
  split <;> simp_all [applyMacros_noIds]

theorem scanFromD_noIds (toks : List PTok) (sp : SearchPos) (env : List Entry) (suffix : List PTok) (i : Nat)
    (h : noIds suffix = true) : scanFromD toks sp env suffix i = .ok .none := by
  induction suffix generalizing i with
  | nil => rfl
  | cons t rest ih =>
    have h' : noIds rest = true := by simp_all [noIds]
    have ht := List.all_eq_true.mp h t (by simp)
    unfold scanFromD
    cases hk : t.tok <;> simp_all

theorem noIds_drop (ts : List PTok) (n : Nat) (h : noIds ts = true) : noIds (ts.drop n) = true := by
  simp only [noIds, List.all_eq_true] at h ⊢
  intro t ht
  exact h t (List.mem_of_mem_drop ht)

theorem topLoop_noIds (env : List Entry) (toks : List PTok) (h : noIds toks = true) :
    topLoop env toks SearchPos.start = .ok toks := by
  rw [topLoop]
  split
  · simp [findSingleD, SearchPos.start, scanFromD_noIds _ _ _ _ _ h]
  · rfl

/-! ### one-line headers and the shared chain -/

def T (t : Tok) : SItem := .tok ⟨t, true⟩

/-- the token stream of the text `#endif⏎` -/
def hdrEndif : List SItem := [T (.punct "#"), T (.id "endif"), T .endline]
/-- `#else⏎` -/
def hdrElse : List SItem := [T (.punct "#"), T (.punct "else"), T .endline]
/-- `#ifdef X⏎` -/
def hdrIfdef (x : String) : List SItem := [T (.punct "#"), T (.id "ifdef"), T .ws, T (.id x), T .endline]

theorem gate_endif : gate "endif" = .notGated := by decide
theorem gate_else : gate "else" = .notGated := by decide
theorem gate_ifdef : gate "ifdef" = .skipPushes .DisabledInner := by decide

/-- an `#endif` that is the whole content of an included file pops the level the **includer** opened -/
theorem include_endif (h : Handler) (fuel : Nat) (name : String) (st : FState) (c : CS) (ch : List CS)
    (hf : h name = some hdrEndif) (ho : st.once.contains name = false) (hc : st.chain = c :: ch) :
    includeFile h (fuel + 1) name st = .ok { st with chain := ch } := by
  simp only [includeFile, hf, ho, runStream, hdrEndif, T, fileLoop, isHash, dropTrailingBlanks, flush_nil]
  simp [command, commandName, exec, gate_endif, trimStart, hc, flush_nil, Tok.isWhitespace]

/-- an `#else` that is the whole content of an included file switches the includer's if-section -/
theorem include_else (h : Handler) (fuel : Nat) (name : String) (st : FState) (c : CS) (ch : List CS)
    (hf : h name = some hdrElse) (ho : st.once.contains name = false) (hc : st.chain = c :: ch) :
    includeFile h (fuel + 1) name st = .ok { st with chain := c.switch elseSwitchArg :: ch } := by
  simp only [includeFile, hf, ho, runStream, hdrElse, T, fileLoop, isHash, dropTrailingBlanks, flush_nil]
  simp [command, commandName, exec, gate_else, trimStart, hc, flush_nil, Tok.isWhitespace]

/-- an `#ifdef X` that is the whole content of an included file leaves its level open for the includer:
    the end of the included file is not checked -/
theorem include_ifdef (h : Handler) (fuel : Nat) (name x : String) (st : FState)
    (hf : h name = some (hdrIfdef x)) (ho : st.once.contains name = false) :
    includeFile h (fuel + 1) name st = .ok { st with chain :=
      (if active st.chain then pushState (st.macros.any (fun m => m.name == x)) else .DisabledInner) :: st.chain } := by
  simp only [includeFile, hf, ho, runStream, hdrIfdef, T, fileLoop, isHash, dropTrailingBlanks, flush_nil]
  simp [command, commandName, exec, gate_ifdef, trim, trimStart, trimEnd, flush_nil, Tok.isWhitespace, Tok.isBlank,
    List.dropWhile]
  by_cases ha : active st.chain = true <;> simp [ha, flush_nil]

theorem gate_include : gate "include" = .skipNoEffect := by decide
theorem gate_ifndef : gate "ifndef" = .skipPushes .DisabledInner := by decide

/-! ### the C rule for files: every file's conditional directives balance on their own -/

/-- the lines of a token stream (split at line ends; a lexer failure ends the stream) -/
def streamLines : List SItem → List Tok → List (List Tok)
  | [], cur => if cur.isEmpty then [] else [cur.reverse]
  | .lexError :: _, cur => if cur.isEmpty then [] else [cur.reverse]
  | .tok t :: r, cur => if t.tok = .endline then cur.reverse :: streamLines r [] else streamLines r (t.tok :: cur)

/-- nesting shape of one line: `#` first (after blanks), then the directive name -/
def shapeOfLine (l : List Tok) : RsslVerif.Spec.CPre.Shape :=
  match l.filter (fun t => !t.isWhitespace) with
  | .punct "#" :: .punct "if" :: _ => .opens
  | .punct "#" :: .id "ifdef" :: _ => .opens
  | .punct "#" :: .id "ifndef" :: _ => .opens
  | .punct "#" :: .id "elif" :: _ => .elif
  | .punct "#" :: .punct "else" :: _ => .els
  | .punct "#" :: .id "endif" :: _ => .endif
  | _ => .other

/-- ISO C 6.10.1 / 6.10.2: an included file is a sequence of *groups*; each file must pass the nesting
    scan by itself -/
def fileBalanced (items : List SItem) : Bool :=
  match RsslVerif.Spec.CPre.scan 0 ((streamLines items []).map shapeOfLine) with
  | .ok _ => true
  | .error _ => false

/-- `main.rssl` = `#include "h.h"⏎1⏎#endif⏎` -/
def wMainA : List SItem :=
  [T (.punct "#"), T (.id "include"), T .ws, T (.punct "\"h.h\""), T .endline,
   T (.int "1"), T .endline, T (.punct "#"), T (.id "endif"), T .endline]
/-- `h.h` = `#ifndef A⏎2⏎` -/
def wHdrA : List SItem :=
  [T (.punct "#"), T (.id "ifndef"), T .ws, T (.id "A"), T .endline, T (.int "2"), T .endline]

/-- **Negation witness (end to end).**  `h.h` opens an if-section and never closes it, `main.rssl` closes it:
    neither file is balanced (C rejects both: "unterminated #ifndef", "#endif without #if"), yet the whole
    run is accepted and yields `2 1`.  Replayed on the real preprocessor by `corpus/C11.txt`
    (known finding `unterminated-in-include accepted`). -/
theorem witnessA :
    fileBalanced wHdrA = false ∧ fileBalanced wMainA = false ∧
    preprocessAll (fun n => if n = "main.rssl" then some wMainA else if n = "h.h" then some wHdrA else none)
      [] "main.rssl" = .ok [⟨.int "2", true⟩, ⟨.endline, true⟩, ⟨.int "1", true⟩, ⟨.endline, true⟩] := by
  refine ⟨by decide, by decide, ?_⟩
  have e : includeFuel = 201 + 1 := rfl
  simp [preprocessAll, wMainA, wHdrA, initialMacros, runStream, T, fileLoop, isHash, dropTrailingBlanks,
    e, includeFile, command, commandName, exec, trim, trimStart, trimEnd,
    Tok.isWhitespace, Tok.isBlank, List.dropWhile, includeName, maxIncludeDepth, flush_nil, flush_noIds, noIds,
    active, activeState, pushState]

/-- `main.rssl` = `#ifndef A⏎1⏎#include "h.h"⏎2⏎#endif⏎` -/
def wMainB : List SItem :=
  [T (.punct "#"), T (.id "ifndef"), T .ws, T (.id "A"), T .endline, T (.int "1"), T .endline,
   T (.punct "#"), T (.id "include"), T .ws, T (.punct "\"h.h\""), T .endline,
   T (.int "2"), T .endline, T (.punct "#"), T (.id "endif"), T .endline]

/-- **Negation witness.**  `h.h` = `#else⏎` has an `#else` without an `#if` (C rejects); included from inside
    the selected group of `main.rssl` it ends that group: `2` is silently dropped.  Known finding
    `unmatched-in-include accepted`. -/
theorem witnessB :
    fileBalanced hdrElse = false ∧
    preprocessAll (fun n => if n = "main.rssl" then some wMainB else if n = "h.h" then some hdrElse else none)
      [] "main.rssl" = .ok [⟨.int "1", true⟩, ⟨.endline, true⟩] := by
  refine ⟨by decide, ?_⟩
  have e : includeFuel = 201 + 1 := rfl
  simp [preprocessAll, wMainB, hdrElse, initialMacros, runStream, T, fileLoop, isHash, dropTrailingBlanks,
    e, includeFile, command, commandName, exec, trim, trimStart, trimEnd, gate_include, gate_endif, gate_else, flush_nil,
    Tok.isWhitespace, Tok.isBlank, List.dropWhile, includeName, maxIncludeDepth, flush_nil, flush_noIds, noIds,
    active, activeState, pushState, CS.switch, elseSwitchArg]


end RsslVerif.Lemmas.CondFile

//! C10: lexing is lossless and numeric literals are exact.
//!
//! request : C10.lex \t t<0|1>i<0|1>b<N> \t <hex of the UTF-8 text>
//!             t = add the synthetic trailing Endline (TokenStream default), i = `inside_include` passed to every
//!             `next`, b = bytes of an unrelated fragment registered first (so the base location is not 0)
//!           C10.emit \t <literal text>      (the literal compiled to HLSL inside a tiny program)
//! observe : tokens `Kind[:payload] start end` joined by `;` (offsets relative to the file), then ` !err Reason off`
//!           or ` !panic file:line`; floats are bit patterns, names/strings are hex.
//! oracle  : (1) spans tile the text in order (only the synthetic final Endline is empty), slices re-emit the text,
//!           `unlex` gives the text with splice backslashes dropped; error offsets are inside the file;
//!           (2) every numeric token equals the value of its own slice computed by an exact big-integer reference
//!           (integers exact or rejected when >= 2^64; floats = nearest double, ties to even, narrowed once for f/h).
use crate::util::*;
use rssl::text::tokens::{FollowedBy, PreprocessToken, Token};
use rssl::text::{Locate, LocateEnd, SourceManager};
use rssl_preprocess::verif::{LexerError, LexerErrorReason, TokenStream};
use std::cmp::Ordering;

#[path = "c10_emit.rs"]
mod emitx;
#[path = "c10_files.rs"]
mod filesx;
#[path = "c10_num.rs"]
mod numx;

// ------------------------------------------------------------------------------------------------
// exact arithmetic reference (natural numbers, little-endian base 2^32)
// ------------------------------------------------------------------------------------------------
#[derive(Clone, Debug, PartialEq, Eq)]
pub struct Big(Vec<u32>);

impl Big {
    pub fn from_u64(v: u64) -> Big {
        let mut b = Big(vec![v as u32, (v >> 32) as u32]);
        b.trim();
        b
    }
    fn trim(&mut self) {
        while let Some(0) = self.0.last() {
            self.0.pop();
        }
    }
    pub fn is_zero(&self) -> bool {
        self.0.is_empty()
    }
    pub fn mul_small(&mut self, k: u32) {
        let mut carry: u64 = 0;
        for w in self.0.iter_mut() {
            let t = (*w as u64) * (k as u64) + carry;
            *w = t as u32;
            carry = t >> 32;
        }
        if carry != 0 {
            self.0.push(carry as u32);
        }
        self.trim();
    }
    pub fn add_small(&mut self, k: u32) {
        let mut carry = k as u64;
        for w in self.0.iter_mut() {
            if carry == 0 {
                break;
            }
            let t = (*w as u64) + carry;
            *w = t as u32;
            carry = t >> 32;
        }
        if carry != 0 {
            self.0.push(carry as u32);
        }
    }
    pub fn shl(&self, bits: u32) -> Big {
        if self.is_zero() {
            return Big(vec![]);
        }
        let words = (bits / 32) as usize;
        let sh = bits % 32;
        let mut out = vec![0u32; words];
        let mut carry: u32 = 0;
        for w in &self.0 {
            if sh == 0 {
                out.push(*w);
            } else {
                out.push((*w << sh) | carry);
                carry = *w >> (32 - sh);
            }
        }
        if carry != 0 {
            out.push(carry);
        }
        let mut b = Big(out);
        b.trim();
        b
    }
    pub fn mul(&self, o: &Big) -> Big {
        if self.is_zero() || o.is_zero() {
            return Big(vec![]);
        }
        let mut out = vec![0u32; self.0.len() + o.0.len() + 1];
        for (i, a) in self.0.iter().enumerate() {
            let mut carry: u64 = 0;
            for (j, b) in o.0.iter().enumerate() {
                let t = (*a as u64) * (*b as u64) + out[i + j] as u64 + carry;
                out[i + j] = t as u32;
                carry = t >> 32;
            }
            let mut k = i + o.0.len();
            while carry != 0 {
                let t = out[k] as u64 + carry;
                out[k] = t as u32;
                carry = t >> 32;
                k += 1;
            }
        }
        let mut b = Big(out);
        b.trim();
        b
    }
    pub fn cmp(&self, o: &Big) -> Ordering {
        if self.0.len() != o.0.len() {
            return self.0.len().cmp(&o.0.len());
        }
        for i in (0..self.0.len()).rev() {
            if self.0[i] != o.0[i] {
                return self.0[i].cmp(&o.0[i]);
            }
        }
        Ordering::Equal
    }
    pub fn pow10(e: u32) -> Big {
        let mut b = Big::from_u64(1);
        for _ in 0..e {
            b.mul_small(10);
        }
        b
    }
    /// value of a digit string in the given base (digits already validated)
    pub fn from_digits(ds: &[u8], base: u32) -> Big {
        let mut b = Big(vec![]);
        for d in ds {
            let v = match *d {
                b'0'..=b'9' => d - b'0',
                b'a'..=b'f' => d - b'a' + 10,
                b'A'..=b'F' => d - b'A' + 10,
                _ => 0,
            } as u32;
            b.mul_small(base);
            b.add_small(v);
        }
        b.trim();
        b
    }
    pub fn to_u64(&self) -> Option<u64> {
        match self.0.len() {
            0 => Some(0),
            1 => Some(self.0[0] as u64),
            2 => Some(self.0[0] as u64 | (self.0[1] as u64) << 32),
            _ => None,
        }
    }
}

/// binary floating format: precision p (with the hidden bit), smallest exponent of one unit in the last place
#[derive(Clone, Copy)]
pub struct Fmt {
    p: u32,
    emin: i32,
    ebits: u32,
}
pub const F64: Fmt = Fmt { p: 53, emin: -1074, ebits: 11 };
pub const F32: Fmt = Fmt { p: 24, emin: -149, ebits: 8 };

impl Fmt {
    fn inf(&self) -> u64 {
        ((1u64 << self.ebits) - 1) << (self.p - 1)
    }
    /// (m, q) with value = m * 2^q for a non-negative finite bit pattern
    fn decode(&self, b: u64) -> (u64, i32) {
        let e = (b >> (self.p - 1)) as i32;
        let f = b & ((1u64 << (self.p - 1)) - 1);
        if e == 0 { (f, self.emin) } else { (f | 1u64 << (self.p - 1), self.emin + e - 1) }
    }
}

/// compare num/den with m * 2^q
fn cmp_rat(num: &Big, den: &Big, m: &Big, q: i32) -> Ordering {
    if q >= 0 {
        num.cmp(&m.shl(q as u32).mul(den))
    } else {
        num.shl((-q) as u32).cmp(&m.mul(den))
    }
}

/// The bit pattern of the value of the format nearest to num/den (>= 0), ties to the even significand,
/// infinity when the rounded value exceeds the largest finite one. Found by bisection over the (monotone)
/// non-negative bit patterns with exact comparisons only; no division, no floating point.
pub fn nearest_bits(num: &Big, den: &Big, f: Fmt) -> u64 {
    let inf = f.inf();
    // largest finite b with value(b) <= x
    let (mut lo, mut hi) = (0u64, inf - 1);
    while lo < hi {
        let mid = lo + (hi - lo + 1) / 2;
        let (m, q) = f.decode(mid);
        if cmp_rat(num, den, &Big::from_u64(m), q) != Ordering::Less {
            lo = mid;
        } else {
            hi = mid - 1;
        }
    }
    let (m, q) = f.decode(lo);
    if cmp_rat(num, den, &Big::from_u64(m), q) == Ordering::Equal {
        return lo;
    }
    // halfway point between lo and lo+1 is (2m+1) * 2^(q-1); for the largest finite value lo+1 is infinity
    let mut half = Big::from_u64(m);
    half.mul_small(2);
    half.add_small(1);
    match cmp_rat(num, den, &half, q - 1) {
        Ordering::Less => lo,
        Ordering::Greater => lo + 1,
        Ordering::Equal => {
            if lo % 2 == 0 {
                lo
            } else {
                lo + 1
            }
        }
    }
}

/// nearest double of digits * 10^exp10
pub fn ref_nearest64(digits: &[u8], exp10: i64) -> u64 {
    let ds: Vec<u8> = {
        let t: Vec<u8> = digits.iter().cloned().skip_while(|d| *d == b'0').collect();
        t
    };
    if ds.is_empty() {
        return 0;
    }
    let mag = ds.len() as i64 + exp10; // value < 10^mag, >= 10^(mag-1)
    if mag > 400 {
        return F64.inf();
    }
    if mag < -400 {
        return 0;
    }
    let d = Big::from_digits(&ds, 10);
    if exp10 >= 0 {
        nearest_bits(&d.mul(&Big::pow10(exp10 as u32)), &Big::from_u64(1), F64)
    } else {
        nearest_bits(&d, &Big::pow10((-exp10) as u32), F64)
    }
}

/// a double narrowed once to single precision (round to nearest, ties to even)
pub fn ref_narrow32(bits64: u64) -> u32 {
    if bits64 == F64.inf() {
        return F32.inf() as u32;
    }
    let (m, q) = F64.decode(bits64);
    let one = Big::from_u64(1);
    let r = if q >= 0 {
        nearest_bits(&Big::from_u64(m).shl(q as u32), &one, F32)
    } else {
        nearest_bits(&Big::from_u64(m), &one.shl((-q) as u32), F32)
    };
    r as u32
}

// ------------------------------------------------------------------------------------------------
// reference reading of a numeric literal's own text
// ------------------------------------------------------------------------------------------------
#[derive(Debug, PartialEq)]
pub enum RefNum {
    Int { kind: &'static str, value: Big },
    Float { kind: &'static str, bits64: u64 },
    NotNumeric,
}

fn strip_int_suffix(t: &[u8]) -> (&[u8], &'static str) {
    let n = t.len();
    let low = |b: u8| b.to_ascii_lowercase();
    if n >= 2 {
        let (a, b) = (low(t[n - 2]), low(t[n - 1]));
        if (a == b'u' && b == b'l') || (a == b'l' && b == b'u') {
            return (&t[..n - 2], "IntU64");
        }
    }
    if n >= 1 {
        if low(t[n - 1]) == b'u' {
            return (&t[..n - 1], "IntU32");
        }
        if low(t[n - 1]) == b'l' {
            return (&t[..n - 1], "IntS64");
        }
    }
    (t, "Int")
}

/// what the text of one numeric token denotes, read independently of the lexer
pub fn ref_numeric(t: &[u8]) -> RefNum {
    if t.is_empty() || !(t[0].is_ascii_digit() || t[0] == b'.') {
        return RefNum::NotNumeric;
    }
    let is_hex = t.len() >= 2 && t[0] == b'0' && t[1] == b'x';
    let floaty = !is_hex && t.iter().any(|c| matches!(c, b'.' | b'e' | b'E' | b'#'));
    if !floaty {
        let (body, kind) = strip_int_suffix(t);
        let value = if is_hex {
            if body.len() <= 2 || !body[2..].iter().all(|c| c.is_ascii_hexdigit()) {
                return RefNum::NotNumeric;
            }
            Big::from_digits(&body[2..], 16)
        } else if body.len() >= 2 && body[0] == b'0' && (b'0'..=b'7').contains(&body[1]) {
            // a leading 0 followed by 8 or 9 is read as decimal by rssl (`09` is 9); C rejects it
            if !body.iter().all(|c| (b'0'..=b'7').contains(c)) {
                return RefNum::NotNumeric;
            }
            Big::from_digits(body, 8)
        } else {
            if body.is_empty() || !body.iter().all(|c| c.is_ascii_digit()) {
                return RefNum::NotNumeric;
            }
            Big::from_digits(body, 10)
        };
        return RefNum::Int { kind, value };
    }
    // float: digits [. digits] [e [+-] digits] [#INF] [hHfFlL]
    let mut i = 0;
    let mut digits: Vec<u8> = Vec::new();
    while i < t.len() && t[i].is_ascii_digit() {
        digits.push(t[i]);
        i += 1;
    }
    let mut frac = 0i64;
    if i < t.len() && t[i] == b'.' {
        i += 1;
        while i < t.len() && t[i].is_ascii_digit() {
            digits.push(t[i]);
            frac += 1;
            i += 1;
        }
    }
    if digits.is_empty() {
        return RefNum::NotNumeric;
    }
    let mut exp: i64 = 0;
    let mut has_exp = false;
    if i < t.len() && (t[i] == b'e' || t[i] == b'E') {
        has_exp = true;
        i += 1;
        let mut neg = false;
        if i < t.len() && (t[i] == b'+' || t[i] == b'-') {
            neg = t[i] == b'-';
            i += 1;
        }
        let s = i;
        let mut e = Big(vec![]);
        while i < t.len() && t[i].is_ascii_digit() {
            e.mul_small(10);
            e.add_small((t[i] - b'0') as u32);
            i += 1;
        }
        if s == i {
            return RefNum::NotNumeric;
        }
        // exponents far outside any float are clamped (the value is 0 or infinity either way)
        let ev = e.to_u64().filter(|v| *v < 1_000_000_000).unwrap_or(1_000_000_000) as i64;
        exp = if neg { -ev } else { ev };
    }
    let mut bits64 = ref_nearest64(&digits, exp - frac);
    if t[i..].starts_with(b"#INF") {
        // the HLSL spelling of infinity: only on a non-zero literal without exponent
        if has_exp || bits64 == 0 {
            return RefNum::NotNumeric;
        }
        bits64 = F64.inf();
        i += 4;
    }
    let kind = match &t[i..] {
        [] => "Float",
        [b'h'] | [b'H'] => "Float16",
        [b'f'] | [b'F'] => "Float32",
        [b'l'] | [b'L'] => "Float64",
        _ => return RefNum::NotNumeric,
    };
    RefNum::Float { kind, bits64 }
}

// ------------------------------------------------------------------------------------------------
// running the real lexer
// ------------------------------------------------------------------------------------------------
fn show_token(t: &Token) -> String {
    let fb = |f: &FollowedBy| match f {
        FollowedBy::Token => "T",
        FollowedBy::Whitespace => "W",
    };
    match t {
        Token::Id(id) => format!("Id:{}", hex(id.0.as_bytes())),
        Token::LiteralInt(v) => format!("Int:{}", v),
        Token::LiteralIntUnsigned32(v) => format!("IntU32:{}", v),
        Token::LiteralIntUnsigned64(v) => format!("IntU64:{}", v),
        Token::LiteralIntSigned64(v) => format!("IntS64:{}", v),
        Token::LiteralFloat(v) => format!("Float:{:016x}", v.to_bits()),
        Token::LiteralFloat16(v) => format!("Float16:{:08x}", v.to_bits()),
        Token::LiteralFloat32(v) => format!("Float32:{:08x}", v.to_bits()),
        Token::LiteralFloat64(v) => format!("Float64:{:016x}", v.to_bits()),
        Token::LiteralString(s) => format!("String:{}", hex(s.as_bytes())),
        Token::HeaderName(s) => format!("HeaderName:{}", hex(s.as_bytes())),
        Token::ReservedWord(s) => format!("ReservedWord:{}", hex(s.as_bytes())),
        Token::LeftAngleBracket(f) => format!("LeftAngleBracket:{}", fb(f)),
        Token::RightAngleBracket(f) => format!("RightAngleBracket:{}", fb(f)),
        Token::MacroArg(n) => format!("MacroArg:{}", n),
        other => format!("{:?}", other),
    }
}

pub struct Flags {
    pub trail: bool,
    pub inc: bool,
    pub base: u32,
}

pub fn parse_flags(s: &str) -> Option<Flags> {
    let b = s.as_bytes();
    if b.len() < 5 || b[0] != b't' || b[2] != b'i' || b[4] != b'b' {
        return None;
    }
    Some(Flags { trail: b[1] == b'1', inc: b[3] == b'1', base: s[5..].parse().ok()? })
}

struct Lexed {
    toks: Vec<(Token, u32, u32)>,
    /// Err(reason, offset) or panic text
    err: Option<Result<(String, u32), String>>,
    unlexed: Option<String>,
    whole: Option<String>,
    /// the lexer diagnostic as the compiler prints it (`LexerError` through `MessagePrinter`), or the panic of printing it
    rendered: Option<Result<String, String>>,
}

fn lex_real(text: &str, fl: &Flags) -> Lexed {
    let mut sm = SourceManager::new();
    if fl.base > 0 {
        sm.add_fragment(&"#".repeat(fl.base as usize - 1));
    }
    let (_fid, base) = sm.add_fragment(text);
    let braw = base.get_raw();
    let mut ts = TokenStream::new(text, base);
    if !fl.trail {
        ts = ts.suppress_trailing_endline();
    }
    let mut raw: Vec<PreprocessToken> = Vec::new();
    let mut err = None;
    let mut rendered = None;
    loop {
        if ts.end_of_stream() {
            break;
        }
        match guard(|| ts.next(fl.inc)) {
            Ok(Ok(t)) => raw.push(t),
            Ok(Err(e)) => {
                use rssl::text::CompileErrorExt;
                rendered = Some(guard(|| format!("{}", e.display(&sm))));
                let LexerError { reason, location } = e;
                err = Some(Ok((format!("{:?}", reason), location.get_raw().wrapping_sub(braw))));
                let _ = LexerErrorReason::EndOfStream;
                break;
            }
            Err(p) => {
                err = Some(Err(p));
                break;
            }
        }
        if raw.len() > text.len() + 2 {
            err = Some(Err("harness: no progress".into()));
            break;
        }
    }
    let toks = raw
        .iter()
        .map(|t| {
            (
                t.0.clone(),
                t.get_location().get_raw().wrapping_sub(braw),
                t.get_end_location().get_raw().wrapping_sub(braw),
            )
        })
        .collect();
    // the library entry point must say the same thing as the token-by-token loop
    let whole = if !fl.inc {
        let r = guard(|| rssl_preprocess::verif::lex(text, base, fl.trail));
        Some(match r {
            Ok(Ok(v)) => {
                if v == raw && err.is_none() {
                    "same".to_string()
                } else {
                    "read_to_end: different tokens".to_string()
                }
            }
            Ok(Err(e)) => match &err {
                Some(Ok((r, o))) if *r == format!("{:?}", e.reason) && *o == e.location.get_raw().wrapping_sub(braw) => {
                    "same".to_string()
                }
                _ => "read_to_end: different error".to_string(),
            },
            Err(p) => match &err {
                Some(Err(q)) if *q == p => "same".to_string(),
                _ => format!("read_to_end: panic {}", p),
            },
        })
    } else {
        None
    };
    let unlexed = if err.is_none() {
        guard(|| rssl_preprocess::unlex(&raw, &sm)).ok()
    } else {
        None
    };
    Lexed { toks, err, unlexed, whole, rendered }
}

/// name of a panic site of TokenStream::next (the model uses the same names)
fn canonical_panic(p: &str) -> String {
    if p.contains("as_ptr_range") {
        "static-rest".into()
    } else if p.contains("last_was_endline") {
        "last-was-endline".into()
    } else if p.contains("current_offset < next_location") {
        "no-progress".into()
    } else if p.contains("current_offset <= error_offset") {
        "error-before-token".into()
    } else if p.contains("input.len(), rest.len()") || p.contains("left == right") {
        "other-token-len".into()
    } else {
        p.to_string()
    }
}

fn is_numeric(t: &Token) -> bool {
    matches!(
        t,
        Token::LiteralInt(_)
            | Token::LiteralIntUnsigned32(_)
            | Token::LiteralIntUnsigned64(_)
            | Token::LiteralIntSigned64(_)
            | Token::LiteralFloat(_)
            | Token::LiteralFloat16(_)
            | Token::LiteralFloat32(_)
            | Token::LiteralFloat64(_)
    )
}

/// the property's oracle for one numeric token against the reference reading of its own text
fn numeric_oracle(tok: &Token, slice: &[u8]) -> Result<(), String> {
    let txt = String::from_utf8_lossy(slice).to_string();
    match (ref_numeric(slice), tok) {
        (RefNum::Int { kind, value }, t) => {
            let v = match value.to_u64() {
                Some(v) => v,
                None => return Err(format!("int {} does not fit 64 bits but was accepted", txt)),
            };
            let (k, got): (&str, i128) = match t {
                Token::LiteralInt(x) => ("Int", *x as i128),
                Token::LiteralIntUnsigned32(x) => ("IntU32", *x as i128),
                Token::LiteralIntUnsigned64(x) => ("IntU64", *x as i128),
                Token::LiteralIntSigned64(x) => ("IntS64", *x as i128),
                _ => return Err(format!("int text {} lexed as {}", txt, show_token(t))),
            };
            if k != kind {
                return Err(format!("int {} has kind {} expected {}", txt, k, kind));
            }
            if got != v as i128 {
                return Err(format!("int {} denotes {} but the token holds {}", txt, v, got));
            }
            if k == "IntU32" && v > u32::MAX as u64 {
                return Err(format!("int {} does not fit 32 bits but was accepted with suffix u", txt));
            }
            Ok(())
        }
        (RefNum::Float { kind, bits64 }, t) => {
            let (k, got): (&str, u64) = match t {
                Token::LiteralFloat(x) => ("Float", x.to_bits()),
                Token::LiteralFloat64(x) => ("Float64", x.to_bits()),
                Token::LiteralFloat16(x) => ("Float16", x.to_bits() as u64),
                Token::LiteralFloat32(x) => ("Float32", x.to_bits() as u64),
                _ => return Err(format!("float text {} lexed as {}", txt, show_token(t))),
            };
            if k != kind {
                return Err(format!("float {} has kind {} expected {}", txt, k, kind));
            }
            let want = if k == "Float16" || k == "Float32" { ref_narrow32(bits64) as u64 } else { bits64 };
            if got != want {
                return Err(format!("float {} is {:x} but the nearest value is {:x}", txt, got, want));
            }
            Ok(())
        }
        (RefNum::NotNumeric, t) => Err(format!("text {} is not a numeric literal but lexed as {}", txt, show_token(t))),
    }
}

pub fn run_lex(text: &str, fl: &Flags, hist: &mut Hist) -> (String, String) {
    let bytes = text.as_bytes();
    let n = bytes.len() as u32;
    let lx = lex_real(text, fl);
    let mut obs: Vec<String> = lx.toks.iter().map(|(t, s, e)| format!("{} {} {}", show_token(t), s, e)).collect();
    for (t, _, _) in &lx.toks {
        let name = show_token(t);
        hist.add(&format!("tok.{}", name.split(':').next().unwrap_or("")));
    }
    let mut obs = obs.drain(..).collect::<Vec<_>>().join(";");
    match &lx.err {
        Some(Ok((r, o))) => {
            obs.push_str(&format!(" !err {} {}", r, o));
            hist.add(&format!("err.{}", r));
        }
        Some(Err(p)) => {
            obs.push_str(&format!(" !panic {}", canonical_panic(p)));
            hist.add(&format!("panic.{}", canonical_panic(p)));
        }
        None => hist.add("ok"),
    }
    // ---- oracle
    let mut fails: Vec<String> = Vec::new();
    // spans of the tokens produced so far are contiguous from 0, in order, non-empty
    let mut pos = 0u32;
    for (i, (t, s, e)) in lx.toks.iter().enumerate() {
        if *s != pos {
            fails.push(format!("token {} starts at {} but the previous one ended at {}", i, s, pos));
            break;
        }
        if *e < *s || *e > n {
            fails.push(format!("token {} span {}..{} outside the file of {} bytes", i, s, e, n));
            break;
        }
        let synthetic = fl.trail && *t == Token::Endline && *s == n && i + 1 == lx.toks.len();
        if *e == *s && !synthetic {
            fails.push(format!("token {} is empty at {}", i, s));
            break;
        }
        pos = *e;
    }
    match &lx.err {
        None => {
            if fails.is_empty() && pos != n {
                fails.push(format!("tokens cover {} of {} bytes", pos, n));
            }
            if fails.is_empty() {
                let mut re: Vec<u8> = Vec::new();
                for (_, s, e) in &lx.toks {
                    re.extend_from_slice(&bytes[*s as usize..*e as usize]);
                }
                if re != bytes {
                    fails.push("slices do not re-emit the input".into());
                }
                // unlex: the same, with the backslash of each line splice dropped and "\n" for the synthetic endline
                let mut want: Vec<u8> = Vec::new();
                for (t, s, e) in &lx.toks {
                    let sl = &bytes[*s as usize..*e as usize];
                    if *t == Token::PhysicalEndline {
                        want.extend_from_slice(&sl[1..]);
                    } else if s == e {
                        want.push(b'\n');
                    } else {
                        want.extend_from_slice(sl);
                    }
                }
                match &lx.unlexed {
                    Some(u) if u.as_bytes() == &want[..] => {}
                    Some(u) => fails.push(format!("unlex gives {:?}", u)),
                    None => fails.push("unlex panicked".into()),
                }
            }
        }
        Some(Ok((reason, off))) => {
            if *off > n {
                fails.push(format!("diagnostic position {} is outside the file of {} bytes", off, n));
            } else if *off < pos {
                fails.push(format!("diagnostic position {} is before the failing token at {}", off, pos));
            }
            if reason == "IntegerLiteralTooLarge" && fails.is_empty() {
                // the rejected literal must really not fit
                let t = &bytes[pos as usize..];
                let (dstart, base): (usize, u32) = if t.starts_with(b"0x") {
                    (2, 16)
                } else if t.len() >= 2 && t[0] == b'0' && (b'0'..=b'7').contains(&t[1]) {
                    (1, 8)
                } else {
                    (0, 10)
                };
                let ds: Vec<u8> = t[dstart..]
                    .iter()
                    .cloned()
                    .take_while(|c| match base {
                        16 => c.is_ascii_hexdigit(),
                        8 => (b'0'..=b'7').contains(c),
                        _ => c.is_ascii_digit(),
                    })
                    .collect();
                // what follows the digits: `l`/`L` not followed by `u`/`U` is the signed 64-bit suffix
                let after = &t[dstart + ds.len()..];
                let signed = matches!(after.first(), Some(b'l') | Some(b'L')) && !matches!(after.get(1), Some(b'u') | Some(b'U'));
                // `u`/`U` not followed by `l`/`L` is the unsigned 32-bit suffix
                let unsigned32 = matches!(after.first(), Some(b'u') | Some(b'U')) && !matches!(after.get(1), Some(b'l') | Some(b'L'));
                match Big::from_digits(&ds, base).to_u64() {
                    Some(v) if !(signed && v > i64::MAX as u64) && !(unsigned32 && v > u32::MAX as u64) => {
                        fails.push(format!("integer {} fits its type but was rejected", String::from_utf8_lossy(&ds)));
                    }
                    _ => {}
                }
                if *off != pos + dstart as u32 {
                    fails.push(format!("too-large diagnostic at {} expected {}", off, pos + dstart as u32));
                }
            }
        }
        Some(Err(p)) => fails.push(format!("panic {}", p)),
    }
    if let Some(w) = &lx.whole {
        if w != "same" {
            fails.push(w.clone());
        }
    }
    // the diagnostic as printed: `<file>:<line>:<col>: error: <message>`, the source line, the caret — the position
    // must be the line and column of the offset, inside the file
    if let (Some(Ok((reason, off))), Some(r)) = (&lx.err, &lx.rendered) {
        if *off <= n && text.is_char_boundary(*off as usize) {
            let o = *off as usize;
            let line = 1 + bytes[..o].iter().filter(|c| **c == b'\n').count();
            let start = bytes[..o].iter().rposition(|c| *c == b'\n').map(|i| i + 1).unwrap_or(0);
            let end = bytes[o..].iter().position(|c| *c == b'\n').map(|i| o + i).unwrap_or(bytes.len());
            let col = o - start + 1;
            match r {
                Ok(t) => {
                    let head = format!(":{}:{}: error: ", line, col);
                    let tail = format!("\n{}\n{}^\n", &text[start..end], " ".repeat(col - 1));
                    if !(t.starts_with(&head) && t.ends_with(&tail) && t.len() > head.len() + tail.len()) {
                        fails.push(format!("diagnostic {} at offset {} is printed as {:?}, expected position {}:{}", reason, off, t, line, col));
                    } else {
                        hist.add("rendered_diagnostics_checked");
                    }
                }
                Err(p) => fails.push(format!("printing the diagnostic {} at offset {} panics: {}", reason, off, p)),
            }
        } else if *off <= n {
            fails.push(format!("diagnostic position {} is inside a multi-byte character", off));
        }
    }
    if fails.is_empty() {
        for (t, s, e) in &lx.toks {
            if is_numeric(t) {
                hist.add("numeric_tokens_checked");
                if let Err(m) = numeric_oracle(t, &bytes[*s as usize..*e as usize]) {
                    fails.push(m);
                }
            }
        }
    }
    let oracle = if fails.is_empty() { "ok".to_string() } else { format!("FAIL:{}", fails[0]) };
    (obs, oracle)
}

// ------------------------------------------------------------------------------------------------
// generators
// ------------------------------------------------------------------------------------------------
const WORDS: &[&str] = &[
    "if", "else", "for", "while", "do", "switch", "return", "break", "continue", "discard", "case", "default",
    "struct", "class", "enum", "typedef", "cbuffer", "register", "packoffset", "namespace", "true", "false", "in",
    "out", "inout", "const", "volatile", "row_major", "column_major", "unorm", "snorm", "extern", "static", "inline",
    "groupshared", "constexpr", "sizeof", "template", "typename", "decltype", "auto", "catch", "char", "const_cast",
    "delete", "dynamic_cast", "explicit", "friend", "goto", "long", "mutable", "new", "operator", "private",
    "protected", "public", "reinterpret_cast", "short", "signed", "static_cast", "this", "throw", "try", "union",
    "unsigned", "using", "virtual",
];
const IDENTS: &[&str] = &[
    "x", "y", "a", "_", "_1", "e5", "E", "f", "h", "l", "u", "ul", "INF", "x0", "truea", "iff", "If", "float4",
    "include", "define", "xyz", "A_b9", "L", "F", "lu", "ull", "__x", "o0x1",
];
const OPS: &[&str] = &[
    ";", ",", "+", "++", "+=", "-", "--", "-=", "/", "/=", "%", "%=", "*", "*=", "&", "&&", "&=", "|", "||", "|=",
    "^", "^=", "!", "!=", "=", "==", "#", "##", "@", "~", ".", ":", "::", "?", "{", "}", "(", ")", "[", "]", "<", ">",
    "<<", ">>", "<=", ">=", "<<=", "->", "...", "<>", "><", "=#", "%%", "**", "^^", "!!", "===",
];
const TRIVIA: &[&str] = &[
    " ", "  ", "\t", "\n", "\r\n", "\\\n", "\\\r\n", " \n", "//c\n", "// c \\\n d\n", "//", "//x", "//\\\n", "//\r\n",
    "/**/", "/* c */", "/*\n*/", "/* * / */", "/*/", "/***/", "/*a*/", "//a\\\r\nb\r\n",
];
const ODD: &[&str] = &[
    "\r", "\\", "\\ ", "$", "`", "'", "\u{a3}", "\u{20ac}", "\u{0}", "\u{b}", "\u{c}", "\"", "\"a", "\"\n\"", "/*",
    "/* x", "/*/ ", "\u{feff}", "\u{1f600}", "\r\r\n", "\\\r", "<a", "<a\n>",
];
const STRINGS: &[&str] = &["\"\"", "\"a\"", "\"a b\"", "\"\u{a3}\"", "\"//\"", "\"/*\"", "\"\\\"", "<a.h>", "<>", "\"a\\\n\""];
const INT_SUFFIX: &[&str] = &["", "u", "U", "l", "L", "ul", "uL", "Ul", "UL", "lu", "lU", "Lu", "LU"];
const FLOAT_SUFFIX: &[&str] = &["", "h", "H", "f", "F", "l", "L"];
const BAD_SUFFIX: &[&str] = &["x", "xy", "p", "_", "f0", "ff", "lf", "ull", "uu", "ll", "e", "e+", "E-", "xe", "#INF", "#IN", "#INFf", "#INFx", ".x", ".0", ".", "..", ".f", ".e1", "0x"];

fn rand_digits(rng: &mut Rng, n: usize, base: u32) -> String {
    let alph: &[u8] = match base {
        16 => b"0123456789abcdefABCDEF",
        8 => b"01234567",
        _ => b"0123456789",
    };
    (0..n).map(|_| *rng.pick(alph) as char).collect()
}

/// integer spellings: boundary biased
fn gen_int(rng: &mut Rng, hist: &mut Hist) -> String {
    let base = *rng.pick(&[10u32, 10, 10, 16, 16, 8]);
    const EDGES: &[u128] = &[
        0, 1, 7, 8, 9, 10, 255, 256, 65535, 65536,
        (1 << 31) - 1, 1 << 31, (1 << 31) + 1, (1 << 32) - 1, 1 << 32, (1 << 32) + 1,
        (1 << 63) - 1, 1 << 63, (1 << 63) + 1, (1 << 64) - 1, 1 << 64, (1 << 64) + 1,
        (1 << 64) + 10, 10 * (1 << 64), (1 << 65) - 1, 1 << 65, 1 << 80, (1 << 64) * 16 - 1, (1 << 64) * 8,
        1844674407370955161, 18446744073709551610, 18446744073709551619, 18446744073709551620,
    ];
    let body = match rng.below(10) {
        0..=3 => {
            hist.add("int.edge");
            let mut v = *rng.pick(EDGES);
            if rng.chance(1, 3) {
                v = v.wrapping_add(rng.below(5) as u128).wrapping_sub(2).min(u128::MAX / 2);
            }
            match base {
                16 => {
                    if rng.chance(1, 2) {
                        format!("{:x}", v)
                    } else {
                        format!("{:X}", v)
                    }
                }
                8 => format!("{:o}", v),
                _ => format!("{}", v),
            }
        }
        4..=6 => {
            hist.add("int.random");
            let n = rng.range(1, 25) as usize;
            rand_digits(rng, n, base)
        }
        7 => {
            hist.add("int.leading_zeros");
            let z = rng.range(1, 6) as usize;
            let n = rng.range(1, 19) as usize;
            format!("{}{}", "0".repeat(z), rand_digits(rng, n, base))
        }
        _ => {
            hist.add("int.near_2^64");
            // 20-digit decimals / 16-17 digit hex / 22-digit octal around the limit
            match base {
                16 => format!("{}{}", rng.pick(&["f", "F", "1", "10", "0f"]), rand_digits(rng, 15, 16)),
                8 => format!("{}{}", rng.pick(&["1", "2", "17", "20", "01"]), rand_digits(rng, 21, 8)),
                _ => format!("1844674407370955{}", rand_digits(rng, 4, 10)),
            }
        }
    };
    let prefix = match base {
        16 => "0x",
        8 => "0",
        _ => "",
    };
    hist.add(&format!("int.base{}", base));
    format!("{}{}{}", prefix, body, rng.pick(INT_SUFFIX))
}

/// decimal floats: biased to halfway cases, subnormals, overflow
fn gen_float(rng: &mut Rng, hist: &mut Hist) -> String {
    let (digits, exp10): (String, i64) = match rng.below(12) {
        0..=2 => {
            hist.add("float.random");
            let n = rng.range(1, 20) as usize;
            (rand_digits(rng, n, 10), rng.range(-330, 310))
        }
        3 => {
            hist.add("float.short_common");
            let n = rng.range(1, 7) as usize;
            (rand_digits(rng, n, 10), rng.range(-8, 3))
        }
        4 | 5 => {
            // decimal expansion of an exact halfway point between two adjacent doubles (or one digit off)
            hist.add("float.halfway64");
            let b = match rng.below(4) {
                0 => rng.below(1 << 53),                               // subnormal / small
                1 => (rng.range(1000, 1100) as u64) << 52 | rng.below(1 << 52), // around 1
                2 => 0x7fe0_0000_0000_0000 | rng.below(1 << 52),       // top binade (overflow boundary)
                _ => rng.below(0x7ff0_0000_0000_0000),
            };
            halfway_decimal(b, F64, rng, hist)
        }
        6 => {
            // halfway between two adjacent floats, then through the double: the double-rounding cases
            hist.add("float.halfway32");
            let b = match rng.below(3) {
                0 => rng.below(1 << 24),
                1 => (rng.range(100, 150) as u64) << 23 | rng.below(1 << 23),
                _ => rng.below(0x7f80_0000),
            };
            halfway_decimal(b, F32, rng, hist)
        }
        7 => {
            hist.add("float.subnormal_edge");
            let s = *rng.pick(&["49406564584124654", "24703282292062327", "24703282292062328", "22250738585072011",
                "22250738585072014", "22250738585072009", "4940656458412465", "2470328229206232", "1", "3", "5"]);
            (s.to_string(), -324 - (s.len() as i64 - 1) + rng.range(-1, 1))
        }
        8 => {
            hist.add("float.overflow_edge");
            let s = *rng.pick(&["17976931348623157", "17976931348623158", "17976931348623159", "179769313486231580793",
                "179769313486231580794", "1797693134862315807", "34028234663852886", "34028235677973366", "340282356779733661637",
                "3402823567797336616", "1", "2", "9"]);
            let top = if s.starts_with("34") { 38 } else { 308 };
            (s.to_string(), top - (s.len() as i64 - 1) + rng.range(-1, 1))
        }
        9 => {
            hist.add("float.exact_pow2");
            // m * 2^k written out exactly (representable: the reference must return it unchanged)
            let m = rng.below(1 << 20) + 1;
            let k = rng.range(0, 40) as u32;
            let v = (m as u128) << k;
            (format!("{}", v), 0)
        }
        10 => {
            hist.add("float.huge_exponent");
            let n = rng.range(1, 5) as usize;
            (rand_digits(rng, n, 10), *rng.pick(&[400, 5000, 99999, 4294967296, 9223372036854775807, -400, -5000, -4294967297, -9223372036854775807]))
        }
        _ => {
            hist.add("float.zero_or_padded");
            let n = rng.range(0, 4) as usize;
            let body = if rng.chance(1, 2) { "0".to_string() } else { rand_digits(rng, 3, 10) };
            (format!("{}{}", "0".repeat(n), body), rng.range(-330, 310))
        }
    };
    // spell digits * 10^exp10 in one of the lexer's float forms
    let n = digits.len() as i64;
    let form = rng.below(5);
    let (mant, e) = match form {
        0 => (format!("{}.", digits), exp10),                         // "123."
        1 => (format!(".{}", digits), exp10.saturating_add(n)),                   // ".123"
        2 if n > 1 => {
            let k = rng.range(1, n - 1);
            (format!("{}.{}", &digits[..k as usize], &digits[k as usize..]), exp10.saturating_add(n - k))
        }
        3 => (format!("{}.0", digits), exp10),
        _ => (digits.clone(), exp10), // no fraction: the exponent is mandatory
    };
    let need_exp = form >= 4 || (form == 2 && n <= 1);
    let es = if e == 0 && !need_exp && rng.chance(1, 2) {
        String::new()
    } else {
        let letter = if rng.chance(1, 2) { "e" } else { "E" };
        let sign = if e < 0 { "-" } else if rng.chance(1, 2) { "+" } else { "" };
        format!("{}{}{}", letter, sign, e.unsigned_abs())
    };
    format!("{}{}{}", mant, es, rng.pick(FLOAT_SUFFIX))
}

/// Dense family around the limits of "fast path" conversions (Clinger): 15/16/17 significant digits, digit strings
/// just above / below 2^53 and 2^24 * 10^k, odd last digits, decimal scales in [-25, 25], the whole/fraction split at
/// every position. A conversion that folds the digits into an integer, converts it to a float and multiplies or
/// divides by a power of ten is exact only up to 2^53 (15 digits always fit, 16 do not) and |scale| <= 22.
fn gen_fastpath(rng: &mut Rng, hist: &mut Hist) -> String {
    const P53: u128 = 1 << 53;
    const E15: u128 = 1_000_000_000_000_000;
    const E16: u128 = 10 * E15;
    let d: u128 = match rng.below(10) {
        0..=2 => {
            hist.add("fast.odd_above_2^53");
            // odd 16-digit values in (2^53, 10^16)
            P53 + 1 + 2 * (rng.below(((E16 - P53) / 2 - 1) as u64) as u128)
        }
        3 => {
            hist.add("fast.near_2^53");
            P53 + 40 - rng.below(81) as u128
        }
        4 => {
            hist.add("fast.random16");
            (E15 + rng.below((E16 - E15) as u64) as u128) | if rng.chance(3, 4) { 1 } else { 0 }
        }
        5 => {
            hist.add("fast.random17");
            (E16 + rng.below((9 * E16) as u64) as u128) | if rng.chance(1, 2) { 1 } else { 0 }
        }
        6 => {
            hist.add("fast.random15");
            (E15 / 10 + rng.below((E15 - E15 / 10) as u64) as u128) | 1
        }
        7 => {
            hist.add("fast.near_2^24*10^k");
            let k = rng.range(7, 9) as u32;
            (16_777_216u128 * 10u128.pow(k) + 100 - rng.below(201) as u128) | if rng.chance(1, 2) { 1 } else { 0 }
        }
        8 => {
            hist.add("fast.below_10^16");
            E16 - 1 - 2 * rng.below(2000) as u128
        }
        _ => {
            hist.add("fast.near_10^15");
            E15 + 50 - rng.below(101) as u128
        }
    };
    let digits = format!("{}", d);
    let n = digits.len() as i64;
    let scale = rng.range(-25, 25);
    hist.add(&format!("fast.digits{}", n));
    hist.add(if scale == 0 { "fast.scale0" } else if scale.abs() <= 22 { "fast.scale<=22" } else { "fast.scale>22" });
    let p = rng.range(1, n);
    let (left, right) = digits.split_at(p as usize);
    let exponent = scale + right.len() as i64;
    let dot = !right.is_empty() || rng.chance(1, 2);
    let mant = if dot { format!("{}.{}", left, right) } else { left.to_string() };
    let es = if exponent == 0 && dot && rng.chance(2, 3) {
        String::new()
    } else {
        let letter = if rng.chance(1, 2) { "e" } else { "E" };
        let sign = if exponent < 0 { "-" } else if rng.chance(1, 3) { "+" } else { "" };
        format!("{}{}{}", letter, sign, exponent.unsigned_abs())
    };
    let sfx = *rng.pick(&["", "", "", "L", "l", "f", "h"][..]);
    format!("{}{}{}", mant, es, sfx)
}

/// digits and exponent of the exact midpoint between bit patterns b and b+1 of the format, optionally nudged in
/// the last written digit or truncated to 20 significant digits
fn halfway_decimal(b: u64, f: Fmt, rng: &mut Rng, hist: &mut Hist) -> (String, i64) {
    let (m, q) = f.decode(b);
    // midpoint = (2m+1) * 2^(q-1); as a decimal: (2m+1) * 5^(1-q) * 10^(q-1) when q < 1
    let mut num = Big::from_u64(2 * m + 1);
    let e10: i64;
    if q - 1 >= 0 {
        num = num.shl((q - 1) as u32);
        e10 = 0;
    } else {
        for _ in 0..(1 - q) {
            num.mul_small(5);
        }
        e10 = (q - 1) as i64;
    }
    let mut s = big_to_decimal(&num);
    let mut e = e10;
    match rng.below(4) {
        0 => hist.add("float.halfway.exact"),
        1 => {
            hist.add("float.halfway.plus1");
            s.push('1');
            e -= 1;
        }
        2 => {
            hist.add("float.halfway.minus1");
            // subtract one unit in a further digit: ...d000 -> ...(d-1)999 ; cheap version: append "0" and decrement
            let mut v = Big::from_digits(s.as_bytes(), 10);
            v.mul_small(10);
            let dec = big_to_decimal(&v);
            s = decrement_decimal(&dec);
            e -= 1;
        }
        _ => {
            hist.add("float.halfway.truncated20");
            if s.len() > 20 {
                e += (s.len() - 20) as i64;
                s.truncate(20);
            }
        }
    }
    (s, e)
}

fn decrement_decimal(s: &str) -> String {
    let mut b: Vec<u8> = s.bytes().collect();
    let mut i = b.len();
    while i > 0 {
        i -= 1;
        if b[i] == b'0' {
            b[i] = b'9';
        } else {
            b[i] -= 1;
            break;
        }
    }
    String::from_utf8(b).unwrap()
}

fn big_to_decimal(v: &Big) -> String {
    // repeated division by 10^9
    let mut w = v.0.clone();
    let mut parts: Vec<u32> = Vec::new();
    while !w.is_empty() {
        let mut rem: u64 = 0;
        for i in (0..w.len()).rev() {
            let cur = (rem << 32) | w[i] as u64;
            w[i] = (cur / 1_000_000_000) as u32;
            rem = cur % 1_000_000_000;
        }
        while let Some(0) = w.last() {
            w.pop();
        }
        parts.push(rem as u32);
    }
    if parts.is_empty() {
        return "0".into();
    }
    let mut s = format!("{}", parts[parts.len() - 1]);
    for p in parts.iter().rev().skip(1) {
        s.push_str(&format!("{:09}", p));
    }
    s
}

fn gen_item(rng: &mut Rng, hist: &mut Hist) -> String {
    match rng.below(20) {
        0 | 1 => rng.pick(WORDS).to_string(),
        2 | 3 => rng.pick(IDENTS).to_string(),
        4 | 5 => gen_int(rng, hist),
        6 => gen_float(rng, hist),
        7 => {
            if rng.chance(1, 3) {
                gen_fastpath(rng, hist)
            } else {
                gen_float(rng, hist)
            }
        }
        8..=10 => rng.pick(OPS).to_string(),
        11..=14 => rng.pick(TRIVIA).to_string(),
        15 => rng.pick(STRINGS).to_string(),
        16 => rng.pick(ODD).to_string(),
        17 => {
            // a numeral glued to a strange tail
            let head = if rng.chance(1, 2) { gen_int(rng, hist) } else { gen_float(rng, hist) };
            format!("{}{}", head, rng.pick(BAD_SUFFIX))
        }
        18 => {
            let n = rng.range(1, 6) as usize;
            (0..n).map(|_| *rng.pick(&['<', '>', '<', '>', '=', ' '])).collect()
        }
        _ => {
            let n = rng.range(1, 5) as usize;
            let alph: Vec<char> = "01.eE+-xfhlLuU#INF_a \n\\\r/*\"<>".chars().collect();
            (0..n).map(|_| *rng.pick(&alph)).collect()
        }
    }
}

fn emit(text: &str, fl: &Flags, out: &mut Out, hist: &mut Hist) {
    let (obs, oracle) = run_lex(text, fl, hist);
    out.case(
        &format!(
            "C10.lex\tt{}i{}b{}\t{}",
            if fl.trail { 1 } else { 0 },
            if fl.inc { 1 } else { 0 },
            fl.base,
            hex(text.as_bytes())
        ),
        &obs,
        &oracle,
    );
}

pub fn run(args: &Args, out: &mut Out) {
    // a panic in the harness' own generator/oracle code must not pass silently (the hook swallows messages)
    if let Err(p) = guard(|| run_inner(args, out)) {
        out.finish();
        eprintln!("C10 harness bug: {}", p);
        std::process::exit(3);
    }
}

fn run_inner(args: &Args, out: &mut Out) {
    let mut hist = Hist::default();
    if let Some(lines) = args.request_lines() {
        for line in lines {
            let f: Vec<&str> = line.split('\t').collect();
            if f.len() == 3 && f[0] == "C10.emit" {
                let (obs, orc) = emitx::run_emit(f[1], f[2], &mut hist);
                out.case(&line, &obs, &orc);
                continue;
            }
            if (f.len() == 5 || f.len() == 6) && f[0] == "C10.fmt" {
                let (obs, orc) = emitx::run_fmt(f[1], f[2], f[3], f[4], f.get(5).copied(), &mut hist);
                out.case(&line, &obs, &orc);
                continue;
            }
            if f.len() == 3 && f[0] == "C10.sweep32" {
                let (obs, orc) = match (f[1].parse(), f[2].parse()) {
                    (Ok(a), Ok(b)) => emitx::run_sweep32(a, b),
                    _ => (String::new(), "SKIP:bad request".into()),
                };
                out.case(&line, &obs, &orc);
                continue;
            }
            if f[0] == "C10.pp" || f[0] == "C10.loc" || f[0] == "C10.diag" {
                let (obs, orc) = filesx::replay(&f, &mut hist);
                out.case(&line, &obs, &orc);
                continue;
            }
            if f[0] == "C10.num" {
                // the follower is written `d<hex>` so that an empty one is not an empty field
                let nm = f.get(1).and_then(|h| unhex(h)).and_then(|b| String::from_utf8(b).ok());
                let dl = f.get(2).and_then(|h| h.strip_prefix('d')).and_then(|h| if h.is_empty() { Some(Vec::new()) } else { unhex(h) }).and_then(|b| String::from_utf8(b).ok());
                let pf = match f.get(3) {
                    None => Some(String::new()),
                    Some(h) => h.strip_prefix('p').and_then(|h| unhex(h)).and_then(|b| String::from_utf8(b).ok()),
                };
                match (nm, dl, pf) {
                    (Some(nm), Some(dl), Some(pf)) => {
                        let (obs, orc) = numx::run_num(&nm, &dl, &pf, &mut hist);
                        out.case(&line, &obs, &orc);
                    }
                    _ => out.case(&line, "", "SKIP:bad request"),
                }
                continue;
            }
            if f.len() == 3 && f[0] == "C10.lex" {
                let (Some(fl), Some(bytes)) = (parse_flags(f[1]), unhex(f[2])) else {
                    out.case(&line, "", "SKIP:bad request");
                    continue;
                };
                match String::from_utf8(bytes) {
                    Ok(text) => emit(&text, &fl, out, &mut hist),
                    Err(_) => out.case(&line, "", "SKIP:not UTF-8 (the lexer takes &str)"),
                }
            }
        }
        out.stat(&format!("{{\"mode\":\"replay\",\"hist\":{}}}", hist.json()));
        return;
    }
    let mut rng = Rng::new(args.seed);
    let plain = Flags { trail: true, inc: false, base: 0 };
    let mut texts: u64 = 0;
    // (1) every fixed spelling alone and every ordered pair of a thinned alphabet, glued
    let mut alphabet: Vec<&str> = Vec::new();
    for set in [WORDS, IDENTS, OPS, TRIVIA, ODD, STRINGS] {
        alphabet.extend_from_slice(set);
    }
    for a in &alphabet {
        emit(a, &plain, out, &mut hist);
        emit(a, &Flags { trail: false, inc: true, base: 3 }, out, &mut hist);
        texts += 2;
    }
    let mut glue: Vec<&str> = Vec::new();
    for set in [OPS, TRIVIA, ODD, STRINGS] {
        glue.extend_from_slice(set);
    }
    glue.extend_from_slice(&["x", "e5", "1", "0", "1.", ".5", "0x1", "1e", "1u", "1.0f", "if"]);
    let step = if args.thorough() { 1 } else { 3 };
    let off = (args.seed % step) as usize;
    let mut k = 0usize;
    for a in &glue {
        for b in &glue {
            k += 1;
            if (k + off) % step as usize != 0 {
                continue;
            }
            emit(&format!("{}{}", a, b), &plain, out, &mut hist);
            texts += 1;
        }
    }
    // (1b) every decimal exponent a double can need, in every spelling of the exponent part (a conversion that
    //      mishandles one exponent value or one sign spelling must be hit in the quick tier)
    for e in -345i64..=325 {
        let d = rng.range(1, 9);
        let f = rng.range(0, 999);
        let mut forms = vec![format!("{}e{}", d, e), format!("{}.{}E{}", d, f, e)];
        if e >= 0 {
            forms.push(format!("{}e+{}", d, e));
            forms.push(format!("{}.{:03}E+{}{}", d, f, e, rng.pick(FLOAT_SUFFIX)));
        } else {
            forms.push(format!("{}.{}e{}{}", d, f, e, rng.pick(FLOAT_SUFFIX)));
        }
        for t in forms {
            emit(&t, &plain, out, &mut hist);
            texts += 1;
        }
        hist.add("float.exponent_sweep");
    }
    hist.add("phase.exhaustive_done");
    // (2) random token soups with arbitrary trivia
    let n_text = args.n.unwrap_or(if args.thorough() { 300_000 } else { 20_000 });
    for _ in 0..n_text {
        let len = rng.range(1, 10) as usize;
        let mut s = String::new();
        for _ in 0..len {
            s.push_str(&gen_item(&mut rng, &mut hist));
            if rng.chance(1, 3) {
                s.push_str(*rng.pick(TRIVIA));
            }
        }
        let fl = Flags { trail: !rng.chance(1, 5), inc: rng.chance(1, 6), base: if rng.chance(1, 4) { rng.range(1, 9) as u32 } else { 0 } };
        hist.add(&format!("text.len{}", (s.len() / 16) * 16));
        emit(&s, &fl, out, &mut hist);
        texts += 1;
    }
    // (3) numeric stream: one numeral per text (followed by a separator half of the time)
    let n_num = if args.thorough() { 1_000_000 } else { 20_000 };
    let n_num = args.n.map(|n| n * 2).unwrap_or(n_num);
    for i in 0..n_num {
        let mut s = if i % 2 == 0 { gen_int(&mut rng, &mut hist) } else { gen_float(&mut rng, &mut hist) };
        if rng.chance(1, 2) {
            s.push_str(*rng.pick(&[";", " ", "\n", ")", "+1", ",", "\r\n", ".x", "//"][..]));
        }
        emit(&s, &Flags { trail: rng.chance(1, 2), inc: false, base: 0 }, out, &mut hist);
        texts += 1;
    }
    // (3b) the fast-path boundary family (dense: a digit-count or scale off-by-one must be hit in the quick tier)
    let n_fast = if args.thorough() { 200_000 } else { 8_000 };
    let n_fast = args.n.map(|n| n / 2).unwrap_or(n_fast);
    for _ in 0..n_fast {
        let mut s = gen_fastpath(&mut rng, &mut hist);
        if rng.chance(1, 3) {
            s.push_str(*rng.pick(&[";", " ", "\n", ")", ","][..]));
        }
        emit(&s, &Flags { trail: true, inc: false, base: 0 }, out, &mut hist);
        texts += 1;
    }
    // (3c) one numeral, one token: every spelling family of the numeral grammar against the tokenisation reference
    let numerals = numx::generate(args, &mut rng, out, &mut hist);
    // (4), (5) literals through the whole compiler and through the formatter alone
    let (emitted, formatted) = emitx::generate(args, &mut rng, out, &mut hist);
    // (6) multi-file inputs: spans of tokens from included files, macro bodies, defines and `##` results
    let files_cases = filesx::generate(args, &mut rng, out, &mut hist);
    out.stat(&format!("{{\"texts\":{},\"numerals\":{},\"emitted\":{},\"formatted\":{},\"multi_file\":{},\"hist\":{}}}", texts, numerals, emitted, formatted, files_cases, hist.json()));
}

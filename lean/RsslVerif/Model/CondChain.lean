import RsslVerif.Model.CondExpr
/-!
# Model of `ConditionChain` and of the gating in `preprocess_command` / `flush_normal`
# (preprocess/src/preprocess.rs)

A file is a list of logical lines (`Dir`).  The state is the `ConditionChain` stack of `ConditionBlock`s (head
= innermost block = last element of the Rust `Vec`; a block = its `ConditionState` and whether its `#else`
branch has started), the macro table and the text lines that reached the output.  The three-state transition
table, `Block.switch` (nothing follows the `#else` branch), the state pushed by `#if/#ifdef/#ifndef`, the
per-command gating, the treatment of directives without a name and the five chain errors are the definitions
re-extracted from the source (`Gen.CondTables`).

`step` is parametrised by the condition evaluator `cv` (`#if`/`#elif` value in a macro table, an error =
the line is rejected); the executable model uses `CondExpr.condValue`.
-/
namespace RsslVerif.Model.CondChain
open RsslVerif.Gen.CondTables RsslVerif.Model.CondExpr

/-- errors the modelled lines can raise (`PreprocessError` variants) -/
inductive Err where
  | chain (e : ChainErr)
  | cond (e : CondErr)
  | UnknownPragma
  | UnknownCommand
  | FailedToFindFile
  deriving DecidableEq, Repr, Inhabited

inductive PragmaKind where | once | warning | unknown
  deriving DecidableEq, Repr, Inhabited

/-- one logical line -/
inductive Dir where
  /-- `#if <tokens>` -/
  | ifc (c : List CTok)
  /-- `#ifdef NAME` (`neg = false`) / `#ifndef NAME` (`neg = true`) -/
  | ifdef (neg : Bool) (name : String)
  /-- `#elif <tokens>` -/
  | elif (c : List CTok)
  | els
  | endif
  /-- a line of ordinary text (its non-whitespace tokens) -/
  | text (toks : List CTok)
  /-- `#define NAME <body>` (object-like) -/
  | define (name : String) (body : List CTok)
  | undef (name : String)
  /-- `#pragma once | warning … | <anything else>` -/
  | pragma (k : PragmaKind)
  /-- `#include "file"` of a file that holds ordinary text only (`some lines`) or cannot be loaded (`none`) -/
  | incl (file : Option (List (List CTok)))
  /-- `#<unknown command name>` -/
  | unknown
  /-- `#` followed by something that is not a name (`#3`, `# +`) -/
  | nonName
  deriving DecidableEq, Repr, Inhabited

structure St where
  /-- `ConditionChain.0`, innermost block first (one file: the file base `ConditionChain.1` is 0) -/
  chain : List Block
  macros : Macros
  out : List (List CTok)
  deriving DecidableEq, Repr, Inhabited

/-- `ConditionChain::is_active` -/
def active (ch : List Block) : Bool := ch.all (·.state == activeState)

/-- what `preprocess_command` / `flush_normal` see of a line -/
inductive Cmd where
  /-- not a directive: collected in `active_tokens`, kept by `flush_normal` iff active -/
  | text
  /-- a directive the name split of `preprocess_command` does not give a name -/
  | nonName
  /-- a directive with this command name, as matched in `preprocess_command` -/
  | named (cmd : String)
  deriving DecidableEq, Repr, Inhabited

def Dir.command : Dir → Cmd
  | .ifc _ => .named "if"
  | .ifdef false _ => .named "ifdef"
  | .ifdef true _ => .named "ifndef"
  | .elif _ => .named "elif"
  | .els => .named "else"
  | .endif => .named "endif"
  | .text _ => .text
  | .define _ _ => .named "define"
  | .undef _ => .named "undef"
  | .pragma _ => .named "pragma"
  | .incl _ => .named "include"
  | .unknown => .named "frobnicate"
  | .nonName => .nonName

/-- text that is flushed while active goes through `apply_macros(.., apply_defined = false, ..)` -/
def expandText (m : Macros) (toks : List CTok) : List CTok :=
  match subst m false toks with
  | .ok r => r
  | .error _ => toks

/-- `ConditionChain::switch(active, is_else, ..)` on the stack of the file -/
def switchTop (ch : List Block) (act isElse : Bool) : Except ChainErr (List Block) :=
  match ch with
  | [] => .error switchEmptyErr
  | top :: r =>
    match top.switch act isElse with
    | .error e => .error e
    | .ok top' => .ok (top' :: r)

/-- what the command does when it is *not* skipped (or is not gated at all) -/
def exec (cv : Macros → List CTok → Except CondErr Bool) (s : St) : Dir → Except Err St
  | .ifc c =>
    match cv s.macros c with
    | .ok b => .ok { s with chain := newBlock (pushState b) :: s.chain }
    | .error e => .error (.cond e)
  | .ifdef neg n =>
    let ex := s.macros.isDefined n
    .ok { s with chain := newBlock (pushState (if neg then !ex else ex)) :: s.chain }
  | .elif c =>
    -- the condition is evaluated before `switch` is called
    match cv s.macros c with
    | .error e => .error (.cond e)
    | .ok b =>
      match switchTop s.chain b elifIsElse with
      | .error e => .error (.chain e)
      | .ok ch => .ok { s with chain := ch }
  | .els =>
    match switchTop s.chain elseSwitchArg elseIsElse with
    | .error e => .error (.chain e)
    | .ok ch => .ok { s with chain := ch }
  | .endif =>
    match s.chain with
    | [] => .error (.chain popEmptyErr)
    | _ :: r => .ok { s with chain := r }
  | .text toks => .ok { s with out := s.out ++ [expandText s.macros toks] }
  | .define n body => .ok { s with macros := s.macros.define n body }
  | .undef n => .ok { s with macros := s.macros.undef n }
  | .pragma .unknown => .error .UnknownPragma
  | .pragma _ => .ok s
  | .incl none => .error .FailedToFindFile
  | .incl (some lines) => .ok { s with out := s.out ++ lines.map (expandText s.macros) }
  | .unknown => .error .UnknownCommand
  | .nonName => .error .UnknownCommand

/-- how a line is treated while `skip` holds: text is dropped by `flush_normal`, a directive without a name by
    the name split (`nonNameGate`), a named directive by its arm (`gate`) -/
def Cmd.gate : Cmd → Gate
  | .text => .skipNoEffect
  | .nonName => nonNameGate
  | .named cmd => RsslVerif.Gen.CondTables.gate cmd

/-- one line: `flush_normal` for text (kept iff active), `preprocess_command` for directives
    (`skip = !is_active()`, then the name split and the per-command gating of the source) -/
def step (cv : Macros → List CTok → Except CondErr Bool) (s : St) (d : Dir) : Except Err St :=
  if active s.chain then exec cv s d
  else match d.command.gate with
    | .skipNoEffect => .ok s
    | .skipPushes c => .ok { s with chain := newBlock c :: s.chain }
    | .notGated => exec cv s d

def run (cv : Macros → List CTok → Except CondErr Bool) (s : St) : List Dir → Except Err St
  | [] => .ok s
  | d :: ds =>
    match step cv s d with
    | .ok s' => run cv s' ds
    | .error e => .error e

/-- `preprocess_initial_file`: run the lines; `preprocess_included_file` requires that the file ends with the
    number of blocks it started with (0 for the entry file), then `preprocess_initial_file` requires an empty
    stack -/
def runFile (cv : Macros → List CTok → Except CondErr Bool) (m : Macros) (ds : List Dir) : Except Err St :=
  match run cv ⟨[], m, []⟩ ds with
  | .ok s =>
    if s.chain.length ≠ 0 then .error (.chain fileUnfinishedErr)
    else if s.chain.isEmpty then .ok s else .error (.chain unfinishedErr)
  | .error e => .error e

/-- the executable instance -/
def runReal (m : Macros) (ds : List Dir) : Except Err St := runFile condValue m ds

end RsslVerif.Model.CondChain

import RsslVerif.Lemmas.StmtRT2
/-! Round trip of statements: the declaration / expression alternative, attributes, `for`, the induction. -/
set_option linter.unusedSimpArgs false
set_option linter.unusedVariables false
namespace RsslVerif.Lemmas.StmtRT
open RsslVerif.Gen.FmtTables RsslVerif.Gen.ParseTables RsslVerif.Gen.SyntaxTables RsslVerif.Model.Format
open RsslVerif.Model.FormatFull RsslVerif.Model.ParseFull RsslVerif.Model.FormatStmt RsslVerif.Model.ParseStmt
open RsslVerif.Lemmas.FmtParseTables RsslVerif.Lemmas.RoundtripFull

variable (W : List String)

/-! ## An expression parse stops in front of an identifier -/

theorem parseOpAt_id (k : Nat) (term : Terminator) (n : String) (rest : List Tok) :
    parseOpAt k term (.id n :: rest) = none := by
  unfold parseOpAt
  split <;> (try rfl) <;>
    simp [parseOp3, parseOp4, parseOp5, parseOp6, parseOp7, parseOp8, parseOp9, parseOp10,
        parseOp11, parseOp12, parseOp14, parseOp15, firstArm, matchPrefix, Tok.isLt, Tok.isGt]

/-- with any fuel at all, no level continues in front of an identifier -/
theorem xcont_id (f k : Nat) (term : Terminator) (acc : XExpr) (n : String) (rest : List Tok) :
    xcont W (f + 1) k term acc (.id n :: rest) = some (acc, .id n :: rest) := by
  unfold xcont
  by_cases k1 : k = 1
  · subst k1; simp
  · by_cases k2 : k = 2
    · simp [k2]
    · by_cases k13 : k = 13
      · subst k13; simp
      · by_cases k14 : k = 14
        · subst k14; simp [parseOpAt_id]
        · simp [k1, k2, k13, k14, parseOpAt_id]

/-- an identifier directly followed by an identifier: the expression is the first identifier (or fuel ran out) -/
theorem expr_stops_at_id (a b : String) (rest : List Tok) (term : Terminator) :
    ∀ k f, xparseLvl W f k term (.id a :: .id b :: rest) = none ∨
      xparseLvl W f k term (.id a :: .id b :: rest) = some (.id a, .id b :: rest) := by
  intro k
  induction k with
  | zero =>
    intro f
    cases f with
    | zero => left; simp [xparseLvl]
    | succ f => right; simp [xparseLvl]
  | succ k ih =>
    intro f
    cases f with
    | zero => left; simp [xparseLvl]
    | succ f =>
      unfold xparseLvl
      by_cases hk : k + 1 = 2
      · have hk1 : k = 1 := by omega
        subst hk1
        simp only [if_true, prefixOp]
        rcases ih f with h | h
        · left; simp [h]
        · cases f with
          | zero => left; simp [xparseLvl] at h
          | succ f' => right; simp [h, xcont_id]
      · simp only [hk, if_false]
        rcases ih f with h | h
        · left; simp [h]
        · cases f with
          | zero => left; simp [xparseLvl] at h
          | succ f' => right; simp [h, xcont_id]

/-! ## The declaration / expression alternative -/

/-- tokens that start none of the keyword statements -/
def NotStmtKw (t : Tok) : Prop :=
  t ≠ .p .Semicolon ∧ t ≠ .p .If ∧ t ≠ .p .For ∧ t ≠ .p .While ∧ t ≠ .p .Do ∧ t ≠ .p .Switch ∧ t ≠ .p .Break ∧
  t ≠ .p .Continue ∧ t ≠ .p .Discard ∧ t ≠ .p .Return ∧ t ≠ .p .Case ∧ t ≠ .p .Default ∧ t ≠ .p .LeftBrace

theorem parseKind_default (f : Nat) (t : Tok) (ts : List Tok) (h : NotStmtKw t) :
    parseKind W (f + 1) (t :: ts) = parseDeclOrExpr W f (t :: ts) := by
  obtain ⟨h1, h2, h3, h4, h5, h6, h7, h8, h9, h10, h11, h12, h13⟩ := h
  unfold parseKind
  split <;> first
    | rfl
    | (rename_i heq; simp only [List.cons.injEq] at heq; simp_all)
    | (rename_i heq; cases heq)

theorem notStmtKw_exprHead (t : Tok) (h : ExprHead t) : NotStmtKw t := by
  rcases h with ⟨n, rfl⟩ | ⟨l, rfl⟩ | rfl | ⟨op, h⟩ | rfl
  · refine ⟨?_, ?_, ?_, ?_, ?_, ?_, ?_, ?_, ?_, ?_, ?_, ?_, ?_⟩ <;> (intro h; cases h)
  · refine ⟨?_, ?_, ?_, ?_, ?_, ?_, ?_, ?_, ?_, ?_, ?_, ?_, ?_⟩ <;> (intro h; cases h)
  · refine ⟨?_, ?_, ?_, ?_, ?_, ?_, ?_, ?_, ?_, ?_, ?_, ?_, ?_⟩ <;> decide
  · refine ⟨?_, ?_, ?_, ?_, ?_, ?_, ?_, ?_, ?_, ?_, ?_, ?_, ?_⟩ <;> (intro h'; subst h'; simp [prefixOp] at h)
  · refine ⟨?_, ?_, ?_, ?_, ?_, ?_, ?_, ?_, ?_, ?_, ?_, ?_, ?_⟩ <;> decide

theorem notStmtKw_modTok (m : TypeMod) : NotStmtKw (modTok m) := by
  cases m <;> (refine ⟨?_, ?_, ?_, ?_, ?_, ?_, ?_, ?_, ?_, ?_, ?_, ?_, ?_⟩ <;> decide)

theorem notStmtKw_id (n : String) : NotStmtKw (.id n) := by
  refine ⟨?_, ?_, ?_, ?_, ?_, ?_, ?_, ?_, ?_, ?_, ?_, ?_, ?_⟩ <;> (intro h; cases h)

/-- the text does not read as a declaration: its first token is neither a modifier nor a name, or the name is followed
by a token that starts no declarator and continues no type -/
def declDeadB : List Tok → Bool
  | [] => false
  | t :: rest =>
    match modBeforeStep t with
    | .stop =>
      match t with
      | .id _ =>
        (match rest with
         | u :: _ => !(u.isLt || u == .p .Const || u == .p .Volatile || u == .p .Asterix || u == .p .Ampersand ||
             (match u with | .id _ => true | _ => false))
         | [] => false)
      | _ => true
    | _ => false

theorem parseTy_badhead (f : Nat) (t : Tok) (rest : List Tok) (hs : modBeforeStep t = .stop) (hid : ∀ n, t ≠ .id n) :
    parseTy W f (t :: rest) = none := by
  unfold parseTy
  rw [takeModsBefore_stop t rest hs]
  split
  · rename_i heq; simp at heq; exact absurd heq.2.1 (hid _)
  · rfl

theorem varDef_dead (ts more : List Tok) (h : declDeadB ts = true) : ∀ f, parseVarDef W f (ts ++ more) = none := by
  intro f
  cases ts with
  | nil => simp [declDeadB] at h
  | cons t rest =>
    simp only [declDeadB] at h
    split at h
    · rename_i hstop
      cases t with
      | id n =>
        cases rest with
        | nil => simp at h
        | cons u rest' =>
          simp only [Bool.not_eq_true', Bool.or_eq_false_iff, beq_eq_false_iff_ne, ne_eq] at h
          obtain ⟨⟨⟨⟨⟨h1, h2⟩, h3⟩, h4⟩, h5⟩, h6⟩ := h
          unfold parseVarDef parseTy
          simp only [List.cons_append]
          rw [takeModsBefore_stop _ _ hstop]
          simp only [parseTArgsReq_notlt W f u _ h1, takeModsAfter_stop u _ h2 h3]
          have : parseInitDecls W f (u :: (rest' ++ more)) = none := by
            cases f with
            | zero => simp [parseInitDecls]
            | succ f =>
              unfold parseInitDecls
              have : parseDecl W f false (u :: (rest' ++ more)) = none := by
                cases f with
                | zero => simp [parseDecl]
                | succ f =>
                  unfold parseDecl
                  split
                  · rename_i heq; simp at heq; exact absurd heq.1 h4
                  · rename_i heq; simp at heq; exact absurd heq.1 h4
                  · rename_i heq; simp at heq; exact absurd heq.1 h5
                  · rename_i heq; simp at heq; exact absurd heq.1 h5
                  · simp only [Bool.false_eq_true, if_false]
                    split
                    · rename_i heq; simp only [List.cons.injEq] at heq; rw [heq.1] at h6; simp at h6
                    · rfl
              rw [this]
          rw [this]
      | _ =>
        unfold parseVarDef
        rw [List.cons_append, parseTy_badhead W f _ _ hstop (by intro n h; cases h)]
    · cases h

theorem rk_expr (e : XExpr) (hwf : WF W e) (hdead : declDeadB (toks (fmtExprX e) ++ [.p .Semicolon]) = true) :
    RK W (.expr e) := by
  intro rest _ _ hsafe
  have htoks : toks (fmtKind (.expr e)) ++ rest = toks (fmtExprX e) ++ .p .Semicolon :: rest := by
    simp [fmtKind, semi, pp]
  rw [htoks] at hsafe ⊢
  obtain ⟨N, h⟩ := expr_reads W e hwf _ (Or.inr (Or.inr (Or.inr rfl))) rest (fun hl => hsafe (by simpa [hasLtK] using hl))
  obtain ⟨t, ts', h1, h2⟩ := exprHead_fmt W e hwf topPrec topSide
  have h1' : toks (fmtExprX e) = t :: ts' := h1
  have hvd : ∀ f, parseVarDef W f (toks (fmtExprX e) ++ .p .Semicolon :: rest) = none := by
    intro f
    have := varDef_dead W (toks (fmtExprX e) ++ [.p .Semicolon]) rest hdead f
    simpa using this
  refine ⟨N + 1, fun f hf => ?_⟩
  obtain ⟨f', rfl, hf'⟩ := succ_of_pos hf
  rw [h1'] at h hvd ⊢
  simp only [List.cons_append] at h hvd ⊢
  rw [parseKind_default W f' t _ (notStmtKw_exprHead t h2)]
  unfold parseDeclOrExpr
  simp [hvd f', h f' hf']

/-- the text of a declaration does not read as an expression statement: it starts with a keyword modifier, or with two
identifiers in a row (type name, or identifier modifier, followed by a name) -/
def varExprDeadB : List Tok → Bool
  | .p k :: _ => modBeforeKw.any (fun e => e.1 == k)
  | .id _ :: .id _ :: _ => true
  | _ => false

theorem badHead_kw (k : Punct) (h : modBeforeKw.any (fun e => e.1 == k) = true) : BadHead (.p k) := by
  refine ⟨(by intro n h; cases h), (by intro l h; cases h), ?_, ?_, ?_⟩ <;>
    (revert h; cases k <;> decide)

theorem expr_dead_var (ts : List Tok) (h : varExprDeadB ts = true) (rest : List Tok) :
    ∀ f, (match xparseLvl W f 15 .Standard (ts ++ rest) with
          | some (_, .p .Semicolon :: _) => False
          | _ => True) ∧
         (∀ e r, xparseLvl W f 15 .Standard (ts ++ rest) = some (e, r) → (ts ++ rest).length ≤ r.length + 1) := by
  intro f
  match ts, h with
  | .p k :: tl, h =>
    have := xparseLvl_badhead W (.p k) (tl ++ rest) (badHead_kw k h) 15 f .Standard
    simp only [List.cons_append]
    rw [this]
    exact ⟨trivial, fun e r h => by cases h⟩
  | .id a :: .id b :: tl, _ =>
    simp only [List.cons_append]
    rcases expr_stops_at_id W a b (tl ++ rest) .Standard 15 f with h | h
    · rw [h]; exact ⟨trivial, fun e r h => by cases h⟩
    · rw [h]
      refine ⟨trivial, fun e r h' => ?_⟩
      simp only [Option.some.injEq, Prod.mk.injEq] at h'
      obtain ⟨_, rfl⟩ := h'
      simp

theorem rk_var (v : VarDef) (hwf : WFVarDef W v) (hdead : varExprDeadB (toks (fmtVarDef v)) = true) :
    RK W (.var v) := by
  intro rest _ _ hsafe
  have htoks : toks (fmtKind (.var v)) ++ rest = toks (fmtVarDef v) ++ .p .Semicolon :: rest := by
    simp [fmtKind, semi, pp]
  rw [htoks] at hsafe ⊢
  obtain ⟨N, h⟩ := varDef_reads W v hwf (.p .Semicolon :: rest) ⟨rest, rfl⟩ (fun hl => hsafe (by simpa [hasLtK] using hl))
  -- the first token is a modifier or a name
  obtain ⟨t, ts', ht, hkw⟩ : ∃ t ts', toks (fmtVarDef v) = t :: ts' ∧ NotStmtKw t := by
    have : toks (fmtVarDef v) = v.mods.map modTok ++ (.id v.name ::
        (toks (fmtTArgs v.targs (startsTok (fmtInitDecls v.defs) false)) ++ idsToks v.defs)) := by
      simp [fmtVarDef, toks_fmtTy, toks_fmtInitDecls]
    rw [this]
    cases v.mods with
    | nil => exact ⟨_, _, rfl, notStmtKw_id _⟩
    | cons m ms => exact ⟨_, _, rfl, notStmtKw_modTok m⟩
  refine ⟨N + 1, fun f hf => ?_⟩
  obtain ⟨f', rfl, hf'⟩ := succ_of_pos hf
  have hx := (expr_dead_var W (toks (fmtVarDef v)) hdead (.p .Semicolon :: rest) f').1
  have hv := h f' hf'
  rw [ht] at hx hv ⊢
  simp only [List.cons_append] at hx hv ⊢
  rw [parseKind_default W f' t _ hkw]
  unfold parseDeclOrExpr
  simp only [hv]
  have hne : ∀ e r, xparseLvl W f' 15 .Standard (t :: (ts' ++ .p .Semicolon :: rest)) ≠ some (e, .p .Semicolon :: r) := by
    intro e r heq
    rw [heq] at hx
    exact hx
  split
  · rename_i heq1 heq2
    split at heq2
    · rename_i e' r' heq3
      exact (hne _ _ heq3).elim
    · cases heq2
  · rename_i heq1 heq2
    simp only [Option.some.injEq, Prod.mk.injEq] at heq1
    obtain ⟨rfl, rfl⟩ := heq1
    rfl
  · rename_i heq1 heq2; cases heq1
  · rename_i heq1 heq2; cases heq1

/-! ## Attributes -/

/-- attribute arguments: any expressions the expression theorem covers (a comma expression is printed in parentheses
since 2a6da39) -/
def WFAttr (a : Attr) : Prop := WFA W a.args

theorem pos_attrArg (x : XExpr) (h : needParen x.prec attrArgPrec attrArgSide = false) : x.lvl ≤ 14 := by
  cases x with
  | lit l => simp only [XExpr.prec, XExpr.lvl, litPrec] at h ⊢ <;> generalize litNegative l = b at h ⊢ <;> cases b <;> revert h <;> decide
  | un o _ => cases o <;> simp only [XExpr.prec, XExpr.lvl] at h ⊢ <;> revert h <;> decide
  | bin o _ _ => cases o <;> simp only [XExpr.prec, XExpr.lvl] at h ⊢ <;> revert h <;> decide
  | _ => simp only [XExpr.prec, XExpr.lvl] at h ⊢ <;> revert h <;> decide

/-- an expression printed at a position `(outer, side)` that parenthesises the comma operator, in front of `,` or `)`, read
without comma operator (`parse_expression_no_seq`) -/
theorem argPos_reads (outer : Nat) (side : Side) (hpo : PosOk outer side)
    (hpos : ∀ x : XExpr, needParen x.prec outer side = false → x.lvl ≤ 14)
    (e : XExpr) (hwf : WF W e) (c : Tok) (hc : c = .p .Comma ∨ c = .p .RightParen)
    (rest : List Tok) (hsafe : hasLt e = true → TmplFree (toks (fmtSubX e outer side) ++ c :: rest) = true) :
    ∃ N, ∀ f, N ≤ f → xparseLvl W f 15 .Sequence (toks (fmtSubX e outer side) ++ c :: rest) = some (e, c :: rest) := by
  have hcl : Closes .Sequence c rest := by
    rcases hc with h | h
    · exact Or.inr (Or.inr (Or.inr (Or.inr (Or.inl ⟨h, rfl⟩))))
    · exact Or.inl h
  exact rts_self W (rt W e hwf) _ _ 15 .Sequence (c :: rest) (Nat.le_refl _)
    (fun hp => ⟨by have := hpos e hp; omega, fun h => by have := hpos e hp; omega, fun h => by cases h⟩)
    (fun hp => parenDead W e hwf (needParen_prec hpo hp) _) hsafe
    (noLow_closes W _ _ _ _ hcl) (fun _ => inert_closes W _ _ _ _ hcl)

/-- an attribute argument (printed with `format_subexpression(expr, 17, CommaList)`) in front of `,` or `)` -/
theorem attrArg_reads (e : XExpr) (hwf : WF W e) (c : Tok) (hc : c = .p .Comma ∨ c = .p .RightParen)
    (rest : List Tok) (hsafe : hasLt e = true → TmplFree (toks (fmtSubX e attrArgPrec attrArgSide) ++ c :: rest) = true) :
    ∃ N, ∀ f, N ≤ f → xparseLvl W f 15 callArgTerminator (toks (fmtSubX e attrArgPrec attrArgSide) ++ c :: rest) =
      some (e, c :: rest) :=
  argPos_reads W _ _ (Or.inl (by decide)) pos_attrArg e hwf c hc rest hsafe

def AA1 : XArgs → Prop
  | .nil => True
  | .cons e r => ∀ rest,
      (hasLtArgs (.cons e r) = true → TmplFree (toks (fmtAttr.fmtAttrArgs (.cons e r)) ++ .p .RightParen :: rest) = true) →
      ∃ N, ∀ f, N ≤ f →
        xparseArgs1 W f (toks (fmtAttr.fmtAttrArgs (.cons e r)) ++ .p .RightParen :: rest) = some (.cons e r, rest)

theorem aa1 : (a : XArgs) → WFA W a → AA1 W a
  | .nil, _ => trivial
  | .cons e .nil, hw => by
    intro rest hsafe
    obtain ⟨N, h⟩ := attrArg_reads W e hw.1 _ (Or.inr rfl) rest
      (fun hlt => by simpa [fmtAttr.fmtAttrArgs] using hsafe (by simp [hasLtArgs, hlt]))
    refine ⟨N + 1, fun f hf => ?_⟩
    obtain ⟨f', rfl, hf'⟩ := succ_of_pos hf
    unfold xparseArgs1
    simp [fmtAttr.fmtAttrArgs, h f' hf']
  | .cons e (.cons e' r'), hw => by
    intro rest hsafe
    have htoks : toks (fmtAttr.fmtAttrArgs (.cons e (.cons e' r'))) = toks (fmtSubX e attrArgPrec attrArgSide) ++
        (.p .Comma :: toks (fmtAttr.fmtAttrArgs (.cons e' r'))) := by
      simp [fmtAttr.fmtAttrArgs, comma, pp]
    rw [htoks] at hsafe ⊢
    simp only [List.append_assoc, List.cons_append] at hsafe ⊢
    obtain ⟨N2, h2⟩ := aa1 (.cons e' r') hw.2 rest (fun hlt => tmplFree_suffix
      ((List.suffix_cons _ _).trans (List.suffix_append _ _)) (hsafe (by
        simp only [hasLtArgs, Bool.or_eq_true] at hlt ⊢
        exact Or.inr hlt)))
    obtain ⟨N1, h1⟩ := attrArg_reads W e hw.1 _ (Or.inl rfl) (toks (fmtAttr.fmtAttrArgs (.cons e' r')) ++ .p .RightParen :: rest)
      (fun hlt => hsafe (by simp [hasLtArgs, hlt]))
    refine ⟨max N1 N2 + 1, fun f hf => ?_⟩
    obtain ⟨f', rfl, hf'⟩ := succ_of_pos hf
    unfold xparseArgs1
    simp [h1 f' (by omega), h2 f' (by omega)]

theorem toks_fmtAttr (a : Attr) : toks (fmtAttr a) =
    .p .LeftSquareBracket :: ((if a.double then [.p .LeftSquareBracket] else []) ++ (.id a.name ::
      ((match a.args with
        | .nil => []
        | args => .p .LeftParen :: (toks (fmtAttr.fmtAttrArgs args) ++ [.p .RightParen])) ++
       ((if a.double then [.p .RightSquareBracket] else []) ++ [.p .RightSquareBracket])))) := by
  unfold fmtAttr
  cases a.double <;> cases a.args <;> simp [pp]

theorem attrArgs_head (e : XExpr) (r : XArgs) (hw : WF W e) :
    ∃ t ts', toks (fmtAttr.fmtAttrArgs (.cons e r)) = t :: ts' ∧ t ≠ .p .RightParen := by
  obtain ⟨t, ts', h1, h2⟩ := exprHead_fmt W e hw attrArgPrec attrArgSide
  have h1' : toks (fmtSubX e attrArgPrec attrArgSide) = t :: ts' := h1
  have hne : t ≠ .p .RightParen := by
    rcases h2 with ⟨n, rfl⟩ | ⟨l, rfl⟩ | rfl | ⟨op, h⟩ | rfl
    · intro h; cases h
    · intro h; cases h
    · decide
    · intro h'; subst h'; simp [prefixOp] at h
    · decide
  cases r with
  | nil => exact ⟨t, ts', by simp [fmtAttr.fmtAttrArgs, h1'], hne⟩
  | cons e' r' => exact ⟨t, _, by simp [fmtAttr.fmtAttrArgs, h1']; rfl, hne⟩

/-- the arguments of an attribute after `(` -/
theorem attrArgs_read (e : XExpr) (r : XArgs) (hw : WFA W (.cons e r)) (rest : List Tok)
    (hsafe : hasLtArgs (.cons e r) = true →
      TmplFree (toks (fmtAttr.fmtAttrArgs (.cons e r)) ++ .p .RightParen :: rest) = true) :
    ∃ N, ∀ f, N ≤ f → xparseArgs W f (toks (fmtAttr.fmtAttrArgs (.cons e r)) ++ .p .RightParen :: rest) =
      some (.cons e r, rest) := by
  obtain ⟨N, h⟩ := aa1 W (.cons e r) hw rest hsafe
  obtain ⟨t, ts', ht, hne⟩ := attrArgs_head W e r hw.1
  refine ⟨N + 1, fun f hf => ?_⟩
  obtain ⟨f', rfl, hf'⟩ := succ_of_pos hf
  have h' := h f' hf'
  rw [ht] at h' ⊢
  unfold xparseArgs
  split
  · rename_i heq; simp only [List.cons_append, List.cons.injEq] at heq; exact absurd heq.1 hne
  · exact h'

/-- one attribute after its first `[` -/
theorem attr_reads (a : Attr) (hw : WFAttr W a) (rest : List Tok)
    (hsafe : hasLtArgs a.args = true → TmplFree (toks (fmtAttr a) ++ rest) = true) :
    ∃ N, ∀ f, N ≤ f → parseAttr W f ((toks (fmtAttr a)).tail ++ rest) = some (a, rest) := by
  have hwa : WFA W a.args := hw
  rw [toks_fmtAttr] at hsafe ⊢
  simp only [List.tail_cons]
  obtain ⟨name, args, double⟩ := a
  simp only [] at hwa hsafe ⊢
  cases args with
  | nil =>
    refine ⟨0, fun f _ => ?_⟩
    cases double <;> simp [parseAttr]
  | cons e r =>
    cases double with
    | false =>
      simp only [Bool.false_eq_true, if_false, List.nil_append, List.cons_append, List.append_assoc] at hsafe ⊢
      obtain ⟨N, h⟩ := attrArgs_read W e r hwa (.p .RightSquareBracket :: rest) (fun hlt => tmplFree_suffix
        ((List.suffix_cons _ _).trans ((List.suffix_cons _ _).trans (List.suffix_cons _ _))) (hsafe hlt))
      refine ⟨N, fun f hf => ?_⟩
      unfold parseAttr
      simp [h f hf]
    | true =>
      simp only [if_true, List.cons_append, List.nil_append, List.append_assoc] at hsafe ⊢
      obtain ⟨N, h⟩ := attrArgs_read W e r hwa (.p .RightSquareBracket :: .p .RightSquareBracket :: rest) (fun hlt => tmplFree_suffix
        ((List.suffix_cons _ _).trans ((List.suffix_cons _ _).trans ((List.suffix_cons _ _).trans (List.suffix_cons _ _)))) (hsafe hlt))
      refine ⟨N, fun f hf => ?_⟩
      unfold parseAttr
      simp [h f hf]

def WFAttrs (as : List Attr) : Prop := ∀ a, a ∈ as → WFAttr W a

/-- the attributes in front of a statement kind (which never starts with `[`) -/
theorem attrs_read : ∀ (as : List Attr), WFAttrs W as → ∀ more, (∀ r, more ≠ .p .LeftSquareBracket :: r) →
    (hasLtAttrs as = true → TmplFree (toks (fmtAttrs as) ++ more) = true) →
    ∃ N, ∀ f, N ≤ f → parseAttrs W f (toks (fmtAttrs as) ++ more) = some (as, more)
  | [], _, more, hm, _ => by
    refine ⟨1, fun f hf => ?_⟩
    obtain ⟨f', rfl, _⟩ := succ_of_pos hf
    simp only [fmtAttrs, toks_nil, List.nil_append]
    unfold parseAttrs
    split
    · exact absurd rfl (hm _)
    · rfl
  | a :: as, hw, more, hm, hsafe => by
    have htoks : toks (fmtAttrs (a :: as)) ++ more = toks (fmtAttr a) ++ (toks (fmtAttrs as) ++ more) := by
      simp [fmtAttrs]
    rw [htoks] at hsafe ⊢
    obtain ⟨N1, h1⟩ := attr_reads W a (hw a List.mem_cons_self) (toks (fmtAttrs as) ++ more)
      (fun hl => hsafe (by simp [hasLtAttrs, hl]))
    obtain ⟨N2, h2⟩ := attrs_read as (fun x hx => hw x (List.mem_cons_of_mem _ hx)) more hm
      (fun hl => tmplFree_suffix (List.suffix_append _ _) (hsafe (by simp [hasLtAttrs, hl])))
    have hhead : ∃ tl, toks (fmtAttr a) = .p .LeftSquareBracket :: tl := ⟨_, toks_fmtAttr a⟩
    obtain ⟨tl, htl⟩ := hhead
    refine ⟨max N1 N2 + 1, fun f hf => ?_⟩
    obtain ⟨f', rfl, hf'⟩ := succ_of_pos hf
    have g1 := h1 f' (by omega)
    rw [htl] at g1 ⊢
    simp only [List.tail_cons, List.cons_append] at g1 ⊢
    unfold parseAttrs
    simp [g1, h2 f' (by omega)]

end RsslVerif.Lemmas.StmtRT

import RsslVerif.Thm.C01
import RsslVerif.Lemmas.GenSemVec
/-!
# C01 — vector layer: shape-changing casts, swizzles, numeric constructors, component-wise operators

Theorems about `Model.GenHlslVec` (the `Cast` / `Swizzle` / `Constructor` arms of `generate_expression`, the `Vector` arm
of `generate_type_impl`) against `Spec.SemVec`.  Scalar leaves are handled by `gen_sem_expr`'s induction (`sim_expr`).
-/
namespace RsslVerif.Thm.C01
open RsslVerif.Gen.HlslGenTables RsslVerif.Gen.HlslIntrinsicTables RsslVerif.Gen.HlslVecTables RsslVerif.Model RsslVerif.Model.IrVec
open RsslVerif.Model.GenHlsl RsslVerif.Model.GenHlslVec RsslVerif.Spec.Sem RsslVerif.Spec.SemVec
open RsslVerif.Lemmas.GenSem RsslVerif.Lemmas.GenSemVec
open RsslVerif.Model.Ir (Ty Var Const Dir)

/-- the `Swizzle`, `Constructor` and `Cast` arms of `generate_expression` and the `Vector` arm of `generate_type_impl`
have the shape `Model.GenHlslVec` mirrors (textual facts re-extracted on every run): the swizzle's object is generated
and wrapped in `Member` with one letter per slot; the constructor's slots are generated in order into a `Call` of the
type's name; the cast generates *its own operand* (it does not look through it, rebind it or skip inner casts) and wraps
it unless the target is a scalar literal type; a vector type's name is the scalar's name followed by the dimension. -/
theorem exporter_vec_shape_as_modelled :
    swizzleArmAsModelled = true ∧ constructorArmAsModelled = true ∧ castArmGeneratesItsOperand = true ∧
    vectorTypeNameAppendsDim = true := by decide

/-- the letter the exporter writes for a swizzle slot (table re-extracted from the source) is read by HLSL as that very
component, and no two slots share a letter -/
theorem swizzle_letters_are_identity :
    (∀ s : SwizzleSlot, VAst.charIdx (swizzleChar s) = some (slotIdx s)) ∧
    (∀ a b : SwizzleSlot, swizzleChar a = swizzleChar b → a = b) ∧
    (∀ sl : List SwizzleSlot, VAst.parseSwizzle (swizzleName sl) = some (sl.map slotIdx)) := by
  refine ⟨charIdx_swizzleChar, ?_, parse_swizzleName⟩
  intro a b; cases a <;> cases b <;> decide

/-- the vector-only pure built-ins (reductions, geometric functions, HLSL 2021 logical functions) with the name HLSL
gives exactly that built-in -/
def vectorBuiltins : List (String × Intrinsic) :=
  [("dot", .Dot), ("length", .Length), ("distance", .Distance), ("cross", .Cross), ("normalize", .Normalize),
   ("reflect", .Reflect), ("any", .Any), ("all", .All), ("and", .And), ("or", .Or), ("select", .Select)]

/-- `generate_intrinsic_function`'s table (re-extracted on every run) invokes each of them under that very name, and no
two of them (nor any of the 46 scalar built-ins of `intrinsic_table_is_identity`) share a name -/
theorem vector_intrinsic_table_is_identity :
    (∀ p ∈ vectorBuiltins, intrinsicForm p.2 = .invoke p.1) ∧
    (∀ p ∈ vectorBuiltins, ∀ q ∈ vectorBuiltins ++ Ast.builtins, p.1 = q.1 → p.2 = q.2) := by
  constructor <;> decide

/-- every numeric type the layer can name is printed under a name HLSL reads as that type -/
theorem vector_type_names_roundtrip (ty : VTy) (n : String) (h : vtypeName ty = .ok n)
    (h1 : ty.scalar ≠ .lit) (h2 : ty.scalar ≠ .flit) (h3 : ty.scalar ≠ .void) : VAst.vtyOfName n = some ty :=
  vtypeName_vtyOfName h h1 h2 h3

/-- **vector expressions**: for every expression of the vector layer (casts between any scalar / vector types in any
nesting, swizzles, numeric constructors with any partition into slots, component-wise unary / binary / comparison
operators, `?:` with vector arms, vector variables, scalar sub-expressions of the scalar model) that the type checker
accepted, the emitted expression has a static type `ta` under HLSL's rules and — converted to the IR's type `t`, which is
what every context the exporter places it in does — evaluates to exactly the IR's value and scalar store, from every
store and every value of the vector variables, for every interpretation of the primitives.  By mutual induction over
`VExpr` / `VSlots`, with `sim_expr` at the scalar leaves. -/
theorem gen_sem_vec_expr {W : World} {env : VAst.VEnv} {cx : Ctx} {vvty : Var → VTy} (hag : VAgree cx env vvty)
    (e : VExpr) (a : VAExpr) (t : VTy)
    (hg : genV cx e = .ok a) (ht : VIr.typeOf W.sig cx.vty vvty e = some t) (hl : VIr.litOK e = true) :
    ∃ ta, VAst.typeOf W.sig env a = some ta ∧
      ∀ ρ σ, VAst.vconvR W.P ta t (VAst.eval W env ρ a σ) = VIr.eval W ρ e σ :=
  ⟨vastTy e t, (sim_v (ρ := fun _ => .vec []) hag e a t hg ht hl).1, fun ρ σ => (sim_v (ρ := ρ) hag e a t hg ht hl).conv ht σ⟩

/-- …and without any conversion when the expression is not a bare `Int32` constant -/
theorem gen_sem_vec_expr_plain {W : World} {env : VAst.VEnv} {cx : Ctx} {vvty : Var → VTy} (hag : VAgree cx env vvty)
    (e : VExpr) (a : VAExpr) (t : VTy)
    (hg : genV cx e = .ok a) (ht : VIr.typeOf W.sig cx.vty vvty e = some t) (hl : VIr.litOK e = true)
    (hn : e.litlike = false) :
    VAst.typeOf W.sig env a = some t ∧ ∀ ρ σ, VAst.eval W env ρ a σ = VIr.eval W ρ e σ :=
  ⟨((sim_v (ρ := fun _ => .vec []) hag e a t hg ht hl).plain hn).1, fun ρ σ => ((sim_v (ρ := ρ) hag e a t hg ht hl).plain hn).2 σ⟩

/-- **statement-level assignment to vectors and swizzles** (`v = E`, `v.xz = E`, `v += E`, `v.yx *= E`, … for every
assignment operator the exporter accepts, `E` any expression of the layer, `v` a vector-typed local or global): the emitted
`lhs op rhs` — the right operand converted to the left operand's type, for compound operators computed in the common
type and converted back, the named components overwritten in order — yields the same value, scalar store and **vector
store** as the IR's assignment.  The place is re-read by name and letters on the emitted side (`lvalOfV`). -/
theorem gen_sem_vec_assign {W : World} {env : VAst.VEnv} {cx : Ctx} {vvty : Var → VTy} (hag : VAgree cx env vvty)
    (o : IntrinsicOp) (lhs rhs : VExpr) (a : VAExpr) (T : VTy)
    (hg : genV cx (.op o (.cons lhs (.cons rhs .nil))) = .ok a)
    (hok : VIr.assignOK W.sig cx.vty vvty lhs rhs = some T) (hl : VIr.litOK rhs = true)
    (hsem : irOpSem o = .assign ∨ ∃ m, irOpSem o = .compound m) :
    ∀ ρ σ, VAst.evalTop W env ρ a σ = VIr.evalTop W ρ (.op o (.cons lhs (.cons rhs .nil))) σ := by
  cases hf : opForm o with
  | unexpected => simp [genV, hf] at hg
  | unary u => simp [genV, hf] at hg
  | binary b =>
    cases hgl : genV cx lhs with
    | error e => simp [genV, hf, hgl] at hg
    | ok lhs' =>
      cases hgr : genV cx rhs with
      | error e => simp [genV, hf, hgl, hgr] at hg
      | ok rhs' =>
        simp [genV, hf, hgl, hgr] at hg; subst hg
        exact sim_vassign hag hf hgl hgr hok hl hsem

/-- a cast chain is **not** collapsible: converting a float vector to a scalar first and widening it again replicates
the first component, converting the vector directly keeps the components.  For every interpretation of the primitives,
every dimension `n ≥ 2` and every vector whose first two components differ. -/
theorem scalar_cast_then_widen_differs (P : Prim) (n : Nat) (hn : 2 ≤ n) (x y : BitVec 32) (rest : List Val) (hxy : x ≠ y) :
    (castShape P (.sc .float) (.vec (.f x :: .f y :: rest))).bind (castShape P (.vec .float n)) ≠
      castShape P (.vec .float n) (.vec (.f x :: .f y :: rest)) := by
  obtain ⟨k, rfl⟩ : ∃ k, n = k + 2 := ⟨n - 2, by omega⟩
  simp only [castShape, castVal, Option.map, Option.bind]
  split
  · rename_i h
    simp only [List.take_succ_cons, mapOpt, castVal] at h ⊢
    cases hm : mapOpt (castVal P .float) (List.take k rest) with
    | none => simp
    | some l =>
      simp only [List.replicate_succ, ne_eq, Option.some.injEq, VVal.vec.injEq, List.cons.injEq, Val.f.injEq, true_and]
      intro hc
      exact hxy hc.1
  · simp

def ρ123 : VStore := fun _ => .vec [.f 1, .f 2, .f 3]

/-- `(float3)(float)v` — the IR of `float3 r = (float)v;` -/
def eChain : VExpr := .cast (.vec .float 3) (.cast (.sc .float) (.vvar 0))

def venv0 : VAst.VEnv where
  base := env0
  vres := env0.res
  vvty := fun _ => .vec .float 3

theorem vagree0 : VAgree cx0 venv0 (fun _ => .vec .float 3) where
  base := agree0
  vres := agree0.res
  vvty := rfl

/-- the exporter keeps both casts of the chain (`(float3)(float)l`), and that tree means what the IR means; the tree
without the inner cast (`(float3)l`, what an exporter that "tidies" cast chains of one scalar type would emit — seeded
mutant C01-2) evaluates to a **different** value for `v = (1, 2, 3)`, under every interpretation of the primitives. -/
theorem dropping_inner_shape_cast_changes_meaning :
    genV cx0 eChain = .ok (.cast "float3" (.cast "float" (.ident "l"))) ∧
    ∀ (W : World) (σ : Store),
      VAst.eval W venv0 ρ123 (.cast "float3" (.cast "float" (.ident "l"))) σ = VIr.eval W ρ123 eChain σ ∧
      VIr.eval W ρ123 eChain σ = some (.vec [.f 1, .f 1, .f 1], σ) ∧
      VAst.eval W venv0 ρ123 (.cast "float3" (.ident "l")) σ = some (.vec [.f 1, .f 2, .f 3], σ) := by
  refine ⟨rfl, fun W σ => ⟨?_, ?_, ?_⟩⟩
  · exact ((gen_sem_vec_expr_plain (W := W) vagree0 eChain _ (.vec .float 3) rfl rfl rfl rfl).2 ρ123 σ)
  · simp [VIr.eval, eChain, ρ123, castShapeR, castShape, castVal, List.replicate]
  · have h1 : VAst.vtyOfName "float3" = some (.vec .float 3) := by decide
    have h2 : venv0.vres "l" = some (.loc 0) := by decide
    simp [VAst.eval, h1, h2, ρ123, castShapeR, castShape, castVal, mapOpt]

/-- a cast to a *vector of a literal type* cannot be exported: `generate_type` reaches
`generate_scalar_type(IntLiteral / FloatLiteral)` and panics — the drop-the-cast rule only looks at scalar targets.
The type checker no longer builds such a cast: not for a binary operation (`boolvec + 1`, `intvec * 1.5`: fix 40c6233) and
not for the arms of `?:` (`c ? intvec : 1.5`: fix c05bffa) — see `vector_op_literal_in_concrete_type`; `VIr.typeOf` rejects
it.  The statement is kept as a fact about the (unchanged) exporter: such a tree must never reach it. -/
theorem literal_vector_cast_panics (cx : Ctx) (e : VExpr) (a : VAExpr) (n : Nat) (hg : genV cx e = .ok a) :
    (∃ m, genV cx (.cast (.vec .lit n) e) = .error (.panic m)) ∧ (∃ m, genV cx (.cast (.vec .flit n) e) = .error (.panic m)) := by
  constructor <;>
    exact ⟨"generate_scalar_type: literal type should not be required on output",
      by simp [genV, hg, vtypeName, typeName, scalarKey, scalarTypeName]⟩

/-- what the type checker builds since fix 40c6233 for `b + 1` with `b : bool3` — `Add(Cast(int3, b), Cast(int3, 1))`,
the operation done in the concrete type the literal receives (was: `Cast(IntLiteral3, b)`, which panicked the exporter) -/
def eBoolVecPlusLit : VExpr :=
  .op .Add (.cons (.cast (.vec .int 3) (.vvar 0)) (.cons (.cast (.vec .int 3) (.sc (.lit (.intLit 1)))) .nil))

/-- the same for `v * 1.5` with `v : int3`: `Multiply(Cast(float3, v), Cast(float3, 1.5))` -/
def eIntVecTimesFlit : VExpr :=
  .op .Multiply (.cons (.cast (.vec .float 3) (.vvar 0))
    (.cons (.cast (.vec .float 3) (.sc (.lit (.floatLit 0x3ff8000000000000#64)))) .nil))

/-- the same for `c ? b : 7` with `b : bool3` since fix c05bffa: `c ? Cast(int3, b) : Cast(int3, 7)` -/
def eTernVecLit : VExpr :=
  .tern (.sc (.var 0)) (.cast (.vec .int 3) (.vvar 1)) (.cast (.vec .int 3) (.sc (.lit (.intLit 7))))

def venvOf (t : VTy) : VAst.VEnv where
  base := env0
  vres := env0.res
  vvty := fun _ => t

theorem vagreeOf (t : VTy) : VAgree cx0 (venvOf t) (fun _ => t) where
  base := agree0
  vres := agree0.res
  vvty := rfl

/-- **a vector operation or conditional with a literal operand is exported and keeps its meaning** (the positive statement
that replaces the known findings `b + 1` / `v * 1.5` / `c ? b : 7` after fixes 40c6233 and c05bffa): the trees the type
checker now builds are accepted by `VIr.typeOf` (result `int3` / `float3`), satisfy the literal side condition, are
exported — `(int3)b + (int3)1`, `(float3)v * (float3)1.5`, `c ? (int3)b : (int3)7` — and the emitted expression has the
IR's type and evaluates to the IR's value and store for every value of the vector, every store and every interpretation
of the primitives (instances of `gen_sem_vec_expr_plain`). -/
theorem vector_op_literal_in_concrete_type (W : World) :
    genV cx0 eBoolVecPlusLit = .ok (.bin .Add (.cast "int3" (.ident "l")) (.cast "int3" (.sc (.lit (.intUntyped 1))))) ∧
    (∀ a, genV cx0 eBoolVecPlusLit = .ok a →
      VAst.typeOf W.sig (venvOf (.vec .bool 3)) a = some (.vec .int 3) ∧
      ∀ ρ σ, VAst.eval W (venvOf (.vec .bool 3)) ρ a σ = VIr.eval W ρ eBoolVecPlusLit σ) ∧
    (∃ a, genV cx0 eIntVecTimesFlit = .ok a) ∧
    (∀ a, genV cx0 eIntVecTimesFlit = .ok a →
      VAst.typeOf W.sig (venvOf (.vec .int 3)) a = some (.vec .float 3) ∧
      ∀ ρ σ, VAst.eval W (venvOf (.vec .int 3)) ρ a σ = VIr.eval W ρ eIntVecTimesFlit σ) ∧
    genV cx0 eTernVecLit =
      .ok (.tern (.sc (.ident "l")) (.cast "int3" (.ident "ll")) (.cast "int3" (.sc (.lit (.intUntyped 7))))) ∧
    (∀ a, genV cx0 eTernVecLit = .ok a →
      VAst.typeOf W.sig (venvOf (.vec .bool 3)) a = some (.vec .int 3) ∧
      ∀ ρ σ, VAst.eval W (venvOf (.vec .bool 3)) ρ a σ = VIr.eval W ρ eTernVecLit σ) :=
  ⟨rfl,
   fun a h => gen_sem_vec_expr_plain (vagreeOf _) eBoolVecPlusLit a (.vec .int 3) h rfl rfl rfl,
   ⟨_, rfl⟩,
   fun a h => gen_sem_vec_expr_plain (vagreeOf _) eIntVecTimesFlit a (.vec .float 3) h rfl rfl rfl,
   rfl,
   fun a h => gen_sem_vec_expr_plain (vagreeOf _) eTernVecLit a (.vec .int 3) h rfl rfl rfl⟩

/-- the constants outside the evaluated subset (64-bit integers, 16- and 64-bit floats) go — unconditionally, first matching
arm — to the literal of the *same* kind carrying the *same* payload (`.plain k` = `Literal::k(v)`), and `half` / `double`
are the names of the 16- / 64-bit float types: the literal and scalar-type tables (re-extracted on every run) keep kind and
width for them.  (Their arithmetic is not modelled; this is the part of the property that is a table fact.) -/
theorem wide_constants_keep_kind_and_payload :
    (∀ v, findArm .Int64 v = some (.plain .IntSigned64)) ∧ (∀ v, findArm .UInt64 v = some (.plain .IntUnsigned64)) ∧
    (∀ v, findArm .Float16 v = some (.plain .Float16)) ∧ (∀ v, findArm .Float64 v = some (.plain .Float64)) ∧
    scalarTypeName.lookup "Float16" = some (some "half") ∧ scalarTypeName.lookup "Float64" = some (some "double") := by
  refine ⟨?_, ?_, ?_, ?_, by decide, by decide⟩ <;> intro v <;> simp [findArm, literalArms, guardHolds]

/-! ## non-vacuity -/

/-- `(float3)(float)l0 + float3(ll, l0.zx)`-like: cast chain, constructor with a scalar leaf and a swizzle slot, a
comparison, a ternary — accepted, exported, hypotheses of `gen_sem_vec_expr` hold -/
def vEx : VExpr :=
  .tern (.sc (.var 0))
    (.op .Add (.cons eChain (.cons (.ctor (.vec .float 3)
      (.cons 1 (.cast (.sc .float) (.sc (.var 1))) (.cons 2 (.swz (.vvar 0) [.Z, .X]) .nil))) .nil)))
    (.cast (.vec .float 3) (.op .LessThan (.cons (.vvar 0) (.cons (.cast (.vec .float 3) (.sc (.lit (.int32 2)))) .nil))))

example : VIr.typeOf W0.sig cx0.vty (fun _ => .vec .float 3) vEx = some (.vec .float 3) := by decide
example : VIr.litOK vEx = true := by decide
example : ∃ a, genV cx0 vEx = .ok a := ⟨_, rfl⟩
example : VAgree cx0 venv0 (fun _ => .vec .float 3) := vagree0
/-- `l0.zx += (float2)(float)l0` (a swizzle write with a cast chain on the right): the hypotheses of `gen_sem_vec_assign` hold -/
example : VIr.assignOK W0.sig cx0.vty (fun _ => .vec .float 3) (.swz (.vvar 0) [.Z, .X])
    (.cast (.vec .float 2) (.cast (.sc .float) (.vvar 0))) = some (.vec .float 2) := by decide
example : VIr.evalTop W0 ρ123 (.op .SumAssignment (.cons (.swz (.vvar 0) [.Z, .X])
    (.cons (.cast (.vec .float 2) (.cast (.sc .float) (.vvar 0))) .nil))) (fun _ => .void) ≠ none := by decide
example (a : VAExpr) (h : genV cx0 vEx = .ok a) (ρ : VStore) (σ : Store) :
    VAst.eval W0 venv0 ρ a σ = VIr.eval W0 ρ vEx σ :=
  (gen_sem_vec_expr_plain vagree0 vEx a (.vec .float 3) h (by decide) (by decide) (by decide)).2 ρ σ

end RsslVerif.Thm.C01

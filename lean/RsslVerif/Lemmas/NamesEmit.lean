import RsslVerif.Model.NamesEmit
import RsslVerif.Lemmas.Names
/-!
Lemmas about `Model.NamesEmit.emit`: where the tokens of the emitted program come from.
-/
namespace RsslVerif.Lemmas.NamesEmit
open RsslVerif.Model.Names RsslVerif.Model.NamesEmit

/-! ### combinators for "every token of the list satisfies P" -/

def All (P : Tok → Prop) (l : List Tok) : Prop := ∀ tok ∈ l, P tok

theorem all_nil {P : Tok → Prop} : All P [] := fun _ h => by simp at h

theorem all_cons {P : Tok → Prop} {a : Tok} {l : List Tok} (ha : P a) (hl : All P l) : All P (a :: l) := by
  intro tok h
  rcases List.mem_cons.mp h with h | h
  · subst h; exact ha
  · exact hl _ h

theorem all_append {P : Tok → Prop} {a b : List Tok} (ha : All P a) (hb : All P b) : All P (a ++ b) := by
  intro tok h
  rcases List.mem_append.mp h with h | h
  · exact ha _ h
  · exact hb _ h

theorem all_flatMap {α : Type} {P : Tok → Prop} {l : List α} {f : α → List Tok} (h : ∀ x ∈ l, All P (f x)) :
    All P (l.flatMap f) := by
  intro tok ht
  obtain ⟨x, hx, hf⟩ := List.mem_flatMap.mp ht
  exact h x hx _ hf

theorem all_map {α : Type} {P : Tok → Prop} {l : List α} {f : α → Tok} (h : ∀ x ∈ l, P (f x)) :
    All P (l.map f) := by
  intro tok ht
  obtain ⟨x, hx, rfl⟩ := List.mem_map.mp ht
  exact h x hx

theorem all_replicate {P : Tok → Prop} {n : Nat} {a : Tok} (ha : P a) : All P (List.replicate n a) := by
  intro tok h
  obtain ⟨_, rfl⟩ := List.mem_replicate.mp h
  exact ha

theorem all_ite {P : Tok → Prop} {c : Prop} [Decidable c] {a b : List Tok} (ha : All P a) (hb : All P b) :
    All P (if c then a else b) := by
  split
  · exact ha
  · exact hb

/-! ### a declaration of an entity of the name map is printed with the leaf name the map gives it -/

def DeclOk (names : List Named) : Tok → Prop
  | .decl _ k n (.sym s) => k = "N" ∨ n = leaf names s
  | _ => True

theorem memberDecls_ok (names : List Named) (sc : Scope) (k : String) (mk : Nat → Ent)
    (hmk : ∀ i s, mk i ≠ .sym s) : ∀ (ms : List String) (i : Nat), All (DeclOk names) (memberDecls sc k mk ms i) := by
  intro ms
  induction ms with
  | nil => intro i; exact all_nil
  | cons m r ih =>
    intro i
    refine all_cons ?_ (ih _)
    unfold DeclOk
    split
    · rename_i heq
      injection heq with _ _ _ h4
      exact absurd h4 (hmk _ _)
    · trivial

theorem typeToks_ok (names : List Named) (sc : Scope) (p : Program) (g : Nat) :
    All (DeclOk names) (typeToks sc names p g) := by
  unfold typeToks
  split
  · exact all_cons trivial all_nil
  · split
    · exact all_cons trivial all_nil
    · exact all_nil

theorem memberTok_ok (names : List Named) (sc : Scope) (p : Program) (g : Nat) :
    All (DeclOk names) (memberTok sc p g) := by
  unfold memberTok
  split
  · split
    · split
      · split
        · exact all_cons trivial all_nil
        · exact all_nil
      · exact all_nil
    · exact all_nil
  · exact all_nil

theorem useToks_ok (t : Target) (names : List Named) (sc : Scope) (p : Program) (r : Ref) :
    All (DeclOk names) (useToks t sc names p r) := by
  cases r <;> simp only [useToks]
  case glob k =>
    split
    · exact all_append (all_append (all_ite (typeToks_ok _ _ _ _) all_nil) (all_cons trivial all_nil)) (memberTok_ok _ _ _ _)
    · exact all_append (all_cons trivial all_nil) (memberTok_ok _ _ _ _)
  case func k =>
    split
    · exact all_nil
    · exact all_append (all_cons trivial all_nil) (all_ite (all_map fun _ _ => trivial) all_nil)
  case loc k => exact all_cons trivial all_nil
  case enumVal v => exact all_cons trivial all_nil
  case cbMember c i =>
    split
    · exact all_cons trivial (all_cons trivial all_nil)
    · exact all_cons trivial all_nil
  case structTy k => exact all_cons trivial all_nil
  case enumTy k => exact all_cons trivial all_nil
  case nothing => exact all_nil

theorem bodyToks_ok (t : Target) (names : List Named) (sc : Scope) (p : Program) (body : List BTok) :
    All (DeclOk names) (bodyToks t sc names p body) := by
  unfold bodyToks
  refine all_flatMap fun b _ => ?_
  cases b with
  | lv k => exact all_cons (Or.inr rfl) all_nil
  | op => exact all_cons trivial all_nil
  | cl => exact all_cons trivial all_nil
  | use r => exact useToks_ok _ _ _ _ _

theorem defToks_ok (t : Target) (names : List Named) (p : Program) (d : Def) :
    All (DeclOk names) (defToks t names p d) := by
  unfold defToks
  split
  · exact all_append (all_append (all_append (all_cons (Or.inr rfl) (all_cons trivial all_nil))
      (memberDecls_ok names _ _ _ (fun _ _ => by simp) _ _))
      (all_flatMap fun f _ => all_cons (Or.inr rfl) (all_cons trivial (all_cons trivial all_nil))))
      (all_cons trivial all_nil)
  · exact all_append (all_append (all_cons (Or.inr rfl) (all_cons trivial all_nil))
      (all_map fun _ _ => Or.inr rfl)) (all_cons trivial all_nil)
  · exact all_ite all_nil (all_cons (Or.inr rfl) all_nil)
  · refine all_ite (all_ite (all_cons (Or.inr rfl) all_nil) all_nil) ?_
    exact all_append (all_append (typeToks_ok _ _ _ _) (all_cons (Or.inr rfl) all_nil))
      (all_ite (all_cons trivial (all_cons trivial all_nil)) all_nil)
  · refine all_ite ?_ ?_
    · exact all_append (all_append (all_cons (Or.inr rfl) (all_cons trivial all_nil))
        (memberDecls_ok names _ _ _ (fun _ _ => by simp) _ _)) (all_cons trivial all_nil)
    · exact all_append (all_append (all_cons trivial (all_cons trivial all_nil))
        (memberDecls_ok names _ _ _ (fun _ _ => by simp) _ _)) (all_cons trivial all_nil)
  · exact all_append (all_append (all_append (all_append (all_cons (Or.inr rfl) (all_cons trivial all_nil))
      (all_map fun _ _ => Or.inr rfl))
      (all_ite (all_flatMap fun g _ => all_append (typeToks_ok _ _ _ _) (all_cons (Or.inr rfl) all_nil)) all_nil))
      (bodyToks_ok _ _ _ _ _)) (all_cons trivial all_nil)

theorem wrap_all {P : Tok → Prop} (names : List Named) (p : Program) (hcl : P .cl) (hop : P .op)
    (hns : ∀ sc n e, P (.decl sc "N" n e)) :
    ∀ (l : List (Option Nat × List Tok)) (cur : List String),
      (∀ x ∈ l, All P x.2) → All P (wrap names p cur l) := by
  intro l
  induction l with
  | nil =>
    intro cur _
    simp only [wrap]
    exact all_map fun _ _ => hcl
  | cons x rest ih =>
    intro cur hl
    obtain ⟨ns, toks⟩ := x
    have hrest : ∀ y ∈ rest, All P y.2 := fun y hy => hl y (List.mem_cons_of_mem _ hy)
    simp only [wrap]
    split
    · exact ih _ hrest
    · refine all_append (all_append (all_append (all_replicate hcl) ?_) (hl (ns, toks) (List.mem_cons_self ..))) (ih _ hrest)
      exact all_flatMap fun j _ => all_cons (hns ..) (all_cons hop all_nil)

theorem inlinePrelude_ok (names : List Named) (p : Program) : All (DeclOk names) (inlinePrelude names p) := by
  unfold inlinePrelude
  refine all_flatMap fun s _ => ?_
  exact all_append (all_append (all_cons trivial (all_cons trivial all_nil)) (all_map fun _ _ => Or.inr rfl))
    (all_cons trivial (all_cons trivial (all_cons trivial all_nil)))

theorem mslEpilogue_ok (names : List Named) (p : Program) : All (DeclOk names) (mslEpilogue names p) := by
  unfold mslEpilogue
  split
  · refine all_append (all_append (all_append (all_append (all_append ?_ (all_cons trivial (all_cons trivial all_nil))) ?_) ?_) ?_)
      (all_cons trivial all_nil)
    · unfold argBufferToks
      refine all_flatMap fun i _ => ?_
      exact all_append (all_append (all_cons trivial (all_cons trivial all_nil))
        (all_flatMap fun g _ => all_append (typeToks_ok _ _ _ _) (all_cons (Or.inr rfl) all_nil))) (all_cons trivial all_nil)
    · unfold wrapperParams
      refine all_append ?_ (all_flatMap fun i _ => all_cons trivial (all_cons trivial all_nil))
      split
      · exact all_cons (Or.inr rfl) all_nil
      · exact all_nil
    · unfold wrapperLocals
      exact all_flatMap fun g _ => all_ite all_nil (all_cons (Or.inr rfl) all_nil)
    · unfold wrapperCall
      refine all_append (all_append (all_cons trivial all_nil) ?_) ?_
      · split
        · exact all_cons trivial all_nil
        · exact all_nil
      · exact all_flatMap fun g _ => all_ite (all_cons trivial (all_cons trivial all_nil)) (all_cons trivial all_nil)
  · exact all_nil

/-- **every declaration of a map-managed entity in the emitted program carries the map's leaf name** (namespace
blocks aside, whose name is a component of `get_name_qualified`) -/
theorem emit_decl_ok (t : Target) (names : List Named) (p : Program) : All (DeclOk names) (emit t names p) := by
  unfold emit
  refine all_append (all_append (all_ite (inlinePrelude_ok _ _) all_nil) ?_) (all_ite (mslEpilogue_ok _ _) all_nil)
  refine wrap_all names p trivial trivial (fun _ _ e => ?_) _ _ ?_
  · cases e <;> first | exact Or.inl rfl | trivial
  · intro x hx
    obtain ⟨d, _, rfl⟩ := List.mem_map.mp hx
    exact defToks_ok _ _ _ _

end RsslVerif.Lemmas.NamesEmit

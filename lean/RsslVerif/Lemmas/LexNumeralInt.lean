import RsslVerif.Lemmas.LexNumeral
/-!
# Maximal munch for decimal integer numerals

`decimalInt_one_token`: a decimal integer numeral of the C grammar (`0`, or a non-zero digit followed by digits) with any of
the 13 spellings of the suffix (none, `u U l L`, `ul uL Ul UL`, `lu lU Lu LU`), followed by a text that does not continue it
(`IntBoundary`: the end, or a byte that is neither an identifier character nor `.`), is ONE token: the integer literal of
the kind the suffix names with the positional value of the digits — provided that value fits the kind (otherwise
`int_overflow_rejected` applies).
-/
set_option linter.unusedSimpArgs false
namespace RsslVerif.Model.Lexer
open RsslVerif.Gen.LexTables RsslVerif.Spec

/-- the integer suffix as written (`true` = upper case) -/
inductive IntSuffixSpelling where
  | absent
  | u (upper : Bool)
  | l (upper : Bool)
  | ul (uUpper lUpper : Bool)
  | lu (lUpper uUpper : Bool)
  deriving DecidableEq, Repr

def uByte (upper : Bool) : UInt8 := if upper then 85 else 117
def lByte (upper : Bool) : UInt8 := if upper then 76 else 108

def IntSuffixSpelling.bytes : IntSuffixSpelling → Bytes
  | .absent => []
  | .u a => [uByte a]
  | .l a => [lByte a]
  | .ul a b => [uByte a, lByte b]
  | .lu a b => [lByte a, uByte b]

def IntSuffixSpelling.ty : IntSuffixSpelling → Option IntType
  | .absent => none
  | .u _ => some .Unsigned32
  | .l _ => some .Signed64
  | .ul _ _ => some .Unsigned64
  | .lu _ _ => some .Unsigned64

theorem intBoundary_head {rest : Bytes} (h : IntBoundary rest) : ∀ b r, rest = b :: r →
    decDigit? b = none ∧ b.toNat ≠ 46 ∧ b.toNat ≠ 101 ∧ b.toNat ≠ 69 ∧ b.toNat ≠ 120 ∧ octDigit? b = none ∧
    b.toNat ≠ 117 ∧ b.toNat ≠ 85 ∧ b.toNat ≠ 108 ∧ b.toNat ≠ 76 := by
  intro b r hb
  have hi := h b r hb
  have hid := hi.1
  have hdig : decDigit? b = none := by
    cases hd : decDigit? b with
    | none => rfl
    | some d => rw [identChar_of_digit hd] at hid; cases hid
  refine ⟨hdig, hi.2, ?_, ?_, ?_, ?_, ?_, ?_, ?_, ?_⟩
  · intro hx; simp [isIdentChar, isIdentStart, hx] at hid
  · intro hx; simp [isIdentChar, isIdentStart, hx] at hid
  · intro hx; simp [isIdentChar, isIdentStart, hx] at hid
  · unfold octDigit?; unfold decDigit? at hdig
    split at hdig
    · cases hdig
    · rename_i hn; simp; intro h1; omega
  · intro hx; simp [isIdentChar, isIdentStart, hx] at hid
  · intro hx; simp [isIdentChar, isIdentStart, hx] at hid
  · intro hx; simp [isIdentChar, isIdentStart, hx] at hid
  · intro hx; simp [isIdentChar, isIdentStart, hx] at hid

theorem spelledSuffix_head (sfx : IntSuffixSpelling) (rest : Bytes) (h : IntBoundary rest) :
    ∀ b r, sfx.bytes ++ rest = b :: r →
      decDigit? b = none ∧ b.toNat ≠ 46 ∧ b.toNat ≠ 101 ∧ b.toNat ≠ 69 ∧ b.toNat ≠ 120 ∧ octDigit? b = none := by
  intro b r hb
  cases sfx with
  | absent =>
    simp [IntSuffixSpelling.bytes] at hb
    have := intBoundary_head h b r hb
    exact ⟨this.1, this.2.1, this.2.2.1, this.2.2.2.1, this.2.2.2.2.1, this.2.2.2.2.2.1⟩
  | u a => simp [IntSuffixSpelling.bytes] at hb; rw [← hb.1]; cases a <;> decide
  | l a => simp [IntSuffixSpelling.bytes] at hb; rw [← hb.1]; cases a <;> decide
  | ul a c => simp [IntSuffixSpelling.bytes] at hb; rw [← hb.1]; cases a <;> decide
  | lu a c => simp [IntSuffixSpelling.bytes] at hb; rw [← hb.1]; cases a <;> decide

theorem intType_spelled (sfx : IntSuffixSpelling) (rest : Bytes) (h : IntBoundary rest) :
    opt (intType (sfx.bytes ++ rest)) (sfx.bytes ++ rest) = (rest, sfx.ty) := by
  have key := intBoundary_head h
  cases rest with
  | nil =>
    cases sfx with
    | absent => simp [IntSuffixSpelling.bytes, IntSuffixSpelling.ty, intType, intTypeTable, intTypeFrom, matchPrefix, opt, wrongChars]
    | u a => cases a <;> simp [IntSuffixSpelling.bytes, IntSuffixSpelling.ty, uByte, lByte, intType, intTypeTable, intTypeFrom, matchPrefix, opt, wrongChars]
    | l a => cases a <;> simp [IntSuffixSpelling.bytes, IntSuffixSpelling.ty, uByte, lByte, intType, intTypeTable, intTypeFrom, matchPrefix, opt, wrongChars]
    | ul a c => cases a <;> cases c <;> simp [IntSuffixSpelling.bytes, IntSuffixSpelling.ty, uByte, lByte, intType, intTypeTable, intTypeFrom, matchPrefix, opt, wrongChars]
    | lu a c => cases a <;> cases c <;> simp [IntSuffixSpelling.bytes, IntSuffixSpelling.ty, uByte, lByte, intType, intTypeTable, intTypeFrom, matchPrefix, opt, wrongChars]
  | cons b r =>
    obtain ⟨-, -, -, -, -, -, h1, h2, h3, h4⟩ := key b r rfl
    cases sfx with
    | absent => simp [IntSuffixSpelling.bytes, IntSuffixSpelling.ty, intType, intTypeTable, intTypeFrom, matchPrefix, opt, wrongChars, h1, h2, h3, h4]
    | u a => cases a <;> simp [IntSuffixSpelling.bytes, IntSuffixSpelling.ty, uByte, lByte, intType, intTypeTable, intTypeFrom, matchPrefix, opt, wrongChars, h1, h2, h3, h4]
    | l a => cases a <;> simp [IntSuffixSpelling.bytes, IntSuffixSpelling.ty, uByte, lByte, intType, intTypeTable, intTypeFrom, matchPrefix, opt, wrongChars, h1, h2, h3, h4]
    | ul a c => cases a <;> cases c <;> simp [IntSuffixSpelling.bytes, IntSuffixSpelling.ty, uByte, lByte, intType, intTypeTable, intTypeFrom, matchPrefix, opt, wrongChars, h1, h2, h3, h4]
    | lu a c => cases a <;> cases c <;> simp [IntSuffixSpelling.bytes, IntSuffixSpelling.ty, uByte, lByte, intType, intTypeTable, intTypeFrom, matchPrefix, opt, wrongChars, h1, h2, h3, h4]

/-- **decimalInt_one_token** -/
theorem decimalInt_one_token (d : Nat) (ds : List Nat) (hlt : ∀ x ∈ d :: ds, x < 10) (hlead : d ≠ 0 ∨ ds = [])
    (sfx : IntSuffixSpelling) (tok : Token) (hn : Dec2Bin.ofDigits 10 (d :: ds) < 2 ^ 64)
    (hk : mkIntToken? (Dec2Bin.ofDigits 10 (d :: ds)) sfx.ty = some tok) (rest : Bytes) (hb : IntBoundary rest) (inc : Bool) :
    tokenIntermediate ((d :: ds).map digitByte ++ (sfx.bytes ++ rest)) inc = .ok (rest, tok) := by
  have hs := spelledSuffix_head sfx rest hb
  have hnd : NoDigitHead (sfx.bytes ++ rest) := fun b r h => (hs b r h).1
  have hseq := digitSequence_digits d ds hlt _ hnd
  have hd0 := decDigit_digitByte d (hlt d (by simp))
  have hrange := digitByte_range d (hlt d (by simp))
  have hfl : literalFloat ((d :: ds).map digitByte ++ (sfx.bytes ++ rest)) =
      .error (.lex (.rest ((d :: ds).map digitByte ++ (sfx.bytes ++ rest))) .OtherTokenBytes) := by
    have hfc : fractionalConstant ((d :: ds).map digitByte ++ (sfx.bytes ++ rest)) =
        .error (.lex (.rest (sfx.bytes ++ rest)) .OtherTokenBytes) := by
      unfold fractionalConstant
      rw [hseq]
      simp only [opt]
      cases htl : sfx.bytes ++ rest with
      | nil => rfl
      | cons b r => simp [(hs b r htl).2.1, otherTokenChars]
    have hm : floatMantissa ((d :: ds).map digitByte ++ (sfx.bytes ++ rest)) =
        .ok (sfx.bytes ++ rest, (false, d :: ds, [])) := by
      unfold floatMantissa
      rw [hfc]
      simp only [opt]
      rw [hseq]
    unfold literalFloat
    rw [hm]
    have hex := floatExponent_none (sfx.bytes ++ rest) (fun b q hq => ⟨(hs b q hq).2.2.1, (hs b q hq).2.2.2.1⟩)
    simp [hex, otherTokenChars]
  have hli : literalInt ((d :: ds).map digitByte ++ (sfx.bytes ++ rest)) =
      literalIntWith decDigit? 10 ((d :: ds).map digitByte ++ (sfx.bytes ++ rest)) := by
    unfold literalInt
    by_cases h0 : d = 0
    · have hds : ds = [] := hlead.resolve_left (fun h => h h0)
      subst h0 hds
      have hb48 : digitByte 0 = 48 := rfl
      simp only [List.map_cons, List.map_nil, List.nil_append, List.cons_append, hb48]
      cases htl : sfx.bytes ++ rest with
      | nil => simp [stripPrefix?, digitWith, endOfStream]
      | cons b r =>
        have hx := (hs b r htl).2.2.2.2
        have hne : ¬ (120 : UInt8) = b := by intro h; subst h; exact hx.1 rfl
        simp [stripPrefix?, hne, digitWith, hx.2, wrongChars]
    · have hne : ¬ (48 : UInt8) = digitByte d := by
        intro h
        have h1 : (digitByte d).toNat = 48 + d := digitByte_toNat d (hlt d (by simp))
        rw [← h] at h1
        simp at h1
        omega
      simp [stripPrefix?, hne]
  have hrun := digitRun_digits (d :: ds) hlt _ hnd
  have hdw := digitsWith_closed decDigit? 10 (by omega) (fun b x h => by have := decDigit_lt b x h; omega)
    (digitByte d) (ds.map digitByte ++ (sfx.bytes ++ rest)) d hd0
  have hcons : (d :: ds).map digitByte ++ (sfx.bytes ++ rest) =
      digitByte d :: (ds.map digitByte ++ (sfx.bytes ++ rest)) := rfl
  rw [← hcons, hrun.1, hrun.2] at hdw
  simp only [hn, if_true] at hdw
  have hit := intType_spelled sfx rest hb
  have hfin : literalIntWith decDigit? 10 ((d :: ds).map digitByte ++ (sfx.bytes ++ rest)) = .ok (rest, tok) := by
    unfold literalIntWith
    rw [hdw]
    simp only [hit, hk]
  rw [hcons] at hfl hli hfin ⊢
  simp only [tokenIntermediate, tokenStep, hrange, and_self, if_true, hfl, ErrAt.len, hli, hfin]

end RsslVerif.Model.Lexer

import RsslVerif.Model.Lexer
/-!
# What "the token spans tile the file" means (property C10, first sentence)
-/
namespace RsslVerif.Spec.Lexer
open RsslVerif.Model.Lexer RsslVerif.Gen.LexTables

/-- the spans of `ts` are contiguous and in order from offset `a` to offset `b` -/
def Chain : Nat → List PTok → Nat → Prop
  | a, [], b => a = b
  | a, t :: ts, b => t.start = a ∧ t.start ≤ t.stop ∧ Chain t.stop ts b

/-- the bytes of the file a token's span covers -/
def slice (s : Bytes) (t : PTok) : Bytes := (s.drop t.start).take (t.stop - t.start)

/-- re-emitting the tokens from their spans -/
def reemit (s : Bytes) (ts : List PTok) : Bytes := ts.flatMap (slice s)

/-- the only token allowed to be empty: the `Endline` the lexer adds at the very end of a file -/
def IsSyntheticEndline (s : Bytes) (t : PTok) : Prop :=
  t.tok = .simple .Endline ∧ t.start = s.length ∧ t.stop = s.length

/-- the token spans tile the file exactly: contiguous, in order, covering every byte, no empty token
other than the synthetic final endline -/
structure Tiles (s : Bytes) (ts : List PTok) : Prop where
  chain : Chain 0 ts s.length
  nonempty : ∀ t ∈ ts, t.start < t.stop ∨ IsSyntheticEndline s t

end RsslVerif.Spec.Lexer

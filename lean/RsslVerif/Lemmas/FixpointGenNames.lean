import RsslVerif.Thm.C15
/-!
# C04 — generated names are reserved against locals (seeded mutant C04-5)

The exporter prints a struct / enum / enum value / namespace / function / global either under its source name or under a
name it GENERATES (`texture` → `texture_0`: reserved word, or several symbols of one name in a scope).  Local variables and
parameters are named afterwards and are printed as plain identifiers; a type is printed as a root-relative path.  A local
that carried a generated name would shadow the entity in the emitted text (`texture_0 t;` after `int texture_0` is refused:
"identifier 'texture_0' is expected to be a type"), so the fixpoint needs: **no local is printed with a generated name**.

Everything here is about C15's model of `NameMap::build` (`Model.Names.build`, tied to the code by C15's correspondence run
and by `Gen.Reserved` / `Gen.NameReserve`), for all inputs.
-/
namespace RsslVerif.Lemmas.FixpointGenNames
open RsslVerif.Model.Names RsslVerif.Lemmas.Names RsslVerif.Thm.C15

/-! ## every name a scope gives is the source name of the symbol or a recorded candidate -/

theorem assignSym_src {Q : Sym × String → Prop} {name : String} {keep : Bool} {st st' : St} {s : Sym}
    (h : assignSym name keep st s = .ok st') (hQ : Q (s, name))
    (hinv : ∀ p, p ∈ st.out → p.2 ∈ st.gen ∨ Q p) : ∀ p, p ∈ st'.out → p.2 ∈ st'.gen ∨ Q p := by
  unfold assignSym at h
  split at h
  · cases h
    intro p hp
    rcases List.mem_append.mp hp with hp | hp
    · exact hinv p hp
    · simp at hp; subst hp; exact Or.inr hQ
  · split at h
    · rename_i c _
      cases h
      intro p hp
      rcases List.mem_append.mp hp with hp | hp
      · exact (hinv p hp).imp (fun h1 => List.mem_cons_of_mem _ h1) id
      · simp at hp; subst hp; exact Or.inl (List.mem_cons_self ..)
    · cases h

theorem assignSyms_src {Q : Sym × String → Prop} {name : String} {keep : Bool} :
    ∀ (syms : List Sym) {st st' : St}, assignSyms name keep st syms = .ok st' → (∀ s, s ∈ syms → Q (s, name)) →
      (∀ p, p ∈ st.out → p.2 ∈ st.gen ∨ Q p) → ∀ p, p ∈ st'.out → p.2 ∈ st'.gen ∨ Q p := by
  intro syms
  induction syms with
  | nil => intro st st' h _ hinv; simp [assignSyms] at h; subst h; exact hinv
  | cons s r ih =>
    intro st st' h hQ hinv
    unfold assignSyms at h
    split at h
    · rename_i st1 h1
      exact ih h (fun s' hs' => hQ s' (List.mem_cons_of_mem _ hs'))
        (assignSym_src h1 (hQ s (List.mem_cons_self ..)) hinv)
    · cases h

theorem assignGroups_src {Q : Sym × String → Prop} {kept : List String} :
    ∀ (gs : List (String × List Sym)) {st st' : St}, assignGroups kept st gs = .ok st' →
      (∀ g, g ∈ gs → ∀ s, s ∈ g.2 → Q (s, g.1)) →
      (∀ p, p ∈ st.out → p.2 ∈ st.gen ∨ Q p) → ∀ p, p ∈ st'.out → p.2 ∈ st'.gen ∨ Q p := by
  intro gs
  induction gs with
  | nil => intro st st' h _ hinv; simp [assignGroups] at h; subst h; exact hinv
  | cons g r ih =>
    intro st st' h hQ hinv
    unfold assignGroups at h
    split at h
    · rename_i st1 h1
      unfold assignGroup at h1
      exact ih h (fun g' hg' => hQ g' (List.mem_cons_of_mem _ hg'))
        (assignSyms_src g.2 h1 (hQ g (List.mem_cons_self ..)) hinv)
    · cases h

/-- a scope names each of its symbols with its source name or with a candidate it recorded in `gen`
(= what goes into `used_names_all_scopes`) -/
theorem scopeRun_src_or_gen {reserved : List String} {syms : List (String × Sym)} {st : St}
    (h : scopeRun reserved (groupsOf syms) = .ok st) :
    ∀ p, p ∈ st.out → p.2 ∈ st.gen ∨ (p.2, p.1) ∈ syms := by
  unfold scopeRun at h
  simp only at h
  refine assignGroups_src (Q := fun p => (p.2, p.1) ∈ syms) _ h ?_ (by simp)
  intro g hg s hs
  rw [(mem_groupsOf.mp hg).2] at hs
  obtain ⟨q, hq, e⟩ := List.mem_map.mp hs
  have hq' := List.mem_filter.mp hq
  have e1 : q.1 = g.1 := by simpa using hq'.2
  show (g.1, s) ∈ syms
  rw [← e1, ← e]
  exact hq'.1

/-! ## the local pass -/

/-- a local of the result comes from the local pass (`hwf`: the module's entries are not local variables) -/
theorem local_from_local_pass {reserved : List String} {inp : Input} {scopes : List (Option Nat × St)} {ls : List String}
    (hs : runScopes reserved inp (scopeIds inp) = .ok scopes)
    (hwf : ∀ e, e ∈ inp.entries → e.sym.kind ≠ .localVar) {l : Named}
    (hl' : l ∈ (scopes.flatMap fun p => p.2.out.map fun q => (⟨q.1, p.1, q.2⟩ : Named)) ++ numberLocals ls 0)
    (hkl : l.sym.kind = .localVar) : l ∈ numberLocals ls 0 := by
  rcases List.mem_append.mp hl' with h1 | h1
  · exfalso
    obtain ⟨p, hp, hx⟩ := List.mem_flatMap.mp h1
    obtain ⟨q, hq, rfl⟩ := List.mem_map.mp hx
    have hp1 : p.1 ∈ scopeIds inp := by
      have := (runScopes_spec _ hs).1
      rw [← this]; exact List.mem_map.mpr ⟨p, hp, rfl⟩
    obtain ⟨st, hst, hrun⟩ := runScopes_mem _ hs p.1 hp1
    have hpw : (scopes.map (·.1)).Pairwise (· ≠ ·) := (runScopes_spec _ hs).1 ▸ scopeIds_pairwise inp
    have hpe : p = (p.1, st) := eq_of_fst_eq hpw p hp (p.1, st) hst rfl
    have hq' : q ∈ st.out := by rw [hpe] at hq; exact hq
    obtain ⟨r, hr, er⟩ := scopeRun_out_syms hrun q hq'
    unfold scopeSyms at hr
    rcases List.mem_append.mp hr with h2 | h2
    · have := nsFrom_kind _ _ _ _ h2
      rw [er] at this
      simp only at hkl
      rw [this] at hkl; cases hkl
    · obtain ⟨en, hen, rfl⟩ := List.mem_map.mp h2
      have := hwf en (List.mem_filter.mp hen).1
      simp only at er hkl
      rw [← er] at hkl
      exact this hkl
  · exact h1

/-- **a local meets only kept names.**  If a local variable / parameter is printed with the same name as a
namespace-level symbol (namespace, struct, enum, enum value, global, function — of any scope), then that symbol kept its
source name.  Equivalently: no local is printed with a name the exporter generated. -/
theorem local_meets_only_kept_names {reserved : List String} {inp : Input} {names : List Named}
    (h : build reserved inp = .ok names) (hwf : ∀ e, e ∈ inp.entries → e.sym.kind ≠ .localVar) :
    ∀ l ∈ names, ∀ g ∈ names, l.sym.kind = .localVar → g.sym.kind ≠ .localVar → l.name = g.name →
      (g.name, g.sym) ∈ scopeSyms inp g.scope := by
  obtain ⟨scopes, ls, hs, hl, rfl⟩ := build_ok h
  intro l hl' g hg hkl hkg e
  have hll : l ∈ numberLocals ls 0 := local_from_local_pass hs hwf hl' hkl
  have hg' : g ∈ scopes.flatMap fun p => p.2.out.map fun q => (⟨q.1, p.1, q.2⟩ : Named) := by
    rcases List.mem_append.mp hg with h1 | h1
    · exact h1
    · exact absurd (number_kind ls 0 g h1).1 hkg
  obtain ⟨p, hp, hx⟩ := List.mem_flatMap.mp hg'
  obtain ⟨q, hq, rfl⟩ := List.mem_map.mp hx
  have hp1 : p.1 ∈ scopeIds inp := by
    have := (runScopes_spec _ hs).1
    rw [← this]; exact List.mem_map.mpr ⟨p, hp, rfl⟩
  obtain ⟨st, hst, hrun⟩ := runScopes_mem _ hs p.1 hp1
  have hpw : (scopes.map (·.1)).Pairwise (· ≠ ·) := (runScopes_spec _ hs).1 ▸ scopeIds_pairwise inp
  have hpe : p = (p.1, st) := eq_of_fst_eq hpw p hp (p.1, st) hst rfl
  have hq' : q ∈ st.out := by rw [hpe] at hq; exact hq
  rcases scopeRun_src_or_gen hrun q hq' with hgen | hsrc
  · -- a generated candidate is in the set the local pass starts from: a local never gets it
    exfalso
    have hnot := assignLocals_not_mem _ hl l.name (number_kind ls 0 l hll).2
    apply hnot
    rw [e]
    refine List.mem_append_left _ (List.mem_append_right _ ?_)
    refine List.mem_flatMap.mpr ⟨p, hp, ?_⟩
    rw [hpe]; exact hgen
  · exact hsrc

/-- **generated names are apart from locals**: a namespace-level symbol that did not keep its source name (every source
name it has in its scope differs from the printed one) shares its printed name with no local variable / parameter. -/
theorem generated_names_apart_from_locals {reserved : List String} {inp : Input} {names : List Named}
    (h : build reserved inp = .ok names) (hwf : ∀ e, e ∈ inp.entries → e.sym.kind ≠ .localVar) :
    ∀ l ∈ names, ∀ g ∈ names, l.sym.kind = .localVar → g.sym.kind ≠ .localVar →
      (∀ src, (src, g.sym) ∈ scopeSyms inp g.scope → src ≠ g.name) → l.name ≠ g.name := by
  intro l hl g hg hkl hkg hren e
  exact hren g.name (local_meets_only_kept_names h hwf l hl g hg hkl hkg e) rfl

/-! ## the discipline of seeded mutant C04-5 (**not** the code; only for the witness)

`used_names_all_scopes` is created after the per-scope loop: the local pass starts from the reserved names and the names of
the used functions / globals only — the candidates generated by the scopes are not in it. -/

def finishLate (reserved : List String) (inp : Input) (scopes : List (Option Nat × St)) : Except String (List Named) :=
  let globalsOut : List Named :=
    scopes.flatMap fun p => p.2.out.map fun q => ⟨q.1, p.1, q.2⟩
  if hasDup (globalsOut.map (·.sym)) then .error "panic:duplicate name for" else
  match assignLocals inp.locals (reserved ++ usedNames inp globalsOut) inp.locals with
  | .error e => .error e
  | .ok ls => .ok (globalsOut ++ numberLocals ls 0)

def buildLate (reserved : List String) (inp : Input) : Except String (List Named) :=
  match checkScopes inp with
  | .error e => .error e
  | .ok () =>
    match runScopes reserved inp (scopeIds inp) with
    | .error e => .error e
    | .ok scopes => finishLate reserved inp scopes

/-- `struct texture {..}; enum pass {V}; int f(int texture_0) { int pass_0; texture t; pass y; }` and, as control, a
function `technique` that `f` calls next to a parameter `technique_0` -/
def witnessGenerated : Input :=
  { nss := [], locals := ["texture_0", "pass_0", "technique_0"], used := [⟨.func, 0⟩]
    entries := [⟨⟨.struct, 0⟩, none, "texture"⟩, ⟨⟨.enum, 0⟩, none, "pass"⟩, ⟨⟨.enumValue, 0⟩, none, "V"⟩,
                ⟨⟨.func, 0⟩, none, "technique"⟩, ⟨⟨.func, 1⟩, none, "f"⟩] }

/-- the code: the three locals step aside (`texture_0_0`, `pass_0_0`, `technique_0_0`); the mutant's discipline: the
function is still avoided (it is *used*), the struct and the enum are not — the locals keep `texture_0` / `pass_0`, the
names generated for the types -/
theorem late_set_loses_generated_type_names :
    (build Gen.Reserved.hlsl witnessGenerated).toOption.map (·.map (fun n => (n.sym.kind, n.name))) =
      some [(.enumValue, "V"), (.func, "f"), (.enum, "pass_0"), (.func, "technique_0"), (.struct, "texture_0"),
            (.localVar, "texture_0_0"), (.localVar, "pass_0_0"), (.localVar, "technique_0_0")] ∧
    (buildLate Gen.Reserved.hlsl witnessGenerated).toOption.map (·.map (fun n => (n.sym.kind, n.name))) =
      some [(.enumValue, "V"), (.func, "f"), (.enum, "pass_0"), (.func, "technique_0"), (.struct, "texture_0"),
            (.localVar, "texture_0"), (.localVar, "pass_0"), (.localVar, "technique_0_0")] := by
  decide +kernel

end RsslVerif.Lemmas.FixpointGenNames

//! Exhaustive small shapes: every ordered pair of integer/bool binary operators in both nestings, unary-in-binary,
//! binary-in-ternary (all three positions), ternary-in-binary, assignment-in-ternary / -in-binary, comma-in-binary.
//! Written fully parenthesised, so the IR tree is exactly the nesting; whether the *emitted* text still means the
//! same (the printer decides parentheses from its precedence tables) is what the text oracle then checks.

pub const BIN: [&str; 18] = ["+", "-", "*", "/", "%", "<<", ">>", "&", "|", "^", "<", "<=", ">", ">=", "==", "!=", "&&", "||"];
pub const UN: [&str; 4] = ["-", "+", "~", "!"];
pub const ASSIGN: [&str; 11] = ["=", "+=", "-=", "*=", "/=", "%=", "<<=", ">>=", "&=", "|=", "^="];

/// argument grid (a, b, c): small, negative, zero, equal and distinct values, so that the two nestings of (almost)
/// every operator pair differ on some vector
pub const GRID: [(i32, i32, i32); 14] = [
    (1, 0, 1),
    (0, 1, 0),
    (1, 1, 0),
    (5, 3, 2),
    (-7, 2, 3),
    (2, -3, 1),
    (6, 5, 4),
    (-1, -1, -1),
    (0, 0, 0),
    (3, 1, 2),
    (1, 2, 3),
    (12, 10, 1),
    (2, 7, 1),
    (-8, 3, 0),
];

pub fn grid_text() -> String {
    GRID.iter()
        .map(|(a, b, c)| format!("i:{:08x},i:{:08x},i:{:08x}", *a as u32, *b as u32, *c as u32))
        .collect::<Vec<_>>()
        .join(";")
}

fn func(expr: &str) -> String {
    format!("int f1(int a, int b, int c)\n{{\n    return (int)({});\n}}\n", expr)
}

/// with a local that assignments inside the expression write to; its final value is part of the result
fn func_x(expr: &str) -> String {
    format!("int f1(int a, int b, int c)\n{{\n    int x = a;\n    int r = (int)({});\n    return r + x * 1000;\n}}\n", expr)
}

/// (shape name, source)
pub fn stream() -> Vec<(String, String)> {
    let mut out = Vec::new();
    for o1 in BIN {
        for o2 in BIN {
            out.push(("bin-in-bin-left".to_string(), func(&format!("((a {} b) {} c)", o1, o2))));
            out.push(("bin-in-bin-right".to_string(), func(&format!("(a {} (b {} c))", o1, o2))));
        }
    }
    for u in UN {
        for o in BIN {
            out.push(("un-in-bin-left".to_string(), func(&format!("(({}a) {} b)", u, o))));
            out.push(("un-in-bin-right".to_string(), func(&format!("(a {} ({}b))", o, u))));
            out.push(("bin-in-un".to_string(), func(&format!("({}(a {} b))", u, o))));
        }
        for u2 in UN {
            out.push(("un-in-un".to_string(), func(&format!("({}({}a))", u, u2))));
        }
    }
    for o in BIN {
        out.push(("bin-in-tern-cond".to_string(), func(&format!("((a {} b) ? b : c)", o))));
        out.push(("bin-in-tern-then".to_string(), func(&format!("(a ? (b {} c) : c)", o))));
        out.push(("bin-in-tern-else".to_string(), func(&format!("(a ? b : (b {} c))", o))));
        out.push(("tern-in-bin-left".to_string(), func(&format!("((a ? b : c) {} a)", o))));
        out.push(("tern-in-bin-right".to_string(), func(&format!("(a {} (b ? c : a))", o))));
        out.push(("comma-in-bin-left".to_string(), func(&format!("((a, b) {} c)", o))));
        out.push(("comma-in-bin-right".to_string(), func(&format!("(a {} (b, c))", o))));
        out.push(("bin-in-comma".to_string(), func(&format!("((a {} b), c)", o))));
    }
    out.push(("tern-in-tern".to_string(), func("((a ? b : c) ? c : a)")));
    out.push(("tern-in-tern".to_string(), func("(a ? (b ? c : a) : b)")));
    out.push(("tern-in-tern".to_string(), func("(a ? b : (c ? a : b))")));
    out.push(("comma-in-tern".to_string(), func("(a ? (b, c) : c)")));
    out.push(("comma-in-tern".to_string(), func("((a, b) ? b : c)")));
    out.push(("comma-in-tern".to_string(), func("(a ? b : (b, c))")));
    for asg in ASSIGN {
        out.push(("assign-in-tern-cond".to_string(), func_x(&format!("((x {} b) ? b : c)", asg))));
        out.push(("assign-in-tern-then".to_string(), func_x(&format!("(a ? (x {} b) : c)", asg))));
        out.push(("assign-in-tern-else".to_string(), func_x(&format!("(a ? b : (x {} c))", asg))));
        out.push(("assign-in-assign".to_string(), func_x(&format!("(x {} (a = c))", asg))));
        out.push(("assign-in-comma".to_string(), func_x(&format!("((x {} b), c)", asg))));
        out.push(("tern-in-assign".to_string(), func_x(&format!("(x {} (a ? b : c))", asg))));
        for o in ["+", "^", "<", "&&", "|", "<<"] {
            out.push(("assign-in-bin-left".to_string(), func_x(&format!("((x {} b) {} c)", asg, o))));
            out.push(("assign-in-bin-right".to_string(), func_x(&format!("(a {} (x {} c))", o, asg))));
            out.push(("bin-in-assign".to_string(), func_x(&format!("(x {} (b {} c))", asg, o))));
        }
    }
    out
}

import RsslVerif.Model.Names
import RsslVerif.Lemmas.Names
/-!
Order independence of the model of `NameMap::build`: the sorted key vector is canonical (depends only on the
*set* of keys), the local pass depends on `used_names_all_scopes` only through membership, and the final
collection is a permutation when the scope list is permuted.
-/
namespace RsslVerif.Lemmas.NamesOrder
open RsslVerif.Model.Names RsslVerif.Lemmas.Names

/-! ## the sorted key vector is canonical -/

theorem insertSorted_pairwise {n : String} :
    ∀ {l : List String}, l.Pairwise (· < ·) → n ∉ l → (insertSorted n l).Pairwise (· < ·) := by
  intro l
  induction l with
  | nil => intro _ _; simp [insertSorted]
  | cons m r ih =>
    intro hp hn
    unfold insertSorted
    rw [List.pairwise_cons] at hp
    split
    · rename_i hlt
      rw [List.pairwise_cons]
      refine ⟨?_, List.pairwise_cons.mpr hp⟩
      intro x hx
      rcases List.mem_cons.mp hx with e | hx'
      · rw [e]; exact hlt
      · exact String.lt_trans hlt (hp.1 x hx')
    · rename_i hnlt
      have hne : n ≠ m := fun e => hn (e ▸ List.mem_cons_self ..)
      have hmn : m < n := by
        have hle : m ≤ n := String.not_lt.mp hnlt
        apply Decidable.byContradiction
        intro hc
        exact hne (String.le_antisymm (String.not_lt.mp hc) hle)
      rw [List.pairwise_cons]
      refine ⟨?_, ih hp.2 (fun h => hn (List.mem_cons_of_mem _ h))⟩
      intro x hx
      rcases mem_insertSorted.mp hx with e | hx'
      · rw [e]; exact hmn
      · exact hp.1 x hx'

theorem sortedNames_pairwise : ∀ (xs : List String), (sortedNames xs).Pairwise (· < ·) := by
  intro xs
  induction xs with
  | nil => simp [sortedNames]
  | cons a r ih =>
    have hunf : sortedNames (a :: r) =
        if (sortedNames r).contains a then sortedNames r else insertSorted a (sortedNames r) := rfl
    rw [hunf]
    split
    · exact ih
    · rename_i hc
      exact insertSorted_pairwise ih (by simpa using hc)

/-- two strictly sorted lists with the same members are equal -/
theorem sorted_ext : ∀ {a b : List String}, a.Pairwise (· < ·) → b.Pairwise (· < ·) →
    (∀ x, x ∈ a ↔ x ∈ b) → a = b := by
  intro a
  induction a with
  | nil =>
    intro b _ _ h
    cases b with
    | nil => rfl
    | cons y _ => exact absurd ((h y).mpr (List.mem_cons_self ..)) (by simp)
  | cons x r ih =>
    intro b ha hb h
    cases b with
    | nil => exact absurd ((h x).mp (List.mem_cons_self ..)) (by simp)
    | cons y s =>
      rw [List.pairwise_cons] at ha hb
      have hxy : x = y := by
        have hx : x ∈ y :: s := (h x).mp (List.mem_cons_self ..)
        have hy : y ∈ x :: r := (h y).mpr (List.mem_cons_self ..)
        rcases List.mem_cons.mp hx with e | hx'
        · exact e
        · rcases List.mem_cons.mp hy with e | hy'
          · exact e.symm
          · exact absurd (ha.1 y hy') (String.lt_asymm (hb.1 x hx'))
      subst hxy
      congr 1
      apply ih ha.2 hb.2
      intro z
      constructor
      · intro hz
        rcases List.mem_cons.mp ((h z).mp (List.mem_cons_of_mem _ hz)) with e | hz'
        · exact absurd (e ▸ ha.1 z hz) (String.lt_irrefl _)
        · exact hz'
      · intro hz
        rcases List.mem_cons.mp ((h z).mpr (List.mem_cons_of_mem _ hz)) with e | hz'
        · exact absurd (e ▸ hb.1 z hz) (String.lt_irrefl _)
        · exact hz'

/-- the key vector after the sort does not depend on the iteration order (or multiplicity) of the keys -/
theorem sortedNames_congr {xs ys : List String} (h : ∀ x, x ∈ xs ↔ x ∈ ys) : sortedNames xs = sortedNames ys :=
  sorted_ext (sortedNames_pairwise xs) (sortedNames_pairwise ys)
    (fun x => by rw [mem_sortedNames, mem_sortedNames]; exact h x)

theorem groupsOfKeys_congr {keys : List String} {syms : List (String × Sym)}
    (h : ∀ x, x ∈ keys ↔ x ∈ syms.map (·.1)) : groupsOfKeys keys syms = groupsOf syms := by
  unfold groupsOf groupsOfKeys
  rw [sortedNames_congr h]

/-! ## the scope loop as a map -/

/-- the state a scope ends in (junk when the scope fails, which `build = .ok _` excludes) -/
def stOf (reserved : List String) (inp : Input) (s : Option Nat) : St :=
  match scopeRun reserved (groupsOf (scopeSyms inp s)) with
  | .ok st => st
  | .error _ => default

theorem runScopes_eq_map {reserved : List String} {inp : Input} :
    ∀ (ss : List (Option Nat)) {out : List (Option Nat × St)}, runScopes reserved inp ss = .ok out →
      out = ss.map (fun s => (s, stOf reserved inp s)) ∧
      ∀ s, s ∈ ss → ∃ st, scopeRun reserved (groupsOf (scopeSyms inp s)) = .ok st := by
  intro ss
  induction ss with
  | nil => intro out h; simp [runScopes] at h; subst h; simp
  | cons a r ih =>
    intro out h
    unfold runScopes at h
    split at h
    · cases h
    · rename_i st hst
      split at h
      · cases h
      · rename_i rest hrest
        cases h
        obtain ⟨h1, h2⟩ := ih hrest
        refine ⟨?_, ?_⟩
        · have hsa : stOf reserved inp a = st := by simp [stOf, hst]
          rw [List.map_cons, hsa, h1]
        · intro s hs
          rcases List.mem_cons.mp hs with e | hs'
          · subst e; exact ⟨st, hst⟩
          · exact h2 s hs'

theorem runScopesWith_eq_map {reserved : List String} {inp : Input} {keys : Option Nat → List String}
    (hkeys : ∀ s x, x ∈ keys s ↔ x ∈ (scopeSyms inp s).map (·.1)) :
    ∀ (ss : List (Option Nat)),
      (∀ s, s ∈ ss → ∃ st, scopeRun reserved (groupsOf (scopeSyms inp s)) = .ok st) →
      runScopesWith reserved inp keys ss = .ok (ss.map (fun s => (s, stOf reserved inp s))) := by
  intro ss
  induction ss with
  | nil => intro _; simp [runScopesWith]
  | cons a r ih =>
    intro hok
    obtain ⟨st, hst⟩ := hok a (List.mem_cons_self ..)
    unfold runScopesWith
    rw [groupsOfKeys_congr (hkeys a), hst]
    simp only
    rw [ih (fun s hs => hok s (List.mem_cons_of_mem _ hs))]
    simp [stOf, hst]

/-! ## the local pass depends on `used_names_all_scopes` only as a set -/

theorem firstFreeLocal_perm {al ua ua' : List String} (h : ua.Perm ua') (n : String) :
    ∀ (fuel k : Nat), firstFreeLocal al ua n fuel k = firstFreeLocal al ua' n fuel k := by
  intro fuel
  induction fuel with
  | zero => intro k; simp [firstFreeLocal]
  | succ f ih =>
    intro k
    unfold firstFreeLocal
    rw [h.contains_eq, ih (k + 1)]

theorem assignLocals_perm {al : List String} :
    ∀ (ls : List String) {ua ua' : List String}, ua.Perm ua' → assignLocals al ua ls = assignLocals al ua' ls := by
  intro ls
  induction ls with
  | nil => intro ua ua' _; simp [assignLocals]
  | cons n r ih =>
    intro ua ua' h
    unfold assignLocals
    rw [h.contains_eq, firstFreeLocal_perm h, h.length_eq]
    split
    · split
      · rfl
      · rename_i c _
        rw [ih (h.cons c)]
    · rw [ih h]

/-! ## the duplicate check and the collection -/

theorem hasDup_eq_false_iff : ∀ {l : List Sym}, hasDup l = false ↔ l.Nodup := by
  intro l
  induction l with
  | nil => simp [hasDup]
  | cons a r ih =>
    simp only [hasDup, Bool.or_eq_false_iff, List.nodup_cons, ih]
    constructor
    · rintro ⟨h1, h2⟩; exact ⟨by simpa using h1, h2⟩
    · rintro ⟨h1, h2⟩; exact ⟨by simpa using h1, h2⟩

theorem hasDup_perm {l l' : List Sym} (h : l.Perm l') : hasDup l = hasDup l' := by
  cases h1 : hasDup l <;> cases h2 : hasDup l' <;> try rfl
  · have := h.nodup_iff.mp (hasDup_eq_false_iff.mp h1)
    rw [← hasDup_eq_false_iff, h2] at this; cases this
  · have := h.nodup_iff.mpr (hasDup_eq_false_iff.mp h2)
    rw [← hasDup_eq_false_iff, h1] at this; cases this

theorem usedNames_perm (inp : Input) {l l' : List Named} (h : l.Perm l') :
    (usedNames inp l).Perm (usedNames inp l') := by
  unfold usedNames
  exact h.filterMap _

/-- permuting the list of finished scopes permutes the result (and changes nothing else) -/
theorem finish_perm {reserved : List String} {inp : Input} {sc sc' : List (Option Nat × St)} (h : sc.Perm sc')
    {names : List Named} (hf : finish reserved inp sc = .ok names) :
    ∃ names', finish reserved inp sc' = .ok names' ∧ names'.Perm names := by
  unfold finish at hf ⊢
  simp only at hf ⊢
  have hg := h.flatMap_right (fun p : Option Nat × St => p.2.out.map fun q => (⟨q.1, p.1, q.2⟩ : Named))
  have hgen := h.flatMap_right (fun p : Option Nat × St => p.2.gen)
  have hua := List.Perm.append (List.Perm.append (List.Perm.refl reserved) hgen) (usedNames_perm inp hg)
  rw [← hasDup_perm (hg.map (·.sym))]
  split at hf
  · cases hf
  · rename_i hd
    rw [if_neg hd]
    rw [← assignLocals_perm inp.locals hua]
    split at hf
    · cases hf
    · rename_i ls hl
      cases hf
      exact ⟨_, rfl, (hg.symm).append_right _⟩

theorem runScopesWith_ok {reserved : List String} {inp : Input} {keys : Option Nat → List String}
    (hkeys : ∀ s x, x ∈ keys s ↔ x ∈ (scopeSyms inp s).map (·.1)) :
    ∀ (ss : List (Option Nat)) {out : List (Option Nat × St)}, runScopesWith reserved inp keys ss = .ok out →
      ∀ s, s ∈ ss → ∃ st, scopeRun reserved (groupsOf (scopeSyms inp s)) = .ok st := by
  intro ss
  induction ss with
  | nil => intro out _ s hs; simp at hs
  | cons a r ih =>
    intro out h s hs
    unfold runScopesWith at h
    rw [groupsOfKeys_congr (hkeys a)] at h
    split at h
    · cases h
    · rename_i st hst
      split at h
      · cases h
      · rename_i rest hrest
        rcases List.mem_cons.mp hs with e | hs'
        · subst e; exact ⟨st, hst⟩
        · exact ih hrest s hs'

/-- the model's `build` is the instance "scopes by id, keys in push order" -/
theorem runScopes_eq_with (reserved : List String) (inp : Input) :
    ∀ (ss : List (Option Nat)),
      runScopes reserved inp ss = runScopesWith reserved inp (fun s => (scopeSyms inp s).map (·.1)) ss := by
  intro ss
  induction ss with
  | nil => simp [runScopes, runScopesWith]
  | cons a r ih =>
    unfold runScopes runScopesWith
    rw [ih]
    rfl

theorem build_eq_buildWith (reserved : List String) (inp : Input) :
    build reserved inp = buildWith reserved inp (scopeIds inp) (fun s => (scopeSyms inp s).map (·.1)) := by
  unfold build buildWith
  rw [runScopes_eq_with]

/-- general form: any two iteration orders (of the scope map and of the per-scope key maps) give the same
assignment up to the order in which the result is listed -/
theorem buildWith_perm {reserved : List String} {inp : Input}
    {o1 o2 : List (Option Nat)} {k1 k2 : Option Nat → List String} (ho : o1.Perm o2)
    (hk1 : ∀ s x, x ∈ k1 s ↔ x ∈ (scopeSyms inp s).map (·.1))
    (hk2 : ∀ s x, x ∈ k2 s ↔ x ∈ (scopeSyms inp s).map (·.1))
    {names : List Named} (h : buildWith reserved inp o1 k1 = .ok names) :
    ∃ names', buildWith reserved inp o2 k2 = .ok names' ∧ names'.Perm names := by
  unfold buildWith at h ⊢
  split at h
  · cases h
  · split at h
    · cases h
    · rename_i sc hsc
      have hok := runScopesWith_ok hk1 o1 hsc
      have hsc1 := runScopesWith_eq_map (reserved := reserved) hk1 o1 hok
      rw [hsc] at hsc1
      cases hsc1
      have hok2 : ∀ s, s ∈ o2 → ∃ st, scopeRun reserved (groupsOf (scopeSyms inp s)) = .ok st :=
        fun s hs => hok s (ho.mem_iff.mpr hs)
      rw [runScopesWith_eq_map (reserved := reserved) hk2 o2 hok2]
      simp only
      exact finish_perm (ho.map _) h

end RsslVerif.Lemmas.NamesOrder

import RsslVerif.Lemmas.GenMslVecMain
/-! Vector layer of C02: statement-level assignment / compound assignment to a vector variable or a swizzle of one. -/
namespace RsslVerif.Lemmas.GenMslVec
open RsslVerif.Gen.HlslGenTables RsslVerif.Gen.HlslVecTables RsslVerif.Gen.MslGenTables RsslVerif.Gen.MslVecTables
open RsslVerif.Model RsslVerif.Model.IrVec RsslVerif.Model.GenMsl RsslVerif.Model.GenMslVec
open RsslVerif.Spec.Sem RsslVerif.Spec.SemVec RsslVerif.Spec.SemMslVec RsslVerif.Lemmas.GenMsl
open RsslVerif.Model.Ir (Ty Var Const Dir)

set_option linter.unusedSimpArgs false

variable {W : World} {M : Msl.MWorld} {env : VAst.VEnv} {cx : Ctx} {vvty : Var → VTy} {vis : Var → Bool} {rsv : Nat → List Var}

abbrev placeOKM := VOk.placeOKM

/-- the emitted assignment target denotes the variable and components of the IR's place -/
theorem lval_genMV (hag : VAgreeM cx vis env vvty) {lhs : VExpr} {lhs' : VAExpr} {x : Var} {sl : Option (List SwizzleSlot)}
    (hp : VIr.placeOf lhs = some (x, sl)) (hpl : placeOKM vis vvty lhs = true) (hg : genMV cx vvty lhs = .ok lhs') :
    VAst.lvalOfV env lhs' = some (x, sl.map (·.map slotIdx)) ∧ VMsl.nodupIdx (sl.map (·.map slotIdx)) = true := by
  cases lhs with
  | vvar id =>
    simp [VIr.placeOf] at hp; obtain ⟨rfl, rfl⟩ := hp
    simp [genMV] at hg; subst hg
    have hr := hag.vres (.loc id) (by simpa [placeOKM, VOk.placeOKM] using hpl); simp only [Ctx.name] at hr
    simp [VAst.lvalOfV, hr, VMsl.nodupIdx]
  | vglobal id =>
    simp [VIr.placeOf] at hp; obtain ⟨rfl, rfl⟩ := hp
    simp [genMV] at hg; subst hg
    have hr := hag.vres (.glob id) (by simpa [placeOKM, VOk.placeOKM] using hpl); simp only [Ctx.name] at hr
    simp [VAst.lvalOfV, hr, VMsl.nodupIdx]
  | swz e l =>
    cases e with
    | vvar id =>
      simp [VIr.placeOf] at hp; obtain ⟨rfl, rfl⟩ := hp
      simp only [placeOKM, VOk.placeOKM, Bool.and_eq_true, decide_eq_true_eq] at hpl
      obtain ⟨⟨hv, hvec⟩, hnd⟩ := hpl
      have hr := hag.vres (.loc id) hv; simp only [Ctx.name] at hr
      cases hvt : vvty (.loc id) with
      | sc k => simp [hvt] at hvec
      | vec k n =>
        simp [genMV, getTy, hvt] at hg; subst hg
        simp [VAst.lvalOfV, hr, parse_mslSwizzleName, VMsl.nodupIdx, hnd]
    | vglobal id =>
      simp [VIr.placeOf] at hp; obtain ⟨rfl, rfl⟩ := hp
      simp only [placeOKM, VOk.placeOKM, Bool.and_eq_true, decide_eq_true_eq] at hpl
      obtain ⟨⟨hv, hvec⟩, hnd⟩ := hpl
      have hr := hag.vres (.glob id) hv; simp only [Ctx.name] at hr
      cases hvt : vvty (.glob id) with
      | sc k => simp [hvt] at hvec
      | vec k n =>
        simp [genMV, getTy, hvt] at hg; subst hg
        simp [VAst.lvalOfV, hr, parse_mslSwizzleName, VMsl.nodupIdx, hnd]
    | _ => simp [VIr.placeOf] at hp
  | _ => simp [VIr.placeOf] at hp

theorem convOK_self (t : VTy) : VMsl.convOK t t = true := by cases t <;> simp [VMsl.convOK]

/-- the value of the place before the assignment has the shape of the place's type -/
theorem readPlace_shaped {W : World} {vty : Var → Ty} {ρ : VStore} (hρ : ∀ y, VOk.shaped (vvty y) (ρ y) = true)
    {lhs : VExpr} {x : Var} {sl : Option (List SwizzleSlot)} {tl : VTy} {cur : VVal}
    (hp : VIr.placeOf lhs = some (x, sl)) (htl : VIr.typeOf W.sig vty vvty lhs = some tl)
    (hr : readPlace (ρ x) (sl.map (·.map slotIdx)) = some cur) : VOk.shaped tl cur = true := by
  -- reading the place is evaluating the place expression
  have hev : ∀ σ, VIr.eval W ρ lhs σ = some (cur, σ) := by
    intro σ
    cases lhs with
    | vvar id => simp [VIr.placeOf] at hp; obtain ⟨rfl, rfl⟩ := hp; simp [readPlace] at hr; simp [VIr.eval, hr]
    | vglobal id => simp [VIr.placeOf] at hp; obtain ⟨rfl, rfl⟩ := hp; simp [readPlace] at hr; simp [VIr.eval, hr]
    | swz e l =>
      cases e with
      | vvar id => simp [VIr.placeOf] at hp; obtain ⟨rfl, rfl⟩ := hp; simp [readPlace] at hr; simp [VIr.eval, hr]
      | vglobal id => simp [VIr.placeOf] at hp; obtain ⟨rfl, rfl⟩ := hp; simp [readPlace] at hr; simp [VIr.eval, hr]
      | _ => simp [VIr.placeOf] at hp
    | _ => simp [VIr.placeOf] at hp
  exact shape_sound hρ lhs tl (fun _ => .void) _ cur htl (hev _)

/-- statement-level assignment / compound assignment to a vector variable or a swizzle of one -/
theorem sim_massign (hag : VAgreeM cx vis env vvty) (hw : Worlds cx rsv W M) {o : IntrinsicOp} {b : BinOp} {lhs rhs : VExpr}
    {lhs' rhs' : VAExpr} {T : VTy}
    (hbs : astBinSem b = irOpSem o) (hgl : genMV cx vvty lhs = .ok lhs') (hgr : genMV cx vvty rhs = .ok rhs')
    (hok : VIr.assignOK W.sig cx.vty vvty lhs rhs = some T) (hpl : placeOKM vis vvty lhs = true)
    (hol : VOk.okMV (side cx W vis rsv) vvty lhs = true) (hor : VOk.okMV (side cx W vis rsv) vvty rhs = true)
    (hsem : irOpSem o = .assign ∨ ∃ m, irOpSem o = .compound m ∧ binSide m T ∧ (m = .mod → T.scalar ≠ .float)) :
    ∀ ρ, (∀ y, VOk.shaped (vvty y) (ρ y) = true) → ∀ σ,
      VMsl.evalTop M env ρ (.bin b lhs' rhs') σ = VIr.evalTop W ρ (.op o (.cons lhs (.cons rhs .nil))) σ := by
  intro ρ hρ σ
  cases hp : VIr.placeOf lhs with
  | none => simp [VIr.assignOK, hp] at hok
  | some pl =>
    obtain ⟨x, sl⟩ := pl
    cases htl : VIr.typeOf W.sig cx.vty vvty lhs with
    | none => simp [VIr.assignOK, hp, htl] at hok
    | some tl =>
      cases htr : VIr.typeOf W.sig cx.vty vvty rhs with
      | none => simp [VIr.assignOK, hp, htl, htr] at hok
      | some tr =>
        simp [VIr.assignOK, hp, htl, htr] at hok
        obtain ⟨rfl, rfl⟩ := hok
        obtain ⟨hlv, hnd⟩ := lval_genMV hag hp hpl hgl
        have hL := sim_mv (ρ := ρ) hag hw hρ lhs lhs' tl hgl htl hol
        have hR := sim_mv (ρ := ρ) hag hw hρ rhs rhs' tl hgr htr hor
        rcases hsem with ha | ⟨m, hc, hside, hrem⟩
        · simp only [VMsl.evalTop, hbs, ha, hlv, hL.1, hR.1, convOK_self, hnd, Bool.and_self, if_true, convMVR_self, hR.2 σ,
            VIr.evalTop, hp]
          cases VIr.eval W ρ rhs σ with
          | none => rfl
          | some r =>
            obtain ⟨v, σ1⟩ := r
            simp only []
            cases writePlace (ρ x) (Option.map (List.map slotIdx) sl) v <;> rfl
        · have hro : VMsl.remOK m tl tl = true := by
            by_cases hmm : m = .mod
            · subst hmm; simp [VMsl.remOK, hrem rfl]
            · cases m <;> simp at hmm <;> simp [VMsl.remOK]
          simp only [VMsl.evalTop, hbs, hc, hlv, hL.1, hR.1, hro, if_true, binTy_self hside, convOK_self, hnd, Bool.and_self,
            operand_tys hside, VMsl.operandR, VMsl.operand, convMVR_self, hR.2 σ, VIr.evalTop, hp]
          cases hv : VIr.eval W ρ rhs σ with
          | none => rfl
          | some r =>
            obtain ⟨v, σ1⟩ := r
            simp only []
            cases hrp : readPlace (ρ x) (Option.map (List.map slotIdx) sl) with
            | none => rfl
            | some cur =>
              have sc := readPlace_shaped (W := W) (vty := cx.vty) hρ hp htl hrp
              have sv := shape_sound hρ rhs tl σ σ1 v htr hv
              simp only [VMsl.convMV, if_true, binAt_self hside sc sv hrem, hw.prim]
              cases lift2 (binop W.P m) cur v with
              | none => rfl
              | some r1 =>
                simp only []
                cases writePlace (ρ x) (Option.map (List.map slotIdx) sl) r1 <;> rfl

theorem binSide_of_B {m : MBin} {T : VTy} (h : VOk.binSideB m T = true) : binSide m T := by
  cases T with
  | vec k n => trivial
  | sc k => simpa [binSide, VOk.binSideB] using h

/-- evaluating a place expression reads the place and changes nothing -/
theorem eval_place {W : World} {ρ : VStore} {lhs : VExpr} {x : Var} {sl : Option (List SwizzleSlot)}
    (hp : VIr.placeOf lhs = some (x, sl)) (σ : Store) :
    VIr.eval W ρ lhs σ = (readPlace (ρ x) (sl.map (·.map slotIdx))).map (fun c => (c, σ)) := by
  cases lhs with
  | vvar id => simp [VIr.placeOf] at hp; obtain ⟨rfl, rfl⟩ := hp; simp [readPlace, VIr.eval]
  | vglobal id => simp [VIr.placeOf] at hp; obtain ⟨rfl, rfl⟩ := hp; simp [readPlace, VIr.eval]
  | swz e l =>
    cases e with
    | vvar id =>
      simp [VIr.placeOf] at hp; obtain ⟨rfl, rfl⟩ := hp
      simp [readPlace, VIr.eval]
      cases select (List.map slotIdx l) (ρ (.loc id)) <;> rfl
    | vglobal id =>
      simp [VIr.placeOf] at hp; obtain ⟨rfl, rfl⟩ := hp
      simp [readPlace, VIr.eval]
      cases select (List.map slotIdx l) (ρ (.glob id)) <;> rfl
    | _ => simp [VIr.placeOf] at hp
  | _ => simp [VIr.placeOf] at hp

/-- statement-level `%=` on a floating-point vector place, as emitted since fixes 92d66eb + 35faaaa: `l = metal::fmod(l, r)` -/
theorem sim_mremassign (hag : VAgreeM cx vis env vvty) (hw : Worlds cx rsv W M) {o : IntrinsicOp} {lhs rhs : VExpr}
    {lhs' rhs' : VAExpr} {T : VTy}
    (hc : irOpSem o = .compound .mod) (hgl : genMV cx vvty lhs = .ok lhs') (hgr : genMV cx vvty rhs = .ok rhs')
    (hok : VIr.assignOK W.sig cx.vty vvty lhs rhs = some T) (hpl : placeOKM vis vvty lhs = true)
    (hol : VOk.okMV (side cx W vis rsv) vvty lhs = true) (hor : VOk.okMV (side cx W vis rsv) vvty rhs = true)
    (hfl : T.scalar = .float) :
    ∀ ρ, (∀ y, VOk.shaped (vvty y) (ρ y) = true) → ∀ σ,
      VMsl.evalTop M env ρ (.bin .Assignment lhs' (.call Msl.fmodName (.cons lhs' (.cons rhs' .nil)))) σ =
        VIr.evalTop W ρ (.op o (.cons lhs (.cons rhs .nil))) σ := by
  intro ρ hρ σ
  have hbs : astBinSem .Assignment = .assign := rfl
  cases hp : VIr.placeOf lhs with
  | none => simp [VIr.assignOK, hp] at hok
  | some pl =>
    obtain ⟨x, sl⟩ := pl
    cases htl : VIr.typeOf W.sig cx.vty vvty lhs with
    | none => simp [VIr.assignOK, hp, htl] at hok
    | some tl =>
      cases htr : VIr.typeOf W.sig cx.vty vvty rhs with
      | none => simp [VIr.assignOK, hp, htl, htr] at hok
      | some tr =>
        simp [VIr.assignOK, hp, htl, htr] at hok
        obtain ⟨rfl, rfl⟩ := hok
        obtain ⟨hlv, hnd⟩ := lval_genMV hag hp hpl hgl
        have hL := sim_mv (ρ := ρ) hag hw hρ lhs lhs' tl hgl htl hol
        have hR := sim_mv (ρ := ρ) hag hw hρ rhs rhs' tl hgr htr hor
        have hside : binSide .mod tl := by
          cases tl with
          | vec k n => trivial
          | sc k => simp [VTy.scalar] at hfl; subst hfl; simp [binSide, Msl.isShift, VOk.arithK]
        have hbt := binTy_self hside
        simp only [VMsl.evalTop, hbs, hlv, hL.1, hR.1, VMsl.typeOf, VMsl.argTypes, VMsl.callTy, beq_self_eq_true, if_true, hfl, and_self,
          hbt, convOK_self, hnd, Bool.and_self, convMVR_self, VMsl.eval, VMsl.evalArgs, hL.2 σ, eval_place hp, VIr.evalTop, hc, hp]
        cases hrp : readPlace (ρ x) (Option.map (List.map slotIdx) sl) with
        | none =>
          simp only [Option.map_none]
          cases VIr.eval W ρ rhs σ with
          | none => rfl
          | some r => rfl
        | some cur =>
          simp only [Option.map_some, hR.2 σ]
          cases hv : VIr.eval W ρ rhs σ with
          | none => rfl
          | some r =>
            obtain ⟨v, σ1⟩ := r
            simp only [VMsl.callVal, beq_self_eq_true, if_true, hfl, and_self, hbt, VMsl.operand, VMsl.convMV, hw.prim]
            cases lift2 (binop W.P .mod) cur v with
            | none => rfl
            | some r1 =>
              simp only []
              cases writePlace (ρ x) (Option.map (List.map slotIdx) sl) r1 <;> rfl

/-- what the exporter emits for a top-level assignment whose two sides it exports: `l op r` through the operator table, and
for `%=` on a floating-point place (fixes 92d66eb + 35faaaa; generation succeeds only for a plain place and a right
operand free of writes) `l = metal::fmod(l, r)` -/
theorem genMV_assign_shape (hw : Worlds cx rsv W M) {o : IntrinsicOp} {lhs rhs : VExpr} {lhs' rhs' a : VAExpr} {T : VTy}
    (hgl : genMV cx vvty lhs = .ok lhs') (hgr : genMV cx vvty rhs = .ok rhs')
    (hg : genMV cx vvty (.op o (.cons lhs (.cons rhs .nil))) = .ok a)
    (htl : VIr.typeOf W.sig cx.vty vvty lhs = some T) (hbk : VOk.basicK T.scalar = true)
    (hsem : irOpSem o = .assign ∨ ∃ m, irOpSem o = .compound m) :
    (irOpSem o = .compound .mod ∧ T.scalar = .float ∧ plainPlaceV lhs = true ∧ freeOfWritesV rhs = true ∧
        a = .bin .Assignment lhs' (.call Msl.fmodName (.cons lhs' (.cons rhs' .nil)))) ∨
    (¬ (irOpSem o = .compound .mod ∧ T.scalar = .float) ∧ ∃ b, astBinSem b = irOpSem o ∧ a = .bin b lhs' rhs') := by
  have hgt := getTy_ok hw.ret lhs T htl
  cases hf : mslOpForm o with
  | special => simp [genMV, hf] at hg
  | meshMethod => simp [genMV, hf] at hg
  | meshHelper => simp [genMV, hf] at hg
  | unary u => simp [genMV, hf] at hg
  | binary b =>
    simp [genMV, hf, genMBinary, hgl, hgr] at hg
    refine .inr ⟨fun h => ?_, b, op_binaryM hf, hg.symm⟩
    cases o <;> simp [mslOpForm] at hf <;> simp [irOpSem] at h
  | floatCall name scalars b =>
    have := (op_floatCallM hf).1
    rcases hsem with h | ⟨m, h⟩ <;> rw [this] at h <;> simp at h
  | floatAssign s err outer inner b =>
    obtain ⟨hc, hbs, rfl, rfl, rfl, rfl⟩ := op_floatAssignM hf
    have hfm : mslOpForm .Modulus = .floatCall "fmod" ["Float16", "Float32", "Float64", "FloatLiteral"] .Modulus := rfl
    have has : mslOpForm .Assignment = .binary .Assignment := rfl
    by_cases hfl : T.scalar = .float
    · left
      have hin : scalarIn ["Float16", "Float32", "Float64"] T.scalar = true := by rw [hfl]; decide
      have hin4 : scalarIn ["Float16", "Float32", "Float64", "FloatLiteral"] T.scalar = true := by rw [hfl]; decide
      cases hpo : (plainPlaceV lhs && freeOfWritesV rhs) with
      | false => simp [genMV, hf, getTyHead, hgt, hin, remOperandsOKV, hpo] at hg
      | true =>
        simp [genMV, hf, getTyHead, hgt, hin, remOperandsOKV, hpo, has, genMHead, hgl, hfm, hin4, genMArgs, hgr] at hg
        rw [Bool.and_eq_true] at hpo
        refine ⟨hc, hfl, hpo.1, hpo.2, ?_⟩
        rw [← hg]
        have : metalLib "fmod" = Msl.fmodName := by decide
        rw [this]
    · right
      have hin : scalarIn ["Float16", "Float32", "Float64"] T.scalar = false := by
        cases hk : T.scalar <;> simp [hk, VOk.basicK] at hbk hfl <;> decide
      simp [genMV, hf, getTyHead, hgt, hin, genMBinary, hgl, hgr] at hg
      exact ⟨fun h => hfl h.2, _, hbs.trans hc.symm, hg.symm⟩

end RsslVerif.Lemmas.GenMslVec

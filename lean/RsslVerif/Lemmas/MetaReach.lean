import RsslVerif.Spec.Meta
/-! The fixed point computed by `recurse` is reachability in the use graph. -/
namespace RsslVerif.Lemmas.MetaReach
open RsslVerif.Model.MetaReach RsslVerif.Spec.Meta

/-- everything stored is reachable -/
def Sound (direct req : Sym → List Sym) : Prop := ∀ k s, s ∈ req k → Reach direct k s

/-- the stored sets only grow from `direct` -/
def Mono (direct req : Sym → List Sym) : Prop := ∀ k s, s ∈ direct k → s ∈ req k

theorem mem_newSet {req : Sym → List Sym} {k : Sym} {s : Sym} :
    s ∈ newSet req k ↔ s ∈ req k ∨ ∃ o ∈ req k, s ∈ req o := by
  simp [newSet, List.mem_flatMap]

theorem sound_update {direct req : Sym → List Sym} (hs : Sound direct req) (k : Sym) :
    Sound direct (update req k (newSet req k)) := by
  intro g s hm
  unfold update at hm
  split at hm
  · rename_i hg
    subst hg
    rcases mem_newSet.1 hm with h | ⟨o, ho, h⟩
    · exact hs _ _ h
    · exact Reach.step (hs _ _ ho) (hs _ _ h)
  · exact hs _ _ hm

theorem mono_update {direct req : Sym → List Sym} (hm : Mono direct req) (k : Sym) :
    Mono direct (update req k (newSet req k)) := by
  intro g s hd
  unfold update
  split
  · rename_i hg; subst hg; exact mem_newSet.2 (Or.inl (hm _ _ hd))
  · exact hm _ _ hd

theorem pass_inv {direct : Sym → List Sym} (keys : List Sym) :
    ∀ (req : Sym → List Sym) (m : Bool), Sound direct req → Mono direct req →
      Sound direct (pass keys req m).1 ∧ Mono direct (pass keys req m).1 := by
  induction keys with
  | nil => intro req m hs hm; exact ⟨hs, hm⟩
  | cons f ks ih =>
    intro req m hs hm
    unfold pass
    split
    · exact ih _ _ (sound_update hs f) (mono_update hm f)
    · exact ih _ _ hs hm

theorem pass_flag_true (keys : List Sym) : ∀ (req : Sym → List Sym), (pass keys req true).2 = true := by
  induction keys with
  | nil => intro req; rfl
  | cons f ks ih => intro req; unfold pass; split <;> exact ih _

/-- a pass that reports "not modified" changed nothing and found no key that could grow -/
theorem pass_unmodified (keys : List Sym) :
    ∀ (req : Sym → List Sym), (pass keys req false).2 = false →
      (pass keys req false).1 = req ∧ ∀ k ∈ keys, grows req k = false := by
  induction keys with
  | nil => intro req _; exact ⟨rfl, by simp⟩
  | cons f ks ih =>
    intro req h
    unfold pass at h ⊢
    split at h
    · rw [pass_flag_true] at h; cases h
    · rename_i hg
      simp only [hg, Bool.false_eq_true, if_false]
      obtain ⟨h1, h2⟩ := ih req h
      refine ⟨h1, ?_⟩
      intro g hgm
      rcases List.mem_cons.1 hgm with rfl | hgm
      · simpa using hg
      · exact h2 g hgm

theorem closed_of_not_grows {req : Sym → List Sym} {k : Sym} (h : grows req k = false) :
    ∀ o ∈ req k, ∀ s ∈ req o, s ∈ req k := by
  intro o ho s hs
  have hall : (newSet req k).all (fun s => (req k).contains s) = true := by
    simpa [grows] using h
  have := (List.all_eq_true.1 hall) s (mem_newSet.2 (Or.inr ⟨o, ho, hs⟩))
  simpa using this

theorem recurse_inv {direct : Sym → List Sym} (keys : List Sym) :
    ∀ (fuel : Nat) (req res : Sym → List Sym), Sound direct req → Mono direct req →
      recurse fuel keys req = some res →
      Sound direct res ∧ Mono direct res ∧ ∀ k ∈ keys, ∀ o ∈ res k, ∀ s ∈ res o, s ∈ res k := by
  intro fuel
  induction fuel with
  | zero => intro req res _ _ h; simp [recurse] at h
  | succ n ih =>
    intro req res hs hm h
    unfold recurse at h
    have hinv := pass_inv (direct := direct) keys req false hs hm
    split at h
    · rename_i req' heq
      have : (pass keys req false).1 = req' := by rw [heq]
      rw [this] at hinv
      exact ih req' res hinv.1 hinv.2 h
    · rename_i req' heq
      simp only [Option.some.injEq] at h
      subst h
      have h1 : (pass keys req false).1 = req' := by rw [heq]
      have h2 : (pass keys req false).2 = false := by rw [heq]
      obtain ⟨hsame, hng⟩ := pass_unmodified keys req h2
      have hreq : req' = req := by rw [← h1, hsame]
      subst hreq
      exact ⟨hs, hm, fun k hk => closed_of_not_grows (hng k hk)⟩

theorem reach_keys {direct : Sym → List Sym} {keys : List Sym}
    (hk : ∀ k ∈ keys, ∀ s ∈ direct k, s ∈ keys) {k s : Sym}
    (hr : Reach direct k s) : k ∈ keys → s ∈ keys := by
  induction hr with
  | base hd => intro hf; exact hk _ hf _ hd
  | step _ _ ih1 ih2 => intro hf; exact ih2 (ih1 hf)

/-- `recurse` computes reachability: for every key, the stored set is exactly the set of symbols it
    mentions directly or through the symbols it can reach. -/
theorem recurse_is_reach {direct : Sym → List Sym} {keys : List Sym} {fuel : Nat} {res : Sym → List Sym}
    (hk : ∀ k ∈ keys, ∀ s ∈ direct k, s ∈ keys)
    (h : recurse fuel keys direct = some res) :
    ∀ k ∈ keys, ∀ s, s ∈ res k ↔ Reach direct k s := by
  obtain ⟨hs, hm, hc⟩ := recurse_inv (direct := direct) keys fuel direct res
    (fun _ _ hd => Reach.base hd) (fun _ _ hd => hd) h
  intro k hf s
  constructor
  · exact hs k s
  · intro hr
    induction hr with
    | base hd => exact hm _ _ hd
    | @step k' m' s' h1 _ ih1 ih2 =>
      have hh : m' ∈ keys := reach_keys hk h1 hf
      exact hc _ hf m' (ih1 hf) s' (ih2 hh)

end RsslVerif.Lemmas.MetaReach

import RsslVerif.Thm.C02Sem
/-!
# C02, text leg — why the emitted TEXT has to read back as the emitted TREE

`gen_sem_*` (Thm/C02Sem) speak about the syntax tree the Metal back end hands to the formatter.  What the user receives is
the text `rssl_formatter::format(tree, Msl)`.  The printing half is property C09's (Thm/C09: `paren_rule_matches_grammar`,
`roundtrip_expr_partial`, … over the re-extracted precedence / associativity / side tables — cited as obligations of C02 in
checks/c02.py) and the harness checks on every program of the semantic streams that the printed tree is read back by the real
parser as the same tree (harness/src/c02/text.rs).  This file records what is at stake: a printer that drops the parentheses
of a right-nested chain of one "associative" operator (seeded mutant C02-4: `a + (b + c)` printed `a + b + c`) makes the text
denote the LEFT-nested tree, and under an interpretation of float addition without associativity (IEEE-754 addition is not
associative: `(1e30 + -1e30) + 1 = 1`, `1e30 + (-1e30 + 1) = 0`) that tree does not mean what the IR means.
-/
namespace RsslVerif.Thm.C02Text
open RsslVerif.Gen.HlslGenTables RsslVerif.Gen.MslGenTables RsslVerif.Model RsslVerif.Model.GenMsl RsslVerif.Spec.Sem RsslVerif.Lemmas.GenMsl
open RsslVerif.Model.Ir (Ty Var Const Dir)
open RsslVerif.Thm.C02Sem

/-- floats: `x ⊕ y := 2x + y` for every arithmetic operator — an interpretation of the float primitive without associativity -/
def PF : Prim := { P1 with fbin := fun _ x y => x + x + y }

def cxF : Ctx := { cxW with vty := fun _ => .float, retTy := fun _ => some .float }
def envF : Ast.Env := { envW with vty := fun _ => .float }
def WF : World := { P := PF, phi := fun _ _ _ => none, sig := fun _ => none }
def MF : Msl.MWorld := { P := PF, mphi := fun _ _ _ _ => none, msig := fun _ _ => none }

/-- `x + (y + z)` on three float variables, as the type checker leaves it -/
def eChain : Ir.Expr :=
  .op .Add (.cons (.var 0) (.cons (.op .Add (.cons (.var 1) (.cons (.var 2) .nil))) .nil))

/-- the tree the exporter emits for it: `l + (ll + lll)` -/
def aRight : HlslAst.Expr := .bin .Add (.ident "l") (.bin .Add (.ident "ll") (.ident "lll"))
/-- the tree the text `l + ll + lll` denotes (`+` is left-associative in Metal / C++) -/
def aLeft : HlslAst.Expr := .bin .Add (.bin .Add (.ident "l") (.ident "ll")) (.ident "lll")

def σf : Store := fun _ => .f 1

/-- **The emitted tree is right, the regrouped text is wrong.**  For `x + (y + z)` on floats the modelled exporter emits the
right-nested tree, whose Metal meaning is the IR's (an instance of `gen_sem_expr`); the left-nested tree — what the text
`x + y + z` of seeded mutant C02-4 denotes — evaluates to another value.  So "the text reads back as the tree" is a
necessary link of C02, not a formality: negation witness for "parentheses of a same-operator chain are redundant". -/
theorem right_nested_chain_regrouped_changes_meaning :
    genExpr cxF eChain = .ok aRight ∧
      (Ir.eval WF eChain σf).map (·.1) = some (.f 5) ∧
      (Msl.eval MF envF aRight σf).map (·.1) = some (.f 5) ∧
      (Msl.eval MF envF aLeft σf).map (·.1) = some (.f 7) := by
  refine ⟨rfl, ?_, ?_, ?_⟩ <;> decide

/-- on integers (wrap-around addition is associative) the same two trees agree: the difference is the float primitive's -/
example :
    (Msl.eval M1 envW aRight (fun _ => .i 0x7fffffff#32)).map (·.1) = (Msl.eval M1 envW aLeft (fun _ => .i 0x7fffffff#32)).map (·.1) := by
  decide

end RsslVerif.Thm.C02Text

//! C09 harness: build `ast::Expression` trees directly, print them with the real formatter, read the
//! text back with the real preprocessor + parser, strip locations and compare.
//!
//! request : `C09.rt \t <ctx> \t <tree>`          ctx = ret | stmt | init | arg | idx
//!           `C09.lit \t <literal>`               literal round trip inside `return <lit>;`
//! observation : `<printed expression text> ==> <re-read tree | ERR:stage>`
//! oracle : re-read tree == original tree (after resolving type-name ambiguity with the names the original
//!          tree uses as types) and the second print equals the first.
use crate::util::*;
use rssl_ast as ast;
use rssl_text::Located;

#[path = "c09_stmt.rs"]
mod stmt;

// ------------------------------------------------------------------------------------------ s-expressions
#[derive(Clone, Debug, PartialEq)]
pub enum SExp {
    Atom(String),
    List(Vec<SExp>),
}

impl SExp {
    fn atom(s: &str) -> SExp {
        SExp::Atom(s.to_string())
    }
    fn list(head: &str, mut rest: Vec<SExp>) -> SExp {
        let mut v = vec![SExp::atom(head)];
        v.append(&mut rest);
        SExp::List(v)
    }
    pub fn show(&self) -> String {
        match self {
            SExp::Atom(a) => a.clone(),
            SExp::List(l) => {
                let parts: Vec<String> = l.iter().map(|x| x.show()).collect();
                format!("({})", parts.join(" "))
            }
        }
    }
    fn head(&self) -> Option<&str> {
        match self {
            SExp::List(l) => match l.first() {
                Some(SExp::Atom(a)) => Some(a.as_str()),
                _ => None,
            },
            _ => None,
        }
    }
    fn args(&self) -> &[SExp] {
        match self {
            SExp::List(l) if !l.is_empty() => &l[1..],
            _ => &[],
        }
    }
    fn as_atom(&self) -> Option<&str> {
        match self {
            SExp::Atom(a) => Some(a.as_str()),
            _ => None,
        }
    }
    fn size(&self) -> usize {
        match self {
            SExp::Atom(_) => 0,
            SExp::List(l) => 1 + l.iter().map(|x| x.size()).sum::<usize>(),
        }
    }
    fn depth(&self) -> usize {
        match self {
            SExp::Atom(_) => 0,
            SExp::List(l) => 1 + l.iter().map(|x| x.depth()).max().unwrap_or(0),
        }
    }
}

pub fn parse_sexp(s: &str) -> Option<SExp> {
    let b: Vec<char> = s.chars().collect();
    let mut i = 0;
    let r = parse_sexp_at(&b, &mut i)?;
    while i < b.len() && b[i] == ' ' {
        i += 1;
    }
    if i == b.len() { Some(r) } else { None }
}

fn parse_sexp_at(b: &[char], i: &mut usize) -> Option<SExp> {
    while *i < b.len() && b[*i] == ' ' {
        *i += 1;
    }
    if *i >= b.len() {
        return None;
    }
    if b[*i] == '(' {
        *i += 1;
        let mut items = Vec::new();
        loop {
            while *i < b.len() && b[*i] == ' ' {
                *i += 1;
            }
            if *i >= b.len() {
                return None;
            }
            if b[*i] == ')' {
                *i += 1;
                return Some(SExp::List(items));
            }
            items.push(parse_sexp_at(b, i)?);
        }
    } else if b[*i] == ')' {
        None
    } else {
        let st = *i;
        while *i < b.len() && b[*i] != ' ' && b[*i] != '(' && b[*i] != ')' {
            *i += 1;
        }
        Some(SExp::Atom(b[st..*i].iter().collect()))
    }
}

// ------------------------------------------------------------------------------------------ tables
const UNOPS: [(&str, ast::UnaryOp); 10] = [
    ("PrefixIncrement", ast::UnaryOp::PrefixIncrement),
    ("PrefixDecrement", ast::UnaryOp::PrefixDecrement),
    ("PostfixIncrement", ast::UnaryOp::PostfixIncrement),
    ("PostfixDecrement", ast::UnaryOp::PostfixDecrement),
    ("Plus", ast::UnaryOp::Plus),
    ("Minus", ast::UnaryOp::Minus),
    ("LogicalNot", ast::UnaryOp::LogicalNot),
    ("BitwiseNot", ast::UnaryOp::BitwiseNot),
    ("Dereference", ast::UnaryOp::Dereference),
    ("AddressOf", ast::UnaryOp::AddressOf),
];

const BINOPS: [(&str, ast::BinOp); 30] = [
    ("Add", ast::BinOp::Add),
    ("Subtract", ast::BinOp::Subtract),
    ("Multiply", ast::BinOp::Multiply),
    ("Divide", ast::BinOp::Divide),
    ("Modulus", ast::BinOp::Modulus),
    ("LeftShift", ast::BinOp::LeftShift),
    ("RightShift", ast::BinOp::RightShift),
    ("BitwiseAnd", ast::BinOp::BitwiseAnd),
    ("BitwiseOr", ast::BinOp::BitwiseOr),
    ("BitwiseXor", ast::BinOp::BitwiseXor),
    ("BooleanAnd", ast::BinOp::BooleanAnd),
    ("BooleanOr", ast::BinOp::BooleanOr),
    ("LessThan", ast::BinOp::LessThan),
    ("LessEqual", ast::BinOp::LessEqual),
    ("GreaterThan", ast::BinOp::GreaterThan),
    ("GreaterEqual", ast::BinOp::GreaterEqual),
    ("Equality", ast::BinOp::Equality),
    ("Inequality", ast::BinOp::Inequality),
    ("Assignment", ast::BinOp::Assignment),
    ("SumAssignment", ast::BinOp::SumAssignment),
    ("DifferenceAssignment", ast::BinOp::DifferenceAssignment),
    ("ProductAssignment", ast::BinOp::ProductAssignment),
    ("QuotientAssignment", ast::BinOp::QuotientAssignment),
    ("RemainderAssignment", ast::BinOp::RemainderAssignment),
    ("LeftShiftAssignment", ast::BinOp::LeftShiftAssignment),
    ("RightShiftAssignment", ast::BinOp::RightShiftAssignment),
    ("BitwiseAndAssignment", ast::BinOp::BitwiseAndAssignment),
    ("BitwiseOrAssignment", ast::BinOp::BitwiseOrAssignment),
    ("BitwiseXorAssignment", ast::BinOp::BitwiseXorAssignment),
    ("Sequence", ast::BinOp::Sequence),
];

const MODIFIERS: [(&str, ast::TypeModifier); 27] = [
    ("const", ast::TypeModifier::Const),
    ("volatile", ast::TypeModifier::Volatile),
    ("row_major", ast::TypeModifier::RowMajor),
    ("column_major", ast::TypeModifier::ColumnMajor),
    ("unorm", ast::TypeModifier::Unorm),
    ("snorm", ast::TypeModifier::Snorm),
    ("in", ast::TypeModifier::In),
    ("out", ast::TypeModifier::Out),
    ("inout", ast::TypeModifier::InOut),
    ("extern", ast::TypeModifier::Extern),
    ("static", ast::TypeModifier::Static),
    ("groupshared", ast::TypeModifier::GroupShared),
    ("precise", ast::TypeModifier::Precise),
    ("nointerpolation", ast::TypeModifier::NoInterpolation),
    ("linear", ast::TypeModifier::Linear),
    ("centroid", ast::TypeModifier::Centroid),
    ("noperspective", ast::TypeModifier::NoPerspective),
    ("sample", ast::TypeModifier::Sample),
    ("point", ast::TypeModifier::Point),
    ("line", ast::TypeModifier::Line),
    ("triangle", ast::TypeModifier::Triangle),
    ("lineadj", ast::TypeModifier::LineAdj),
    ("triangleadj", ast::TypeModifier::TriangleAdj),
    ("vertices", ast::TypeModifier::Vertices),
    ("primitives", ast::TypeModifier::Primitives),
    ("indices", ast::TypeModifier::Indices),
    ("payload", ast::TypeModifier::Payload),
];

fn unop_name(op: &ast::UnaryOp) -> &'static str {
    UNOPS.iter().find(|(_, o)| o == op).unwrap().0
}
fn binop_name(op: &ast::BinOp) -> &'static str {
    BINOPS.iter().find(|(_, o)| o == op).unwrap().0
}

// ------------------------------------------------------------------------------------------ tree <-> s-expression
fn loc<T>(x: T) -> Located<T> {
    Located::none(x)
}
fn bloc(x: ast::Expression) -> Box<Located<ast::Expression>> {
    Box::new(Located::none(x))
}

fn de_scoped(args: &[SExp]) -> Option<ast::ScopedIdentifier> {
    let mut base = ast::ScopedIdentifierBase::Relative;
    let mut names = Vec::new();
    for (i, a) in args.iter().enumerate() {
        let a = a.as_atom()?;
        if i == 0 && a == "::" {
            base = ast::ScopedIdentifierBase::Absolute;
        } else {
            names.push(loc(a.to_string()));
        }
    }
    if names.is_empty() {
        return None;
    }
    Some(ast::ScopedIdentifier {
        base,
        identifiers: names,
    })
}

fn ser_scoped(id: &ast::ScopedIdentifier) -> Vec<SExp> {
    let mut v = Vec::new();
    if id.base == ast::ScopedIdentifierBase::Absolute {
        v.push(SExp::atom("::"));
    }
    for n in &id.identifiers {
        v.push(SExp::atom(&n.node));
    }
    v
}

fn de_lit(args: &[SExp]) -> Option<ast::Literal> {
    let k = args.first()?.as_atom()?;
    let v = args.get(1)?.as_atom()?;
    let bits64 = |v: &str| u64::from_str_radix(v.strip_prefix("0x")?, 16).ok();
    let bits32 = |v: &str| u32::from_str_radix(v.strip_prefix("0x")?, 16).ok();
    Some(match k {
        "b" => ast::Literal::Bool(v == "1"),
        "i" => ast::Literal::IntUntyped(v.parse().ok()?),
        "u" => ast::Literal::IntUnsigned32(v.parse().ok()?),
        "ul" => ast::Literal::IntUnsigned64(v.parse().ok()?),
        "l" => ast::Literal::IntSigned64(v.parse().ok()?),
        "f" => ast::Literal::FloatUntyped(f64::from_bits(bits64(v)?)),
        "h" => ast::Literal::Float16(f32::from_bits(bits32(v)?)),
        "f32" => ast::Literal::Float32(f32::from_bits(bits32(v)?)),
        "f64" => ast::Literal::Float64(f64::from_bits(bits64(v)?)),
        "s" => ast::Literal::String(String::from_utf8(unhex(v)?).ok()?),
        _ => return None,
    })
}

fn ser_lit(l: &ast::Literal) -> SExp {
    let (k, v) = match l {
        ast::Literal::Bool(b) => ("b", if *b { "1".to_string() } else { "0".to_string() }),
        ast::Literal::IntUntyped(v) => ("i", v.to_string()),
        ast::Literal::IntUnsigned32(v) => ("u", v.to_string()),
        ast::Literal::IntUnsigned64(v) => ("ul", v.to_string()),
        ast::Literal::IntSigned64(v) => ("l", v.to_string()),
        ast::Literal::FloatUntyped(v) => ("f", format!("0x{:016x}", v.to_bits())),
        ast::Literal::Float16(v) => ("h", format!("0x{:08x}", v.to_bits())),
        ast::Literal::Float32(v) => ("f32", format!("0x{:08x}", v.to_bits())),
        ast::Literal::Float64(v) => ("f64", format!("0x{:016x}", v.to_bits())),
        ast::Literal::String(s) => ("s", hex(s.as_bytes())),
    };
    SExp::list("lit", vec![SExp::atom(k), SExp::Atom(v)])
}

/// `(ty <scoped id atoms...>)`, `(tyt (n <scoped>) <eot>...)`, wrapped by `(const T)`, `(ptr T)`, `(ref T)`, `(arr T [e])`
fn de_type(s: &SExp) -> Option<ast::TypeId> {
    match s.head()? {
        "ty" => Some(ast::TypeId {
            base: ast::Type {
                layout: ast::TypeLayout(de_scoped(s.args())?, Vec::new().into_boxed_slice()),
                modifiers: ast::TypeModifierSet {
                    modifiers: Vec::new(),
                },
                location: rssl_text::SourceLocation::UNKNOWN,
            },
            abstract_declarator: ast::Declarator::Empty,
        }),
        "tyt" => {
            let a = s.args();
            let name = de_scoped(a.first()?.args())?;
            if a.first()?.head()? != "n" {
                return None;
            }
            let mut targs = Vec::new();
            for x in &a[1..] {
                targs.push(de_eot(x)?);
            }
            Some(ast::TypeId {
                base: ast::Type {
                    layout: ast::TypeLayout(name, targs.into_boxed_slice()),
                    modifiers: ast::TypeModifierSet {
                        modifiers: Vec::new(),
                    },
                    location: rssl_text::SourceLocation::UNKNOWN,
                },
                abstract_declarator: ast::Declarator::Empty,
            })
        }
        "ptr" => {
            let mut t = de_type(s.args().first()?)?;
            t.abstract_declarator = t.abstract_declarator.insert_base(|d| {
                ast::Declarator::Pointer(ast::PointerDeclarator {
                    attributes: Vec::new(),
                    qualifiers: ast::TypeModifierSet {
                        modifiers: Vec::new(),
                    },
                    inner: Box::new(d),
                })
            });
            Some(t)
        }
        "ref" => {
            let mut t = de_type(s.args().first()?)?;
            t.abstract_declarator = t.abstract_declarator.insert_base(|d| {
                ast::Declarator::Reference(ast::ReferenceDeclarator {
                    attributes: Vec::new(),
                    inner: Box::new(d),
                })
            });
            Some(t)
        }
        "arr" => {
            let mut t = de_type(s.args().first()?)?;
            let size = match s.args().get(1) {
                Some(e) => Some(Box::new(loc(de_expr(e)?))),
                None => None,
            };
            t.abstract_declarator = t.abstract_declarator.insert_base(|d| {
                ast::Declarator::Array(ast::ArrayDeclarator {
                    inner: Box::new(d),
                    array_size: size,
                    attributes: Vec::new(),
                })
            });
            Some(t)
        }
        m => {
            let md = MODIFIERS.iter().find(|(n, _)| *n == m)?.1;
            let mut t = de_type(s.args().first()?)?;
            t.base.modifiers.modifiers.insert(0, loc(md));
            Some(t)
        }
    }
}

fn ser_type(t: &ast::TypeId) -> SExp {
    let base = if t.base.layout.1.is_empty() {
        SExp::list("ty", ser_scoped(&t.base.layout.0))
    } else {
        let mut v = vec![SExp::list("n", ser_scoped(&t.base.layout.0))];
        for a in t.base.layout.1.iter() {
            v.push(ser_eot(a));
        }
        SExp::list("tyt", v)
    };
    let mut s = base;
    for m in t.base.modifiers.modifiers.iter().rev() {
        let name = MODIFIERS
            .iter()
            .find(|(_, md)| *md == m.node)
            .map(|(n, _)| *n)
            .unwrap_or("modifier?");
        s = SExp::list(name, vec![s]);
    }
    // modifiers are innermost in de_type only when written innermost; canonical form: declarators outside
    ser_declarator_outer(&t.abstract_declarator, s)
}

fn ser_declarator_outer(d: &ast::Declarator, base: SExp) -> SExp {
    // de_type builds `(ptr (arr T))` by inserting at the base: the *outer* s-expression is inserted last,
    // i.e. is the innermost declarator of the chain. Collect the chain and wrap from the chain's outside in.
    fn chain<'a>(d: &'a ast::Declarator, out: &mut Vec<&'a ast::Declarator>) {
        match d {
            ast::Declarator::Empty | ast::Declarator::Identifier(..) => out.push(d),
            ast::Declarator::Pointer(p) => {
                out.push(d);
                chain(&p.inner, out)
            }
            ast::Declarator::Reference(r) => {
                out.push(d);
                chain(&r.inner, out)
            }
            ast::Declarator::Array(a) => {
                out.push(d);
                chain(&a.inner, out)
            }
        }
    }
    let mut c = Vec::new();
    chain(d, &mut c);
    let mut s = base;
    for d in c {
        s = match d {
            ast::Declarator::Empty => s,
            ast::Declarator::Identifier(id, _) => {
                let mut v = ser_scoped(id);
                v.push(s);
                SExp::list("named", v)
            }
            ast::Declarator::Pointer(p) => {
                let tag = if p.attributes.is_empty() && p.qualifiers.modifiers.is_empty() {
                    "ptr"
                } else {
                    "ptr+"
                };
                SExp::list(tag, vec![s])
            }
            ast::Declarator::Reference(r) => {
                SExp::list(if r.attributes.is_empty() { "ref" } else { "ref+" }, vec![s])
            }
            ast::Declarator::Array(a) => {
                let mut v = vec![s];
                if let Some(e) = &a.array_size {
                    v.push(ser_expr(&e.node));
                }
                SExp::list(if a.attributes.is_empty() { "arr" } else { "arr+" }, v)
            }
        };
    }
    s
}

fn de_eot(s: &SExp) -> Option<ast::ExpressionOrType> {
    let a = s.args();
    Some(match s.head()? {
        "E" => ast::ExpressionOrType::Expression(loc(de_expr(a.first()?)?)),
        "T" => ast::ExpressionOrType::Type(de_type(a.first()?)?),
        "B" => ast::ExpressionOrType::Either(loc(de_expr(a.first()?)?), de_type(a.get(1)?)?),
        _ => return None,
    })
}

/// A lone name in an expression-or-type position cannot be told apart by syntax: the parser answers
/// `Either`. `Expression(Identifier n)`, `Type(n)` and `Either(n, n)` are therefore one tree here.
fn ser_eot(e: &ast::ExpressionOrType) -> SExp {
    let plain_type = |t: &ast::TypeId| {
        t.base.layout.1.is_empty()
            && t.base.modifiers.modifiers.is_empty()
            && t.abstract_declarator == ast::Declarator::Empty
    };
    match e {
        ast::ExpressionOrType::Expression(x) => {
            if let ast::Expression::Identifier(id) = &x.node {
                return SExp::list(
                    "B",
                    vec![ser_expr(&x.node), SExp::list("ty", ser_scoped(id))],
                );
            }
        }
        ast::ExpressionOrType::Type(t) if plain_type(t) => {
            return SExp::list(
                "B",
                vec![
                    SExp::list("id", ser_scoped(&t.base.layout.0)),
                    SExp::list("ty", ser_scoped(&t.base.layout.0)),
                ],
            );
        }
        _ => {}
    }
    match e {
        ast::ExpressionOrType::Expression(e) => SExp::list("E", vec![ser_expr(&e.node)]),
        ast::ExpressionOrType::Type(t) => SExp::list("T", vec![ser_type(t)]),
        ast::ExpressionOrType::Either(e, t) => SExp::list("B", vec![ser_expr(&e.node), ser_type(t)]),
    }
}

fn de_init(s: &SExp) -> Option<ast::Initializer> {
    match s.head()? {
        "agg" => {
            let mut v = Vec::new();
            for x in s.args() {
                v.push(de_init(x)?);
            }
            if v.is_empty() {
                return None;
            }
            Some(ast::Initializer::Aggregate(v))
        }
        _ => Some(ast::Initializer::Expression(loc(de_expr(s)?))),
    }
}

fn ser_init(i: &ast::Initializer) -> SExp {
    match i {
        ast::Initializer::Expression(e) => ser_expr(&e.node),
        ast::Initializer::Aggregate(v) => SExp::list("agg", v.iter().map(ser_init).collect()),
        ast::Initializer::StaticSampler(_) => SExp::atom("static-sampler"),
    }
}

pub fn de_expr(s: &SExp) -> Option<ast::Expression> {
    let a = s.args();
    Some(match s.head()? {
        "lit" => ast::Expression::Literal(de_lit(a)?),
        "id" => ast::Expression::Identifier(de_scoped(a)?),
        "un" => {
            let op = UNOPS.iter().find(|(n, _)| Some(*n) == a.first().and_then(|x| x.as_atom()))?;
            ast::Expression::UnaryOperation(op.1.clone(), bloc(de_expr(a.get(1)?)?))
        }
        "bin" => {
            let op = BINOPS.iter().find(|(n, _)| Some(*n) == a.first().and_then(|x| x.as_atom()))?;
            ast::Expression::BinaryOperation(
                op.1.clone(),
                bloc(de_expr(a.get(1)?)?),
                bloc(de_expr(a.get(2)?)?),
            )
        }
        "tern" => ast::Expression::TernaryConditional(
            bloc(de_expr(a.first()?)?),
            bloc(de_expr(a.get(1)?)?),
            bloc(de_expr(a.get(2)?)?),
        ),
        "sub" => ast::Expression::ArraySubscript(bloc(de_expr(a.first()?)?), bloc(de_expr(a.get(1)?)?)),
        "mem" => ast::Expression::Member(bloc(de_expr(a.first()?)?), de_scoped(&a[1..])?),
        "call" => {
            let f = de_expr(a.first()?)?;
            let mut targs = Vec::new();
            for x in a.get(1)?.as_list()? {
                targs.push(de_eot(x)?);
            }
            let mut args = Vec::new();
            for x in a.get(2)?.as_list()? {
                args.push(loc(de_expr(x)?));
            }
            ast::Expression::Call(bloc(f), targs, args)
        }
        "cast" => ast::Expression::Cast(Box::new(de_type(a.first()?)?), bloc(de_expr(a.get(1)?)?)),
        "sizeof" => ast::Expression::SizeOf(Box::new(de_eot(a.first()?)?)),
        "binit" => {
            let t = de_type(a.first()?)?;
            let mut v = Vec::new();
            for x in &a[1..] {
                v.push(de_init(x)?);
            }
            ast::Expression::BracedInit(Box::new(t), v)
        }
        _ => return None,
    })
}

impl SExp {
    fn as_list(&self) -> Option<&[SExp]> {
        match self {
            SExp::List(l) => Some(l),
            _ => None,
        }
    }
}

pub fn ser_expr(e: &ast::Expression) -> SExp {
    match e {
        ast::Expression::Literal(l) => ser_lit(l),
        ast::Expression::Identifier(id) => SExp::list("id", ser_scoped(id)),
        ast::Expression::UnaryOperation(op, x) => {
            SExp::list("un", vec![SExp::atom(unop_name(op)), ser_expr(&x.node)])
        }
        ast::Expression::BinaryOperation(op, l, r) => SExp::list(
            "bin",
            vec![SExp::atom(binop_name(op)), ser_expr(&l.node), ser_expr(&r.node)],
        ),
        ast::Expression::TernaryConditional(c, a, b) => SExp::list(
            "tern",
            vec![ser_expr(&c.node), ser_expr(&a.node), ser_expr(&b.node)],
        ),
        ast::Expression::ArraySubscript(o, i) => {
            SExp::list("sub", vec![ser_expr(&o.node), ser_expr(&i.node)])
        }
        ast::Expression::Member(o, name) => {
            let mut v = vec![ser_expr(&o.node)];
            v.extend(ser_scoped(name));
            SExp::list("mem", v)
        }
        ast::Expression::Call(f, targs, args) => SExp::list(
            "call",
            vec![
                ser_expr(&f.node),
                SExp::List(targs.iter().map(ser_eot).collect()),
                SExp::List(args.iter().map(|a| ser_expr(&a.node)).collect()),
            ],
        ),
        ast::Expression::Cast(t, x) => SExp::list("cast", vec![ser_type(t), ser_expr(&x.node)]),
        ast::Expression::BracedInit(t, inits) => {
            let mut v = vec![ser_type(t)];
            v.extend(inits.iter().map(ser_init));
            SExp::list("binit", v)
        }
        ast::Expression::SizeOf(x) => SExp::list("sizeof", vec![ser_eot(x)]),
        ast::Expression::AmbiguousParseBranch(brs) => SExp::list(
            "amb",
            brs.iter()
                .map(|b| {
                    let mut v = vec![ser_expr(&b.expr.node)];
                    for n in &b.expected_type_names {
                        v.push(SExp::list("n", ser_scoped(n)));
                    }
                    SExp::list("br", v)
                })
                .collect(),
        ),
    }
}

// ------------------------------------------------------------------------------------------ ambiguity resolution
/// names the tree uses in type position (cast / sizeof-type / template type argument / braced init)
fn type_names_expr(e: &ast::Expression, out: &mut Vec<ast::ScopedIdentifier>) {
    match e {
        ast::Expression::Literal(_) | ast::Expression::Identifier(_) => {}
        ast::Expression::UnaryOperation(_, x) => type_names_expr(&x.node, out),
        ast::Expression::BinaryOperation(_, l, r) => {
            type_names_expr(&l.node, out);
            type_names_expr(&r.node, out)
        }
        ast::Expression::TernaryConditional(c, a, b) => {
            type_names_expr(&c.node, out);
            type_names_expr(&a.node, out);
            type_names_expr(&b.node, out)
        }
        ast::Expression::ArraySubscript(o, i) => {
            type_names_expr(&o.node, out);
            type_names_expr(&i.node, out)
        }
        ast::Expression::Member(o, _) => type_names_expr(&o.node, out),
        ast::Expression::Call(f, targs, args) => {
            type_names_expr(&f.node, out);
            for t in targs {
                type_names_eot(t, out);
            }
            for a in args {
                type_names_expr(&a.node, out);
            }
        }
        ast::Expression::Cast(t, x) => {
            type_names_type(t, out);
            type_names_expr(&x.node, out)
        }
        ast::Expression::BracedInit(t, inits) => {
            type_names_type(t, out);
            for i in inits {
                type_names_init(i, out);
            }
        }
        ast::Expression::SizeOf(x) => type_names_eot(x, out),
        ast::Expression::AmbiguousParseBranch(_) => {}
    }
}

fn type_names_init(i: &ast::Initializer, out: &mut Vec<ast::ScopedIdentifier>) {
    match i {
        ast::Initializer::Expression(e) => type_names_expr(&e.node, out),
        ast::Initializer::Aggregate(v) => v.iter().for_each(|x| type_names_init(x, out)),
        ast::Initializer::StaticSampler(_) => {}
    }
}

fn type_names_type(t: &ast::TypeId, out: &mut Vec<ast::ScopedIdentifier>) {
    out.push(t.base.layout.0.clone().unlocate());
    for a in t.base.layout.1.iter() {
        type_names_eot(a, out);
    }
    type_names_abstract_declarator(&t.abstract_declarator, out);
}

/// the array sizes of an abstract declarator are expressions (`(float[(S)x])y`)
fn type_names_abstract_declarator(d: &ast::Declarator, out: &mut Vec<ast::ScopedIdentifier>) {
    match d {
        ast::Declarator::Empty | ast::Declarator::Identifier(..) => {}
        ast::Declarator::Pointer(p) => type_names_abstract_declarator(&p.inner, out),
        ast::Declarator::Reference(r) => type_names_abstract_declarator(&r.inner, out),
        ast::Declarator::Array(a) => {
            type_names_abstract_declarator(&a.inner, out);
            if let Some(e) = &a.array_size {
                type_names_expr(&e.node, out);
            }
        }
    }
}

fn resolve_abstract_declarator(d: &ast::Declarator, types: &[ast::ScopedIdentifier]) -> ast::Declarator {
    match d {
        ast::Declarator::Empty | ast::Declarator::Identifier(..) => d.clone(),
        ast::Declarator::Pointer(p) => ast::Declarator::Pointer(ast::PointerDeclarator {
            attributes: p.attributes.clone(),
            qualifiers: p.qualifiers.clone(),
            inner: Box::new(resolve_abstract_declarator(&p.inner, types)),
        }),
        ast::Declarator::Reference(r) => ast::Declarator::Reference(ast::ReferenceDeclarator {
            attributes: r.attributes.clone(),
            inner: Box::new(resolve_abstract_declarator(&r.inner, types)),
        }),
        ast::Declarator::Array(a) => ast::Declarator::Array(ast::ArrayDeclarator {
            inner: Box::new(resolve_abstract_declarator(&a.inner, types)),
            array_size: a.array_size.as_ref().map(|e| Box::new(loc(resolve(&e.node, types)))),
            attributes: a.attributes.clone(),
        }),
    }
}

fn type_names_eot(e: &ast::ExpressionOrType, out: &mut Vec<ast::ScopedIdentifier>) {
    match e {
        ast::ExpressionOrType::Expression(e) => type_names_expr(&e.node, out),
        ast::ExpressionOrType::Type(t) => type_names_type(t, out),
        ast::ExpressionOrType::Either(_, _) => {}
    }
}

/// pick, in every ambiguous node, the branch the type checker would pick when exactly `types` are type names
fn resolve(e: &ast::Expression, types: &[ast::ScopedIdentifier]) -> ast::Expression {
    let r = |x: &Located<ast::Expression>| Box::new(loc(resolve(&x.node, types)));
    match e {
        ast::Expression::Literal(_) | ast::Expression::Identifier(_) => e.clone(),
        ast::Expression::UnaryOperation(op, x) => ast::Expression::UnaryOperation(op.clone(), r(x)),
        ast::Expression::BinaryOperation(op, a, b) => {
            ast::Expression::BinaryOperation(op.clone(), r(a), r(b))
        }
        ast::Expression::TernaryConditional(c, a, b) => {
            ast::Expression::TernaryConditional(r(c), r(a), r(b))
        }
        ast::Expression::ArraySubscript(a, b) => ast::Expression::ArraySubscript(r(a), r(b)),
        ast::Expression::Member(a, n) => ast::Expression::Member(r(a), n.clone()),
        ast::Expression::Call(f, targs, args) => ast::Expression::Call(
            r(f),
            targs.iter().map(|t| resolve_eot(t, types)).collect(),
            args.iter().map(|a| loc(resolve(&a.node, types))).collect(),
        ),
        ast::Expression::Cast(t, x) => ast::Expression::Cast(Box::new(resolve_type(t, types)), r(x)),
        ast::Expression::BracedInit(t, inits) => ast::Expression::BracedInit(
            Box::new(resolve_type(t, types)),
            inits.iter().map(|i| resolve_init(i, types)).collect(),
        ),
        ast::Expression::SizeOf(x) => ast::Expression::SizeOf(Box::new(resolve_eot(x, types))),
        ast::Expression::AmbiguousParseBranch(brs) => {
            let (last, main) = brs.split_last().unwrap();
            for b in main {
                if b.expected_type_names.iter().all(|n| types.contains(n)) {
                    return resolve(&b.expr.node, types);
                }
            }
            resolve(&last.expr.node, types)
        }
    }
}

fn resolve_init(i: &ast::Initializer, types: &[ast::ScopedIdentifier]) -> ast::Initializer {
    match i {
        ast::Initializer::Expression(e) => ast::Initializer::Expression(loc(resolve(&e.node, types))),
        ast::Initializer::Aggregate(v) => {
            ast::Initializer::Aggregate(v.iter().map(|x| resolve_init(x, types)).collect())
        }
        other => other.clone(),
    }
}

fn resolve_type(t: &ast::TypeId, types: &[ast::ScopedIdentifier]) -> ast::TypeId {
    let mut t = t.clone();
    let args: Vec<_> = t.base.layout.1.iter().map(|a| resolve_eot(a, types)).collect();
    t.base.layout.1 = args.into_boxed_slice();
    t.abstract_declarator = resolve_abstract_declarator(&t.abstract_declarator, types);
    t
}

thread_local! {
    /// set by the source-module oracle: an `Either(expr, type)` is compared on its expression half (see `run_source`)
    static EITHER_AS_EXPRESSION: std::cell::Cell<bool> = const { std::cell::Cell::new(false) };
}

fn resolve_eot(e: &ast::ExpressionOrType, types: &[ast::ScopedIdentifier]) -> ast::ExpressionOrType {
    match e {
        ast::ExpressionOrType::Expression(e) => {
            ast::ExpressionOrType::Expression(loc(resolve(&e.node, types)))
        }
        ast::ExpressionOrType::Type(t) => ast::ExpressionOrType::Type(resolve_type(t, types)),
        ast::ExpressionOrType::Either(e, t) => {
            if EITHER_AS_EXPRESSION.with(|c| c.get()) {
                ast::ExpressionOrType::Expression(loc(resolve(&e.node, types)))
            } else {
                ast::ExpressionOrType::Either(loc(resolve(&e.node, types)), resolve_type(t, types))
            }
        }
    }
}

/// an `ast::Type` (no declarator) with the expression-or-type positions of its template arguments resolved
fn resolve_plain_type(t: &ast::Type, types: &[ast::ScopedIdentifier]) -> ast::Type {
    resolve_type(
        &ast::TypeId {
            base: t.clone(),
            abstract_declarator: ast::Declarator::Empty,
        },
        types,
    )
    .base
}

// ------------------------------------------------------------------------------------------ wrapper module
#[derive(Clone, Copy, PartialEq)]
enum Ctx {
    Ret,
    Stmt,
    Init,
    Arg,
    Idx,
}

impl Ctx {
    fn parse(s: &str) -> Option<Ctx> {
        Some(match s {
            "ret" => Ctx::Ret,
            "stmt" => Ctx::Stmt,
            "init" => Ctx::Init,
            "arg" => Ctx::Arg,
            "idx" => Ctx::Idx,
            _ => return None,
        })
    }
    fn name(self) -> &'static str {
        match self {
            Ctx::Ret => "ret",
            Ctx::Stmt => "stmt",
            Ctx::Init => "init",
            Ctx::Arg => "arg",
            Ctx::Idx => "idx",
        }
    }
    fn template(self) -> &'static str {
        match self {
            Ctx::Ret | Ctx::Arg | Ctx::Idx => "void f() { return zz; }",
            Ctx::Stmt => "void f() { zz; }",
            Ctx::Init => "void f() { int v = zz; }",
        }
    }
}

fn lex_parse(text: &str) -> Result<ast::Module, String> {
    let mut sm = rssl_text::SourceManager::new();
    let toks = rssl_preprocess::preprocess_fragment(
        text,
        rssl_text::FileName("c09.rssl".to_string()),
        &mut sm,
    )
    .map_err(|_| "ERR:lex".to_string())?;
    let toks = rssl_preprocess::prepare_tokens(&toks);
    rssl_parser::parse(&toks).map_err(|_| "ERR:parse".to_string())
}

fn body_mut(m: &mut ast::Module) -> Option<&mut ast::Statement> {
    match m.root_definitions.first_mut()? {
        ast::RootDefinition::Function(f) => f.body.as_mut()?.first_mut(),
        _ => None,
    }
}

fn put(m: &mut ast::Module, ctx: Ctx, e: ast::Expression) -> Option<()> {
    let st = body_mut(m)?;
    match ctx {
        Ctx::Ret => st.kind = ast::StatementKind::Return(Some(loc(e))),
        Ctx::Arg => {
            st.kind = ast::StatementKind::Return(Some(loc(ast::Expression::Call(
                bloc(ast::Expression::Identifier(ast::ScopedIdentifier::trivial("g"))),
                Vec::new(),
                vec![loc(e)],
            ))))
        }
        Ctx::Idx => {
            st.kind = ast::StatementKind::Return(Some(loc(ast::Expression::ArraySubscript(
                bloc(ast::Expression::Identifier(ast::ScopedIdentifier::trivial("g"))),
                bloc(e),
            ))))
        }
        Ctx::Stmt => st.kind = ast::StatementKind::Expression(e),
        Ctx::Init => match &mut st.kind {
            ast::StatementKind::Var(vd) => {
                vd.defs.first_mut()?.init = Some(ast::Initializer::Expression(loc(e)))
            }
            _ => return None,
        },
    }
    Some(())
}

/// the expression at the wrapper's hole, or a description of why the re-read module has another shape
fn get(m: &ast::Module, ctx: Ctx, types: &[ast::ScopedIdentifier]) -> Result<ast::Expression, String> {
    if m.root_definitions.len() != 1 {
        return Err(format!("ERR:shape roots={}", m.root_definitions.len()));
    }
    let f = match &m.root_definitions[0] {
        ast::RootDefinition::Function(f) => f,
        _ => return Err("ERR:shape not-a-function".to_string()),
    };
    let body = f.body.as_ref().ok_or("ERR:shape no-body")?;
    if body.len() != 1 {
        return Err(format!("ERR:shape statements={}", body.len()));
    }
    match (ctx, &body[0].kind) {
        (Ctx::Ret, ast::StatementKind::Return(Some(e))) => Ok(e.node.clone()),
        (Ctx::Arg, ast::StatementKind::Return(Some(e))) => match &resolve(&e.node, types) {
            ast::Expression::Call(g, t, args)
                if t.is_empty()
                    && args.len() == 1
                    && ser_expr(&g.node).show() == "(id g)" =>
            {
                Ok(args[0].node.clone())
            }
            other => Err(format!("ERR:shape arg {}", ser_expr(other).show())),
        },
        (Ctx::Idx, ast::StatementKind::Return(Some(e))) => match &resolve(&e.node, types) {
            ast::Expression::ArraySubscript(g, i)
                if ser_expr(&g.node).show() == "(id g)" =>
            {
                Ok(i.node.clone())
            }
            other => Err(format!("ERR:shape idx {}", ser_expr(other).show())),
        },
        (Ctx::Stmt, ast::StatementKind::Expression(e)) => Ok(e.clone()),
        (Ctx::Stmt, ast::StatementKind::AmbiguousDeclarationOrExpression(_, e)) => Ok(e.clone()),
        (Ctx::Stmt, ast::StatementKind::Var(_)) => Err("ERR:shape declaration".to_string()),
        (Ctx::Init, ast::StatementKind::Var(vd)) => {
            if vd.defs.len() != 1 {
                return Err(format!("ERR:shape declarators={}", vd.defs.len()));
            }
            match &vd.defs[0].init {
                Some(ast::Initializer::Expression(e)) => Ok(e.node.clone()),
                _ => Err("ERR:shape initializer".to_string()),
            }
        }
        _ => Err("ERR:shape statement-kind".to_string()),
    }
}

/// the expression's own text inside the wrapper's output
fn extract_text(full: &str, ctx: Ctx) -> String {
    let t = full.trim();
    let (pre, post): (&str, &str) = match ctx {
        Ctx::Ret => ("return ", ";"),
        Ctx::Arg => ("return g(", ");"),
        Ctx::Idx => ("return g[", "];"),
        Ctx::Stmt => ("{", ";"),
        Ctx::Init => ("int v = ", ";"),
    };
    let start = match t.find(pre) {
        Some(i) => i + pre.len(),
        None => return t.to_string(),
    };
    let end = match t.rfind('}') {
        Some(j) => j,
        None => return t.to_string(),
    };
    let inner = t[start..end].trim();
    inner.strip_suffix(post).unwrap_or(inner).trim().to_string()
}

/// An expression-or-type position that reads as both is answered `Either` by the parser; against an original that
/// says `Expression(e)` / `Type(t)` only that half is compared.
fn align(orig: &SExp, new: &SExp) -> SExp {
    match (orig, new) {
        (SExp::List(o), SExp::List(n)) => {
            if orig.head() == Some("E") && new.head() == Some("B") && o.len() == 2 && n.len() == 3 {
                return SExp::List(vec![SExp::atom("E"), align(&o[1], &n[1])]);
            }
            if orig.head() == Some("T") && new.head() == Some("B") && o.len() == 2 && n.len() == 3 {
                return SExp::List(vec![SExp::atom("T"), align(&o[1], &n[2])]);
            }
            if o.len() == n.len() {
                return SExp::List(o.iter().zip(n.iter()).map(|(a, b)| align(a, b)).collect());
            }
            new.clone()
        }
        _ => new.clone(),
    }
}

/// where two trees first differ: `<original node> -> <re-read node>`
fn diff_sig(orig: &SExp, new: &SExp) -> String {
    fn tag(s: &SExp) -> String {
        match s {
            SExp::Atom(a) => a.clone(),
            SExp::List(l) => {
                let h = s.head().unwrap_or("list");
                if h == "lit" || h == "un" || h == "bin" {
                    format!("{}:{}", h, l.get(1).and_then(|x| x.as_atom()).unwrap_or("?"))
                } else {
                    h.to_string()
                }
            }
        }
    }
    match (orig, new) {
        (SExp::List(o), SExp::List(n)) if tag(orig) == tag(new) && o.len() == n.len() => {
            for (a, b) in o.iter().zip(n.iter()) {
                if a != b {
                    return diff_sig(a, b);
                }
            }
            "same".into()
        }
        (SExp::List(_), SExp::List(_)) if tag(orig) == tag(new) => format!("{}-length", tag(orig)),
        (SExp::Atom(a), SExp::Atom(b)) => {
            let num = |x: &str| x.chars().all(|c| c.is_ascii_hexdigit() || c == 'x' || c == '-');
            if num(a) && num(b) { "value".into() } else { format!("{}->{}", a, b) }
        }
        _ => format!("{}->{}", tag(orig), tag(new)),
    }
}

struct Outcome {
    obs: String,
    oracle: String,
}

fn run_tree(ctx: Ctx, tree: &SExp) -> Outcome {
    let e = match de_expr(tree) {
        Some(e) => e,
        None => {
            return Outcome {
                obs: "bad-request".into(),
                oracle: "SKIP:bad tree".into(),
            };
        }
    };
    let mut module = match lex_parse(ctx.template()) {
        Ok(m) => m,
        Err(s) => {
            return Outcome {
                obs: "template".into(),
                oracle: format!("SKIP:template {}", s),
            };
        }
    };
    if put(&mut module, ctx, e.clone()).is_none() {
        return Outcome {
            obs: "template".into(),
            oracle: "SKIP:template shape".into(),
        };
    }
    let text = match guard(|| rssl_formatter::format(&module, rssl_formatter::Target::Hlsl)) {
        Ok(Ok(t)) => t,
        Ok(Err(_)) => {
            return Outcome {
                obs: "FMT-ERR".into(),
                oracle: "FAIL:formatter returned an error".into(),
            };
        }
        Err(p) => {
            return Outcome {
                obs: "FMT-PANIC".into(),
                oracle: format!("FAIL:panic {}", p),
            };
        }
    };
    let etext = extract_text(&text, ctx);
    let original = ser_expr(&e).show(); // canonical form (see ser_eot)
    let reparsed = match guard(|| lex_parse(&text)) {
        Ok(r) => r,
        Err(p) => {
            return Outcome {
                obs: format!("{} ==> PANIC", etext),
                oracle: format!("FAIL:panic {}", p),
            };
        }
    };
    let m2 = match reparsed {
        Ok(m) => m,
        Err(s) => {
            return Outcome {
                obs: format!("{} ==> {}", etext, s),
                oracle: format!("FAIL:printed text is rejected ({})", s),
            };
        }
    };
    let mut types = Vec::new();
    type_names_expr(&e, &mut types);
    let e2 = match get(&m2, ctx, &types) {
        Ok(e2) => e2,
        Err(s) => {
            return Outcome {
                obs: format!("{} ==> {}", etext, s),
                oracle: format!("FAIL:printed text reads back as another construct ({})", s),
            };
        }
    };
    let e2r = resolve(&e2, &types);
    let back_s = align(&ser_expr(&e), &ser_expr(&e2r));
    let back = back_s.show();
    let obs = format!("{} ==> {}", etext, back);
    if back != original {
        return Outcome {
            obs,
            oracle: format!("FAIL:tree differs after print+parse [{}]", diff_sig(&ser_expr(&e), &back_s)),
        };
    }
    // second generation text
    let mut m3 = m2.clone();
    if put(&mut m3, ctx, e2r).is_some() {
        match guard(|| rssl_formatter::format(&m3, rssl_formatter::Target::Hlsl)) {
            Ok(Ok(t2)) if t2 == text => {}
            Ok(Ok(_)) => {
                return Outcome {
                    obs,
                    oracle: "FAIL:second print differs from first".into(),
                };
            }
            _ => {
                return Outcome {
                    obs,
                    oracle: "FAIL:second print failed".into(),
                };
            }
        }
    }
    Outcome {
        obs,
        oracle: "ok".into(),
    }
}


// ------------------------------------------------------------------------------------------ shrinking
const EXPR_HEADS: [&str; 11] = [
    "lit", "id", "un", "bin", "tern", "sub", "mem", "call", "cast", "sizeof", "binit",
];

fn is_expr_node(s: &SExp) -> bool {
    matches!(s.head(), Some(h) if EXPR_HEADS.contains(&h))
}

/// paths (child indices) of every expression node, pre-order
fn expr_paths(s: &SExp, here: &mut Vec<usize>, out: &mut Vec<Vec<usize>>) {
    if is_expr_node(s) {
        out.push(here.clone());
    }
    if let SExp::List(l) = s {
        for (i, x) in l.iter().enumerate() {
            here.push(i);
            expr_paths(x, here, out);
            here.pop();
        }
    }
}

fn at<'a>(s: &'a SExp, path: &[usize]) -> &'a SExp {
    match (path.split_first(), s) {
        (Some((i, rest)), SExp::List(l)) => at(&l[*i], rest),
        _ => s,
    }
}

fn replace_at(s: &SExp, path: &[usize], new: &SExp) -> SExp {
    match (path.split_first(), s) {
        (Some((i, rest)), SExp::List(l)) => {
            let mut v = l.clone();
            v[*i] = replace_at(&l[*i], rest, new);
            SExp::List(v)
        }
        _ => new.clone(),
    }
}

fn remove_at(s: &SExp, path: &[usize]) -> SExp {
    match (path.split_first(), s) {
        (Some((i, rest)), SExp::List(l)) if rest.is_empty() => {
            let mut v = l.clone();
            v.remove(*i);
            SExp::List(v)
        }
        (Some((i, rest)), SExp::List(l)) => {
            let mut v = l.clone();
            v[*i] = remove_at(&l[*i], rest);
            SExp::List(v)
        }
        _ => s.clone(),
    }
}

/// what kind of failure an oracle verdict is (shrinking keeps the kind fixed)
fn fail_kind(oracle: &str) -> String {
    if !oracle.starts_with("FAIL:") {
        return String::new();
    }
    let d = &oracle[5..];
    if d.starts_with("panic") {
        let digits_gone: String = d.chars().map(|c| if c.is_ascii_digit() { 'N' } else { c }).collect();
        return digits_gone;
    }
    if d.contains("ERR:lex") {
        "rejected-by-lexer".into()
    } else if d.contains("ERR:parse") {
        "rejected-by-parser".into()
    } else if d.starts_with("printed text reads back as another construct") {
        "other-construct".into()
    } else if d.starts_with("tree differs") {
        let sig = d.split('[').nth(1).and_then(|x| x.split(']').next()).unwrap_or("");
        format!("tree-differs[{}]", sig)
    } else if d.starts_with("second print") {
        "second-print".into()
    } else {
        d.chars().take(40).collect()
    }
}

fn canonical_literals(kind: &str) -> Vec<&'static str> {
    match kind {
        "i" => vec!["(lit i 1)"],
        "u" => vec!["(lit u 1)"],
        "ul" => vec!["(lit ul 1)"],
        "l" => vec!["(lit l 1)", "(lit l -1)"],
        "b" => vec!["(lit b 1)"],
        "f" => vec!["(lit f 0x3ff8000000000000)", "(lit f 0x3ff0000000000000)", "(lit f 0xbff8000000000000)"],
        "h" => vec!["(lit h 0x3fc00000)", "(lit h 0x3f800000)", "(lit h 0xbfc00000)"],
        "f32" => vec!["(lit f32 0x3fc00000)", "(lit f32 0x3f800000)", "(lit f32 0xbfc00000)"],
        "f64" => vec!["(lit f64 0x3ff8000000000000)", "(lit f64 0x3ff0000000000000)", "(lit f64 0xbff8000000000000)"],
        _ => vec![],
    }
}

/// greedy minimisation of a failing (ctx, tree) keeping the failure kind
fn shrink(ctx: Ctx, tree: &SExp, kind: &str) -> (Ctx, SExp) {
    let mut ctx = ctx;
    let mut tree = tree.clone();
    let mut budget = 600;
    let still = |c: Ctx, t: &SExp, budget: &mut i32| -> bool {
        *budget -= 1;
        fail_kind(&run_tree(c, t).oracle) == kind
    };
    if ctx != Ctx::Ret && still(Ctx::Ret, &tree, &mut budget) {
        ctx = Ctx::Ret;
    }
    let ida = parse_sexp("(id a)").unwrap();
    let mut progress = true;
    while progress && budget > 0 {
        progress = false;
        let mut paths = Vec::new();
        expr_paths(&tree, &mut Vec::new(), &mut paths);
        'outer: for p in &paths {
            let node = at(&tree, p).clone();
            // candidates: (id a), canonical literal of the same kind, every expression node below this one
            let mut cands: Vec<SExp> = Vec::new();
            if node != ida {
                cands.push(ida.clone());
            }
            if node.head() == Some("lit") {
                for c in ["(lit i 1)", "(lit l -1)"] {
                    let c = parse_sexp(c).unwrap();
                    if c != node {
                        cands.push(c);
                    }
                }
                let k = node.args().first().and_then(|x| x.as_atom()).unwrap_or("");
                for c in canonical_literals(k) {
                    let c = parse_sexp(c).unwrap();
                    if c == node {
                        break;
                    }
                    cands.push(c);
                }
            }
            let mut below = Vec::new();
            expr_paths(&node, &mut Vec::new(), &mut below);
            let mut subs: Vec<SExp> = below.iter().filter(|q| !q.is_empty()).map(|q| at(&node, q).clone()).collect();
            subs.sort_by_key(|x| x.size());
            cands.extend(subs);
            let rank = |x: &SExp| -> (usize, usize, usize, String) {
                let sh = x.show();
                let r = if *x == ida {
                    0
                } else if x.head() == Some("lit") {
                    let k = x.args().first().and_then(|y| y.as_atom()).unwrap_or("");
                    if sh == "(lit i 1)" {
                        1
                    } else if sh == "(lit l -1)" {
                        2
                    } else {
                        3 + canonical_literals(k).iter().position(|c| *c == sh).unwrap_or(50)
                    }
                } else {
                    100
                };
                (x.size(), r, sh.len(), sh)
            };
            for c in cands {
                if rank(&c) >= rank(&node) {
                    continue;
                }
                let t2 = replace_at(&tree, p, &c);
                if t2 != tree && still(ctx, &t2, &mut budget) {
                    tree = t2;
                    progress = true;
                    break 'outer;
                }
                if budget <= 0 {
                    break 'outer;
                }
            }
            // canonical operator / member name
            if let (Some(h), SExp::List(l)) = (node.head(), &node) {
                let mut alts: Vec<SExp> = Vec::new();
                if h == "un" || h == "bin" {
                    let cur = l[1].as_atom().unwrap_or("");
                    let names: Vec<&str> = if h == "un" {
                        UNOPS.iter().map(|x| x.0).collect()
                    } else {
                        BINOPS.iter().map(|x| x.0).collect()
                    };
                    for n in names {
                        if n == cur {
                            break;
                        }
                        let mut v = l.clone();
                        v[1] = SExp::atom(n);
                        alts.push(SExp::List(v));
                    }
                }
                if h == "mem" && (l.len() != 3 || l[2] != SExp::atom("m")) {
                    alts.push(SExp::List(vec![l[0].clone(), l[1].clone(), SExp::atom("m")]));
                }
                for c in alts {
                    let t2 = replace_at(&tree, p, &c);
                    if still(ctx, &t2, &mut budget) {
                        tree = t2;
                        progress = true;
                        break 'outer;
                    }
                }
            }
            // drop an element of an argument list
            if let Some((last, parent)) = p.split_last() {
                let par = at(&tree, parent);
                if !is_expr_node(par) || par.head() == Some("binit") && *last >= 2 {
                    let t2 = remove_at(&tree, p);
                    if de_expr(&t2).is_some() && still(ctx, &t2, &mut budget) {
                        tree = t2;
                        progress = true;
                        break 'outer;
                    }
                }
            }
        }
    }
    // drop template arguments
    loop {
        let mut paths = Vec::new();
        expr_paths(&tree, &mut Vec::new(), &mut paths);
        let mut changed = false;
        for p in &paths {
            let node = at(&tree, p).clone();
            if let (Some("call"), SExp::List(l)) = (node.head(), &node) {
                if let Some(SExp::List(targs)) = l.get(2) {
                    for i in 0..targs.len() {
                        let mut t2 = targs.clone();
                        t2.remove(i);
                        let mut v = l.clone();
                        v[2] = SExp::List(t2);
                        let cand = replace_at(&tree, p, &SExp::List(v));
                        if budget > 0 && still(ctx, &cand, &mut budget) {
                            tree = cand;
                            changed = true;
                            break;
                        }
                    }
                }
            }
            if changed {
                break;
            }
        }
        if !changed {
            break;
        }
    }
    // canonical type name
    let shown = tree.show();
    for n in ["float4", "float", "uint", "S", "U"] {
        let cand = shown.replace(&format!("(ty {})", n), "(ty T)");
        if cand != shown {
            if let Some(t2) = parse_sexp(&cand) {
                if still(ctx, &t2, &mut budget) {
                    tree = t2;
                    break;
                }
            }
        }
    }
    (ctx, tree)
}


// ------------------------------------------------------------------------------------------ source stream (statements, declarators, types)
/// tree of a module without locations: Debug output with ` @ N` and `SourceLocation(N)` removed
fn strip_locations(dbg: &str) -> String {
    let b = dbg.as_bytes();
    let mut out = String::with_capacity(b.len());
    let mut i = 0;
    while i < b.len() {
        if b[i..].starts_with(b" @ ") {
            let mut j = i + 3;
            while j < b.len() && b[j].is_ascii_digit() {
                j += 1;
            }
            if j > i + 3 {
                i = j;
                continue;
            }
        }
        if b[i..].starts_with(b"SourceLocation(") {
            let mut j = i + 15;
            while j < b.len() && b[j].is_ascii_digit() {
                j += 1;
            }
            if j < b.len() && b[j] == b')' {
                out.push_str("L");
                i = j + 1;
                continue;
            }
        }
        out.push(b[i] as char);
        i += 1;
    }
    out
}

fn run_source(text: &str) -> Outcome {
    let m1 = match guard(|| lex_parse(text)) {
        Ok(Ok(m)) => m,
        Ok(Err(e)) => {
            return Outcome {
                obs: "not-parsed".into(),
                oracle: format!("SKIP:generated source is not accepted ({})", e),
            };
        }
        Err(p) => {
            return Outcome {
                obs: "PANIC".into(),
                oracle: format!("FAIL:panic {}", p),
            };
        }
    };
    let t1 = match guard(|| rssl_formatter::format(&m1, rssl_formatter::Target::Hlsl)) {
        Ok(Ok(t)) => t,
        Ok(Err(_)) => {
            return Outcome {
                obs: "not-printable".into(),
                oracle: "SKIP:tree has an ambiguous parse branch (not printable)".into(),
            };
        }
        Err(p) => {
            return Outcome {
                obs: "FMT-PANIC".into(),
                oracle: format!("FAIL:panic {}", p),
            };
        }
    };
    let m2 = match guard(|| lex_parse(&t1)) {
        Ok(Ok(m)) => m,
        Ok(Err(e)) => {
            return Outcome {
                obs: format!("printed {} bytes ==> {}", t1.len(), e),
                oracle: format!("FAIL:printed text is rejected ({}) text={}", e, one_line(&t1)),
            };
        }
        Err(p) => {
            return Outcome {
                obs: "PANIC".into(),
                oracle: format!("FAIL:panic {}", p),
            };
        }
    };
    // ambiguous nodes of the re-read module are resolved as the type checker does, with the names the first tree uses as
    // types (a dropped `inline` in front of `T<a> x;` turns the unambiguous declaration into an ambiguous statement);
    // both trees go through the same rebuilding so that only genuine differences remain
    let mut types = Vec::new();
    stmt::type_names_module(&m1.root_definitions, &mut types);
    let m2r = ast::Module {
        root_definitions: stmt::resolve_module(&m2.root_definitions, &types),
    };
    // an expression-or-type position is compared on what syntax can tell (notes/C09.md, "Readings"): `T<(n[b])>` is read as
    // `Expression(n[b])`, printed `T<n[b]>` and re-read as `Either(n[b], type n[b])` — the same reading the tree streams
    // apply ("an `Either` answer is compared on the half the original states").  For this comparison both trees have every
    // `Either(expr, type)` replaced by `Expression(expr)`; the second print is made from the re-read tree as it is.
    EITHER_AS_EXPRESSION.with(|c| c.set(true));
    let c1 = stmt::resolve_module(&m1.root_definitions, &types);
    let c2 = stmt::resolve_module(&m2.root_definitions, &types);
    EITHER_AS_EXPRESSION.with(|c| c.set(false));
    let d1 = strip_locations(&format!("{:?}", c1));
    let d2 = strip_locations(&format!("{:?}", c2));
    if d1 != d2 {
        let at = d1.bytes().zip(d2.bytes()).position(|(a, b)| a != b).unwrap_or(d1.len().min(d2.len()));
        let lo = at.saturating_sub(60);
        return Outcome {
            obs: format!("printed {} bytes ==> tree differs", t1.len()),
            oracle: format!(
                "FAIL:tree differs after print+parse [module] near `{}` vs `{}` text={}",
                &d1[lo..(at + 40).min(d1.len())],
                &d2[lo..(at + 40).min(d2.len())],
                one_line(&t1)
            ),
        };
    }
    match guard(|| rssl_formatter::format(&m2r, rssl_formatter::Target::Hlsl)) {
        Ok(Ok(t2)) if t2 == t1 => Outcome {
            obs: format!("printed {} bytes ==> same tree", t1.len()),
            oracle: "ok".into(),
        },
        _ => Outcome {
            obs: format!("printed {} bytes ==> same tree", t1.len()),
            oracle: "FAIL:second print differs from first".into(),
        },
    }
}

fn src_lexemes(text: &str) -> Vec<String> {
    let cs: Vec<char> = text.chars().collect();
    let mut out = Vec::new();
    let mut i = 0;
    let opch = |c: char| "<>=!&|+-*/%^:".contains(c);
    while i < cs.len() {
        let c = cs[i];
        if c.is_whitespace() {
            i += 1;
        } else if c.is_alphanumeric() || c == '_' || c == '.' {
            let st = i;
            while i < cs.len() && (cs[i].is_alphanumeric() || cs[i] == '_' || cs[i] == '.') {
                i += 1;
            }
            out.push(cs[st..i].iter().collect());
        } else if opch(c) {
            let st = i;
            while i < cs.len() && opch(cs[i]) {
                i += 1;
            }
            out.push(cs[st..i].iter().collect());
        } else {
            out.push(c.to_string());
            i += 1;
        }
    }
    out
}

/// delta debugging over lexemes, then canonical names / numbers; keeps the failure kind
fn shrink_source(text: &str, kind: &str) -> String {
    let mut toks = src_lexemes(text);
    let mut budget: i32 = 30000;
    let still = |t: &[String], budget: &mut i32| -> bool {
        *budget -= 1;
        fail_kind(&run_source(&t.join(" ")).oracle) == kind
    };
    if !still(&toks, &mut budget) {
        return text.trim().to_string();
    }
    let mut again = true;
    while again && budget > 0 {
        again = false;
        // chunks of decreasing size
        let mut n = (toks.len() / 2).max(1);
        loop {
            let mut i = 0;
            while i + n <= toks.len() && budget > 0 {
                let mut cand = toks.clone();
                cand.drain(i..i + n);
                if !cand.is_empty() && still(&cand, &mut budget) {
                    toks = cand;
                    again = true;
                } else {
                    i += 1;
                }
            }
            if n == 1 {
                break;
            }
            n /= 2;
        }
        // bracket groups: drop the pair of brackets, or the whole group
        let mut i = 0;
        while i < toks.len() && budget > 0 {
            let open = toks[i].as_str();
            let close = match open {
                "(" => ")",
                "{" => "}",
                "[" => "]",
                _ => {
                    i += 1;
                    continue;
                }
            };
            let mut depth = 0;
            let mut j = i;
            let mut found = None;
            while j < toks.len() {
                if toks[j] == open {
                    depth += 1;
                } else if toks[j] == close {
                    depth -= 1;
                    if depth == 0 {
                        found = Some(j);
                        break;
                    }
                }
                j += 1;
            }
            if let Some(j) = found {
                let mut cand = toks.clone();
                cand.drain(i..=j);
                if !cand.is_empty() && still(&cand, &mut budget) {
                    toks = cand;
                    again = true;
                    continue;
                }
                let mut cand = toks.clone();
                cand.remove(j);
                cand.remove(i);
                if still(&cand, &mut budget) {
                    toks = cand;
                    again = true;
                    continue;
                }
                // statement heads: `kw ( … )` in front of a statement
                if i > 0 {
                    let mut cand = toks.clone();
                    cand.drain(i - 1..=j);
                    if !cand.is_empty() && still(&cand, &mut budget) {
                        toks = cand;
                        again = true;
                        i -= 1;
                        continue;
                    }
                }
            }
            i += 1;
        }
    }
    for i in 0..toks.len() {
        let first = toks[i].chars().next().unwrap_or(' ');
        let repl = if first.is_ascii_digit() || first.is_alphabetic() || first == '_' {
            "a"
        } else {
            continue;
        };
        if toks[i] != repl && budget > 0 {
            let mut cand = toks.clone();
            cand[i] = repl.to_string();
            if still(&cand, &mut budget) {
                toks = cand;
            }
        }
    }
    toks.join(" ")
}

struct SrcGen {
    rng: Rng,
    kinds: Hist,
    /// write expression template arguments / sizeof operands of every form (`Foo<(n > 4 ? 1 : 2)> v;`, `g<(a, b)>(x)`)
    rich_targs: bool,
}

impl SrcGen {
    fn name(&mut self) -> &'static str {
        *self.rng.pick(&["a", "b", "c", "i", "n", "x", "y"])
    }
    fn ty(&mut self) -> String {
        let base = *self.rng.pick(&["float", "uint", "int", "float4", "float3x3", "S", "bool"]);
        let mut t = match self.rng.below(12) {
            0 if self.rich_targs && self.rng.chance(1, 2) => {
                self.kinds.add("type-with-expression-argument");
                // always behind a keyword modifier: a statement that starts `Foo<(y)> v[…]` is also an expression
                // (`Foo < (y) > v[…]`), which the parser answers as ambiguous — not what this stream is after
                let m = *self.rng.pick(&["const", "static", "precise", "static const"]);
                return match self.rng.below(3) {
                    0 => format!("{} Foo<({})>", m, self.targ_expr()),
                    1 => format!("{} Foo<({}), float>", m, self.targ_expr()),
                    _ => format!("{} Foo<vector<float, ({})>, ({})>", m, self.targ_expr(), self.targ_expr()),
                };
            }
            0 => format!("vector<{}, {}>", *self.rng.pick(&["float", "uint"]), 2 + self.rng.below(3)),
            1 => format!("matrix<float, {}, {}>", 2 + self.rng.below(3), 2 + self.rng.below(3)),
            2 => "T<S, 4>".to_string(),
            3 => "N::S".to_string(),
            _ => base.to_string(),
        };
        match self.rng.below(10) {
            0 => t = format!("const {}", t),
            1 => t = format!("static {}", t),
            2 => t = format!("static const {}", t),
            3 => t = format!("precise {}", t),
            4 => t = format!("row_major {}", t),
            5 => t = format!("{} const", t),
            6 if self.rng.chance(1, 3) => t = format!("{} volatile", t),
            _ => {}
        }
        t
    }
    fn expr(&mut self, d: u32) -> String {
        if d == 0 || self.rng.chance(1, 4) {
            return match self.rng.below(8) {
                0 => format!("{}", self.rng.below(100)),
                1 => format!("{}u", self.rng.below(100)),
                2 => format!("{}.5f", self.rng.below(10)),
                3 => "true".to_string(),
                4 => format!("{}.25", self.rng.below(10)),
                _ => self.name().to_string(),
            };
        }
        if self.rich_targs && self.rng.chance(1, 10) {
            self.kinds.add("expression-argument");
            return match self.rng.below(3) {
                0 => format!("g<({})>({})", self.targ_expr(), self.name()),
                1 => format!("sizeof(({}))", self.targ_expr()),
                _ => format!("g<float, ({})>()", self.targ_expr()),
            };
        }
        match self.rng.below(14) {
            0 => format!("{} + {}", self.expr(d - 1), self.expr(d - 1)),
            1 => format!("{} * ({} - {})", self.expr(d - 1), self.expr(d - 1), self.expr(d - 1)),
            2 => format!("{} < {}", self.expr(d - 1), self.expr(d - 1)),
            3 => format!("{} && !{}", self.expr(d - 1), self.name()),
            4 => format!("{}({}, {})", *self.rng.pick(&["f", "max", "dot"]), self.expr(d - 1), self.expr(d - 1)),
            5 => format!("{}.{}", self.name(), *self.rng.pick(&["x", "xyz", "m"])),
            6 => format!("{}[{}]", self.name(), self.expr(d - 1)),
            7 => format!("{} ? {} : {}", self.expr(d - 1), self.expr(d - 1), self.expr(d - 1)),
            8 => format!("-{}", self.expr(d - 1)),
            9 => format!("{}++", self.name()),
            10 => format!("({} = {})", self.name(), self.expr(d - 1)),
            11 => format!("{} >> {}", self.expr(d - 1), self.expr(d - 1)),
            12 => format!("{} == {}", self.expr(d - 1), self.expr(d - 1)),
            _ => format!("({}, {})", self.expr(d - 1), self.expr(d - 1)),
        }
    }
    /// the inside of a parenthesised template argument / sizeof operand: conditionals, relational and shift operators, comma,
    /// assignment — whatever the formatter has to keep in parentheses there — over ordinary expressions
    fn targ_expr(&mut self) -> String {
        let a = self.expr(1);
        let b = self.expr(1);
        let c = self.expr(1);
        match self.rng.below(12) {
            0 => format!("{} > {} ? {} : {}", a, b, c, self.name()),
            1 => format!("{} ? {} >> {} : {}", a, b, c, self.name()),
            2 => format!("{} ? {} : {} >= {}", a, b, c, self.name()),
            3 => format!("{} = {} ? {} > 1 : {}", self.name(), a, b, c),
            4 => format!("{}, {}", a, b),
            5 => format!("{} ? ({}, {}) : {}", a, b, c, self.name()),
            6 => format!("{} > {}", a, b),
            7 => format!("{} >>= {}", self.name(), a),
            8 => format!("{} < {}", a, b),
            9 => format!("{} >= {} && {} << {}", a, b, c, self.name()),
            10 => format!("{} ? {} : {}", a, b, c),
            _ => self.expr(2),
        }
    }
    fn init(&mut self, d: u32) -> String {
        match self.rng.below(6) {
            0 => format!("{{ {}, {} }}", self.expr(1), self.expr(1)),
            1 if d > 0 => format!("{{ {}, {} }}", self.init(d - 1), self.init(d - 1)),
            _ => self.expr(2),
        }
    }
    fn declarator(&mut self) -> String {
        let n = format!("v{}", self.rng.below(50));
        match self.rng.below(10) {
            0 => format!("{}[{}]", n, 1 + self.rng.below(4)),
            1 => format!("{}[{}][{}]", n, 1 + self.rng.below(4), 1 + self.rng.below(4)),
            2 => format!("{}[]", n),
            3 => format!("*{}", n),
            4 => format!("&{}", n),
            5 => format!("{}[{}]", n, self.expr(1)),
            6 if self.rng.chance(1, 3) => format!("* const {}", n),
            6 if self.rng.chance(1, 2) => format!("* const volatile * {}", n),
            6 => format!("{} [[vk::a({})]]", n, self.rng.below(9)),
            _ => n,
        }
    }
    fn decl(&mut self) -> String {
        self.kinds.add("decl");
        let mut s = format!("{} ", self.ty());
        let k = 1 + self.rng.below(3);
        for i in 0..k {
            if i > 0 {
                s.push_str(", ");
            }
            s.push_str(&self.declarator());
            if self.rng.chance(1, 2) {
                s.push_str(" = ");
                s.push_str(&self.init(1));
            }
        }
        s
    }
    fn stmt(&mut self, d: u32) -> String {
        let attr = match self.rng.below(12) {
            0 => "[unroll] ",
            1 => "[loop] ",
            2 => "[branch] ",
            3 => "[unroll(4)] ",
            _ => "",
        };
        let k = if d == 0 { self.rng.below(7) } else { self.rng.below(17) };
        match k {
            0 => {
                self.kinds.add("empty");
                ";".to_string()
            }
            1 | 2 => {
                self.kinds.add("expr");
                format!("{} = {};", self.name(), self.expr(2))
            }
            3 => format!("{};", self.decl()),
            4 => {
                self.kinds.add("return");
                if self.rng.chance(1, 3) { "return;".to_string() } else { format!("return {};", self.expr(2)) }
            }
            5 => {
                self.kinds.add("jump");
                self.rng.pick(&["break;", "continue;", "discard;"]).to_string()
            }
            6 => {
                self.kinds.add("call");
                format!("f({});", self.expr(1))
            }
            7 => {
                self.kinds.add("block");
                let n = self.rng.below(4);
                let body: Vec<String> = (0..n).map(|_| self.stmt(d - 1)).collect();
                format!("{{ {} }}", body.join(" "))
            }
            8 => {
                self.kinds.add("if");
                format!("{}if ({}) {}", attr, self.expr(2), self.stmt(d - 1))
            }
            9 | 10 => {
                self.kinds.add("ifelse");
                format!("{}if ({}) {} else {}", attr, self.expr(2), self.stmt(d - 1), self.stmt(d - 1))
            }
            11 | 12 => {
                self.kinds.add("for");
                let init = match self.rng.below(3) {
                    0 => String::new(),
                    1 => format!("{} = {}", self.name(), self.expr(1)),
                    _ => self.decl(),
                };
                let cond = if self.rng.chance(1, 4) { String::new() } else { self.expr(2) };
                let inc = if self.rng.chance(1, 4) { String::new() } else { format!("{}++", self.name()) };
                format!("{}for ({}; {}; {}) {}", attr, init, cond, inc, self.stmt(d - 1))
            }
            13 => {
                self.kinds.add("while");
                format!("{}while ({}) {}", attr, self.expr(2), self.stmt(d - 1))
            }
            14 => {
                self.kinds.add("dowhile");
                format!("do {} while ({});", self.stmt(d - 1), self.expr(2))
            }
            _ => {
                self.kinds.add("switch");
                let mut s = format!("switch ({}) {{ ", self.expr(1));
                for c in 0..1 + self.rng.below(3) {
                    s.push_str(&format!("case {}: {} ", c, self.stmt(d - 1)));
                    if self.rng.chance(1, 2) {
                        s.push_str("break; ");
                    }
                }
                if self.rng.chance(2, 3) {
                    s.push_str(&format!("default: {} ", self.stmt(d - 1)));
                }
                s.push('}');
                s
            }
        }
    }
    fn semantic(&mut self) -> &'static str {
        *self.rng.pick(&[
            "SV_DispatchThreadID", "SV_GroupID", "SV_GroupIndex", "SV_GroupThreadID", "SV_VertexID", "SV_InstanceID",
            "SV_PrimitiveID", "SV_Position", "SV_Target", "SV_Target3", "SV_Depth", "SV_DepthGreaterEqual",
            "SV_DepthLessEqual", "TEXCOORD0", "COLOR",
        ])
    }
    fn param(&mut self) -> String {
        let dir = *self.rng.pick(&["", "", "in ", "out ", "inout ", "const "]);
        let ty = *self.rng.pick(&["float", "uint", "float4", "S", "vector<float, 4>"]);
        let n = format!("p{}", self.rng.below(9));
        let decl = match self.rng.below(6) {
            0 => format!("{}[{}]", n, 1 + self.rng.below(4)),
            _ => n,
        };
        let mut p = format!("{}{} {}", dir, ty, decl);
        if self.rng.chance(1, 4) {
            p.push_str(&format!(" : {}", self.semantic()));
        }
        if dir != "out " && dir != "inout " && self.rng.chance(1, 5) {
            p.push_str(&format!(" = {}", self.expr(1)));
        }
        p
    }
    fn function(&mut self, name: &str, allow_attr: bool) -> String {
        self.kinds.add("function");
        let mut s = String::new();
        if self.rng.chance(1, 6) {
            s.push_str(*self.rng.pick(&["template<typename T> ", "template<typename T, uint N> ", "template<uint N> "]));
        } else if allow_attr && self.rng.chance(1, 4) {
            s.push_str(*self.rng.pick(&["[numthreads(8, 8, 1)] ", "[outputtopology(\"triangle\")] ", "[WaveSize(32)] "]));
        }
        let k = self.rng.below(4);
        let params: Vec<String> = (0..k).map(|_| self.param()).collect();
        let ret = *self.rng.pick(&["void", "float", "float4", "S", "inline float", "static inline uint"]);
        s.push_str(&format!("{} {}({})", ret, name, params.join(", ")));
        if self.rng.chance(1, 5) {
            s.push_str(&format!(" : {}", self.semantic()));
        }
        if self.rng.chance(1, 8) {
            s.push_str(";\n");
        } else {
            let n = self.rng.below(4);
            let body: Vec<String> = (0..n).map(|_| self.stmt(2)).collect();
            s.push_str(&format!(" {{ {} }}\n", body.join(" ")));
        }
        s
    }
    fn module(&mut self) -> String {
        let mut s = String::new();
        if self.rng.chance(1, 3) {
            s.push_str(&format!("static const {} g{} = {};\n", self.ty(), self.rng.below(9), self.init(1)));
        }
        if self.rng.chance(1, 6) {
            self.kinds.add("global-register");
            s.push_str(*self.rng.pick(&[
                "Texture2D<float4> g_t : register(t0);\n",
                "RWStructuredBuffer<S> g_u : register(u3, space1);\n",
                "SamplerState g_s : register(s1);\n",
                "ByteAddressBuffer g_b : register(space2);\n",
            ]));
        }
        if self.rng.chance(1, 6) {
            self.kinds.add("cbuffer");
            s.push_str(&format!(
                "cbuffer C{} : register(b{}) {{ float4 m0; uint m1[2], m2; {} m3; }}\n",
                self.rng.below(4),
                self.rng.below(4),
                *self.rng.pick(&["row_major float3x3", "float", "S"])
            ));
        }
        if self.rng.chance(1, 6) {
            self.kinds.add("enum");
            s.push_str(&format!("enum E{} {{ A, B = {}, C = A + 1, }};\n", self.rng.below(4), self.expr(1)));
        }
        if self.rng.chance(1, 4) {
            self.kinds.add("struct");
            let method = if self.rng.chance(1, 2) { self.function("m", false) } else { String::new() };
            s.push_str(&format!(
                "struct S {{ float x; uint y[2]; float4 z{}; {} {} }};\n",
                if self.rng.chance(1, 2) { " : TEXCOORD0" } else { "" },
                if self.rng.chance(1, 3) { "[[vk::offset(16)]] float w;" } else { "" },
                method
            ));
        }
        if self.rng.chance(1, 5) {
            // base types (printed since 2e907a1), with modifiers and template arguments
            self.kinds.add("struct-bases");
            let bases = match self.rng.below(4) {
                0 => "S".to_string(),
                1 => "S, B".to_string(),
                2 => format!("S, T<{}, float>", self.rng.below(8)),
                _ => format!("const S, N::B<({})>", self.expr(1)),
            };
            let method = if self.rng.chance(1, 3) { self.function("m", false) } else { String::new() };
            s.push_str(&format!("struct Q : {} {{ float q; {} }};\n", bases, method));
        }
        if self.rng.chance(1, 8) {
            self.kinds.add("struct-template");
            s.push_str("template<typename T> struct P : S { T a; T b[2]; };\n");
        }
        let f = self.function("f", true);
        if self.rng.chance(1, 6) {
            self.kinds.add("namespace");
            s.push_str(&format!("namespace N {{ {} }}\n", f));
        } else {
            s.push_str(&f);
        }
        let n = 1 + self.rng.below(4);
        let body: Vec<String> = (0..n).map(|_| self.stmt(3)).collect();
        let params = match self.rng.below(4) {
            0 => "",
            1 => "float a, in uint b",
            2 => "out float4 o, inout S s, float c[4]",
            _ => "const float a = 1.5f",
        };
        s.push_str(&format!("{} h({}) {{ {} }}\n", *self.rng.pick(&["void", "float", "float4"]), params, body.join(" ")));
        s
    }
}

/// cost estimate of reading the text the real formatter prints for the tree back: deepest nesting of `(` / `[` plus half
/// the number of `<` (0 when it does not print).  The
/// parser tries a cast and a parenthesised expression at every `(` and a template argument list at every `name <`, each
/// reading the inside again: its running time doubles with every level (a depth-6 random tree with a dozen levels takes
/// minutes, in the Lean model as well), so the random part of `template-args` keeps the nesting bounded.
fn printed_nesting(tree: &SExp) -> usize {
    let e = match de_expr(tree) {
        Some(e) => e,
        None => return 0,
    };
    let mut module = match lex_parse(Ctx::Ret.template()) {
        Ok(m) => m,
        Err(_) => return 0,
    };
    if put(&mut module, Ctx::Ret, e).is_none() {
        return 0;
    }
    let text = match guard(|| rssl_formatter::format(&module, rssl_formatter::Target::Hlsl)) {
        Ok(Ok(t)) => t,
        _ => return 0,
    };
    let (mut d, mut max, mut lts) = (0usize, 0usize, 0usize);
    for c in text.chars() {
        match c {
            '(' | '[' => {
                d += 1;
                max = max.max(d);
            }
            ')' | ']' => d = d.saturating_sub(1),
            '<' => lts += 1,
            _ => {}
        }
    }
    // every `<` (operator or bracket) starts a template argument attempt that reads the rest once more: count two of them
    // like one more level (seed 7, thorough: one tree with 6 levels and a dozen `<` took 591 s)
    max + lts / 2
}

/// per-tree time budget of the random `template-args` trees (milliseconds for one print + parse)
const TARG_PARSE_BUDGET_MS: u64 = 1500;

/// trial run: print the tree and read the text back on a helper thread; `false` when that does not finish within `ms`
/// (the helper thread is abandoned — it ends with the process)
fn reads_within_budget(tree: &SExp, ms: u64) -> bool {
    let e = match de_expr(tree) {
        Some(e) => e,
        None => return true,
    };
    let mut module = match lex_parse(Ctx::Ret.template()) {
        Ok(m) => m,
        Err(_) => return true,
    };
    if put(&mut module, Ctx::Ret, e).is_none() {
        return true;
    }
    let text = match guard(|| rssl_formatter::format(&module, rssl_formatter::Target::Hlsl)) {
        Ok(Ok(t)) => t,
        _ => return true,
    };
    let (tx, rx) = std::sync::mpsc::channel();
    let spawned = std::thread::Builder::new().stack_size(512 << 20).spawn(move || {
        let _ = guard(|| lex_parse(&text).is_ok());
        let _ = tx.send(());
    });
    if spawned.is_err() {
        return true;
    }
    rx.recv_timeout(std::time::Duration::from_millis(ms)).is_ok()
}

/// the shape of the known misreading `a < b … > (c)`: the tree has a `<` and a `>` operator, none of them inside an
/// expression-or-type position, and its text has a lone `>` directly in front of `(`
fn lt_gt_paren_shape(t: &SExp, text: &str) -> bool {
    fn eot_has_angle(t: &SExp, inside: bool) -> bool {
        match t {
            SExp::Atom(a) => inside && (a.contains("Less") || a.contains("Greater") || a.contains("Shift")),
            SExp::List(l) => {
                let here = inside || matches!(t.head(), Some("E") | Some("B") | Some("T"));
                l.iter().any(|x| eot_has_angle(x, here))
            }
        }
    }
    let s = t.show();
    if !(s.contains("(bin LessThan") && s.contains("(bin GreaterThan")) || eot_has_angle(t, false) {
        return false;
    }
    let b: Vec<char> = text.chars().collect();
    for i in 0..b.len() {
        if b[i] == '>' && (i == 0 || (b[i - 1] != '>' && b[i - 1] != '-')) {
            let mut j = i + 1;
            while j < b.len() && b[j] == ' ' {
                j += 1;
            }
            if j < b.len() && b[j] == '(' {
                return true;
            }
        }
    }
    false
}

fn run_request(line: &str, out: &mut Out, hist: &mut Stats) {
    if std::env::var_os("VERIF_C09_TRACE").is_some() {
        eprintln!("{}", line);
    }
    let f: Vec<&str> = line.split('\t').collect();
    match f.as_slice() {
        ["C09.rt", ctx, tree] => {
            let (c, t) = match (Ctx::parse(ctx), parse_sexp(tree)) {
                (Some(c), Some(t)) => (c, t),
                _ => {
                    out.case(line, "bad-request", "SKIP:bad request");
                    return;
                }
            };
            let mut o = run_tree(c, &t);
            hist.record(ctx, &t, &o);
            if o.oracle.starts_with("FAIL") {
                let kind = fail_kind(&o.oracle);
                let (mc, mt) = shrink(c, &t, &kind);
                let key = format!("{} {} {}", kind, mc.name(), mt.show());
                hist.classes.add(&key);
                // the known misreading `a < b … > (c)` => `a<b …>(c)` inside a tree that has template arguments elsewhere:
                // the *minimal* failing tree has no expression-or-type position at all and its text reads back with one
                let has_eot = |t: &str| t.contains("(E (") || t.contains("(B (") || t.contains("(T (");
                let mo = run_tree(mc, &mt);
                let invents = !has_eot(&mt.show())
                    && mo.obs.split(" ==> ").nth(1).map(|r| has_eot(r)).unwrap_or(false);
                // … or is rejected (`a < a & a > (Foo<a>)a`: the would-be argument list `(Foo<a>` does not parse): the minimal
                // tree still needs a `<` operator and a `>` operator printed directly in front of a `(`, and neither stands
                // in an expression-or-type position (there the formatter answers for them: not this class)
                let lt_gt_paren = lt_gt_paren_shape(&mt, mo.obs.split(" ==> ").next().unwrap_or(""));
                o.oracle = format!(
                    "{}{}{} min={}",
                    o.oracle,
                    if invents { " reread-invents-template-args" } else { "" },
                    if lt_gt_paren { " lt-gt-paren" } else { "" },
                    key
                );
            }
            out.case(line, &o.obs, &o.oracle);
        }
        ["C09.st", tree] => {
            let t = match parse_sexp(tree) {
                Some(t) => t,
                None => {
                    out.case(line, "bad-request", "SKIP:bad request");
                    return;
                }
            };
            let mut o = stmt::run_stmt(&t);
            hist.total += 1;
            hist.ctx.add("st");
            count_nodes(&t, &mut hist.nodes, &mut hist.ops);
            let k = if o.oracle == "ok" { "ok".to_string() } else { o.oracle.chars().take(48).collect() };
            hist.outcome.add(&k);
            if o.oracle.starts_with("FAIL") {
                let kind = fail_kind(&o.oracle);
                let min = stmt::shrink_stmt(&t, &kind);
                let key = format!("st {} {}", kind, min.show());
                hist.classes.add(&key);
                o.oracle = format!("{} min={}", o.oracle, key);
            }
            out.case(line, &o.obs, &o.oracle);
        }
        ["C09.def", tree] => {
            let t = match parse_sexp(tree) {
                Some(t) => t,
                None => {
                    out.case(line, "bad-request", "SKIP:bad request");
                    return;
                }
            };
            let mut o = stmt::run_def(&t);
            hist.total += 1;
            hist.ctx.add("def");
            count_nodes(&t, &mut hist.nodes, &mut hist.ops);
            let k = if o.oracle == "ok" { "ok".to_string() } else { o.oracle.chars().take(48).collect() };
            hist.outcome.add(&k);
            if o.oracle.starts_with("FAIL") {
                let kind = fail_kind(&o.oracle);
                let key = format!("def {} {}", kind, t.show());
                hist.classes.add(&key);
                o.oracle = format!("{} min={}", o.oracle, key);
            }
            out.case(line, &o.obs, &o.oracle);
        }
        ["C09.src", hexsrc] => {
            let text = match unhex(hexsrc).and_then(|b| String::from_utf8(b).ok()) {
                Some(t) => t,
                None => {
                    out.case(line, "bad-request", "SKIP:bad request");
                    return;
                }
            };
            let mut o = run_source(&text);
            hist.total += 1;
            hist.ctx.add("src");
            let k = if o.oracle == "ok" { "ok".to_string() } else { o.oracle.chars().take(48).collect() };
            hist.outcome.add(&k);
            if o.oracle.starts_with("FAIL") {
                // key: failure kind + the source line by line reduced to the first failing prefix is out of reach here;
                // the source text itself identifies the input
                let kind = fail_kind(&o.oracle);
                let min = shrink_source(&text, &kind);
                let key = format!("src {} {}", kind, min);
                hist.classes.add(&key);
                o.oracle = format!("{} min={}", o.oracle.split(" text=").next().unwrap_or(""), key);
            }
            out.case(line, &o.obs, &o.oracle);
        }
        _ => out.case(line, "bad-request", "SKIP:unknown op"),
    }
}

// ------------------------------------------------------------------------------------------ statistics
#[derive(Default)]
struct Stats {
    ctx: Hist,
    depth: Hist,
    size: Hist,
    nodes: Hist,
    ops: Hist,
    outcome: Hist,
    classes: Hist,
    parens: u64,
    trivial: u64,
    total: u64,
}

fn count_nodes(t: &SExp, nodes: &mut Hist, ops: &mut Hist) {
    if let SExp::List(l) = t {
        if let Some(h) = t.head() {
            nodes.add(h);
            if h == "un" || h == "bin" {
                if let Some(op) = l.get(1).and_then(|x| x.as_atom()) {
                    ops.add(op);
                }
            }
        }
        for x in l {
            count_nodes(x, nodes, ops);
        }
    }
}

impl Stats {
    fn record(&mut self, ctx: &str, t: &SExp, o: &Outcome) {
        self.total += 1;
        self.ctx.add(ctx);
        self.depth.add(&format!("{:02}", t.depth()));
        let sz = t.size();
        self.size.add(if sz <= 2 {
            "01-02"
        } else if sz <= 5 {
            "03-05"
        } else if sz <= 10 {
            "06-10"
        } else if sz <= 20 {
            "11-20"
        } else {
            "21+"
        });
        count_nodes(t, &mut self.nodes, &mut self.ops);
        if o.obs.contains('(') && o.obs.split(" ==> ").next().unwrap_or("").contains('(') {
            self.parens += 1;
        }
        if t.depth() <= 1 {
            self.trivial += 1;
        }
        let k = if o.oracle == "ok" {
            "ok".to_string()
        } else {
            o.oracle.chars().take(40).collect()
        };
        self.outcome.add(&k);
    }
    fn json(&self, stream: &str) -> String {
        format!(
            "{{\"stream\":{},\"cases\":{},\"leaf_only\":{},\"text_has_parens\":{},\"ctx\":{},\"depth\":{},\"size\":{},\"node_kinds\":{},\"operators\":{},\"outcomes\":{},\"minimal_failing_shapes\":{}}}",
            json_str(stream),
            self.total,
            self.trivial,
            self.parens,
            self.ctx.json(),
            self.depth.json(),
            self.size.json(),
            self.nodes.json(),
            self.ops.json(),
            self.outcome.json(),
            self.classes.json()
        )
    }
}

// ------------------------------------------------------------------------------------------ generators
fn leaves() -> Vec<SExp> {
    vec![
        parse_sexp("(id a)").unwrap(),
        parse_sexp("(id b)").unwrap(),
        parse_sexp("(lit i 3)").unwrap(),
    ]
}

/// operators used by the exhaustive stream: one per precedence level and the adjacency-sensitive ones
const EX_UN: [&str; 6] = ["Minus", "Plus", "PrefixDecrement", "PostfixIncrement", "LogicalNot", "AddressOf"];
const EX_BIN: [&str; 12] = [
    "Multiply", "Subtract", "LeftShift", "LessThan", "GreaterThan", "Equality", "BitwiseAnd", "BooleanOr",
    "Assignment", "RightShiftAssignment", "Sequence", "Add",
];

fn un(op: &str, e: SExp) -> SExp {
    SExp::list("un", vec![SExp::atom(op), e])
}
fn bin(op: &str, l: SExp, r: SExp) -> SExp {
    SExp::list("bin", vec![SExp::atom(op), l, r])
}

/// every tree of depth <= d over the exhaustive alphabet (depth 1 = leaves)
fn exhaustive(d: usize, full: bool) -> Vec<SExp> {
    if d <= 1 {
        return leaves();
    }
    let sub = exhaustive(d - 1, full);
    // children of the top node: all of depth d-1; to keep depth 3 tractable the right/extra operands range over
    // a thinner set
    let thin: Vec<SExp> = if d >= 3 && !full {
        sub.iter().filter(|t| t.depth() <= 1 || t.size() <= 2).cloned().collect()
    } else {
        sub.clone()
    };
    let mut out = sub.clone();
    for op in EX_UN {
        for x in &sub {
            out.push(un(op, x.clone()));
        }
    }
    for op in EX_BIN {
        for l in &sub {
            for r in &thin {
                out.push(bin(op, l.clone(), r.clone()));
                if l != r && !thin.contains(l) {
                    out.push(bin(op, r.clone(), l.clone()));
                }
            }
        }
    }
    for c in &sub {
        let a = &thin[0];
        let b = &thin[1 % thin.len()];
        out.push(SExp::list("tern", vec![c.clone(), a.clone(), b.clone()]));
        out.push(SExp::list("tern", vec![a.clone(), c.clone(), b.clone()]));
        out.push(SExp::list("tern", vec![a.clone(), b.clone(), c.clone()]));
        out.push(SExp::list("sub", vec![c.clone(), a.clone()]));
        out.push(SExp::list("sub", vec![a.clone(), c.clone()]));
        out.push(SExp::list("mem", vec![c.clone(), SExp::atom("m")]));
        out.push(SExp::list("call", vec![c.clone(), SExp::List(vec![]), SExp::List(vec![a.clone()])]));
        out.push(SExp::list("call", vec![a.clone(), SExp::List(vec![]), SExp::List(vec![c.clone(), b.clone()])]));
    }
    out
}

/// the expression-or-type positions (and the other positions with delimiters of their own that sit inside types) an
/// expression can be printed in: template argument of a call / of a type name (alone, first, after a type), `sizeof`
/// operand, template argument of a type that is itself a template argument (`>` `>` adjacent), array size of an abstract
/// declarator
const TARG_POSITIONS: usize = 9;
/// bound on the bracket nesting of the printed text of a random `template-args` tree (see `printed_nesting`)
const MAX_TARG_NESTING: usize = 7;
fn targ_position(e: &SExp, k: usize) -> SExp {
    let ea = SExp::list("E", vec![e.clone()]);
    let foo = |args: Vec<SExp>| {
        let mut v = vec![parse_sexp("(n Foo)").unwrap()];
        v.extend(args);
        SExp::list("tyt", v)
    };
    let x = parse_sexp("(id x)").unwrap();
    let g = parse_sexp("(id g)").unwrap();
    let four = parse_sexp("(E (lit i 4))").unwrap();
    let tfloat = parse_sexp("(T (ty float))").unwrap();
    match k % TARG_POSITIONS {
        0 => SExp::list("call", vec![g, SExp::List(vec![ea]), SExp::List(vec![x])]),
        1 => SExp::list("cast", vec![foo(vec![ea]), x]),
        2 => SExp::list("sizeof", vec![ea]),
        3 => SExp::list("call", vec![g, SExp::List(vec![tfloat, ea]), SExp::List(vec![])]),
        4 => SExp::list("cast", vec![foo(vec![ea, four]), x]),
        5 => SExp::list("call", vec![g, SExp::List(vec![SExp::list("T", vec![foo(vec![ea])])]), SExp::List(vec![x])]),
        6 => SExp::list("sizeof", vec![SExp::list("T", vec![foo(vec![four, ea])])]),
        7 => SExp::list("cast", vec![SExp::list("arr", vec![parse_sexp("(ty float)").unwrap(), e.clone()]), x]),
        _ => SExp::list("call", vec![g, SExp::List(vec![ea, tfloat]), SExp::List(vec![x.clone(), x])]),
    }
}

/// one node of every kind around `x` (the other operands are leaves): the alphabet of the systematic part of the
/// `template-args` stream
fn targ_wrappers(x: &SExp, all_ops: bool) -> Vec<SExp> {
    let a = parse_sexp("(id a)").unwrap();
    let b = parse_sexp("(lit i 3)").unwrap();
    let mut out = Vec::new();
    for op in ["Minus", "LogicalNot", "PostfixIncrement", "PrefixDecrement"] {
        out.push(un(op, x.clone()));
    }
    let some_ops = [
        "Multiply", "Add", "LeftShift", "RightShift", "LessThan", "GreaterThan", "GreaterEqual", "LessEqual", "Equality",
        "BitwiseAnd", "BooleanOr", "Assignment", "RightShiftAssignment", "Sequence",
    ];
    if all_ops {
        for (op, _) in BINOPS.iter() {
            out.push(bin(op, x.clone(), a.clone()));
            out.push(bin(op, a.clone(), x.clone()));
        }
    } else {
        for op in some_ops {
            out.push(bin(op, x.clone(), a.clone()));
            out.push(bin(op, a.clone(), x.clone()));
        }
    }
    out.push(SExp::list("tern", vec![x.clone(), a.clone(), b.clone()]));
    out.push(SExp::list("tern", vec![a.clone(), x.clone(), b.clone()]));
    out.push(SExp::list("tern", vec![a.clone(), b.clone(), x.clone()]));
    out.push(SExp::list("sub", vec![x.clone(), a.clone()]));
    out.push(SExp::list("sub", vec![a.clone(), x.clone()]));
    out.push(SExp::list("mem", vec![x.clone(), SExp::atom("m")]));
    out.push(SExp::list("call", vec![x.clone(), SExp::List(vec![]), SExp::List(vec![a.clone()])]));
    out.push(SExp::list("call", vec![a.clone(), SExp::List(vec![]), SExp::List(vec![x.clone()])]));
    out.push(SExp::list("call", vec![a.clone(), SExp::List(vec![]), SExp::List(vec![x.clone(), b.clone()])]));
    out.push(targ_position(x, 0));
    out.push(targ_position(x, 5));
    out.push(SExp::list("cast", vec![parse_sexp("(ty S)").unwrap(), x.clone()]));
    out.push(targ_position(x, 1));
    out.push(targ_position(x, 2));
    out
}

/// systematic trees for the `template-args` stream: every node kind over every node kind (depth 3: all 30 binary
/// operators at the inner node), and depth 4 where the middle node is a conditional / assignment / comma / cast / minus
fn targ_catalogue(full: bool) -> Vec<SExp> {
    let leaf = parse_sexp("(id b)").unwrap();
    let d2 = targ_wrappers(&leaf, true);
    let mut out = vec![leaf.clone(), parse_sexp("(lit i 3)").unwrap()];
    out.extend(d2.iter().cloned());
    let mut d3 = Vec::new();
    for x in &d2 {
        d3.extend(targ_wrappers(x, full));
    }
    out.extend(d3.iter().cloned());
    // depth 4: the operators that print their operands bare at the loosest levels around every depth-3 tree whose top is a
    // conditional, an assignment or a comma (thorough: around every depth-3 tree)
    for y in &d3 {
        let top_loose = match y.head() {
            Some("tern") => true,
            Some("bin") => matches!(y.args()[0].as_atom(), Some("Assignment") | Some("Sequence") | Some("RightShiftAssignment")),
            _ => false,
        };
        if !(full || top_loose) {
            continue;
        }
        let a = parse_sexp("(id a)").unwrap();
        let c = parse_sexp("(id c)").unwrap();
        out.push(bin("Assignment", a.clone(), y.clone()));
        out.push(bin("Sequence", y.clone(), a.clone()));
        out.push(bin("Sequence", a.clone(), y.clone()));
        out.push(SExp::list("tern", vec![y.clone(), a.clone(), c.clone()]));
        out.push(SExp::list("tern", vec![a.clone(), y.clone(), c.clone()]));
        out.push(SExp::list("tern", vec![a.clone(), c.clone(), y.clone()]));
        out.push(un("Minus", y.clone()));
        out.push(SExp::list("cast", vec![parse_sexp("(ty S)").unwrap(), y.clone()]));
    }
    out
}

struct Gen {
    rng: Rng,
}

impl Gen {
    fn leaf(&mut self) -> SExp {
        let r = self.rng.below(100);
        if r < 45 {
            let n = *self.rng.pick(&["a", "b", "c", "x", "y", "p", "q"]);
            SExp::list("id", vec![SExp::atom(n)])
        } else if r < 50 {
            parse_sexp("(id N v)").unwrap()
        } else if r < 53 {
            parse_sexp("(id :: a)").unwrap()
        } else {
            self.literal(false)
        }
    }

    fn literal(&mut self, extreme: bool) -> SExp {
        let k = self.rng.below(if extreme { 14 } else { 10 });
        let s = match k {
            0 | 1 | 2 => format!("(lit i {})", self.rng.below(100)),
            3 => format!("(lit u {})", self.rng.below(100)),
            4 => format!("(lit b {})", self.rng.below(2)),
            5 => format!("(lit f32 0x{:08x})", (self.rng.below(64) as f32 * 0.25).to_bits()),
            6 => format!("(lit f 0x{:016x})", (self.rng.below(64) as f64 * 0.5).to_bits()),
            7 => format!("(lit ul {})", self.rng.below(1000)),
            8 => format!("(lit l {})", self.rng.below(1000)),
            9 => format!("(lit h 0x{:08x})", (self.rng.below(16) as f32 * 0.5).to_bits()),
            10 => format!("(lit l {})", -(self.rng.below(1000) as i64) - 1),
            11 => format!("(lit f32 0x{:08x})", (-(self.rng.below(64) as f32) * 0.25 - 0.25).to_bits()),
            12 => format!("(lit f 0x{:016x})", (-(self.rng.below(64) as f64) * 0.5 - 0.5).to_bits()),
            _ => format!("(lit f64 0x{:016x})", (self.rng.below(64) as f64 * 0.125).to_bits()),
        };
        parse_sexp(&s).unwrap()
    }

    fn type_id(&mut self) -> SExp {
        let n = *self.rng.pick(&["float", "uint", "T", "float4", "S"]);
        let mut t = SExp::list("ty", vec![SExp::atom(n)]);
        if self.rng.chance(1, 8) {
            t = SExp::list("const", vec![t]);
        }
        t
    }

    /// bits of a finite double: random patterns, subnormals, extremes, neighbours of powers of two and of ten, values whose
    /// shortest decimal form has 15-17 significant digits, long digit strings (stream `random-literals`)
    fn f64_bits(&mut self) -> u64 {
        let r = self.rng.below(100);
        let mut bits: u64 = if r < 20 {
            self.rng.next() & 0x7fff_ffff_ffff_ffff
        } else if r < 26 {
            self.rng.next() & 0x000f_ffff_ffff_ffff // subnormal
        } else if r < 30 {
            *self.rng.pick(&[0x7fef_ffff_ffff_ffffu64, 0x0010_0000_0000_0000, 1, 0x7ff0_0000_0000_0000, 0x000f_ffff_ffff_ffff])
        } else if r < 42 {
            // 2^k and its neighbours
            let k = self.rng.below(2046) + 1;
            let b = k << 52;
            b.wrapping_add(self.rng.below(5)).wrapping_sub(2)
        } else if r < 54 {
            // 10^k and its neighbours
            let k = self.rng.below(617) as i32 - 308;
            let v: f64 = format!("1e{}", k).parse().unwrap_or(1.0);
            v.to_bits().wrapping_add(self.rng.below(5)).wrapping_sub(2)
        } else if r < 80 {
            // a decimal with 15-19 significant digits and a small scale: d.ddd… * 10^e
            let nd = 15 + self.rng.below(5);
            let mut digits = String::new();
            digits.push((b'1' + self.rng.below(9) as u8) as char);
            digits.push('.');
            for _ in 1..nd {
                digits.push((b'0' + self.rng.below(10) as u8) as char);
            }
            let e = self.rng.below(25) as i32 - 4;
            let v: f64 = format!("{}e{}", digits, e).parse().unwrap_or(1.0);
            v.to_bits()
        } else {
            // uniform in [0, 10^k)
            let k = *self.rng.pick(&[1.0f64, 10.0, 1000.0, 1.0e6, 1.0e15, 1.0e17]);
            let u = (self.rng.next() >> 11) as f64 / (1u64 << 53) as f64;
            (u * k).to_bits()
        };
        if (bits >> 52) & 0x7ff == 0x7ff && bits & 0x000f_ffff_ffff_ffff != 0 {
            bits &= 0xfff0_0000_0000_0000; // no NaN here (own corpus lines): infinity instead
        }
        bits & 0x7fff_ffff_ffff_ffff
    }

    fn f32_bits(&mut self) -> u32 {
        let r = self.rng.below(100);
        let mut bits: u32 = if r < 30 {
            (self.rng.next() as u32) & 0x7fff_ffff
        } else if r < 38 {
            (self.rng.next() as u32) & 0x007f_ffff
        } else if r < 44 {
            // (0x15ae43fd: the one single whose shortest digits, read through a double, name its neighbour — printed
            // with the digits of the double since 265a080; with both neighbours)
            *self.rng.pick(&[0x7f7f_ffffu32, 0x0080_0000, 1, 0x7f80_0000, 0x007f_ffff, 0x15ae_43fd, 0x15ae_43fc, 0x15ae_43fe])
        } else if r < 58 {
            let k = (self.rng.below(254) + 1) as u32;
            (k << 23).wrapping_add(self.rng.below(5) as u32).wrapping_sub(2)
        } else if r < 72 {
            let k = self.rng.below(77) as i32 - 38;
            let v: f32 = format!("1e{}", k).parse().unwrap_or(1.0);
            v.to_bits().wrapping_add(self.rng.below(5) as u32).wrapping_sub(2)
        } else if r < 88 {
            let nd = 6 + self.rng.below(5);
            let mut digits = String::new();
            digits.push((b'1' + self.rng.below(9) as u8) as char);
            digits.push('.');
            for _ in 1..nd {
                digits.push((b'0' + self.rng.below(10) as u8) as char);
            }
            let e = self.rng.below(20) as i32 - 6;
            let v: f32 = format!("{}e{}", digits, e).parse().unwrap_or(1.0);
            v.to_bits()
        } else {
            let k = *self.rng.pick(&[1.0f32, 10.0, 1000.0, 1.0e6]);
            let u = (self.rng.next() >> 40) as f32 / (1u64 << 24) as f32;
            (u * k).to_bits()
        };
        if (bits >> 23) & 0xff == 0xff && bits & 0x007f_ffff != 0 {
            bits &= 0xff80_0000;
        }
        bits & 0x7fff_ffff
    }

    /// a literal of any kind drawn from the whole value range (sign bit set in about one case of eight: a negative
    /// literal reads back as a unary minus — known finding; its grouping under postfix constructs is repaired, e7611e2)
    fn wide_literal(&mut self) -> SExp {
        let neg = self.rng.chance(1, 8);
        let int_mag = |g: &mut Gen, max_bits: u64| -> u64 {
            let nb = 1 + g.rng.below(max_bits);
            let v = g.rng.next() >> (64 - nb);
            match g.rng.below(6) {
                0 => (1u64 << (nb - 1)).wrapping_sub(1),
                1 => 1u64 << (nb - 1),
                2 => {
                    let p = 10u64.checked_pow(g.rng.below(20) as u32).unwrap_or(1);
                    let w = p.wrapping_add(g.rng.below(3)).wrapping_sub(1);
                    if max_bits < 64 { w & ((1u64 << max_bits) - 1) } else { w }
                }
                _ => v,
            }
        };
        let s = match self.rng.below(9) {
            0 => format!("(lit i {})", int_mag(self, 64)),
            1 => format!("(lit u {})", int_mag(self, 32) & 0xffff_ffff),
            2 => format!("(lit ul {})", int_mag(self, 64)),
            3 => {
                let m = int_mag(self, 63) & 0x7fff_ffff_ffff_ffff;
                format!("(lit l {}{})", if neg && m != 0 { "-" } else { "" }, m)
            }
            4 | 5 => format!("(lit f 0x{:016x})", self.f64_bits() | if neg { 1 << 63 } else { 0 }),
            6 => format!("(lit f64 0x{:016x})", self.f64_bits() | if neg { 1 << 63 } else { 0 }),
            7 => format!("(lit f32 0x{:08x})", self.f32_bits() | if neg { 1 << 31 } else { 0 }),
            _ => format!("(lit h 0x{:08x})", self.f32_bits() | if neg { 1 << 31 } else { 0 }),
        };
        parse_sexp(&s).unwrap()
    }

    /// a type id with template arguments, modifiers and an abstract declarator (stream `random-types`)
    fn rich_type(&mut self, d: usize) -> SExp {
        let n = *self.rng.pick(&["float", "uint", "T", "S", "N::S", "vector"]);
        let mut t = if d > 0 && self.rng.chance(1, 2) {
            let mut v = vec![SExp::list("n", n.split("::").map(SExp::atom).collect())];
            for _ in 0..1 + self.rng.below(2) {
                v.push(self.rich_eot(d - 1));
            }
            SExp::list("tyt", v)
        } else {
            SExp::list("ty", n.split("::").map(SExp::atom).collect())
        };
        for _ in 0..self.rng.below(3) {
            if self.rng.chance(1, 3) {
                let m = MODIFIERS[self.rng.below(MODIFIERS.len() as u64) as usize].0;
                t = SExp::list(m, vec![t]);
            }
        }
        match self.rng.below(12) {
            0 => t = SExp::list("ptr", vec![t]),
            1 => t = SExp::list("ref", vec![t]),
            2 => t = SExp::list("arr", vec![t, self.leaf()]),
            3 => t = SExp::list("arr", vec![t]),
            4 => t = SExp::list("ptr", vec![SExp::list("ptr", vec![t])]),
            5 => t = SExp::list("arr", vec![SExp::list("arr", vec![t, self.leaf()]), self.leaf()]),
            // not generated: a reference to a reference (prints `&&`, one token) and pointer / array mixes in an
            // abstract declarator (`T*[n]` reads `[n]` as an attribute, `T (*)[n]` has no production): neither the
            // parser nor an exporter builds them
            6 if self.rng.chance(1, 2) => t = SExp::list("ref", vec![SExp::list("ptr", vec![t])]),
            6 => t = SExp::list("ptr", vec![SExp::list("ref", vec![t])]),
            _ => {}
        }
        t
    }

    fn rich_eot(&mut self, d: usize) -> SExp {
        match self.rng.below(4) {
            0 => SExp::list("T", vec![self.rich_type(d)]),
            1 => {
                let n = *self.rng.pick(&["T", "U", "float"]);
                SExp::list("B", vec![SExp::list("id", vec![SExp::atom(n)]), SExp::list("ty", vec![SExp::atom(n)])])
            }
            2 => SExp::list("E", vec![self.literal(false)]),
            _ => SExp::list("E", vec![self.expr(d.min(2), false)]),
        }
    }

    /// expression trees around casts / sizeof / template calls with rich types
    fn typed_expr(&mut self, d: usize) -> SExp {
        if d <= 1 {
            return self.leaf();
        }
        match self.rng.below(10) {
            0 | 1 | 2 => {
                let t = self.rich_type(d - 1);
                SExp::list("cast", vec![t, self.typed_expr(d - 1)])
            }
            3 => SExp::list("sizeof", vec![self.rich_eot(d - 1)]),
            4 | 5 => {
                let f = SExp::list("id", vec![SExp::atom(*self.rng.pick(&["f", "g", "T"]))]);
                let mut targs = Vec::new();
                for _ in 0..1 + self.rng.below(2) {
                    targs.push(self.rich_eot(d - 1));
                }
                let mut args = Vec::new();
                for _ in 0..self.rng.below(3) {
                    args.push(self.typed_expr(d - 1));
                }
                SExp::list("call", vec![f, SExp::List(targs), SExp::List(args)])
            }
            6 => {
                let op = UNOPS[self.rng.below(10) as usize].0;
                un(op, self.typed_expr(d - 1))
            }
            7 | 8 => {
                let op = BINOPS[self.rng.below(30) as usize].0;
                let l = self.typed_expr(d - 1);
                let r = self.typed_expr(d - 1);
                bin(op, l, r)
            }
            _ => {
                let o = self.typed_expr(d - 1);
                match self.rng.below(3) {
                    0 => SExp::list("mem", vec![o, SExp::atom("m")]),
                    1 => SExp::list("sub", vec![o, self.typed_expr(d - 1)]),
                    _ => SExp::list("call", vec![o, SExp::List(vec![]), SExp::List(vec![self.typed_expr(d - 1)])]),
                }
            }
        }
    }

    fn eot(&mut self, d: usize) -> SExp {
        match self.rng.below(3) {
            0 => SExp::list("T", vec![self.type_id()]),
            1 => {
                let n = *self.rng.pick(&["T", "U", "float"]);
                SExp::list(
                    "B",
                    vec![
                        SExp::list("id", vec![SExp::atom(n)]),
                        SExp::list("ty", vec![SExp::atom(n)]),
                    ],
                )
            }
            _ => {
                // every operator: since e8e0be6 the shift operators and everything that binds less tightly (`<`, `>`, `,`,
                // `?:` …) are printed in parentheses in an expression-or-type position
                let e = self.expr(d.min(2), false);
                SExp::list("E", vec![e])
            }
        }
    }

    /// stream `template-args`: an expression of any form for an expression-or-type position.  Like `expr(d, false)` with
    /// the weights moved towards what matters inside `<` … `>`: conditionals, the operators `<` `>` `>=` `>>` `>>=` `<=`
    /// `<<`, comma, assignments — and with casts (also to types with template arguments), `sizeof` and template calls
    /// (nested expression-or-type positions) at every depth.  Names used as types (`Foo`, `S`, `vector`, `float`) and as
    /// values (`a b c n x`) are disjoint, so no argument starts like a type.
    fn targ_expr(&mut self, d: usize) -> SExp {
        if d <= 1 || self.rng.chance(1, 8) {
            return match self.rng.below(10) {
                0 | 1 | 2 => parse_sexp(&format!("(lit i {})", self.rng.below(9))).unwrap(),
                3 => parse_sexp("(lit u 4)").unwrap(),
                4 => parse_sexp("(lit b 1)").unwrap(),
                5 => parse_sexp("(id N v)").unwrap(),
                _ => SExp::list("id", vec![SExp::atom(*self.rng.pick(&["a", "b", "c", "n", "x"]))]),
            };
        }
        let r = self.rng.below(100);
        if r < 10 {
            let op = UNOPS[self.rng.below(10) as usize].0;
            un(op, self.targ_expr(d - 1))
        } else if r < 30 {
            let op = *self.rng.pick(&[
                "LessThan", "GreaterThan", "GreaterEqual", "RightShift", "RightShiftAssignment", "Sequence", "LessEqual",
                "LeftShift", "LeftShiftAssignment", "Assignment",
            ]);
            let l = self.targ_expr(d - 1);
            let r = self.targ_expr(d - 1);
            bin(op, l, r)
        } else if r < 45 {
            let op = BINOPS[self.rng.below(30) as usize].0;
            let l = self.targ_expr(d - 1);
            let r = self.targ_expr(d - 1);
            bin(op, l, r)
        } else if r < 65 {
            let c = self.targ_expr(d - 1);
            let a = self.targ_expr(d - 1);
            let b = self.targ_expr(d - 1);
            SExp::list("tern", vec![c, a, b])
        } else if r < 70 {
            let o = self.targ_expr(d - 1);
            let i = self.targ_expr(d - 1);
            SExp::list("sub", vec![o, i])
        } else if r < 74 {
            let o = self.targ_expr(d - 1);
            SExp::list("mem", vec![o, SExp::atom("m")])
        } else if r < 80 {
            let f = if self.rng.chance(1, 2) { parse_sexp("(id f)").unwrap() } else { self.targ_expr(d - 1) };
            let mut args = Vec::new();
            for _ in 0..self.rng.below(3) {
                args.push(self.targ_expr(d - 1));
            }
            SExp::list("call", vec![f, SExp::List(vec![]), SExp::List(args)])
        } else if r < 88 {
            let x = self.targ_expr(d - 1);
            let k = self.rng.below(TARG_POSITIONS as u64) as usize;
            targ_position(&x, k)
        } else if r < 94 {
            let t = if self.rng.chance(1, 2) {
                SExp::list("ty", vec![SExp::atom(*self.rng.pick(&["float", "S", "Foo"]))])
            } else {
                SExp::list("tyt", vec![parse_sexp("(n Foo)").unwrap(), SExp::list("E", vec![self.targ_expr(d - 1)])])
            };
            SExp::list("cast", vec![t, self.targ_expr(d - 1)])
        } else {
            SExp::list("sizeof", vec![SExp::list("E", vec![self.targ_expr(d - 1)])])
        }
    }

    /// random tree of depth <= d; `exotic` enables exporter-only shapes
    fn expr(&mut self, d: usize, exotic: bool) -> SExp {
        if d <= 1 || self.rng.chance(1, 7) {
            return if exotic && self.rng.chance(1, 6) {
                self.literal(true)
            } else {
                self.leaf()
            };
        }
        let r = self.rng.below(100);
        if r < 22 {
            let op = UNOPS[self.rng.below(10) as usize].0;
            un(op, self.expr(d - 1, exotic))
        } else if r < 62 {
            let op = BINOPS[self.rng.below(30) as usize].0;
            let l = self.expr(d - 1, exotic);
            let r = self.expr(d - 1, exotic);
            bin(op, l, r)
        } else if r < 72 {
            let c = self.expr(d - 1, exotic);
            let a = self.expr(d - 1, exotic);
            let b = self.expr(d - 1, exotic);
            SExp::list("tern", vec![c, a, b])
        } else if r < 79 {
            let o = self.expr(d - 1, exotic);
            let i = self.expr(d - 1, exotic);
            SExp::list("sub", vec![o, i])
        } else if r < 86 {
            let o = self.expr(d - 1, exotic);
            let n = *self.rng.pick(&["m", "x", "rrr"]);
            SExp::list("mem", vec![o, SExp::atom(n)])
        } else if r < 94 || !exotic {
            let f = self.expr(d - 1, exotic);
            let n = self.rng.below(4);
            let mut args = Vec::new();
            for _ in 0..n {
                args.push(self.expr(d - 1, exotic));
            }
            let mut targs = Vec::new();
            if exotic && self.rng.chance(1, 4) {
                for _ in 0..1 + self.rng.below(2) {
                    targs.push(self.eot(d - 1));
                }
            }
            SExp::list("call", vec![f, SExp::List(targs), SExp::List(args)])
        } else if r < 97 {
            let t = self.type_id();
            SExp::list("cast", vec![t, self.expr(d - 1, exotic)])
        } else if r < 99 {
            SExp::list("sizeof", vec![self.eot(d - 1)])
        } else {
            let t = self.type_id();
            let mut v = vec![t];
            for _ in 0..self.rng.below(3) {
                v.push(self.expr(d - 1, exotic));
            }
            SExp::list("binit", v)
        }
    }
}

pub fn run(args: &Args, out: &mut Out) {
    if let Some(lines) = args.request_lines() {
        let mut st = Stats::default();
        for l in lines {
            run_request(&l, out, &mut st);
        }
        out.stat(&st.json("requests"));
        return;
    }
    let thorough = args.thorough();
    // stream 1: exhaustive small trees in the `return e;` context
    let mut st = Stats::default();
    let depth = 3;
    for t in exhaustive(depth, thorough) {
        let line = format!("C09.rt\tret\t{}", t.show());
        run_request(&line, out, &mut st);
    }
    out.stat(&st.json("exhaustive-depth-3"));
    // stream 2: random trees inside the model's subset, all contexts
    let mut g = Gen {
        rng: Rng::new(args.seed),
    };
    let n = args.n.unwrap_or(if thorough { 60000 } else { 4000 });
    let mut st = Stats::default();
    for i in 0..n {
        let d = 2 + (i % 5) as usize;
        let t = g.expr(d, false);
        let ctx = *g.rng.pick(&["ret", "ret", "ret", "arg", "idx", "init", "stmt"]);
        let line = format!("C09.rt\t{}\t{}", ctx, t.show());
        run_request(&line, out, &mut st);
    }
    out.stat(&st.json("random-core"));
    // stream 3: random trees with exporter-only shapes
    let mut st = Stats::default();
    for i in 0..n / 2 {
        let d = 2 + (i % 5) as usize;
        let t = g.expr(d, true);
        let ctx = *g.rng.pick(&["ret", "ret", "arg", "idx", "init", "stmt"]);
        let line = format!("C09.rt\t{}\t{}", ctx, t.show());
        run_request(&line, out, &mut st);
    }
    out.stat(&st.json("random-exotic"));
    // stream 3b: casts, sizeof and template calls over types with template arguments, modifiers and declarators
    let mut st = Stats::default();
    for i in 0..n / 2 {
        let d = 2 + (i % 4) as usize;
        let t = g.typed_expr(d);
        let ctx = *g.rng.pick(&["ret", "ret", "arg", "idx", "init", "stmt"]);
        let line = format!("C09.rt\t{}\t{}", ctx, t.show());
        run_request(&line, out, &mut st);
    }
    out.stat(&st.json("random-types"));
    // stream 3b': every expression form in every expression-or-type position (closes seeded mutant C09-6): the
    // systematic catalogue in the three main positions and, rotating, the other six; then random deeper trees
    let mut st = Stats::default();
    let cat = targ_catalogue(thorough);
    for (i, e) in cat.iter().enumerate() {
        for k in [0usize, 1, 2, 3 + i % 6] {
            let t = targ_position(e, k);
            let line = format!("C09.rt\tret\t{}", t.show());
            run_request(&line, out, &mut st);
        }
    }
    let mut dropped_slow = 0u64;
    for i in 0..(if thorough { 30000 } else { 3000 }) {
        let d = 3 + (i % 4) as usize;
        let mut t;
        let mut tries = 0;
        loop {
            let e = g.targ_expr(d);
            t = targ_position(&e, g.rng.below(TARG_POSITIONS as u64) as usize);
            if g.rng.chance(1, 3) {
                // not at the root: below an assignment, a conditional, a comma, a subscript …
                let ws = targ_wrappers(&t, false);
                t = ws[g.rng.below(ws.len() as u64) as usize].clone();
            }
            tries += 1;
            if printed_nesting(&t) <= MAX_TARG_NESTING || tries >= 50 {
                break;
            }
        }
        if printed_nesting(&t) > MAX_TARG_NESTING {
            continue;
        }
        // hard budget: the printed text must read back within TARG_PARSE_BUDGET_MS in a trial run, or the tree is never
        // emitted as a request (so neither this harness nor the model ever meets a tree that takes minutes)
        if !reads_within_budget(&t, TARG_PARSE_BUDGET_MS) {
            dropped_slow += 1;
            continue;
        }
        if std::env::var_os("VERIF_C09_TRACE").is_some() {
            eprintln!("nesting {}", printed_nesting(&t));
        }
        let ctx = *g.rng.pick(&["ret", "ret", "arg", "idx", "init", "stmt"]);
        let line = format!("C09.rt\t{}\t{}", ctx, t.show());
        run_request(&line, out, &mut st);
    }
    out.stat(&st.json("template-args"));
    out.stat(&format!("{{\"stream\":\"template-args-budget\",\"dropped_over_parse_budget\":{}}}", dropped_slow));
    // stream 3b'': the known template misreading in argument lists, deliberately (not left to the seed): two or more
    // entries of a call argument list / a comma expression in a subscript, an earlier one with a bare `<`, a later one with
    // a bare `>` in front of `(` — `f(a < b, c > (d & e))` reads back as `f<b, c>(d & e)`-like with another argument count
    // (known finding, class key `tree-differs[list-length] …`); and the neighbours that must read back: the `>` operand
    // not parenthesised, the `<` entry parenthesised, `<=` / `<<` instead of `<`, `>=` / `>>` instead of `>`
    let mut st = Stats::default();
    {
        let a = || parse_sexp("(id a)").unwrap();
        let b = || parse_sexp("(id b)").unwrap();
        let lts = ["LessThan", "LessEqual", "LeftShift"];
        let gts = ["GreaterThan", "GreaterEqual", "RightShift"];
        let rights = [
            "(bin BitwiseAnd (id c) (id d))",
            "(cast (ty S) (id d))",
            "(tern (id c) (id d) (id e))",
            "(id d)",
            "(call (id d) () ())",
            "(un PostfixIncrement (un PrefixIncrement (id d)))",
        ];
        for lt in lts {
            for gt in gts {
                for r in rights {
                    let l = bin(lt, a(), b());
                    let g2 = bin(gt, parse_sexp("(id c)").unwrap(), parse_sexp(r).unwrap());
                    let lists: Vec<Vec<SExp>> = vec![
                        vec![l.clone(), g2.clone()],
                        vec![l.clone(), parse_sexp("(lit i 3)").unwrap(), g2.clone()],
                        vec![bin("Add", a(), l.clone()), g2.clone()],
                        vec![un("LogicalNot", l.clone()), g2.clone()],
                        vec![g2.clone(), l.clone()],
                    ];
                    for args in lists {
                        let t = SExp::list("call", vec![parse_sexp("(id f)").unwrap(), SExp::List(vec![]), SExp::List(args.clone())]);
                        run_request(&format!("C09.rt\tret\t{}", t.show()), out, &mut st);
                        // the same entries as a comma expression in a subscript and in a statement
                        let mut seq = args[0].clone();
                        for x in &args[1..] {
                            seq = bin("Sequence", seq, x.clone());
                        }
                        let t = SExp::list("sub", vec![parse_sexp("(id v)").unwrap(), seq.clone()]);
                        run_request(&format!("C09.rt\tret\t{}", t.show()), out, &mut st);
                        run_request(&format!("C09.rt\tstmt\t{}", seq.show()), out, &mut st);
                    }
                }
            }
        }
    }
    out.stat(&st.json("lt-gt-lists"));
    // stream 3c: literals of every kind over the whole value range ("every literal reads back with the same value and type")
    let mut st = Stats::default();
    for i in 0..(if thorough { 60000 } else { 6000 }) {
        let l = g.wide_literal();
        // alone, and as an operand (adjacency with operators and member access)
        let t = match i % 6 {
            0 => bin("Subtract", SExp::list("id", vec![SExp::atom("a")]), l),
            1 => un("Minus", l),
            _ => l,
        };
        let line = format!("C09.rt\tret\t{}", t.show());
        run_request(&line, out, &mut st);
    }
    out.stat(&st.json("random-literals"));
    // stream 4: parser-produced trees of whole modules: statements, declarators, types, initialisers, attributes
    let mut sg = SrcGen {
        rng: g.rng.fork(),
        kinds: Hist::default(),
        rich_targs: true,
    };
    let mut st = Stats::default();
    for _ in 0..(if thorough { 20000 } else { 1500 }) {
        let text = sg.module();
        let line = format!("C09.src\t{}", hex(text.as_bytes()));
        run_request(&line, out, &mut st);
    }
    // stream 5: the statements of such programs as trees (ambiguous declaration/expression nodes resolved), which the
    // model prints and reads back as well
    let mut sg2 = SrcGen {
        rng: g.rng.fork(),
        kinds: Hist::default(),
        rich_targs: true,
    };
    let mut st5 = Stats::default();
    let want = if thorough { 40000 } else { 3000 };
    let mut made = 0;
    while made < want {
        let text = sg2.module();
        for t in stmt::statements_of(&text) {
            let line = format!("C09.st\t{}", t.show());
            run_request(&line, out, &mut st5);
            made += 1;
        }
    }
    out.stat(&st5.json("statement-trees"));
    // stream 6: function and struct definitions of such programs as trees
    let mut st6 = Stats::default();
    let want = if thorough { 20000 } else { 2000 };
    let mut made = 0;
    while made < want {
        let text = sg2.module();
        for t in stmt::defs_of(&text) {
            let line = format!("C09.def\t{}", t.show());
            run_request(&line, out, &mut st6);
            made += 1;
        }
    }
    out.stat(&st6.json("definition-trees"));
    out.stat(&format!(
        "{{\"stream\":\"source-modules\",\"cases\":{},\"statement_kinds\":{},\"outcomes\":{},\"minimal_failing_shapes\":{}}}",
        st.total,
        sg.kinds.json(),
        st.outcome.json(),
        st.classes.json()
    ));
}

// ------------------------------------------------------------------------------------------ facade for other properties
/// What happened to one statement tree on its way through the text (used by C02's text leg: the Metal exporter's
/// statements printed for `Target::Msl`).  Same steps as `stmt::run_stmt`, on an `ast::Statement` instead of a request
/// tree and for any target.
pub enum TextTrip {
    /// printed, re-read, same tree (printed statement; the re-read statement, ambiguities resolved)
    Same(String, ast::Statement),
    /// the tree cannot be printed (ambiguous node) or the rssl parser cannot read the printed text / reads another
    /// construct: not a statement about the printer (stage, printed statement)
    Unreadable(String, String),
    /// printed and re-read as ANOTHER tree (printed statement, where the trees first differ, original tree, re-read tree,
    /// the re-read statement)
    Differs(String, String, String, String, ast::Statement),
    /// the formatter or the parser panicked
    Panic(String),
}

pub fn statement_text_trip(s: &ast::Statement, target: rssl_formatter::Target) -> TextTrip {
    let mut module = match lex_parse("void f() { zz; }") {
        Ok(m) => m,
        Err(e) => return TextTrip::Unreadable(format!("template {}", e), String::new()),
    };
    let body = match &mut module.root_definitions[0] {
        ast::RootDefinition::Function(f) => match f.body.as_mut() {
            Some(b) => b,
            None => return TextTrip::Unreadable("template shape".into(), String::new()),
        },
        _ => return TextTrip::Unreadable("template shape".into(), String::new()),
    };
    body.clear();
    body.push(s.clone());
    let text = match guard(|| rssl_formatter::format(&module, target)) {
        Ok(Ok(t)) => t,
        Ok(Err(_)) => return TextTrip::Unreadable("not-printable".into(), String::new()),
        Err(p) => return TextTrip::Panic(p),
    };
    let stext = {
        let t = text.trim();
        match (t.find('{'), t.rfind('}')) {
            (Some(i), Some(j)) if i < j => stmt::collapse_ws(&t[i + 1..j]),
            _ => stmt::collapse_ws(t),
        }
    };
    let m2 = match guard(|| lex_parse(&text)) {
        Ok(Ok(m)) => m,
        Ok(Err(e)) => return TextTrip::Unreadable(e, stext),
        Err(p) => return TextTrip::Panic(p),
    };
    let mut types = Vec::new();
    stmt::type_names_stmt(s, &mut types);
    let s2 = match &m2.root_definitions[..] {
        [ast::RootDefinition::Function(f)] => match f.body.as_deref() {
            Some([one]) => stmt::resolve_stmt(one, &types),
            _ => return TextTrip::Unreadable("ERR:shape statements".into(), stext),
        },
        _ => return TextTrip::Unreadable("ERR:shape roots".into(), stext),
    };
    let raw = stmt::ser_stmt(s);
    let back = unfold_negative_literals(&align(&raw, &stmt::ser_stmt(&s2)));
    let orig = unfold_negative_literals(&raw);
    if back != orig {
        return TextTrip::Differs(stext, diff_sig(&orig, &back), orig.show(), back.show(), s2);
    }
    TextTrip::Same(stext, s2)
}

/// A literal node with a negative value is printed as `-<magnitude>` and read as the unary minus of the magnitude (C09:
/// negative_literals_break / negative_literal_binds_like_minus).  For a property that asks for the MEANING of the text the two
/// are one tree: negation of a float is exact (sign bit) and of an integer literal the value (typing of `-2147483648`: C02's
/// known finding metal-integer-literal-typing, judged on the tree).  Both sides are brought to the unary-minus form.
fn unfold_negative_literals(t: &SExp) -> SExp {
    if let SExp::List(l) = t {
        if t.head() == Some("lit") && l.len() == 3 {
            if let (Some(k), Some(v)) = (l[1].as_atom(), l[2].as_atom()) {
                let mag: Option<String> = match k {
                    "i" | "l" => v.strip_prefix('-').map(|m| m.to_string()),
                    "h" | "f32" => u32::from_str_radix(v.trim_start_matches("0x"), 16).ok().filter(|b| b >> 31 == 1).map(|b| format!("0x{:08x}", b & 0x7fff_ffff)),
                    "f" | "f64" => u64::from_str_radix(v.trim_start_matches("0x"), 16).ok().filter(|b| b >> 63 == 1).map(|b| format!("0x{:016x}", b & !(1u64 << 63))),
                    _ => None,
                };
                if let Some(m) = mag {
                    return SExp::list("un", vec![SExp::atom("Minus"), SExp::list("lit", vec![SExp::atom(k), SExp::Atom(m)])]);
                }
            }
        }
        return SExp::List(l.iter().map(unfold_negative_literals).collect());
    }
    t.clone()
}

import RsslVerif.Model.Fixpoint
import RsslVerif.Model.GenHlsl
/-!
# `Model.FixpointBridge` — between the C01 IR (`Model.Ir`, scalar subset, constants with values) and the C03
# elaborated-expression type (`IrTyping.IExpr`, all types, constants by kind)

Two translations, both total functions into `Option`:

* `erase` : `Ir.Expr → IExpr` forgets the payload of constants and resolves variable / function ids to the positions
  the C03 environment uses (`Idx`).  It does **not** mirror code: it is the abstraction map between the two models of
  the same `ir::Expression` (C01's keeps values and is restricted to scalars, C03's keeps types and is restricted to
  typing).  `eraseTy` / `constScalar` translate the two spellings of `ir::ScalarType`.
* `readBack` : `HlslAst.Expr → SExpr` is the front end reading the exporter's syntax tree: `parse_literal` on the
  suffix kind of a literal (`Fixpoint.rereadTable`), name lookup of identifiers and called functions, the operator
  enumerations matched by name, the type name of a cast.  It mirrors what `parse_expr_internal` does with each
  `ast::Expression` node before any typing decision.

`Thm.C04.bridge_square` proves that they commute with the exporter: `readBack (genExpr e)` is one of the trees
`Unelab (erase e)` describes — so `Model.GenHlsl` (tied to the code by C01) and `Fixpoint.Unelab` (used by
`reelab_no_new_casts`) are the same exporter.

`reelabPos` is the model's prediction of one expression position of the second generation (driver op `C04.reelab`).
-/
namespace RsslVerif.Model.FixpointBridge
open RsslVerif.Gen.RankTable RsslVerif.Gen.TypingTables
open RsslVerif.Model.Conv RsslVerif.Model.Overload RsslVerif.Model.IrTyping RsslVerif.Model.Elab RsslVerif.Model.Fixpoint
open RsslVerif.Model

/-- `ir::ScalarType` in the spelling of `Model.Ir` ↦ in the spelling of `Gen.RankTable` (`void` has no scalar) -/
def scalarOf : Ir.Ty → Option Scalar
  | .bool => some .bool | .int => some .int32 | .uint => some .uInt32 | .float => some .float32
  | .lit => some .intLiteral | .flit => some .floatLiteral | .void => none

/-- the structural type of the C03 model for a type of the C01 subset; `void` is an opaque non-numeric layer -/
def eraseTy (t : Ir.Ty) : Ty :=
  match scalarOf t with
  | some k => scalarTy k
  | none => ⟨{}, .other 0⟩

/-- the scalar kind of a constant -/
def constScalar : Ir.Const → Scalar
  | .bool _ => .bool | .intLit _ => .intLiteral | .int32 _ => .int32 | .uint32 _ => .uInt32
  | .float32 _ => .float32 | .floatLit _ => .floatLiteral

/-- the operator enumeration of `Gen.HlslGenTables` ↦ that of `Gen.TypingTables` (same Rust enum, matched by name) -/
def iopOf (o : RsslVerif.Gen.HlslGenTables.IntrinsicOp) : Option IOp := IOp.ofName? o.name

/-- positions of variables and functions in the C03 environment -/
structure Idx where
  var : Ir.Var → Option Nat
  func : Nat → Option Nat

mutual
def erase (ix : Idx) : Ir.Expr → Option IExpr
  | .lit c => some (.lit (constScalar c))
  | .var id => (ix.var (.loc id)).map .var
  | .global id => (ix.var (.glob id)).map .var
  | .op o args =>
    match iopOf o, eraseArgs ix args with
    | some i, some as => some (.op i as)
    | _, _ => none
  | .tern c t f =>
    match erase ix c, erase ix t, erase ix f with
    | some c', some t', some f' => some (.tern c' t' f')
    | _, _, _ => none
  | .seq es =>
    -- the type checker only builds two-element sequences (`a, b, c` is `(a, b), c`)
    match es with
    | .cons a (.cons b .nil) =>
      match erase ix a, erase ix b with
      | some a', some b' => some (.seq a' b')
      | _, _ => none
    | _ => none
  | .cast ty e => (erase ix e).map (.cast (eraseTy ty))
  | .call f args =>
    match ix.func f, eraseArgs ix args with
    | some j, some as => some (.call j as)
    | _, _ => none
  | .intr _ _ _ _ => none
def eraseArgs (ix : Idx) : Ir.Exprs → Option IArgs
  | .nil => some .nil
  | .cons e r =>
    match erase ix e, eraseArgs ix r with
    | some e', some r' => some (.cons e' r')
    | _, _ => none
end

/-- the second-generation elaboration of one expression position: the exported tree is read back, elaborated by
    `parse_expr` and converted to the type the position requires (`ctx`: the variable's type for an initialiser, the
    return type for `return`; conditions and expression statements are not converted) -/
def reelabPos (Γ' : Env) (ctx : Option ETy) (i1 : IExpr) : Except String IExpr :=
  match unelab Γ' i1 with
  | none => .error "not-exported"
  | some s' =>
    match elabTop true Γ' s' with
    | .error (.reject k) => .error ("reject " ++ k)
    | .error (.panic k) => .error ("panic " ++ k)
    | .error (.unsupported k) => .error ("unsupported " ++ k)
    | .ok (i, τ) =>
      match ctx with
      | none => .ok i
      | some D =>
        match convert i τ D with
        | .ok (some (i2, _)) => .ok i2
        | .ok none => .error "reject no-conversion"
        | .error (.panic k) => .error ("panic " ++ k)
        | .error _ => .error "error"

end RsslVerif.Model.FixpointBridge

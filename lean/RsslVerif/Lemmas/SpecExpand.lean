import RsslVerif.Spec.CPreMacro
/-!
# The reference algorithm without fuel

`SExp ms l r` is the big-step reading of `Spec.CPreMacro.expand` (Prosser's algorithm): one rule per branch of the
function.  `sexp_complete`: whatever `SExp` derives, `expand` computes with enough fuel -- so a statement
"`∃ fuel, expand ms fuel l = .ok r`" can be proved by exhibiting a derivation.  `sexp_context`: how the expansion of a
list continues when more source follows it (only the last token, if it was looked at with nothing after it, is looked
at again).
-/
namespace RsslVerif.Lemmas.SpecExpand
open RsslVerif.Model.Macro RsslVerif.Spec.CPreMacro

/-- `expand` keeps the token `t` when `rest` follows: not an identifier, painted, not a macro name, or the name of a
function-like macro that is not followed by `(` -/
def KeepS (ms : List SMacro) (t : HTok) (rest : List HTok) : Prop :=
  ∀ n, t.tok = .id n →
    t.hide.contains n = true ∨ find ms n = none ∨
      (∃ m ps, find ms n = some m ∧ m.params = some ps ∧ ∀ h rest', rest ≠ ⟨.lparen, h⟩ :: rest')

/-- the arguments as `expand` passes them to `subst` -/
def fixArgs (ps : List String) (args : List (List HTok)) : List (List HTok) :=
  if ps.isEmpty ∧ args = [[]] then [] else args

inductive SExp (ms : List SMacro) : List HTok → List HTok → Prop
  | nil : SExp ms [] []
  | keep (t : HTok) (rest r : List HTok) : KeepS ms t rest → SExp ms rest r → SExp ms (t :: rest) (t :: r)
  | obj (t : HTok) (n : String) (m : SMacro) (rest b r : List HTok) :
      t.tok = .id n → t.hide.contains n = false → find ms n = some m → m.params = none →
      (∀ ex, subst ex m [] (n :: t.hide) = .ok b) →
      SExp ms (b ++ rest) r → SExp ms (t :: rest) r
  | fn (t : HTok) (n : String) (m : SMacro) (ps : List String) (h0 : List String) (rest' : List HTok)
      (args eargs : List (List HTok)) (hs' : List String) (rest'' b r : List HTok) :
      t.tok = .id n → t.hide.contains n = false → find ms n = some m → m.params = some ps →
      collectArgs rest' 0 [] [] = some (args, hs', rest'') →
      (fixArgs ps args).length = ps.length →
      eargs.length = (fixArgs ps args).length →
      (∀ (i : Nat) (a ea : List HTok), (fixArgs ps args)[i]? = some a → eargs[i]? = some ea → SExp ms a ea) →
      (∀ ex, (∀ (i : Nat) (a ea : List HTok), (fixArgs ps args)[i]? = some a → eargs[i]? = some ea → ex a = .ok ea) →
        subst ex m (fixArgs ps args) (n :: t.hide.filter (hs'.contains ·)) = .ok b) →
      SExp ms (b ++ rest'') r → SExp ms (t :: ⟨.lparen, h0⟩ :: rest') r

/-! ## one step of `expand` -/

theorem expand_succ_nil (ms : List SMacro) (f : Nat) : expand ms (f + 1) [] = .ok [] := by
  rw [expand]

theorem expand_keep (ms : List SMacro) (f : Nat) (t : HTok) (rest : List HTok) (h : KeepS ms t rest) :
    expand ms (f + 1) (t :: rest) =
      match expand ms f rest with
      | .ok r => .ok (t :: r)
      | .error e => .error e := by
  rw [expand]
  split
  · rename_i n hn
    by_cases hc : t.hide.contains n = true
    · simp only [hc, if_true]
      rfl
    · simp only [hc, Bool.false_eq_true, if_false]
      rcases h n hn with h1 | h1 | ⟨m, ps, h1, h2, h3⟩
      · exact absurd h1 hc
      · simp only [h1]
        rfl
      · simp only [h1, h2]
        cases rest with
        | nil => rfl
        | cons x xs =>
          obtain ⟨xt, xh⟩ := x
          cases xt <;> first | rfl | exact absurd rfl (h3 _ _)
  · rfl

theorem expand_obj (ms : List SMacro) (f : Nat) (t : HTok) (n : String) (m : SMacro) (rest : List HTok)
    (htk : t.tok = .id n) (hp : t.hide.contains n = false) (hf : find ms n = some m) (hpar : m.params = none) :
    expand ms (f + 1) (t :: rest) =
      match subst (expand ms f) m [] (n :: t.hide) with
      | .ok b => expand ms f (b ++ rest)
      | .error e => .error e := by
  rw [expand]
  simp only [htk, hp, hf, hpar]
  rfl

theorem expand_fn (ms : List SMacro) (f : Nat) (t : HTok) (n : String) (m : SMacro) (ps : List String)
    (h0 : List String) (rest' : List HTok) (args : List (List HTok)) (hs' : List String) (rest'' : List HTok)
    (htk : t.tok = .id n) (hp : t.hide.contains n = false) (hf : find ms n = some m) (hpar : m.params = some ps)
    (hc : collectArgs rest' 0 [] [] = some (args, hs', rest'')) (hlen : (fixArgs ps args).length = ps.length) :
    expand ms (f + 1) (t :: ⟨.lparen, h0⟩ :: rest') =
      match subst (expand ms f) m (fixArgs ps args) (n :: t.hide.filter (hs'.contains ·)) with
      | .ok b => expand ms f (b ++ rest'')
      | .error e => .error e := by
  rw [expand]
  simp only [htk, hp, hf, hpar, hc]
  unfold fixArgs at hlen
  simp only [Bool.false_eq_true, if_false, hlen, ne_eq, not_true_eq_false]
  rfl

/-! ## enough fuel -/

theorem exists_fuel_bound (ms : List SMacro) (args eargs : List (List HTok))
    (h : ∀ (i : Nat) (a ea : List HTok), args[i]? = some a → eargs[i]? = some ea →
      ∃ f, ∀ f', f ≤ f' → expand ms f' a = .ok ea) :
    ∃ F, ∀ (i : Nat) (a ea : List HTok), args[i]? = some a → eargs[i]? = some ea →
      ∀ f', F ≤ f' → expand ms f' a = .ok ea := by
  induction args generalizing eargs with
  | nil => exact ⟨0, fun i a ea ha => by simp at ha⟩
  | cons a0 as ih =>
    cases eargs with
    | nil => exact ⟨0, fun i a ea _ hea => by simp at hea⟩
    | cons e0 es =>
      obtain ⟨f0, hf0⟩ := h 0 a0 e0 (by simp) (by simp)
      obtain ⟨F, hF⟩ := ih es (fun i a ea ha hea => h (i + 1) a ea (by simpa using ha) (by simpa using hea))
      refine ⟨max f0 F, ?_⟩
      intro i a ea ha hea f' hf'
      cases i with
      | zero =>
        simp at ha hea
        subst ha; subst hea
        exact hf0 f' (by omega)
      | succ j =>
        exact hF j a ea (by simpa using ha) (by simpa using hea) f' (by omega)

/-- **whatever `SExp` derives, `expand` computes, given enough fuel** -/
theorem sexp_complete {ms : List SMacro} {l r : List HTok} (h : SExp ms l r) :
    ∃ f, ∀ f', f ≤ f' → expand ms f' l = .ok r := by
  induction h with
  | nil =>
    refine ⟨1, fun f' hf' => ?_⟩
    obtain ⟨g, rfl⟩ : ∃ g, f' = g + 1 := ⟨f' - 1, by omega⟩
    exact expand_succ_nil ms g
  | keep t rest r hk _ ih =>
    obtain ⟨f0, hf0⟩ := ih
    refine ⟨f0 + 1, fun f' hf' => ?_⟩
    obtain ⟨g, rfl⟩ : ∃ g, f' = g + 1 := ⟨f' - 1, by omega⟩
    rw [expand_keep ms g t rest hk, hf0 g (by omega)]
  | obj t n m rest b r htk hp hf hpar hsub _ ih =>
    obtain ⟨f0, hf0⟩ := ih
    refine ⟨f0 + 1, fun f' hf' => ?_⟩
    obtain ⟨g, rfl⟩ : ∃ g, f' = g + 1 := ⟨f' - 1, by omega⟩
    rw [expand_obj ms g t n m rest htk hp hf hpar, hsub (expand ms g)]
    exact hf0 g (by omega)
  | fn t n m ps h0 rest' args eargs hs' rest'' b r htk hp hf hpar hc hlen helen _ hsub _ ihargs ih =>
    obtain ⟨f0, hf0⟩ := ih
    obtain ⟨F, hF⟩ := exists_fuel_bound ms _ eargs ihargs
    refine ⟨max f0 F + 1, fun f' hf' => ?_⟩
    obtain ⟨g, rfl⟩ : ∃ g, f' = g + 1 := ⟨f' - 1, by omega⟩
    rw [expand_fn ms g t n m ps h0 rest' args hs' rest'' htk hp hf hpar hc hlen,
      hsub (expand ms g) (fun i a ea ha hea => hF i a ea ha hea g (by omega))]
    exact hf0 g (by omega)

/-! ## more source after the list -/

theorem collectArgs_append (l : List HTok) (d : Nat) (cur : List HTok) (acc args : List (List HTok))
    (hs : List String) (rest more : List HTok) (h : collectArgs l d cur acc = some (args, hs, rest)) :
    collectArgs (l ++ more) d cur acc = some (args, hs, rest ++ more) := by
  induction l generalizing d cur acc with
  | nil => simp [collectArgs] at h
  | cons t ts ih =>
    rw [List.cons_append]
    cases htk : t.tok with
    | lparen =>
      simp only [collectArgs, htk] at h ⊢
      exact ih _ _ _ h
    | rparen =>
      simp only [collectArgs, htk] at h ⊢
      split at h
      · rename_i hd
        simp only [hd, if_true]
        cases h; rfl
      · rename_i hd
        simp only [hd, if_false]
        exact ih _ _ _ h
    | comma =>
      simp only [collectArgs, htk] at h ⊢
      split at h
      · rename_i hd
        simp only [hd, if_true]
        exact ih _ _ _ h
      · rename_i hd
        simp only [hd, if_false]
        exact ih _ _ _ h
    | _ =>
      simp only [collectArgs, htk] at h ⊢
      exact ih _ _ _ h

theorem sexp_nil_inv {ms : List SMacro} {r : List HTok} (h : SExp ms [] r) : r = [] := by
  cases h; rfl

theorem keepS_append (ms : List SMacro) (t x : HTok) (xs more : List HTok) (h : KeepS ms t (x :: xs)) :
    KeepS ms t (x :: xs ++ more) := by
  intro n hn
  rcases h n hn with h1 | h1 | ⟨m, ps, h1, h2, h3⟩
  · exact Or.inl h1
  · exact Or.inr (Or.inl h1)
  · refine Or.inr (Or.inr ⟨m, ps, h1, h2, ?_⟩)
    intro hh rest' heq
    simp only [List.cons_append, List.cons.injEq] at heq
    exact h3 hh xs (by rw [heq.1])

/-- **the expansion of a list in front of more source.**  Of what `l` expands to on its own, all but at most one
last token `tail` is final; that token was kept with nothing after it, and it is looked at again with the source that
follows. -/
theorem sexp_context {ms : List SMacro} {l r : List HTok} (h : SExp ms l r) :
    ∃ r0 tail, r = r0 ++ tail ∧ tail.length ≤ 1 ∧ (∀ g ∈ tail, KeepS ms g []) ∧
      ∀ more rr, SExp ms (tail ++ more) rr → SExp ms (l ++ more) (r0 ++ rr) := by
  induction h with
  | nil => exact ⟨[], [], rfl, by simp, fun g hg => (by cases hg), fun more rr h => h⟩
  | keep t rest r hk hs ih =>
    obtain ⟨r0, tail, hr, hl, hkeep, hctx⟩ := ih
    cases rest with
    | nil =>
      have hr' := sexp_nil_inv hs
      subst hr'
      refine ⟨[], [t], rfl, by simp, ?_, fun more rr h => by simpa using h⟩
      intro g hg
      simp only [List.mem_singleton] at hg
      subst hg
      exact hk
    | cons x xs =>
      refine ⟨t :: r0, tail, by simp [hr], hl, hkeep, fun more rr h => ?_⟩
      have := hctx more rr h
      exact SExp.keep t _ _ (keepS_append ms t x xs more hk) this
  | obj t n m rest b r htk hp hf hpar hsub _ ih =>
    obtain ⟨r0, tail, hr, hl, hkeep, hctx⟩ := ih
    refine ⟨r0, tail, hr, hl, hkeep, fun more rr h => ?_⟩
    have := hctx more rr h
    rw [List.append_assoc] at this
    exact SExp.obj t n m (rest ++ more) b (r0 ++ rr) htk hp hf hpar hsub this
  | fn t n m ps h0 rest' args eargs hs' rest'' b r htk hp hf hpar hc hlen helen hargs hsub _ _ ih =>
    obtain ⟨r0, tail, hr, hl, hkeep, hctx⟩ := ih
    refine ⟨r0, tail, hr, hl, hkeep, fun more rr h => ?_⟩
    have := hctx more rr h
    rw [List.append_assoc] at this
    exact SExp.fn t n m ps h0 (rest' ++ more) args eargs hs' (rest'' ++ more) b (r0 ++ rr) htk hp hf hpar
      (collectArgs_append _ _ _ _ _ _ _ _ hc) hlen helen hargs hsub this


/-! ## more fuel does not change the result -/

theorem replaceParams_mono (ex ex' : List HTok → Except SErr (List HTok))
    (hex : ∀ a r, ex a = .ok r → ex' a = .ok r) (ps : List String) (args : List (List HTok)) (prev : Option Tok)
    (body : List Tok) (items : List Item) (h : replaceParams ex ps args prev body = .ok items) :
    replaceParams ex' ps args prev body = .ok items := by
  induction body generalizing prev items with
  | nil => simpa [replaceParams] using h
  | cons t rest ih =>
    cases hr : replaceParams ex ps args (some t) rest with
    | error e =>
      unfold replaceParams at h
      simp only [hr] at h
      split at h <;> simp_all
    | ok b =>
      have hr' := ih (some t) b hr
      by_cases ht : t = .hashhash
      · subst ht
        unfold replaceParams at h ⊢
        simp only [if_true, hr, hr'] at h ⊢
        exact h
      · cases hp : paramIndex ps t with
        | none =>
          unfold replaceParams at h ⊢
          simp only [ht, if_false, hp, hr, hr'] at h ⊢
          exact h
        | some i =>
          by_cases hntp : (prev = some Tok.hashhash || rest.head? = some Tok.hashhash) = true
          · unfold replaceParams at h ⊢
            simp only [ht, if_false, hp, hntp, if_true, hr, hr'] at h ⊢
            exact h
          · cases hexa : ex (args.getD i []) with
            | error e =>
              unfold replaceParams at h
              simp only [ht, if_false, hp, hntp, hexa, hr] at h
              cases h
            | ok ea =>
              have hexa' := hex _ _ hexa
              unfold replaceParams at h ⊢
              simp only [ht, if_false, hp, hntp, hexa, hexa', hr, hr'] at h ⊢
              exact h

theorem subst_mono (ex ex' : List HTok → Except SErr (List HTok))
    (hex : ∀ a r, ex a = .ok r → ex' a = .ok r) (m : SMacro) (args : List (List HTok)) (hs : List String)
    (b : List HTok) (h : subst ex m args hs = .ok b) : subst ex' m args hs = .ok b := by
  unfold subst at h ⊢
  cases hr : replaceParams ex (m.params.getD []) args none m.body with
  | error e => simp [hr] at h
  | ok items =>
    rw [replaceParams_mono ex ex' hex _ _ _ _ _ hr]
    simpa [hr] using h

theorem expand_mono (ms : List SMacro) (f : Nat) : ∀ (l r : List HTok), expand ms f l = .ok r →
    expand ms (f + 1) l = .ok r := by
  induction f with
  | zero => intro l r h; simp [expand] at h
  | succ f ih =>
    intro l r h
    cases l with
    | nil => rw [expand] at h ⊢; exact h
    | cons t rest =>
      have hsub : ∀ m args hs b, subst (expand ms f) m args hs = .ok b → subst (expand ms (f + 1)) m args hs = .ok b :=
        fun m args hs b => subst_mono _ _ ih m args hs b
      have keepCase : (match expand ms f rest with
            | .ok r => Except.ok (t :: r)
            | .error e => .error e) = .ok r →
          (match expand ms (f + 1) rest with
            | .ok r => Except.ok (t :: r)
            | .error e => .error e) = .ok r := by
        intro hk
        cases hr : expand ms f rest with
        | error e => simp [hr] at hk
        | ok r' => rw [ih rest r' hr]; simpa [hr] using hk
      cases htk : t.tok with
      | id n =>
        rw [expand] at h ⊢
        simp only [htk] at h ⊢
        by_cases hc : t.hide.contains n = true
        · simp only [hc, if_true] at h ⊢
          exact keepCase h
        · simp only [hc, Bool.false_eq_true, if_false] at h ⊢
          cases hfind : find ms n with
          | none => simp only [hfind] at h ⊢; exact keepCase h
          | some m =>
            simp only [hfind] at h ⊢
            cases hpar : m.params with
            | none =>
              simp only [hpar] at h ⊢
              cases hb : subst (expand ms f) m [] (n :: t.hide) with
              | error e => simp [hb] at h
              | ok b =>
                simp only [hb, hsub _ _ _ _ hb] at h ⊢
                exact ih _ _ h
            | some ps =>
              simp only [hpar] at h ⊢
              cases rest with
              | nil => exact keepCase h
              | cons x xs =>
                obtain ⟨xt, xh⟩ := x
                cases xt with
                | lparen =>
                  simp only at h ⊢
                  cases hca : collectArgs xs 0 [] [] with
                  | none => simp [hca] at h
                  | some p =>
                    obtain ⟨args, hs', rest''⟩ := p
                    simp only [hca] at h ⊢
                    generalize (if ps.isEmpty = true ∧ args = [[]] then [] else args) = args2 at h ⊢
                    by_cases hlen : args2.length = ps.length
                    · simp only [hlen, ne_eq, not_true_eq_false, if_false] at h ⊢
                      cases hb : subst (expand ms f) m args2 (n :: t.hide.filter (hs'.contains ·)) with
                      | error e => rw [hb] at h; cases h
                      | ok b =>
                        rw [hb] at h
                        rw [hsub _ _ _ _ hb]
                        exact ih _ _ h
                    · simp only [hlen, ne_eq, not_false_eq_true, if_true] at h
                      cases h
                | _ => exact keepCase h
      | _ =>
        rw [expand] at h ⊢
        simp only [htk] at h ⊢
        exact keepCase h

theorem expand_mono_le (ms : List SMacro) {f f' : Nat} (hle : f ≤ f') (l r : List HTok)
    (h : expand ms f l = .ok r) : expand ms f' l = .ok r := by
  induction hle with
  | refl => exact h
  | step _ ih => exact expand_mono ms _ l r ih

/-- the result does not depend on the fuel -/
theorem expand_det (ms : List SMacro) (f f' : Nat) (l r r' : List HTok) (h : expand ms f l = .ok r)
    (h' : expand ms f' l = .ok r') : r = r' := by
  have h1 := expand_mono_le ms (Nat.le_max_left f f') l r h
  have h2 := expand_mono_le ms (Nat.le_max_right f f') l r' h'
  rw [h1] at h2
  cases h2; rfl

end RsslVerif.Lemmas.SpecExpand

import RsslVerif.Lemmas.MacroTame
import RsslVerif.Lemmas.SpecExpand
import RsslVerif.Lemmas.SpecInert
/-!
# A tame derivation is what the reference algorithm computes (`tame_spec`)

The invariant that relates rssl's per-macro `macro_disabled` flags to the per-token hide sets of the C algorithm
(`Rel`): in the token list rssl is scanning with the set `D` of disabled entries,
* every token's hide set contains the names of `D`, and
* a token that names an *enabled* macro has a hide set that contains nothing else.
Tokens of the second kind are the only ones whose hide set is ever consulted or inherited, so the tokens that came
out of an expanded argument (with larger hide sets) do no harm as long as they name disabled macros only
(`OnlyDisabled`, the side condition of the `invoke` rule).
-/
namespace RsslVerif.Lemmas.MacroTameSpec
open RsslVerif.Model.Macro RsslVerif.Model.MacroTame RsslVerif.Spec.CPreMacro
open RsslVerif.Lemmas.MacroTerm RsslVerif.Lemmas.MacroSubst RsslVerif.Lemmas.MacroHang RsslVerif.Lemmas.MacroTame
open RsslVerif.Lemmas.SpecExpand RsslVerif.Lemmas.SpecInert

/-- the reference reading of the macro list -/
def specTable (env : List Entry) : List SMacro := env.map (fun e => ofMacro e.m)

def disabledNames (env : List Entry) : List String := (env.filter (·.disabled)).map (·.m.name)

/-- what `Macro::parse` guarantees about a replacement list and the reference reading needs -/
structure WFMacro (m : Macro) : Prop where
  /-- `##` is `Concat` in a replacement list, never `HashHash` -/
  noHash : ∀ t ∈ m.body, t.tok ≠ .hashhash
  /-- this file: replacement lists without `##` -/
  noConcat : ∀ t ∈ m.body, t.tok ≠ .concat
  /-- no identifier is spelled like the reference's name of a parameter -/
  noParamName : ∀ t ∈ m.body, ∀ s, t.tok = .id s → ∀ i, s ≠ paramName i
  argRange : ∀ t ∈ m.body, ∀ i, t.tok = .arg i → i < m.numParams ∧ m.isFunction = true

structure Rel (env : List Entry) (ls : List HTok) (l : List PTok) : Prop where
  toks : ls.map (·.tok) = ppTokens l
  sup : ∀ t ∈ ls, ∀ x ∈ disabledNames env, x ∈ t.hide
  sub : ∀ t ∈ ls, ∀ n, t.tok = .id n → (∃ e ∈ env, e.m.name = n ∧ e.disabled = false) →
    ∀ x ∈ t.hide, x ∈ disabledNames env

structure RelOut (env : List Entry) (r : List HTok) (out : List PTok) : Prop where
  toks : r.map (·.tok) = ppTokens out
  sup : ∀ t ∈ r, ∀ x ∈ disabledNames env, x ∈ t.hide

/-- the tokens of `ls` that name an enabled macro carry no paint but the names of the disabled entries (`Rel.sub`) -/
def Exact (env : List Entry) (ls : List HTok) : Prop :=
  ∀ t ∈ ls, ∀ n, t.tok = .id n → (∃ e ∈ env, e.m.name = n ∧ e.disabled = false) →
    ∀ x ∈ t.hide, x ∈ disabledNames env

/-! ## tokens without white space -/

theorem ppTokens_nil : ppTokens [] = [] := rfl

theorem ppTokens_cons_ws (t : PTok) (l : List PTok) (h : t.tok.isWhitespace = true) :
    ppTokens (t :: l) = ppTokens l := by
  simp [ppTokens, h]

theorem ppTokens_cons (t : PTok) (l : List PTok) (h : t.tok.isWhitespace = false) :
    ppTokens (t :: l) = t.tok :: ppTokens l := by
  simp [ppTokens, h]

theorem ppTokens_append (a b : List PTok) : ppTokens (a ++ b) = ppTokens a ++ ppTokens b := by
  simp [ppTokens]

theorem ppTokens_ws (l : List PTok) (h : ∀ t ∈ l, t.tok.isWhitespace = true) : ppTokens l = [] := by
  induction l with
  | nil => rfl
  | cons t r ih =>
    rw [ppTokens_cons_ws t r (h t (by simp))]
    exact ih (fun x hx => h x (by simp [hx]))

theorem firstTok_eq_head (l : List PTok) : firstTok l = (ppTokens l).head? := by
  induction l with
  | nil => rfl
  | cons t r ih =>
    unfold firstTok
    split
    · rename_i hw; rw [ppTokens_cons_ws t r hw]; exact ih
    · rename_i hw
      rw [ppTokens_cons t r (by simpa using hw)]
      rfl

theorem ppTokens_trimStart (l : List PTok) : ppTokens (trimStart l) = ppTokens l := by
  induction l with
  | nil => rfl
  | cons t r ih =>
    unfold trimStart at ih ⊢
    rw [List.dropWhile_cons]
    split
    · rename_i hb
      rw [ih, ppTokens_cons_ws t r (blank_isWhitespace _ hb)]
    · rfl

theorem ppTokens_trimStartAll (l : List PTok) : ppTokens (trimStartAll l) = ppTokens l := by
  induction l with
  | nil => rfl
  | cons t r ih =>
    unfold trimStartAll at ih ⊢
    rw [List.dropWhile_cons]
    split
    · rename_i hb
      rw [ih, ppTokens_cons_ws t r hb]
    · rfl

theorem ppTokens_reverse (l : List PTok) : ppTokens l.reverse = (ppTokens l).reverse := by
  simp [ppTokens, List.filter_reverse]

theorem ppTokens_trimEnd (l : List PTok) : ppTokens (trimEnd l) = ppTokens l := by
  unfold trimEnd
  have := ppTokens_trimStart l.reverse
  unfold trimStart at this
  rw [ppTokens_reverse, this, ppTokens_reverse, List.reverse_reverse]

theorem ppTokens_trim (l : List PTok) : ppTokens (trim l) = ppTokens l := by
  unfold trim
  rw [ppTokens_trimEnd, ppTokens_trimStart]

theorem mem_ppTokens {l : List PTok} {k : Tok} (h : k ∈ ppTokens l) : ∃ t ∈ l, t.tok = k := by
  simp only [ppTokens, List.mem_map, List.mem_filter] at h
  obtain ⟨t, ⟨ht, _⟩, rfl⟩ := h
  exact ⟨t, ht, rfl⟩

/-! ## the macro list -/

theorem mem_disabledNames {env : List Entry} {x : String} :
    x ∈ disabledNames env ↔ ∃ e ∈ env, e.disabled = true ∧ e.m.name = x := by
  simp [disabledNames, and_assoc]

theorem specTable_disable (env : List Entry) (mi : Nat) : specTable (disable env mi) = specTable env := by
  apply List.ext_getElem?
  intro j
  simp only [specTable, List.getElem?_map, disable_getElem?]
  cases env[j]? with
  | none => rfl
  | some e => simp only [Option.map_some]; split <;> rfl

theorem disabledNames_disable {env : List Entry} {mi : Nat} {e : Entry} (hmi : env[mi]? = some e) (x : String) :
    x ∈ disabledNames (disable env mi) ↔ x = e.m.name ∨ x ∈ disabledNames env := by
  simp only [mem_disabledNames]
  constructor
  · rintro ⟨e', he', hd, hn⟩
    obtain ⟨j, hj⟩ := List.mem_iff_getElem?.mp he'
    rw [disable_getElem?] at hj
    cases hget : env[j]? with
    | none => simp [hget] at hj
    | some e0 =>
      simp only [hget, Option.map_some, Option.some.injEq] at hj
      by_cases hjm : j = mi
      · subst hjm
        rw [hmi] at hget; cases hget
        simp only [if_true] at hj
        left; rw [← hn, ← hj]
      · simp only [hjm, if_false] at hj
        subst hj
        right; exact ⟨e0, List.mem_of_getElem? hget, hd, hn⟩
  · rintro (rfl | ⟨e0, he0, hd, hn⟩)
    · refine ⟨{ e with disabled := true }, ?_, rfl, rfl⟩
      apply List.mem_of_getElem? (i := mi)
      rw [disable_getElem?, hmi]; simp
    · obtain ⟨j, hj⟩ := List.mem_iff_getElem?.mp he0
      refine ⟨if j = mi then { e0 with disabled := true } else e0, ?_, ?_, ?_⟩
      · apply List.mem_of_getElem? (i := j)
        rw [disable_getElem?, hj]; rfl
      · split
        · rfl
        · exact hd
      · split <;> exact hn

theorem find_specTable_some {env : List Entry} {n : String} {m : SMacro} (h : find (specTable env) n = some m) :
    ∃ e ∈ env, m = ofMacro e.m ∧ e.m.name = n := by
  unfold find at h
  have hmem := List.mem_of_find?_eq_some h
  have hp := List.find?_some h
  simp only [specTable, List.mem_map] at hmem
  obtain ⟨e, he, rfl⟩ := hmem
  exact ⟨e, he, rfl, by simpa [ofMacro] using hp⟩

theorem find_specTable_none {env : List Entry} {n : String} (h : find (specTable env) n = none) :
    ∀ e ∈ env, e.m.name ≠ n := by
  unfold find at h
  rw [List.find?_eq_none] at h
  intro e he hn
  exact h (ofMacro e.m) (by simp only [specTable, List.mem_map]; exact ⟨e, he, rfl⟩) (by simpa [ofMacro] using hn)

theorem find_specTable_selects {env : List Entry} {n : String} {mi : Nat} {e : Entry} (h : Selects env n mi e) :
    find (specTable env) n = some (ofMacro e.m) := by
  obtain ⟨henv, hlen, hpre⟩ := selects_split h
  rw [henv]
  unfold find specTable
  rw [List.map_append, List.find?_append]
  have h1 : List.find? (fun x => x.name == n) (List.map (fun e => ofMacro e.m) (env.take mi)) = none := by
    rw [List.find?_eq_none]
    intro x hx
    simp only [List.mem_map] at hx
    obtain ⟨e0, he0, rfl⟩ := hx
    have := hpre e0 he0
    rw [h.name] at this
    simpa [ofMacro] using this
  rw [h1]
  simp [ofMacro, h.name]

/-! ## `subst` on a replacement list without `##` -/

theorem paramName_inj {i j : Nat} (h : paramName i = paramName j) : i = j := by
  unfold paramName at h
  have := congrArg String.length h
  simpa using this

theorem indexOfName_param (i n s : Nat) (h1 : s ≤ i) (h2 : i < s + n) :
    indexOfName (paramName i) ((List.range' s n).map paramName) s = some i := by
  induction n generalizing s with
  | zero => omega
  | succ n ih =>
    rw [List.range'_succ, List.map_cons, indexOfName]
    by_cases h : paramName i = paramName s
    · simp [paramName_inj h]
    · simp only [h, if_false]
      have : i ≠ s := fun hh => h (by rw [hh])
      exact ih (s + 1) (by omega) (by omega)

theorem indexOfName_none (x : String) (l : List Nat) (k : Nat) (h : ∀ i, x ≠ paramName i) :
    indexOfName x (l.map paramName) k = none := by
  induction l generalizing k with
  | nil => rfl
  | cons a r ih => simp [indexOfName, h a, ih]

/-- the parameter names of the reference reading -/
def paramNames (np : Nat) : List String := (List.range np).map paramName

theorem paramIndex_arg (np i : Nat) (h : i < np) : paramIndex (paramNames np) (specBodyTok (.arg i)) = some i := by
  simp only [specBodyTok, paramIndex, paramNames, List.range_eq_range']
  exact indexOfName_param i np 0 (Nat.zero_le _) (by omega)

theorem paramIndex_other (np : Nat) (k : Tok) (h1 : ∀ i, k ≠ .arg i)
    (h2 : ∀ s, k = .id s → ∀ i, s ≠ paramName i) : paramIndex (paramNames np) (specBodyTok k) = none := by
  cases k with
  | arg i => exact absurd rfl (h1 i)
  | id s => simp only [specBodyTok, paramIndex, paramNames]; exact indexOfName_none s _ 0 (h2 s rfl)
  | _ => rfl

/-- the items `replaceParams` makes of one token of a replacement list without `##`, given the expanded arguments -/
def itemTok (eargs : List (List HTok)) : Tok → List Item
  | .arg i => (eargs.getD i []).map Item.tok
  | k => [Item.tok ⟨specBodyTok k, []⟩]

/-- what `subst` returns for it -/
def outTok (eargs : List (List HTok)) (hs : List String) : Tok → List HTok
  | .arg i => (eargs.getD i []).map (fun t0 => ⟨t0.tok, t0.hide ++ hs⟩)
  | k => [⟨specBodyTok k, hs⟩]

theorem specBodyTok_ne_hashhash (k : Tok) (h1 : k ≠ .hashhash) (h2 : k ≠ .concat) : specBodyTok k ≠ .hashhash := by
  cases k <;> simp [specBodyTok] at h1 h2 ⊢

/-- the conditions on a replacement list (white space removed) under which `itemTok` describes `replaceParams` -/
structure PlainToks (np : Nat) (ks : List Tok) : Prop where
  noHash : Tok.hashhash ∉ ks
  noConcat : Tok.concat ∉ ks
  noParamName : ∀ s, Tok.id s ∈ ks → ∀ i, s ≠ paramName i
  argRange : ∀ i, Tok.arg i ∈ ks → i < np

theorem PlainToks.tail {np : Nat} {k : Tok} {r : List Tok} (h : PlainToks np (k :: r)) : PlainToks np r :=
  ⟨fun hx => h.noHash (by simp [hx]), fun hx => h.noConcat (by simp [hx]),
   fun s hx => h.noParamName s (by simp [hx]), fun i hx => h.argRange i (by simp [hx])⟩

theorem replaceParams_plain (ex : List HTok → Except SErr (List HTok)) (np : Nat) (largs eargs : List (List HTok))
    (hex : ∀ i, i < np → ∃ ea, eargs[i]? = some ea ∧ ex (largs.getD i []) = .ok ea)
    (ks : List Tok) (hb : PlainToks np ks) (prev : Option Tok) (hprev : prev ≠ some .hashhash) :
    replaceParams ex (paramNames np) largs prev (ks.map specBodyTok) = .ok (ks.flatMap (itemTok eargs)) := by
  induction ks generalizing prev with
  | nil => rfl
  | cons k r ih =>
    have hne : specBodyTok k ≠ .hashhash :=
      specBodyTok_ne_hashhash _ (fun hh => hb.noHash (by simp [hh])) (fun hh => hb.noConcat (by simp [hh]))
    have ih' := ih hb.tail (some (specBodyTok k)) (by simpa using hne)
    have hhead : (r.map specBodyTok).head? ≠ some .hashhash := by
      cases r with
      | nil => simp
      | cons k2 r2 =>
        simp only [List.map_cons, List.head?_cons, ne_eq, Option.some.injEq]
        exact specBodyTok_ne_hashhash _ (fun hh => hb.noHash (by simp [hh])) (fun hh => hb.noConcat (by simp [hh]))
    rw [List.map_cons, List.flatMap_cons]
    unfold replaceParams
    simp only [ih', hne, if_false]
    have hntp : (decide (prev = some Tok.hashhash) || decide ((r.map specBodyTok).head? = some Tok.hashhash)) = false := by
      rw [decide_eq_false hprev, decide_eq_false hhead]; rfl
    simp only [hntp]
    by_cases harg : ∃ i, k = .arg i
    · obtain ⟨i, rfl⟩ := harg
      have hi : i < np := hb.argRange i (by simp)
      obtain ⟨ea, hea, hexa⟩ := hex i hi
      simp only [paramIndex_arg np i hi, hexa, itemTok]
      simp [List.getD, hea]
    · have h1 : ∀ i, k ≠ .arg i := fun i hh => harg ⟨i, hh⟩
      rw [paramIndex_other np k h1 (fun s hs i => hb.noParamName s (by simp [hs]) i)]
      have : itemTok eargs k = [Item.tok ⟨specBodyTok k, []⟩] := by
        cases k <;> first | rfl | exact absurd rfl (h1 _)
      simp [this]

theorem paste_not_mem_items (eargs : List (List HTok)) (ks : List Tok) : Item.paste ∉ ks.flatMap (itemTok eargs) := by
  intro h
  simp only [List.mem_flatMap] at h
  obtain ⟨k, _, hk⟩ := h
  cases k <;> simp [itemTok] at hk

theorem filterMap_items (eargs : List (List HTok)) (hs : List String) (ks : List Tok) (f : Item → Option HTok)
    (hf : ∀ t, f (.tok t) = some ⟨t.tok, t.hide ++ hs⟩) :
    (ks.flatMap (itemTok eargs)).filterMap f = ks.flatMap (outTok eargs hs) := by
  induction ks with
  | nil => rfl
  | cons k r ih =>
    rw [List.flatMap_cons, List.flatMap_cons, List.filterMap_append, ih]
    congr 1
    cases k <;> simp [itemTok, outTok, List.filterMap_map, Function.comp_def, hf]

/-- `subst` for the reference reading of a macro whose replacement list has no `##` -/
theorem subst_plain (ex : List HTok → Except SErr (List HTok)) (m : Macro) (largs eargs : List (List HTok))
    (hs : List String)
    (hex : m.isFunction = true → ∀ i, i < m.numParams → ∃ ea, eargs[i]? = some ea ∧ ex (largs.getD i []) = .ok ea)
    (hb : PlainToks m.numParams (ppTokens m.body)) (hargs : m.isFunction = false → ∀ i, Tok.arg i ∉ ppTokens m.body) :
    subst ex (ofMacro m) largs hs = .ok ((ppTokens m.body).flatMap (outTok eargs hs)) := by
  unfold subst
  have hrp : replaceParams ex ((ofMacro m).params.getD []) largs none (ofMacro m).body =
      .ok ((ppTokens m.body).flatMap (itemTok eargs)) := by
    cases hf : m.isFunction with
    | true =>
      have := replaceParams_plain ex m.numParams largs eargs (hex hf) _ hb none (by simp)
      simpa [ofMacro, hf, paramNames] using this
    | false =>
      -- no parameter occurs: the same statement with zero parameters
      have hb0 : PlainToks 0 (ppTokens m.body) :=
        ⟨hb.noHash, hb.noConcat, hb.noParamName, fun i hi => absurd hi (hargs hf i)⟩
      have := replaceParams_plain ex 0 largs eargs (fun i hi => by omega) _ hb0 none (by simp)
      simpa [ofMacro, hf, paramNames] using this
  rw [hrp]
  simp only
  rw [doPastes_nopaste [] _ (paste_not_mem_items eargs _)]
  simp only [List.reverse_nil, List.nil_append]
  rw [filterMap_items eargs hs _ _ (fun t => rfl)]


/-! ## the model's `substitute`, white space aside -/

def modelTok (args' : List (List PTok)) : Tok → List Tok
  | .arg i => ppTokens (args'.getD i [])
  | k => [k]

theorem substitute_pp (mb : List PTok) (args' : List (List PTok)) (body' : List PTok)
    (h : substitute mb args' = .ok body') : ppTokens body' = (ppTokens mb).flatMap (modelTok args') := by
  induction mb generalizing body' with
  | nil => simp only [substitute] at h; cases h; rfl
  | cons t r ih =>
    unfold substitute at h
    split at h
    · rename_i i hi
      split at h
      · cases h
      · rename_i a hget
        cases hs : substitute r args' with
        | error e => simp [hs] at h
        | ok r' =>
          simp only [hs] at h
          cases h
          rw [ppTokens_append, ih r' hs, ppTokens_cons t r (by rw [hi]; rfl), List.flatMap_cons, hi]
          simp [modelTok, List.getD, hget]
    · rename_i hnarg
      cases hs : substitute r args' with
      | error e => simp [hs] at h
      | ok r' =>
        simp only [hs] at h
        cases h
        by_cases hw : t.tok.isWhitespace = true
        · rw [ppTokens_cons_ws t r' hw, ppTokens_cons_ws t r hw]
          exact ih r' hs
        · have hw' : t.tok.isWhitespace = false := by simpa using hw
          rw [ppTokens_cons t r' hw', ppTokens_cons t r hw', List.flatMap_cons, ih r' hs]
          have : modelTok args' t.tok = [t.tok] := by
            cases htk : t.tok <;> first | rfl | exact absurd htk (hnarg _)
          rw [this]; rfl

theorem substitute_mem_body (mb : List PTok) (args' : List (List PTok)) (body' : List PTok)
    (h : substitute mb args' = .ok body') (t : PTok) (ht : t ∈ mb) (hna : ∀ i, t.tok ≠ .arg i) : t ∈ body' := by
  induction mb generalizing body' with
  | nil => cases ht
  | cons x r ih =>
    unfold substitute at h
    split at h
    · rename_i i hi
      split at h
      · cases h
      · cases hs : substitute r args' with
        | error e => simp [hs] at h
        | ok r' =>
          simp only [hs] at h
          cases h
          rcases List.mem_cons.mp ht with rfl | ht
          · exact absurd hi (hna i)
          · exact List.mem_append_right _ (ih r' hs ht)
    · cases hs : substitute r args' with
      | error e => simp [hs] at h
      | ok r' =>
        simp only [hs] at h
        cases h
        rcases List.mem_cons.mp ht with rfl | ht
        · simp
        · exact List.mem_cons_of_mem _ (ih r' hs ht)

theorem substitute_arg_defined (mb : List PTok) (args' : List (List PTok)) (body' : List PTok)
    (h : substitute mb args' = .ok body') (t : PTok) (ht : t ∈ mb) (i : Nat) (hi : t.tok = .arg i) :
    i < args'.length := by
  induction mb generalizing body' with
  | nil => cases ht
  | cons x r ih =>
    unfold substitute at h
    split at h
    · rename_i j hj
      split at h
      · cases h
      · rename_i a hget
        cases hs : substitute r args' with
        | error e => simp [hs] at h
        | ok r' =>
          rcases List.mem_cons.mp ht with rfl | ht
          · rw [hi] at hj; cases hj
            exact (List.getElem?_eq_some_iff.mp hget).1
          · exact ih r' hs ht
    · cases hs : substitute r args' with
      | error e => simp [hs] at h
      | ok r' =>
        rename_i hnarg
        rcases List.mem_cons.mp ht with rfl | ht
        · exact absurd hi (hnarg i)
        · exact ih r' hs ht

/-- what `subst` returns corresponds to what `substitute` returns -/
theorem outTok_toks (np : Nat) (eargs : List (List HTok)) (args' : List (List PTok)) (hs : List String)
    (ks : List Tok) (hb : PlainToks np ks)
    (hrel : ∀ i, i < np → ((eargs.getD i []).map (·.tok)) = ppTokens (args'.getD i [])) :
    (ks.flatMap (outTok eargs hs)).map (·.tok) = ks.flatMap (modelTok args') := by
  induction ks with
  | nil => rfl
  | cons k r ih =>
    rw [List.flatMap_cons, List.flatMap_cons, List.map_append, ih hb.tail]
    congr 1
    by_cases harg : ∃ i, k = .arg i
    · obtain ⟨i, rfl⟩ := harg
      have := hrel i (hb.argRange i (by simp))
      simp only [outTok, modelTok, List.map_map, Function.comp_def]
      simpa using this
    · have h1 : ∀ i, k ≠ .arg i := fun i hh => harg ⟨i, hh⟩
      have h2 : k ≠ .concat := fun hh => hb.noConcat (by simp [hh])
      cases k <;> first | rfl | exact absurd rfl (h1 _) | exact absurd rfl h2

theorem outTok_hide (eargs : List (List HTok)) (hs : List String) (ks : List Tok) (t : HTok)
    (ht : t ∈ ks.flatMap (outTok eargs hs)) :
    t.hide = hs ∨ ∃ (i : Nat) (ea : List HTok) (t0 : HTok),
      eargs[i]? = some ea ∧ t0 ∈ ea ∧ t.tok = t0.tok ∧ t.hide = t0.hide ++ hs := by
  simp only [List.mem_flatMap] at ht
  obtain ⟨k, _, hk⟩ := ht
  by_cases harg : ∃ i, k = .arg i
  · obtain ⟨i, rfl⟩ := harg
    simp only [outTok, List.mem_map] at hk
    obtain ⟨t0, ht0, rfl⟩ := hk
    right
    cases hget : eargs[i]? with
    | none => simp [List.getD, hget] at ht0
    | some ea =>
      simp only [List.getD, hget, Option.getD_some] at ht0
      exact ⟨i, ea, t0, hget, ht0, rfl, rfl⟩
  · left
    have h1 : ∀ i, k ≠ .arg i := fun i hh => harg ⟨i, hh⟩
    have : outTok eargs hs k = [⟨specBodyTok k, hs⟩] := by
      cases k <;> first | rfl | exact absurd rfl (h1 _)
    rw [this] at hk
    simp only [List.mem_singleton] at hk
    rw [hk]


/-! ## `split_macro_args` and the reference's `collectArgs` read the same arguments -/

/-- corresponding argument lists -/
def ArgsRel (lacc : List (List HTok)) (acc : List (List PTok)) : Prop :=
  lacc.length = acc.length ∧
    ∀ (i : Nat) (la : List HTok) (a : List PTok), lacc[i]? = some la → acc[i]? = some a → la.map (·.tok) = ppTokens a

theorem argsRel_nil : ArgsRel [] [] := ⟨rfl, fun i la a h => by simp at h⟩

theorem argsRel_snoc {lacc : List (List HTok)} {acc : List (List PTok)} (h : ArgsRel lacc acc) (la : List HTok)
    (a : List PTok) (hla : la.map (·.tok) = ppTokens a) : ArgsRel (lacc ++ [la]) (acc ++ [a]) := by
  refine ⟨by simp [h.1], ?_⟩
  intro i x y hx hy
  by_cases hi : i < lacc.length
  · rw [List.getElem?_append_left hi] at hx
    rw [List.getElem?_append_left (by rw [← h.1]; exact hi)] at hy
    exact h.2 i x y hx hy
  · have hi' : lacc.length ≤ i := by omega
    rw [List.getElem?_append_right hi'] at hx
    rw [List.getElem?_append_right (by rw [← h.1]; exact hi')] at hy
    rw [h.1] at hx
    cases hk : i - acc.length with
    | zero =>
      simp only [hk, List.getElem?_cons_zero, Option.some.injEq] at hx hy
      subst hx; subst hy; exact hla
    | succ k => simp [hk] at hx

theorem scanArgs_collect (ts : List PTok) :
    ∀ (cur : List PTok) (acc : List (List PTok)) (d : Nat) (rest' : List PTok) (args : List (List PTok)),
    scanArgs ts cur acc d = .ok (rest', args) →
    ∀ (lts lcur : List HTok) (lacc : List (List HTok)),
    lts.map (·.tok) = ppTokens ts → lcur.map (·.tok) = ppTokens cur → ArgsRel lacc acc →
    ∃ largs hs' lrest, collectArgs lts d lcur lacc = some (largs, hs', lrest) ∧
      lrest.map (·.tok) = ppTokens rest' ∧ ArgsRel largs args ∧
      (∀ t ∈ lrest, t ∈ lts) ∧
      (∀ a ∈ largs, ∀ t ∈ a, t ∈ lts ∨ t ∈ lcur ∨ ∃ a0 ∈ lacc, t ∈ a0) ∧
      (∃ tr ∈ lts, tr.hide = hs') := by
  induction ts with
  | nil => intro cur acc d rest' args h; simp [scanArgs] at h
  | cons t ts ih =>
    intro cur acc d rest' args h lts lcur lacc h1 h2 h3
    by_cases hw : t.tok.isWhitespace = true
    · -- white space goes into the current argument and is invisible to the reference
      have hstep : scanArgs (t :: ts) cur acc d = scanArgs ts (cur ++ [t]) acc d := by
        cases htk : t.tok <;> simp [htk, Tok.isWhitespace] at hw <;> simp [scanArgs, htk]
      rw [hstep] at h
      rw [ppTokens_cons_ws t ts hw] at h1
      have h2' : lcur.map (·.tok) = ppTokens (cur ++ [t]) := by
        rw [ppTokens_append, ppTokens_cons_ws t [] hw, ppTokens_nil, List.append_nil]; exact h2
      exact ih _ _ _ _ _ h lts lcur lacc h1 h2' h3
    · have hw' : t.tok.isWhitespace = false := by simpa using hw
      rw [ppTokens_cons t ts hw'] at h1
      cases lts with
      | nil => simp at h1
      | cons lt lts' =>
        simp only [List.map_cons, List.cons.injEq] at h1
        obtain ⟨hlt, h1'⟩ := h1
        have h2push : (lcur ++ [lt]).map (·.tok) = ppTokens (cur ++ [t]) := by
          rw [ppTokens_append, ppTokens_cons t [] hw', ppTokens_nil, List.map_append, h2, List.map_cons, hlt]; rfl
        -- the token is pushed onto the current argument, at depth `d'`
        have push : ∀ d', scanArgs ts (cur ++ [t]) acc d' = .ok (rest', args) →
            ∃ largs hs' lrest, collectArgs lts' d' (lcur ++ [lt]) lacc = some (largs, hs', lrest) ∧
              lrest.map (·.tok) = ppTokens rest' ∧ ArgsRel largs args ∧
              (∀ t ∈ lrest, t ∈ lt :: lts') ∧
              (∀ a ∈ largs, ∀ t ∈ a, t ∈ lt :: lts' ∨ t ∈ lcur ∨ ∃ a0 ∈ lacc, t ∈ a0) ∧
              (∃ tr ∈ lt :: lts', tr.hide = hs') := by
          intro d' hh
          obtain ⟨largs, hs', lrest, c1, c2, c3, c4, c5, tr, c6, c7⟩ :=
            ih _ _ _ _ _ hh lts' (lcur ++ [lt]) lacc h1' h2push h3
          refine ⟨largs, hs', lrest, c1, c2, c3, fun x hx => List.mem_cons_of_mem _ (c4 x hx), ?_,
            tr, List.mem_cons_of_mem _ c6, c7⟩
          intro a ha x hx
          rcases c5 a ha x hx with c | c | c
          · exact Or.inl (List.mem_cons_of_mem _ c)
          · rcases List.mem_append.mp c with c | c
            · exact Or.inr (Or.inl c)
            · simp only [List.mem_singleton] at c
              exact Or.inl (by rw [c]; simp)
          · exact Or.inr (Or.inr c)
        cases htk : t.tok with
        | comma =>
          simp only [scanArgs, htk] at h
          rw [htk] at hlt
          simp only [collectArgs, hlt]
          split at h
          · rename_i hd
            simp only [hd, if_true]
            obtain ⟨largs, hs', lrest, c1, c2, c3, c4, c5, tr, c6, c7⟩ :=
              ih _ _ _ _ _ h lts' [] (lacc ++ [lcur]) h1' rfl
                (argsRel_snoc h3 lcur (trim cur) (by rw [ppTokens_trim]; exact h2))
            subst hd
            refine ⟨largs, hs', lrest, c1, c2, c3, fun x hx => List.mem_cons_of_mem _ (c4 x hx), ?_,
              tr, List.mem_cons_of_mem _ c6, c7⟩
            intro a ha x hx
            rcases c5 a ha x hx with c | c | ⟨a0, ha0, c⟩
            · exact Or.inl (List.mem_cons_of_mem _ c)
            · cases c
            · rcases List.mem_append.mp ha0 with c' | c'
              · exact Or.inr (Or.inr ⟨a0, c', c⟩)
              · simp only [List.mem_singleton] at c'
                subst c'
                exact Or.inr (Or.inl c)
          · rename_i hd
            simp only [hd, if_false]
            exact push d h
        | lparen =>
          simp only [scanArgs, htk] at h
          rw [htk] at hlt
          simp only [collectArgs, hlt]
          exact push (d + 1) h
        | rparen =>
          simp only [scanArgs, htk] at h
          rw [htk] at hlt
          simp only [collectArgs, hlt]
          split at h
          · rename_i hd
            simp only [hd, if_true]
            cases h
            refine ⟨lacc ++ [lcur], lt.hide, lts', rfl, h1', ?_, fun x hx => List.mem_cons_of_mem _ hx, ?_,
              lt, by simp, rfl⟩
            · exact argsRel_snoc h3 lcur (trim cur) (by rw [ppTokens_trim]; exact h2)
            · intro a ha x hx
              rcases List.mem_append.mp ha with c' | c'
              · exact Or.inr (Or.inr ⟨a, c', hx⟩)
              · simp only [List.mem_singleton] at c'
                subst c'
                exact Or.inr (Or.inl hx)
          · rename_i hd
            simp only [hd, if_false]
            exact push (d - 1) h
        | ws => simp [htk, Tok.isWhitespace] at hw'
        | endline => simp [htk, Tok.isWhitespace] at hw'
        | _ =>
          simp only [scanArgs, htk] at h
          rw [htk] at hlt
          simp only [collectArgs, hlt]
          exact push d h


/-! ## pieces of the `invoke` case -/

theorem exists_list {α β : Type} (l : List α) (P : Nat → α → β → Prop)
    (h : ∀ (i : Nat) (a : α), l[i]? = some a → ∃ b, P i a b) :
    ∃ bs : List β, bs.length = l.length ∧ ∀ (i : Nat) (a : α) (b : β), l[i]? = some a → bs[i]? = some b → P i a b := by
  induction l generalizing P with
  | nil => exact ⟨[], rfl, fun i a b ha => by simp at ha⟩
  | cons a0 as ih =>
    obtain ⟨b0, hb0⟩ := h 0 a0 (by simp)
    obtain ⟨bs, hlen, hbs⟩ := ih (fun i => P (i + 1)) (fun i a ha => h (i + 1) a (by simpa using ha))
    refine ⟨b0 :: bs, by simp [hlen], ?_⟩
    intro i a b ha hb
    cases i with
    | zero => simp at ha hb; subst ha; subst hb; exact hb0
    | succ j => exact hbs j a b (by simpa using ha) (by simpa using hb)

theorem readArgs_fn (m : Macro) (remaining rest : List PTok) (args : List (List PTok)) (hf : m.isFunction = true)
    (h : readArgs m remaining = .ok (rest, args)) :
    ∃ b tail, trimStartAll remaining = ⟨.lparen, b⟩ :: tail ∧ scanArgs tail [] [] 0 = .ok (rest, args) ∧
      (if m.numParams = 0 then ∃ a, args = [a] ∧ ppTokens a = [] else args.length = m.numParams) := by
  have hs := RsslVerif.Lemmas.MacroTerm.readArgs_ok_function m remaining rest args hf h
  unfold readArgs at h
  simp only [hf, if_true, hs] at h
  unfold splitArgs at hs
  split at hs
  · rename_i b tail htrim
    refine ⟨b, tail, htrim, hs, ?_⟩
    split at h
    · rename_i hn
      simp only [hn, if_true]
      split at h
      · rename_i a
        split at h
        · rename_i hemp
          refine ⟨a, rfl, ?_⟩
          rw [← ppTokens_trimStartAll a]
          simp only [List.isEmpty_iff] at hemp
          rw [hemp]; rfl
        · cases h
      · cases h
    · rename_i hn
      simp only [hn, if_false]
      split at h
      · cases h
      · rename_i hlen
        simpa using hlen
  · cases hs

theorem wf_disable {env : List Entry} {mi : Nat} (h : ∀ e ∈ env, WFMacro e.m) : ∀ e ∈ disable env mi, WFMacro e.m := by
  intro e he
  obtain ⟨e0, he0, hm, _⟩ := mem_disable he
  rw [hm]; exact h e0 he0

theorem plainToks_of_wf {m : Macro} (h : WFMacro m) : PlainToks m.numParams (ppTokens m.body) := by
  refine ⟨?_, ?_, ?_, ?_⟩
  · intro hh; obtain ⟨t, ht, htk⟩ := mem_ppTokens hh; exact h.noHash t ht htk
  · intro hh; obtain ⟨t, ht, htk⟩ := mem_ppTokens hh; exact h.noConcat t ht htk
  · intro s hh i; obtain ⟨t, ht, htk⟩ := mem_ppTokens hh; exact h.noParamName t ht s htk i
  · intro i hh; obtain ⟨t, ht, htk⟩ := mem_ppTokens hh; exact (h.argRange t ht i htk).1

theorem ppTokens_eq_nil {l : List PTok} (h : ppTokens l = []) : ∀ t ∈ l, t.tok.isWhitespace = true := by
  induction l with
  | nil => intro t ht; cases ht
  | cons x r ih =>
    by_cases hw : x.tok.isWhitespace = true
    · rw [ppTokens_cons_ws x r hw] at h
      intro t ht
      rcases List.mem_cons.mp ht with rfl | ht
      · exact hw
      · exact ih h t ht
    · rw [ppTokens_cons x r (by simpa using hw)] at h
      cases h

/-- the last token that is not white space -/
theorem last_tok_split (R : List PTok) (pre : List Tok) (k : Tok) (h : ppTokens R = pre ++ [k]) :
    ∃ R0 b R1, R = R0 ++ ⟨k, b⟩ :: R1 ∧ ∀ t ∈ R1, t.tok.isWhitespace = true := by
  induction R generalizing pre with
  | nil => simp [ppTokens_nil] at h
  | cons x r ih =>
    by_cases hw : x.tok.isWhitespace = true
    · rw [ppTokens_cons_ws x r hw] at h
      obtain ⟨R0, b, R1, hR, hws⟩ := ih pre h
      exact ⟨x :: R0, b, R1, by simp [hR], hws⟩
    · rw [ppTokens_cons x r (by simpa using hw)] at h
      cases pre with
      | nil =>
        simp only [List.nil_append, List.cons.injEq] at h
        obtain ⟨hk, hr⟩ := h
        refine ⟨[], x.located, r, ?_, ppTokens_eq_nil hr⟩
        rw [← hk]; rfl
      | cons p pre' =>
        simp only [List.cons_append, List.cons.injEq] at h
        obtain ⟨R0, b, R1, hR, hws⟩ := ih pre' h.2
        exact ⟨x :: R0, b, R1, by simp [hR], hws⟩

/-- the relation between the replacement list after `subst` and after `substitute` -/
theorem rel_body {env : List Entry} {n : String} {mi : Nat} {e : Entry} (hsel : Selects env n mi e)
    (np : Nat) (hpt : PlainToks np (ppTokens e.m.body)) (hsNew : List String) (eargs : List (List HTok))
    (args' : List (List PTok)) (body' : List PTok)
    (hsup : ∀ x, (x = n ∨ x ∈ disabledNames env) → x ∈ hsNew)
    (hsub : ∀ x ∈ hsNew, x = n ∨ x ∈ disabledNames env)
    (htoks : ∀ i, i < np → (eargs.getD i []).map (·.tok) = ppTokens (args'.getD i []))
    (hea : ∀ (i : Nat) (ea : List HTok), eargs[i]? = some ea → ∃ a', args'[i]? = some a' ∧ ea.map (·.tok) = ppTokens a' ∧
      (OnlyDisabled env a' ∨ Exact env ea))
    (hsubst : substitute e.m.body args' = .ok body') :
    Rel (disable env mi) ((ppTokens e.m.body).flatMap (outTok eargs hsNew)) body' := by
  have hdn : ∀ x, x ∈ disabledNames (disable env mi) ↔ x = n ∨ x ∈ disabledNames env := by
    intro x; rw [disabledNames_disable hsel.get, hsel.name]
  refine ⟨?_, ?_, ?_⟩
  · rw [outTok_toks np eargs args' hsNew _ hpt htoks, substitute_pp _ _ _ hsubst]
  · intro t ht x hx
    have hx' := hsup x ((hdn x).mp hx)
    rcases outTok_hide eargs hsNew _ t ht with h | ⟨i, ea, t0, _, _, _, h⟩
    · rw [h]; exact hx'
    · rw [h]; exact List.mem_append_right _ hx'
  · intro t ht x htx hen y hy
    rcases outTok_hide eargs hsNew _ t ht with h | ⟨i, ea, t0, hget, ht0, htk, hhide⟩
    · rw [h] at hy
      exact (hdn y).mpr (hsub y hy)
    · obtain ⟨a', ha', hmap, hok⟩ := hea i ea hget
      obtain ⟨e', he', hname, hen'⟩ := hen
      obtain ⟨e0, he0, hm, himp⟩ := mem_disable he'
      rcases hok with hod | hex
      · -- a token out of an expanded argument names disabled entries only
        exfalso
        have hmem : Tok.id x ∈ ppTokens a' := by
          rw [← hmap, ← htx, htk]
          exact List.mem_map.mpr ⟨t0, ht0, rfl⟩
        obtain ⟨pt, hpt, hptk⟩ := mem_ppTokens hmem
        have := hod pt hpt x hptk e0 he0 (by rw [← hm]; exact hname)
        rw [himp this] at hen'
        cases hen'
      · -- or nothing was expanded in the argument: its tokens carry the hide set of the tokens around the invocation
        rw [hhide] at hy
        rcases List.mem_append.mp hy with hy | hy
        · have he0en : e0.disabled = false := by
            cases hd : e0.disabled with
            | false => rfl
            | true => rw [himp hd] at hen'; cases hen'
          have := hex t0 ht0 x (by rw [← htk]; exact htx) ⟨e0, he0, by rw [← hm]; exact hname, he0en⟩ y hy
          exact (hdn y).mpr (Or.inr this)
        · exact (hdn y).mpr (hsub y hy)


/-- the token at the end of the expanded replacement list is kept when the rest of the source follows it -/
theorem keep_tail {env : List Entry} {n : String} {mi : Nat} {e : Entry} (hsel : Selects env n mi e)
    (Rs r0 : List HTok) (g : HTok) (R rest' : List PTok) (lrest : List HTok)
    (hRs : Rs = r0 ++ [g]) (hroR : RelOut (disable env mi) Rs R) (hkeep : KeepS (specTable env) g [])
    (hnf : NoFire env mi R rest') (hrest : lrest.map (·.tok) = ppTokens rest') :
    KeepS (specTable env) g lrest := by
  intro x hx
  rcases hkeep x hx with h | h | ⟨m, ps, hfind, hpar, _⟩
  · exact Or.inl h
  · exact Or.inr (Or.inl h)
  · by_cases hlp : ∃ h rest'', lrest = ⟨.lparen, h⟩ :: rest''
    · left
      obtain ⟨h0, rest'', hl⟩ := hlp
      have hsp : startsParen rest' = true := by
        unfold startsParen; rw [firstTok_eq_head, ← hrest, hl]; rfl
      obtain ⟨ex, hex, hm, hname⟩ := find_specTable_some hfind
      have hfn : ex.m.isFunction = true := by
        rw [hm] at hpar
        cases hf : ex.m.isFunction with
        | true => rfl
        | false => simp [ofMacro, hf] at hpar
      obtain ⟨j, hj⟩ := List.mem_iff_getElem?.mp hex
      have hpp : ppTokens R = r0.map (·.tok) ++ [Tok.id x] := by
        rw [← hroR.toks, hRs, List.map_append, List.map_cons, hx]; rfl
      obtain ⟨R0, b, R1, hR, hws⟩ := last_tok_split R _ _ hpp
      have hg : g ∈ Rs := by rw [hRs]; simp
      have hin : x ∈ g.hide := by
        apply hroR.sup g hg
        rw [disabledNames_disable hsel.get]
        rcases hnf R0 x b R1 hR hws hsp j ex hj hname hfn with hd | hjm
        · exact Or.inr (mem_disabledNames.mpr ⟨ex, hex, hd, hname⟩)
        · subst hjm
          rw [hsel.get] at hj
          cases hj
          exact Or.inl hname.symm
      simpa using hin
    · right; right
      exact ⟨m, ps, hfind, hpar, fun h rest'' heq => hlp ⟨h, rest'', heq⟩⟩

/-- the expanded replacement list in front of the rest of the source -/
theorem invoke_tail {env : List Entry} {n : String} {mi : Nat} {e : Entry} (hsel : Selects env n mi e)
    (b Rs : List HTok) (R rest' out : List PTok) (lrest r2 : List HTok)
    (hsR : SExp (specTable env) b Rs) (hroR : RelOut (disable env mi) Rs R) (hnf : NoFire env mi R rest')
    (hs2 : SExp (specTable env) lrest r2) (hro2 : RelOut env r2 out) (hrest : lrest.map (·.tok) = ppTokens rest') :
    SExp (specTable env) (b ++ lrest) (Rs ++ r2) ∧ RelOut env (Rs ++ r2) (R ++ out) := by
  obtain ⟨r0, tail, hRs, hlen, hkeep, hctx⟩ := sexp_context hsR
  have htail : SExp (specTable env) (tail ++ lrest) (tail ++ r2) := by
    cases tail with
    | nil => exact hs2
    | cons g tl =>
      have : tl = [] := by
        cases tl with
        | nil => rfl
        | cons _ _ => simp at hlen
      subst this
      exact SExp.keep g lrest r2
        (keep_tail hsel Rs r0 g R rest' lrest hRs hroR (hkeep g (by simp)) hnf hrest) hs2
  have h1 := hctx lrest (tail ++ r2) htail
  rw [← List.append_assoc, ← hRs] at h1
  refine ⟨h1, ?_, ?_⟩
  · rw [List.map_append, ppTokens_append, hroR.toks, hro2.toks]
  · intro t ht x hx
    rcases List.mem_append.mp ht with h | h
    · apply hroR.sup t h
      rw [disabledNames_disable hsel.get]
      exact Or.inr hx
    · exact hro2.sup t h x hx

theorem not_painted {env : List Entry} {n : String} {mi : Nat} {e : Entry} (hsel : Selects env n mi e)
    (ts : HTok) (hsub : ∀ x ∈ ts.hide, x ∈ disabledNames env) : ts.hide.contains n = false := by
  apply Bool.eq_false_iff.mpr
  intro hc
  have hmem : n ∈ ts.hide := by simpa using hc
  obtain ⟨e', he', hd, hn⟩ := mem_disabledNames.mp (hsub n hmem)
  obtain ⟨j, hj⟩ := List.mem_iff_getElem?.mp he'
  have := hsel.uniq j e' hj hn
  subst this
  rw [hsel.get] at hj
  cases hj
  rw [hsel.enabled] at hd
  cases hd


theorem fixArgs_eq (np : Nat) (largs : List (List HTok)) (args : List (List PTok)) (hrel : ArgsRel largs args)
    (har : if np = 0 then ∃ a, args = [a] ∧ ppTokens a = [] else args.length = np) :
    fixArgs (paramNames np) largs = largs.take np ∧ (largs.take np).length = np := by
  by_cases hnp : np = 0
  · simp only [hnp, if_true] at har
    subst hnp
    obtain ⟨a0, har, ha0⟩ := har
    have hlen : largs.length = 1 := by rw [hrel.1, har]; rfl
    have : largs = [[]] := by
      cases largs with
      | nil => simp at hlen
      | cons la r =>
        cases r with
        | cons _ _ => simp at hlen
        | nil =>
          have := hrel.2 0 la a0 (by simp) (by rw [har]; rfl)
          simp only [ha0, List.map_eq_nil_iff] at this
          rw [this]
    subst this
    simp [fixArgs, paramNames]
  · simp only [hnp, if_false] at har
    have hne : ¬ (paramNames np).isEmpty = true := by
      simp [paramNames, hnp]
    have hlen : largs.length = np := by rw [hrel.1, har]
    have htake : largs.take np = largs := List.take_of_length_le (by omega)
    rw [htake]
    simp [fixArgs, hne, hlen]

/-- `Kept` on the model side is `KeepS` on the reference side -/
theorem keepS_of_kept {env : List Entry} {t : PTok} {rest : List PTok} {ts : HTok} {ls' : List HTok}
    (hk : Kept env t rest) (hts : ts.tok = t.tok) (htoks' : ls'.map (·.tok) = ppTokens rest)
    (hsup : ∀ x ∈ disabledNames env, x ∈ ts.hide) : KeepS (specTable env) ts ls' := by
  intro n hn
  have htn : t.tok = .id n := by rw [← hts]; exact hn
  cases hfind : find (specTable env) n with
  | none => exact Or.inr (Or.inl rfl)
  | some m =>
    obtain ⟨e, he, hm, hname⟩ := find_specTable_some hfind
    rcases hk.2 n htn e he hname with hd | ⟨hf, hsp⟩
    · left
      have : n ∈ ts.hide := hsup n (mem_disabledNames.mpr ⟨e, he, hd, hname⟩)
      simpa using this
    · right; right
      refine ⟨m, paramNames e.m.numParams, rfl, by rw [hm]; simp [ofMacro, hf, paramNames], ?_⟩
      intro hh rest'' heq
      have : startsParen rest = true := by
        unfold startsParen; rw [firstTok_eq_head, ← htoks', heq]; rfl
      rw [hsp] at this; cases this

/-- a list none of whose tokens starts an operation is left as it is by the reference: the very same tokens, with the
hide sets they had -/
theorem allKept_sexp {env : List Entry} : ∀ (a : List PTok), AllKept env a → ∀ la, Rel env la a →
    SExp (specTable env) la la
  | [], _, la, hrel => by
    have : la = [] := by simpa [ppTokens_nil] using hrel.toks
    subst this; exact SExp.nil
  | t :: rest, hk, la, hrel => by
    by_cases hw : t.tok.isWhitespace = true
    · exact allKept_sexp rest hk.2 la
        ⟨by rw [← ppTokens_cons_ws t rest hw]; exact hrel.toks, hrel.sup, hrel.sub⟩
    · have hw' : t.tok.isWhitespace = false := by simpa using hw
      have htoks := hrel.toks
      rw [ppTokens_cons t rest hw'] at htoks
      cases la with
      | nil => simp at htoks
      | cons ts ls' =>
        simp only [List.map_cons, List.cons.injEq] at htoks
        obtain ⟨hts, htoks'⟩ := htoks
        have hrel' : Rel env ls' rest :=
          ⟨htoks', fun x hx => hrel.sup x (by simp [hx]), fun x hx => hrel.sub x (by simp [hx])⟩
        exact SExp.keep ts ls' ls' (keepS_of_kept hk.1 hts htoks' (hrel.sup ts (by simp)))
          (allKept_sexp rest hk.2 ls' hrel')

/-- ... and by rssl: the only derivation is the one that keeps every token -/
theorem tame_allKept {env : List Entry} {a a' : List PTok} (h : Tame env a a') : AllKept env a → a' = a := by
  induction h with
  | nil env => intro _; rfl
  | keep env t rest out _ _ ih => intro hk; rw [ih hk.2]
  | invoke env n b rest mi e rest' args args' body' R out hsel hra _ _ _ _ _ _ _ _ _ _ =>
    intro hk
    exfalso
    rcases hk.1.2 n rfl e (List.mem_of_getElem? hsel.get) hsel.name with hd | ⟨hf, hsp⟩
    · rw [hsel.enabled] at hd; cases hd
    · obtain ⟨bb, tail, htrim, _, _⟩ := readArgs_fn e.m rest rest' args hf hra
      rw [startsParen_of_trimStartAll rest bb tail htrim] at hsp
      cases hsp

/-- **A tame derivation is what the reference algorithm computes**, on every reference token list that is related
to the model's by `Rel` (hide sets = names of the disabled entries). -/
theorem tame_spec {env : List Entry} {l out : List PTok} (h : Tame env l out) :
    (∀ e ∈ env, WFMacro e.m) → ∀ ls, Rel env ls l → ∃ r, SExp (specTable env) ls r ∧ RelOut env r out := by
  induction h with
  | nil env =>
    intro _ ls hrel
    have : ls = [] := by
      have := hrel.toks
      simpa [ppTokens_nil] using this
    subst this
    exact ⟨[], SExp.nil, ⟨rfl, by simp⟩⟩
  | keep env t rest out hk _ ih =>
    intro hwf ls hrel
    by_cases hw : t.tok.isWhitespace = true
    · have hrel' : Rel env ls rest :=
        ⟨by rw [← ppTokens_cons_ws t rest hw]; exact hrel.toks, hrel.sup, hrel.sub⟩
      obtain ⟨r, hs, hro⟩ := ih hwf ls hrel'
      exact ⟨r, hs, ⟨by rw [ppTokens_cons_ws t out hw]; exact hro.toks, hro.sup⟩⟩
    · have hw' : t.tok.isWhitespace = false := by simpa using hw
      have htoks := hrel.toks
      rw [ppTokens_cons t rest hw'] at htoks
      cases ls with
      | nil => simp at htoks
      | cons ts ls' =>
        simp only [List.map_cons, List.cons.injEq] at htoks
        obtain ⟨hts, htoks'⟩ := htoks
        have hrel' : Rel env ls' rest :=
          ⟨htoks', fun x hx => hrel.sup x (by simp [hx]), fun x hx => hrel.sub x (by simp [hx])⟩
        obtain ⟨r, hs, hro⟩ := ih hwf ls' hrel'
        have hkeep : KeepS (specTable env) ts ls' := by
          intro n hn
          have htn : t.tok = .id n := by rw [← hts]; exact hn
          cases hfind : find (specTable env) n with
          | none => exact Or.inr (Or.inl rfl)
          | some m =>
            obtain ⟨e, he, hm, hname⟩ := find_specTable_some hfind
            rcases hk.2 n htn e he hname with hd | ⟨hf, hsp⟩
            · left
              have : n ∈ ts.hide := hrel.sup ts (by simp) n (mem_disabledNames.mpr ⟨e, he, hd, hname⟩)
              simpa using this
            · right; right
              refine ⟨m, paramNames e.m.numParams, rfl, by rw [hm]; simp [ofMacro, hf, paramNames], ?_⟩
              intro hh rest'' heq
              have : startsParen rest = true := by
                unfold startsParen; rw [firstTok_eq_head, ← htoks', heq]; rfl
              rw [hsp] at this; cases this
        refine ⟨ts :: r, SExp.keep ts ls' r hkeep hs, ⟨?_, ?_⟩⟩
        · rw [ppTokens_cons t out hw', List.map_cons, hts, hro.toks]
        · intro x hx
          rcases List.mem_cons.mp hx with rfl | hx
          · exact hrel.sup _ (by simp)
          · exact hro.sup x hx
  | invoke env n b rest mi e rest' args args' body' R out hsel hra hlen hargs hod hsub hbody hnf hrest
      ihargs ihbody ihrest =>
    intro hwf ls hrel
    have hwfe : WFMacro e.m := hwf e (List.mem_of_getElem? hsel.get)
    have htoks := hrel.toks
    rw [ppTokens_cons _ rest (by rfl)] at htoks
    cases ls with
    | nil => simp at htoks
    | cons ts ls' =>
      simp only [List.map_cons, List.cons.injEq] at htoks
      obtain ⟨hts, htoks'⟩ := htoks
      have hen : ∃ e' ∈ env, e'.m.name = n ∧ e'.disabled = false :=
        ⟨e, List.mem_of_getElem? hsel.get, hsel.name, hsel.enabled⟩
      have htsub : ∀ x ∈ ts.hide, x ∈ disabledNames env := hrel.sub ts (by simp) n hts hen
      have htsup : ∀ x ∈ disabledNames env, x ∈ ts.hide := hrel.sup ts (by simp)
      have hnp := not_painted hsel ts htsub
      have hfind := find_specTable_selects hsel
      cases hfn : e.m.isFunction with
      | false =>
        -- object-like
        have hs := readArgs_spec e.m rest rest' args hra
        simp only [hfn, Bool.false_eq_true, if_false] at hs
        obtain ⟨hr, ha⟩ := hs
        subst hr; subst ha
        have ha' : args' = [] := by simpa using hlen
        subst ha'
        have hnoarg : ∀ i, Tok.arg i ∉ ppTokens e.m.body := by
          intro i hi
          obtain ⟨t, ht, htk⟩ := mem_ppTokens hi
          have := (hwfe.argRange t ht i htk).2
          rw [hfn] at this; cases this
        have hpt0 : PlainToks 0 (ppTokens e.m.body) := by
          have := plainToks_of_wf hwfe
          exact ⟨this.noHash, this.noConcat, this.noParamName, fun i hi => absurd hi (hnoarg i)⟩
        have hrelb : Rel (disable env mi) ((ppTokens e.m.body).flatMap (outTok [] (n :: ts.hide))) body' := by
          apply rel_body hsel 0 hpt0 (n :: ts.hide) [] [] body'
          · rintro x (rfl | hx)
            · simp
            · exact List.mem_cons_of_mem _ (htsup x hx)
          · intro x hx
            rcases List.mem_cons.mp hx with rfl | hx
            · exact Or.inl rfl
            · exact Or.inr (htsub x hx)
          · intro i hi; omega
          · intro i ea h; simp at h
          · exact hsub
        obtain ⟨Rs, hsR, hroR⟩ := ihbody (wf_disable hwf) _ hrelb
        rw [specTable_disable] at hsR
        have hrel' : Rel env ls' rest' :=
          ⟨htoks', fun x hx => hrel.sup x (by simp [hx]), fun x hx => hrel.sub x (by simp [hx])⟩
        obtain ⟨r2, hs2, hro2⟩ := ihrest hwf ls' hrel'
        obtain ⟨h1, h2⟩ := invoke_tail hsel _ Rs R rest' out ls' r2 hsR hroR hnf hs2 hro2 htoks'
        refine ⟨Rs ++ r2, ?_, h2⟩
        apply SExp.obj ts n (ofMacro e.m) ls' _ _ hts hnp hfind (by simp [ofMacro, hfn]) ?_ h1
        intro ex
        exact subst_plain ex e.m [] [] (n :: ts.hide) (fun hf => by rw [hfn] at hf; cases hf)
          (plainToks_of_wf hwfe) (fun _ => hnoarg)
      | true =>
        -- function-like
        obtain ⟨bb, tail, htrim, hscan, har⟩ := readArgs_fn e.m rest rest' args hfn hra
        have hls' : ls'.map (·.tok) = Tok.lparen :: ppTokens tail := by
          rw [htoks', ← ppTokens_trimStartAll rest, htrim, ppTokens_cons _ tail (by rfl)]
        cases ls' with
        | nil => simp at hls'
        | cons lp lts =>
          simp only [List.map_cons, List.cons.injEq] at hls'
          obtain ⟨hlp, hlts⟩ := hls'
          obtain ⟨lpt, lph⟩ := lp
          simp only at hlp
          subst hlp
          obtain ⟨largs, hs', lrest, hcoll, hlrest, hargsrel, hmemrest, hmemargs, tr, htr, htrh⟩ :=
            scanArgs_collect tail [] [] 0 rest' args hscan lts [] [] hlts rfl argsRel_nil
          have hinls : ∀ t ∈ lts, t ∈ ts :: ⟨.lparen, lph⟩ :: lts := fun t ht => by simp [ht]
          -- the rest of the source
          have hrel' : Rel env lrest rest' :=
            ⟨hlrest, fun x hx => hrel.sup x (hinls x (hmemrest x hx)),
              fun x hx => hrel.sub x (hinls x (hmemrest x hx))⟩
          obtain ⟨r2, hs2, hro2⟩ := ihrest hwf lrest hrel'
          -- the arguments
          have hargmem : ∀ la ∈ largs, ∀ t ∈ la, t ∈ lts := by
            intro la hla t ht
            rcases hmemargs la hla t ht with h | h | ⟨a0, ha0, _⟩
            · exact h
            · cases h
            · cases ha0
          have hexp : ∀ (i : Nat) (la : List HTok), largs[i]? = some la →
              ∃ ea, SExp (specTable env) la ea ∧ ∃ a', args'[i]? = some a' ∧ RelOut env ea a' ∧
                (OnlyDisabled env a' ∨ Exact env ea) := by
            intro i la hla
            have hi : i < largs.length := (List.getElem?_eq_some_iff.mp hla).1
            have hi2 : i < args.length := by rw [← hargsrel.1]; exact hi
            have hi3 : i < args'.length := by rw [hlen]; exact hi2
            have ha : args[i]? = some args[i] := List.getElem?_eq_getElem hi2
            have ha' : args'[i]? = some args'[i] := List.getElem?_eq_getElem hi3
            have hmem := hargmem la (List.mem_of_getElem? hla)
            have hrela : Rel env la args[i] :=
              ⟨hargsrel.2 i la _ hla ha, fun x hx => hrel.sup x (hinls x (hmem x hx)),
                fun x hx => hrel.sub x (hinls x (hmem x hx))⟩
            rcases hod i _ _ ha ha' with hd | hak
            · obtain ⟨ea, hsea, hroea⟩ := ihargs i _ _ ha ha' hwf la hrela
              exact ⟨ea, hsea, _, ha', hroea, Or.inl hd⟩
            · -- nothing happens in this argument on either side: the reference keeps the very same tokens
              have heq : args'[i] = args[i] := tame_allKept (hargs i _ _ ha ha') hak
              exact ⟨la, allKept_sexp _ hak la hrela, _, ha',
                ⟨by rw [heq]; exact hrela.toks, hrela.sup⟩, Or.inr hrela.sub⟩
          obtain ⟨eargs0, helen, heargs⟩ := exists_list largs
            (fun i la ea => SExp (specTable env) la ea ∧ ∃ a', args'[i]? = some a' ∧ RelOut env ea a' ∧
              (OnlyDisabled env a' ∨ Exact env ea)) hexp
          obtain ⟨hfix, hfixlen⟩ := fixArgs_eq e.m.numParams largs args hargsrel har
          have hnple : e.m.numParams ≤ largs.length := by
            rw [List.length_take] at hfixlen; omega
          -- every parameter has its argument on both sides
          have hget : ∀ i, i < e.m.numParams → ∃ la ea a', largs[i]? = some la ∧ eargs0[i]? = some ea ∧
              args'[i]? = some a' ∧ SExp (specTable env) la ea ∧ RelOut env ea a' ∧
              (OnlyDisabled env a' ∨ Exact env ea) := by
            intro i hi
            have h1 : i < largs.length := by omega
            have h2 : i < eargs0.length := by omega
            have hla : largs[i]? = some largs[i] := List.getElem?_eq_getElem h1
            have hea : eargs0[i]? = some eargs0[i] := List.getElem?_eq_getElem h2
            obtain ⟨hse, a', ha', hro, hok⟩ := heargs i _ _ hla hea
            exact ⟨_, _, a', hla, hea, ha', hse, hro, hok⟩
          have hrelb : Rel (disable env mi)
              ((ppTokens e.m.body).flatMap (outTok (eargs0.take e.m.numParams)
                (n :: ts.hide.filter (hs'.contains ·)))) body' := by
            apply rel_body hsel e.m.numParams (plainToks_of_wf hwfe) _ (eargs0.take e.m.numParams) args' body'
            · rintro x (rfl | hx)
              · simp
              · apply List.mem_cons_of_mem
                rw [List.mem_filter]
                refine ⟨htsup x hx, ?_⟩
                have := hrel.sup tr (hinls tr htr) x hx
                rw [htrh] at this
                simpa using this
            · intro x hx
              rcases List.mem_cons.mp hx with rfl | hx
              · exact Or.inl rfl
              · exact Or.inr (htsub x (List.mem_filter.mp hx).1)
            · intro i hi
              obtain ⟨la, ea, a', _, hea, ha', _, hro, _⟩ := hget i hi
              simp only [List.getD, List.getElem?_take, hi, if_true, hea, ha', Option.getD_some]
              exact hro.toks
            · intro i ea hea
              rw [List.getElem?_take] at hea
              split at hea
              · rename_i hi
                obtain ⟨la, ea2, a', _, hea2, ha', _, hro, hok⟩ := hget i hi
                rw [hea2] at hea
                cases hea
                exact ⟨a', ha', hro.toks, hok⟩
              · cases hea
            · exact hsub
          obtain ⟨Rs, hsR, hroR⟩ := ihbody (wf_disable hwf) _ hrelb
          rw [specTable_disable] at hsR
          obtain ⟨h1, h2⟩ := invoke_tail hsel _ Rs R rest' out lrest r2 hsR hroR hnf hs2 hro2 hlrest
          refine ⟨Rs ++ r2, ?_, h2⟩
          have hpar : (ofMacro e.m).params = some (paramNames e.m.numParams) := by
            simp [ofMacro, hfn, paramNames]
          apply SExp.fn ts n (ofMacro e.m) (paramNames e.m.numParams) lph lts largs (eargs0.take e.m.numParams) hs'
            lrest _ _ hts hnp hfind hpar hcoll ?_ ?_ ?_ ?_ h1
          · rw [hfix, hfixlen]; simp [paramNames]
          · rw [hfix, hfixlen, List.length_take]; omega
          · intro i a ea ha hea
            rw [hfix, List.getElem?_take] at ha
            rw [List.getElem?_take] at hea
            split at ha
            · simp only [*, if_true] at hea
              exact (heargs i a ea ha hea).1
            · cases ha
          · intro ex hagree
            rw [hfix]
            apply subst_plain ex e.m (largs.take e.m.numParams) (eargs0.take e.m.numParams) _ ?_
              (plainToks_of_wf hwfe) (fun hf => by rw [hfn] at hf; cases hf)
            intro _ i hi
            obtain ⟨la, ea, a', hla, hea, _, _, _, _⟩ := hget i hi
            have hla' : (largs.take e.m.numParams)[i]? = some la := by
              rw [List.getElem?_take]; simp [hi, hla]
            have hea' : (eargs0.take e.m.numParams)[i]? = some ea := by
              rw [List.getElem?_take]; simp [hi, hea]
            refine ⟨ea, hea', ?_⟩
            have := hagree i la ea (by rw [hfix]; exact hla') hea'
            simpa [List.getD, hla'] using this


/-! ## `WFMacro`, decided -/

theorem paramName_head (i : Nat) : (paramName i).toList.head? = some '$' := by
  simp [paramName, List.replicate_succ]

theorem wfMacro_of_wfB (m : Macro) (h : wfB m = true) : WFMacro m := by
  unfold wfB at h
  rw [List.all_eq_true] at h
  refine ⟨?_, ?_, ?_, ?_⟩
  · intro t ht hh
    have := h t ht
    simp [hh] at this
  · intro t ht hh
    have := h t ht
    simp [hh] at this
  · intro t ht s hs i hi
    have := h t ht
    simp only [hs, bne_iff_ne, ne_eq] at this
    apply this
    rw [hi, paramName_head]
  · intro t ht i hi
    have := h t ht
    simp only [hi, Bool.and_eq_true, decide_eq_true_eq] at this
    exact this


end RsslVerif.Lemmas.MacroTameSpec

import RsslVerif.Model.Slots
import RsslVerif.Driver.Util
/-! Line-protocol front end of the C06 model. -/
namespace RsslVerif.Driver.C06
open RsslVerif.Gen.SlotTables RsslVerif.Model.Slots RsslVerif.Driver

def parseParams (s : String) : Option Params :=
  match s.toList.map bit? with
  | [some a, some b, some c, some d] => some ⟨a, b, c, d⟩
  | _ => none

def parseDecl (s : String) : Option Decl :=
  match s.splitOn ":" with
  | ["o"] => some .other
  | ["c", set] => (optNat? set).map .cbuffer
  | ["g", set, ss, kind, len] => do
    let set ← optNat? set
    let ss ← match ss with | "1" => some true | "0" => some false | _ => none
    let kind ← if kind == "-" then some none else (ObjKind.ofName? kind).map some
    let len ← optNat? len
    pure (.global set ss kind len)
  | _ => none

def showBinding : Option Binding → String
  | none => "-"
  | some b =>
    toString b.set ++ "," ++
    (match b.loc with | .index i => "i" ++ toString i | .inline o => "n" ++ toString o) ++ "," ++
    (match b.slotType with | none => "-" | some r => r.name)

def showBuf (b : InlineBuf) : String :=
  toString b.set ++ "," ++ toString b.apiLocation ++ "," ++ toString b.sizeInBytes

def handle (op : String) (args : List String) : String :=
  match op, args with
  | "C06.assign", [ps, dflt, decls] =>
    match parseParams ps, dflt.toNat?,
          sequenceOpt ((if decls.isEmpty then [] else decls.splitOn ";").map parseDecl) with
    | some p, some d, some ds =>
      match assign p d ds with
      | .error e => "panic:" ++ e
      | .ok r => ";".intercalate (r.bindings.map showBinding) ++ " || " ++
                 ";".intercalate (r.inlineBufs.map showBuf)
    | _, _, _ => "bad-request"
  | _, _ => "unsupported-op"

end RsslVerif.Driver.C06

//! Exhaustive nesting shapes for the syntax the vector stream adds (member / swizzle, subscript, cast, constructor, call,
//! prefix and postfix operators, assignment, comma, `?:`): every outer form applied to every inner form, the nesting
//! fixed by parentheses in the source, so that the exporter's printer has to reproduce it (postfix binds tighter than
//! prefix and cast, `,` and `=` and `?:` need parentheses as operands, a call's arguments are separated by commas, …).
#![allow(dead_code)]

/// inner forms, all of type float3 over `v w : float3`, `u : float3` (assignable local), `a : float3[2]`, `i : int`, `c : bool`
pub const INNER: &[(&str, &str)] = &[
    ("var", "v"),
    ("neg", "-v"),
    ("cast", "(float3)i"),
    ("castvec", "(float3)(int3)w"),
    ("add", "v + w"),
    ("mul", "v * w"),
    ("tern", "c ? v : w"),
    ("ctor", "float3(v.x, w.yz)"),
    ("swz", "v.zyx"),
    ("idx", "a[1]"),
    ("call", "g(v)"),
    ("assign", "u = w + v"),
    ("compound", "u += w"),
    ("comma", "i, v"),
    ("preinc", "++u"),
    ("postinc", "u++"),
    ("builtin", "max(v, w)"),
];

/// outer forms over a float3 operand `X` (written with its own parentheses around `X`)
pub const OUTER: &[(&str, &str)] = &[
    ("swz3", "(X).zxy"),
    ("swz1", "(X).y"),
    ("swz2of", "(X).zy.y"),
    ("idx", "(X)[2]"),
    ("neg", "-(X)"),
    ("cast", "(int3)(X)"),
    ("castsc", "(float)(X)"),
    ("add_l", "(X) + w"),
    ("sub_r", "w - (X)"),
    ("mul_l", "(X) * w"),
    ("div_r", "w / (X)"),
    ("tern_t", "c ? (X) : w"),
    ("tern_f", "c ? w : (X)"),
    ("tern_c", "any((X) > w) ? v : w"),
    ("ctor", "float3((X).x, (X).yz)"),
    ("call", "g((X))"),
    ("call2", "h(w, (X))"),
    ("assign", "t = (X)"),
    ("compound", "t -= (X)"),
    ("comma_l", "((X), w)"),
    ("comma_r", "(i, (X))"),
    ("lt", "(float3)((X) < w)"),
];

pub fn stream() -> Vec<(String, String)> {
    let mut out = Vec::new();
    for (on, o) in OUTER {
        for (inn, i) in INNER {
            let e = o.replace("X", i);
            let src = format!(
                "float3 g(float3 x)\n{{\n    return x * 2.0f;\n}}\nfloat3 h(float3 x, float3 y)\n{{\n    return x - y;\n}}\n\
                 float3 f1(float3 v, float3 w, int i, bool c)\n{{\n    float3 u = w;\n    float3 t = v;\n    float3 a[2] = {{ v, w }};\n    float3 r = {};\n    return r + u * 3.0f + t * 5.0f;\n}}\n",
                e
            );
            out.push((format!("{}({})", on, inn), src));
        }
    }
    out
}

pub fn grid_text() -> String {
    [
        "V(f:3fc00000 f:40200000 f:40600000),V(f:40600000 f:3fc00000 f:c0200000),i:00000003,b:1",
        "V(f:3fc00000 f:40200000 f:40600000),V(f:40600000 f:3fc00000 f:c0200000),i:fffffffe,b:0",
        "V(f:80000000 f:7fc00000 f:00000001),V(f:ff800000 f:3f800000 f:00000000),i:00000000,b:1",
    ]
    .join(";")
}

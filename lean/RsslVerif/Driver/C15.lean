import RsslVerif.Model.Names
import RsslVerif.Gen.Reserved
import RsslVerif.Driver.Util
/-!
Line-protocol front end of the C15 model.

`C15.names <h|m> <program>`: the program descriptor is a space-separated token list

    item := ns NAME item* end | st NAME member* end | en NAME value* end | gl NAME
          | fn NAME PTYPES param* { stmt* }
    stmt := lv NAME | { stmt* } | use REF

from which the harness prints RSSL source.  This front end rebuilds the registries the type checker
produces for that source (namespace ids in order of first opening, structs / enums / globals / functions in
declaration order, enum values right after their enum, local variables = parameters then body locals,
function by function, usage analysis = every global / function named by a `use` in a function body) and runs the
model of `NameMap::build` with the reserved list of the target.
-/
namespace RsslVerif.Driver.C15
open RsslVerif.Model.Names RsslVerif.Driver

structure PState where
  nss : Array (Option Nat × String) := #[]
  structs : Array (Option Nat × String) := #[]
  /-- enums and their values in push order: (scope, name, isValue) -/
  enums : Array (Option Nat × String × Bool) := #[]
  used : Array Sym := #[]
  globals : Array (Option Nat × String) := #[]
  funcs : Array (Option Nat × String) := #[]
  locals : Array String := #[]

def findNs (st : PState) (parent : Option Nat) (name : String) : Option Nat :=
  (List.range st.nss.size).find? fun i => st.nss[i]! == (parent, name)

/-- skip tokens up to and including the matching `end` (struct members carry no names for `build`) -/
def skipToEnd : List String → List String
  | [] => []
  | "end" :: r => r
  | _ :: r => skipToEnd r

/-- the tokens before the matching `end` -/
def takeToEnd : List String → List String
  | [] => []
  | "end" :: _ => []
  | x :: r => x :: takeToEnd r

/-- `use G3` / `use F1` inside a function body: the symbol enters the usage analysis -/
def useSym (r : String) : Option Sym :=
  match r.toList with
  | 'G' :: ds => (String.ofList ds).toNat?.map (⟨.global, ·⟩)
  | 'F' :: ds => (String.ofList ds).toNat?.map (⟨.func, ·⟩)
  | _ => none

partial def parseStmts (st : PState) : List String → Option (PState × List String)
  | "}" :: r => some (st, r)
  | "lv" :: n :: r => parseStmts { st with locals := st.locals.push n } r
  | "use" :: u :: r =>
    parseStmts (match useSym u with | some y => { st with used := st.used.push y } | none => st) r
  | "{" :: r =>
    match parseStmts st r with
    | some (st', r') => parseStmts st' r'
    | none => none
  | _ => none

partial def parseItems (st : PState) (cur : Option Nat) (top : Bool) : List String → Option (PState × List String)
  | [] => if top then some (st, []) else none
  | "end" :: r => if top then none else some (st, r)
  | "ns" :: n :: r =>
    let (st1, id) := match findNs st cur n with
      | some i => (st, i)
      | none => ({ st with nss := st.nss.push (cur, n) }, st.nss.size)
    match parseItems st1 (some id) false r with
    | some (st2, r2) => parseItems st2 cur top r2
    | none => none
  | "st" :: n :: r => parseItems { st with structs := st.structs.push (cur, n) } cur top (skipToEnd r)
  | "en" :: n :: r =>
    let vals := (takeToEnd r).map fun v => (cur, v, true)
    parseItems { st with enums := (st.enums.push (cur, n, false)) ++ vals.toArray } cur top (skipToEnd r)
  | "gl" :: n :: r => parseItems { st with globals := st.globals.push (cur, n) } cur top r
  | "fn" :: n :: pt :: r =>
    let np := if pt == "-" then 0 else pt.length
    let params := r.take np
    match r.drop np with
    | "{" :: body =>
      let st1 := { st with funcs := st.funcs.push (cur, n), locals := st.locals ++ params.toArray }
      match parseStmts st1 body with
      | some (st2, r2) => parseItems st2 cur top r2
      | none => none
    | _ => none
  | _ => none

def toInput (st : PState) : Input :=
  let mk (k : Kind) (xs : Array (Option Nat × String)) : List Entry :=
    (List.range xs.size).map fun i => ⟨⟨k, i⟩, xs[i]!.1, xs[i]!.2⟩
  -- enums and values keep their interleaved push order; ids count each kind separately
  let enumEntries : List Entry :=
    (st.enums.toList.foldl (fun (acc : List Entry × Nat × Nat) x =>
      let (es, ne, nv) := acc
      if x.2.2 then (es ++ [⟨⟨.enumValue, nv⟩, x.1, x.2.1⟩], ne, nv + 1)
      else (es ++ [⟨⟨.enum, ne⟩, x.1, x.2.1⟩], ne + 1, nv)) ([], 0, 0)).1
  { nss := st.nss.toList
    entries := mk .struct st.structs ++ enumEntries ++ mk .global st.globals ++ mk .func st.funcs
    used := st.used.toList
    locals := st.locals.toList }

def parseProgram (s : String) : Option Input :=
  let toks := (s.splitOn " ").filter (· ≠ "")
  match parseItems {} none true toks with
  | some (st, []) => some (toInput st)
  | _ => none

def showNames (names : List Named) : String :=
  let one (n : Named) : String :=
    match qualified names n.sym with
    | .ok q => n.sym.kind.letter ++ toString n.sym.id ++ "=" ++ "::".intercalate q
    | .error e => n.sym.kind.letter ++ toString n.sym.id ++ "!" ++ e
  let order : List Kind := [.ns, .struct, .enum, .enumValue, .global, .func, .localVar]
  let sorted := order.flatMap fun k =>
    let ks := names.filter (fun n => n.sym.kind == k)
    (List.range ks.length).filterMap fun i => ks.find? (fun n => n.sym.id == i)
  " ".intercalate (sorted.map one)

def reservedFor (t : String) : Option (List String) :=
  if t == "h" then some RsslVerif.Gen.Reserved.hlsl
  else if t == "m" then some RsslVerif.Gen.Reserved.msl
  else none

def handle (op : String) (args : List String) : String :=
  match op, args with
  | "C15.names", [t, prog] =>
    match reservedFor t, parseProgram prog with
    | some res, some inp =>
      match build res inp with
      | .ok names => showNames names
      | .error e => e
    | _, _ => "bad-request"
  | _, _ => "unsupported-op"

end RsslVerif.Driver.C15

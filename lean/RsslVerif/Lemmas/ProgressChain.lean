import RsslVerif.Model.Progress
/-!
# Invariants of the `ConditionChain` model (C08)

`Inv`: `self.1 ≤ self.0.len()` — what keeps the slice `&mut self.0[self.1..]` of `switch` in range.
`Keeps c c'`: a step / a run of lines leaves `self.1` alone, keeps the invariant, and does not touch the blocks of
the including files (the bottom `self.1` entries of the vector).  `step_keeps` / `run_keeps` prove both for every
directive tree by mutual structural recursion; `run_shape` relates a run of a plain file (no `#include`, no
malformed directive line) to the shape specification `shapeSpec`.
-/
namespace RsslVerif.Lemmas.ProgressChain
open RsslVerif.Model.Progress

/-- the blocks of the including files: the bottom `n` entries of the vector (the head is the top) -/
def bottom (n : Nat) (l : List Block) : List Block := l.drop (l.length - n)

theorem bottom_cons (n : Nat) (x : Block) (l : List Block) (h : n ≤ l.length) : bottom n (x :: l) = bottom n l := by
  unfold bottom
  have : (x :: l).length - n = (l.length - n) + 1 := by simp only [List.length_cons]; omega
  rw [this, List.drop_succ_cons]

theorem bottom_all (l : List Block) : bottom l.length l = l := by
  unfold bottom; simp

def Inv (c : Chain) : Prop := c.base ≤ c.blocks.length

/-- what one step / one run keeps: `self.1`, the invariant, and the blocks of the including files -/
def Keeps (c c' : Chain) : Prop :=
  c'.base = c.base ∧ c.base ≤ c'.blocks.length ∧ bottom c.base c'.blocks = bottom c.base c.blocks

theorem Keeps.refl (c : Chain) (h : Inv c) : Keeps c c := ⟨rfl, h, rfl⟩
theorem Keeps.trans {a b c : Chain} (h1 : Keeps a b) (h2 : Keeps b c) : Keeps a c := by
  obtain ⟨b1, l1, e1⟩ := h1
  obtain ⟨b2, l2, e2⟩ := h2
  refine ⟨by rw [b2, b1], by rw [b1] at l2; exact l2, ?_⟩
  rw [b1] at e2; rw [e2, e1]

theorem push_keeps (c : Chain) (s : CS) (h : Inv c) : Keeps c (c.push s) := by
  refine ⟨rfl, ?_, ?_⟩
  · simp only [Chain.push, List.length_cons]; unfold Inv at h; omega
  · simp only [Chain.push]; exact bottom_cons _ _ _ h

theorem switch_spec (c : Chain) (a e : Bool) (h : Inv c) :
    c.switch a e ≠ .error .panicSlice ∧ ∀ c', c.switch a e = .ok c' → Keeps c c' := by
  unfold Inv at h
  unfold Chain.switch
  have h1 : ¬ c.blocks.length < c.base := by omega
  rw [if_neg h1]
  by_cases h2 : c.blocks.length = c.base
  · rw [if_pos h2]
    exact ⟨by simp, fun c' h => by cases h⟩
  · rw [if_neg h2]
    cases hb : c.blocks with
    | nil => exact ⟨by simp, fun c' h => by cases h⟩
    | cons b rest =>
      rw [hb] at h h2
      simp only [List.length_cons] at h h2
      simp only
      by_cases hs : b.seenElse = true
      · rw [if_pos hs]
        refine ⟨?_, fun c' h => by cases h⟩
        cases e <;> simp
      · rw [if_neg hs]
        refine ⟨by simp, ?_⟩
        intro c' hc
        simp only [Except.ok.injEq] at hc
        subst hc
        refine ⟨rfl, by simp only [List.length_cons]; omega, ?_⟩
        simp only
        rw [hb, bottom_cons _ _ _ (by omega), bottom_cons _ _ _ (by omega)]

theorem pop_spec (c : Chain) : ∀ c', c.pop = .ok c' → Keeps c c' := by
  intro c' hc
  unfold Chain.pop at hc
  split at hc
  · rename_i hlt
    simp only [Except.ok.injEq] at hc
    subst hc
    cases hb : c.blocks with
    | nil => rw [hb] at hlt; simp at hlt
    | cons b rest =>
      rw [hb] at hlt
      simp only [List.length_cons] at hlt
      refine ⟨rfl, by simp only [List.tail_cons]; omega, ?_⟩
      simp only [hb, List.tail_cons]
      rw [bottom_cons _ _ _ (by omega)]
  · cases hc

theorem pop_ne_panic (c : Chain) : c.pop ≠ .error .panicSlice := by
  unfold Chain.pop; split <;> simp

theorem Keeps.inv {c c' : Chain} (h : Keeps c c') : Inv c' := by
  unfold Inv; rw [h.1]; exact h.2.1

mutual
theorem step_keeps : ∀ (d : Dir) (c : Chain), Inv c →
    step c d ≠ .error .panicSlice ∧ ∀ c' o, step c d = .ok (c', o) → Keeps c c'
  | .ifD a, c, h => by
    unfold step
    split
    · refine ⟨by simp, ?_⟩
      intro c' o hc
      simp only [Except.ok.injEq, Prod.mk.injEq] at hc
      rw [← hc.1]; exact push_keeps _ _ h
    · refine ⟨by simp, ?_⟩
      intro c' o hc
      simp only [Except.ok.injEq, Prod.mk.injEq] at hc
      rw [← hc.1]; exact push_keeps _ _ h
  | .elif a, c, h => by
    unfold step
    have hs := switch_spec c a false h
    cases hsw : c.switch a false with
    | error e => exact ⟨by rw [hsw] at hs; simpa using hs.1, fun c' o hc => by cases hc⟩
    | ok c1 =>
      refine ⟨by simp, ?_⟩
      intro c' o hc
      simp only [Except.ok.injEq, Prod.mk.injEq] at hc
      rw [← hc.1]; exact hs.2 c1 hsw
  | .els, c, h => by
    unfold step
    have hs := switch_spec c true true h
    cases hsw : c.switch true true with
    | error e => exact ⟨by rw [hsw] at hs; simpa using hs.1, fun c' o hc => by cases hc⟩
    | ok c1 =>
      refine ⟨by simp, ?_⟩
      intro c' o hc
      simp only [Except.ok.injEq, Prod.mk.injEq] at hc
      rw [← hc.1]; exact hs.2 c1 hsw
  | .endif, c, h => by
    unfold step
    have hp := pop_ne_panic c
    cases hsw : c.pop with
    | error e => exact ⟨by rw [hsw] at hp; simpa using hp, fun c' o hc => by cases hc⟩
    | ok c1 =>
      refine ⟨by simp, ?_⟩
      intro c' o hc
      simp only [Except.ok.injEq, Prod.mk.injEq] at hc
      rw [← hc.1]; exact pop_spec c c1 hsw
  | .text id, c, h => by
    unfold step
    refine ⟨by simp, ?_⟩
    intro c' o hc
    simp only [Except.ok.injEq, Prod.mk.injEq] at hc
    rw [← hc.1]; exact Keeps.refl c h
  | .junk, c, h => by
    unfold step
    split
    · exact ⟨by simp, fun c' o hc => by cases hc⟩
    · refine ⟨by simp, ?_⟩
      intro c' o hc
      simp only [Except.ok.injEq, Prod.mk.injEq] at hc
      rw [← hc.1]; exact Keeps.refl c h
  | .incl f, c, h => by
    unfold step
    split
    · have hi : Inv { c with base := c.blocks.length } := Nat.le_refl _
      have ih := run_keeps f { c with base := c.blocks.length } [] hi
      cases hr : run f { c with base := c.blocks.length } [] with
      | error e => exact ⟨by rw [hr] at ih; simpa using ih.1, fun c' o hc => by cases hc⟩
      | ok w =>
        obtain ⟨c2, o2⟩ := w
        simp only
        split
        · exact ⟨by simp, fun c' o hc => by cases hc⟩
        · rename_i hlen
          refine ⟨by simp, ?_⟩
          intro c' o hc
          simp only [Except.ok.injEq, Prod.mk.injEq] at hc
          rw [← hc.1]
          obtain ⟨hb, _, hbot⟩ := ih.2 c2 o2 hr
          simp only at hb hbot
          have hl : c2.blocks.length = c.blocks.length := by
            have : c2.blocks.length = c2.base := by
              simpa using hlen
            rw [this, hb]
          have heq : c2.blocks = c.blocks := by
            rw [← hl, bottom_all, hl, bottom_all] at hbot
            exact hbot
          refine ⟨rfl, ?_, ?_⟩
          · simp only; rw [hl]; exact h
          · simp only; rw [heq]
    · refine ⟨by simp, ?_⟩
      intro c' o hc
      simp only [Except.ok.injEq, Prod.mk.injEq] at hc
      rw [← hc.1]; exact Keeps.refl c h
theorem run_keeps : ∀ (f : Lines) (c : Chain) (out : List Nat), Inv c →
    run f c out ≠ .error .panicSlice ∧ ∀ c' o, run f c out = .ok (c', o) → Keeps c c'
  | .nil, c, out, h => by
    unfold run
    refine ⟨by simp, ?_⟩
    intro c' o hc
    simp only [Except.ok.injEq, Prod.mk.injEq] at hc
    rw [← hc.1]; exact Keeps.refl c h
  | .cons d ds, c, out, h => by
    unfold run
    have hs := step_keeps d c h
    cases hst : step c d with
    | error e => exact ⟨by rw [hst] at hs; simpa using hs.1, fun c' o hc => by cases hc⟩
    | ok w =>
      obtain ⟨c1, o1⟩ := w
      simp only
      have k1 := hs.2 c1 o1 hst
      have ih := run_keeps ds c1 (out ++ o1) k1.inv
      exact ⟨ih.1, fun c' o hc => k1.trans (ih.2 c' o hc)⟩
end

def elses (c : Chain) : List Bool := c.blocks.map (·.seenElse)

theorem run_shape : ∀ (f : Lines) (bl : List Block) (out : List Nat), f.plain = true →
    (match run f ⟨bl, 0⟩ out with | .ok (c', _) => Except.ok (elses c') | .error e => .error e) =
      shapeSpec f (bl.map (·.seenElse))
  | .nil, bl, out, _ => by simp [run, shapeSpec, elses]
  | .cons d ds, bl, out, hp => by
    simp only [Lines.plain, Bool.and_eq_true] at hp
    cases d with
    | ifD a =>
      simp only [run, step, shapeSpec]
      by_cases hact : Chain.isActive ⟨bl, 0⟩ = true
      · rw [if_pos hact]; exact run_shape ds (_ :: bl) _ hp.2
      · rw [if_neg hact]; exact run_shape ds (_ :: bl) _ hp.2
    | elif a =>
      cases bl with
      | nil => simp [run, step, shapeSpec, Chain.switch]
      | cons b rest =>
        cases hs : b.seenElse with
        | true => simp [run, step, shapeSpec, Chain.switch, hs]
        | false =>
          simp only [run, step, shapeSpec, Chain.switch, List.length_cons, Nat.not_lt_zero, if_false,
            Nat.add_one_ne_zero, hs, Bool.false_eq_true, List.map_cons]
          exact run_shape ds (_ :: rest) _ hp.2
    | els =>
      cases bl with
      | nil => simp [run, step, shapeSpec, Chain.switch]
      | cons b rest =>
        cases hs : b.seenElse with
        | true => simp [run, step, shapeSpec, Chain.switch, hs]
        | false =>
          simp only [run, step, shapeSpec, Chain.switch, List.length_cons, Nat.not_lt_zero, if_false,
            Nat.add_one_ne_zero, hs, Bool.false_eq_true, List.map_cons]
          exact run_shape ds (_ :: rest) _ hp.2
    | endif =>
      cases bl with
      | nil => simp [run, step, shapeSpec, Chain.pop]
      | cons b rest =>
        simp only [run, step, shapeSpec, Chain.pop, List.length_cons, Nat.zero_lt_succ, if_true,
          List.tail_cons, List.map_cons, gt_iff_lt]
        exact run_shape ds rest _ hp.2
    | text id =>
      simp only [run, step, shapeSpec]
      exact run_shape ds _ _ hp.2
    | junk => simp [Dir.plain] at hp
    | incl f => simp [Dir.plain] at hp

end RsslVerif.Lemmas.ProgressChain

import RsslVerif.Spec.Slots
/-! Helper lemmas for C06 (the property theorems are in `Thm/C06.lean`). -/
namespace RsslVerif.Lemmas.Slots
open RsslVerif.Gen.SlotTables RsslVerif.Model.Slots RsslVerif.Spec.Slots

/-- The generated `slice_cost` table is the specified one (finite: 2 × 29 cases). -/
theorem sliceCost_spec (metal : Bool) (k : ObjKind) :
    sliceCost metal (some k) = if metal && doubled k then 2 else 1 := by
  cases metal <;> cases k <;> decide

theorem isBufferAddress_spec (k : ObjKind) :
    isBufferAddress k = (k == .BufferAddress || k == .RWBufferAddress) := by
  cases k <;> decide

/-- The extracted `get_register_type` table has a register class exactly for the kinds the spec calls resources
    (finite: 29 cases). -/
theorem registerType_isSome_spec (k : ObjKind) : (registerType k).isSome = resource k := by
  cases k <;> decide

theorem registerType_none_iff {k : ObjKind} : registerType k = none ↔ resource k = false := by
  rw [← registerType_isSome_spec]; cases registerType k <;> simp

/-- The parameter sets `compile()` uses never combine buffer addresses with the Metal layout. -/
def ParamsOk (p : Params) : Prop := p.supportBufferAddress = true → p.metalSlotLayout = false

theorem paramsFor_ok (t : Target) (sba : Bool) : ParamsOk (paramsFor t sba) := by
  cases t <;> cases sba <;> simp [ParamsOk, paramsFor, paramsDefault]

/-- the (set, location) a declaration is expected to get from state `st` -/
def expected (p : Params) (dflt : Nat) (st : State) (d : Decl) : Option (Nat × Loc) :=
  if bound p d then
    some (group dflt d,
      if inlineBytes p d = 0 then .index (st.used.get (group dflt d))
      else .inline (st.inline.get (group dflt d)))
  else none

def setLoc (b : Binding) : Nat × Loc := (b.set, b.loc)

theorem step_spec {p : Params} (hp : ParamsOk p) {dflt : Nat} {st st' : State} {d : Decl}
    {ob : Option Binding} (h : step p dflt st d = .ok (st', ob)) :
    (∀ g, st'.used.get g = st.used.get g + (if group dflt d = g then indexCount p d else 0)) ∧
    (∀ g, st'.inline.get g = st.inline.get g + (if group dflt d = g then inlineBytes p d else 0)) ∧
    ob.map setLoc = expected p dflt st d := by
  cases d with
  | other =>
    simp [step] at h
    obtain ⟨rfl, rfl⟩ := h
    simp [indexCount, inlineBytes, expected, bound]
  | cbuffer set =>
    simp [step, Counter.bump] at h
    obtain ⟨rfl, rfl⟩ := h
    refine ⟨?_, ?_, ?_⟩
    · intro g; simp [group, indexCount]
      by_cases hg : set.getD dflt = g
      · subst hg; simp
      · have hg' : ¬ g = set.getD dflt := fun e => hg e.symm
        simp [hg, hg']
    · intro g; simp [inlineBytes]
    · simp [expected, bound, group, inlineBytes, setLoc]
  | global set ss kind len =>
    have hinl : ∀ k, (p.supportBufferAddress && isBufferAddress k && len.isNone) = isInline p k len := by
      intro k; simp [isInline, isBufferAddress_spec]
    cases hss : (ss && !p.staticSamplersHaveSlots) with
    | true =>
      simp only [step, hss, if_true] at h
      cases h
      refine ⟨?_, ?_, ?_⟩
      · intro g; cases kind <;> simp [indexCount, hss]
      · intro g; cases kind <;> simp [inlineBytes, hss]
      · cases kind <;> simp [expected, bound, hss]
    | false =>
      cases kind with
      | none =>
        simp only [step, hss, Bool.false_eq_true, if_false] at h
        cases h
        refine ⟨?_, ?_, ?_⟩
        · intro g; simp [indexCount]
        · intro g; simp [inlineBytes]
        · simp [expected, bound]
      | some k =>
        simp only [step, hss, Bool.false_eq_true, if_false, hinl] at h
        cases hreg : registerType k with
        | none =>
          have hres : resource k = false := registerType_none_iff.1 hreg
          simp only [hreg] at h
          cases h
          refine ⟨?_, ?_, ?_⟩
          · intro g; simp [indexCount, hss, hres]
          · intro g; simp [inlineBytes, hss, hres]
          · simp [expected, bound, hres]
        | some r =>
          have hres : resource k = true := by
            rw [← registerType_isSome_spec, hreg]; rfl
          simp only [hreg] at h
          cases hi : isInline p k len with
          | true =>
            have hsba : p.supportBufferAddress = true := by
              simp [isInline] at hi; exact hi.1.1
            have hmetal : p.metalSlotLayout = false := hp hsba
            have hlen : len = none := by
              simp [isInline] at hi; exact hi.2
            subst hlen
            simp only [hi, if_true, Counter.bump, slotCount, sliceCost_spec, hmetal] at h
            cases h
            refine ⟨?_, ?_, ?_⟩
            · intro g; simp [indexCount, hss, hi, hres]
            · intro g; simp [inlineBytes, hss, hi, group, hres]
              by_cases hg : set.getD dflt = g
              · subst hg; simp
              · have hg' : ¬ g = set.getD dflt := fun e => hg e.symm
                simp [hg, hg']
            · simp [expected, bound, hss, inlineBytes, hi, group, setLoc, hres]
          | false =>
            simp only [hi, Bool.false_eq_true, if_false, Counter.bump, slotCount, sliceCost_spec] at h
            cases h
            refine ⟨?_, ?_, ?_⟩
            · intro g; simp [indexCount, hss, hi, group, hres]
              by_cases hg : set.getD dflt = g
              · subst hg; simp
              · have hg' : ¬ g = set.getD dflt := fun e => hg e.symm
                simp [hg, hg']
            · intro g; simp [inlineBytes, hss, hi, hres]
            · simp [expected, bound, hss, inlineBytes, hi, group, setLoc, hres]


theorem TilesTo.append {s m e : Nat} {a b : List (Nat × Nat)} (ha : TilesTo s a m) (hb : TilesTo m b e) :
    TilesTo s (a ++ b) e := by
  induction ha with
  | nil s => simpa using hb
  | cons s c e' r _ ih => exact TilesTo.cons s c _ _ (ih hb)

theorem unbound_zero {p : Params} {d : Decl} (h : bound p d = false) :
    indexCount p d = 0 ∧ inlineBytes p d = 0 := by
  cases d with
  | other => simp [indexCount, inlineBytes]
  | cbuffer _ => simp [bound] at h
  | global s ss k l =>
    cases k with
    | none => simp [indexCount, inlineBytes]
    | some k =>
      simp only [bound, Bool.and_eq_false_iff, Bool.not_eq_false'] at h
      rcases h with h | h <;> simp [indexCount, inlineBytes, h]

theorem inline_excl_index {p : Params} {d : Decl} (h : inlineBytes p d ≠ 0) : indexCount p d = 0 := by
  cases d with
  | other => rfl
  | cbuffer _ => simp [inlineBytes] at h
  | global s ss k l =>
    cases k with
    | none => rfl
    | some k =>
      simp only [inlineBytes] at h
      simp only [indexCount]
      split
      · rfl
      · rename_i h1
        simp only [h1] at h
        split
        · rfl
        · rename_i h2
          simp only [h2] at h
          split
          · rfl
          · rename_i h3; simp [h3] at h

/-- Invariant of the fold: from any state, the observed ranges of group `g` tile
    `[used g, used' g)` and `[inline g, inline' g)`, and the totals are the specified sums. -/
theorem run_spec {p : Params} (hp : ParamsOk p) {dflt : Nat} (g : Nat) :
    ∀ {ds : List Decl} {st st' : State} {bs : List (Option Binding)},
      run p dflt st ds = .ok (st', bs) →
      bs.length = ds.length ∧
      TilesTo (st.used.get g) (indexRanges p g ds bs) (st'.used.get g) ∧
      TilesTo (st.inline.get g) (inlineRanges p g ds bs) (st'.inline.get g) ∧
      st'.used.get g = st.used.get g + totalIndex p dflt g ds ∧
      st'.inline.get g = st.inline.get g + totalInline p dflt g ds := by
  intro ds
  induction ds with
  | nil =>
    intro st st' bs h
    simp [run] at h
    obtain ⟨rfl, rfl⟩ := h
    exact ⟨rfl, TilesTo.nil _, TilesTo.nil _, by simp [totalIndex], by simp [totalInline]⟩
  | cons d ds ih =>
    intro st st' bs h
    unfold run at h
    split at h
    · cases h
    · rename_i st1 ob hstep
      split at h
      · cases h
      · rename_i st2 bs' hrun
        cases h
        obtain ⟨hu, hi, hob⟩ := step_spec hp hstep
        obtain ⟨hl, t1, t2, e1, e2⟩ := ih hrun
        rw [hu g] at t1
        rw [hi g] at t2
        refine ⟨by simp [hl], ?_, ?_, ?_, ?_⟩
        · -- index ranges
          cases ob with
          | none =>
            have hb : bound p d = false := by
              cases hbb : bound p d with
              | false => rfl
              | true => simp [expected, hbb] at hob
            simpa [indexRanges, (unbound_zero hb).1] using t1
          | some b =>
            simp only [Option.map, expected, setLoc] at hob
            split at hob
            · simp only [Option.some.injEq, Prod.mk.injEq] at hob
              obtain ⟨hset, hloc⟩ := hob
              by_cases hz : inlineBytes p d = 0
              · simp only [hz, if_true] at hloc
                simp only [indexRanges, hloc, hset]
                by_cases hg : group dflt d = g
                · simp only [hg, if_true] at t1 ⊢
                  exact TilesTo.cons _ _ _ _ t1
                · simpa [hg] using t1
              · simp only [hz, if_false] at hloc
                simpa [indexRanges, hloc, inline_excl_index hz] using t1
            · cases hob
        · -- inline ranges
          cases ob with
          | none =>
            have hb : bound p d = false := by
              cases hbb : bound p d with
              | false => rfl
              | true => simp [expected, hbb] at hob
            simpa [inlineRanges, (unbound_zero hb).2] using t2
          | some b =>
            simp only [Option.map, expected, setLoc] at hob
            split at hob
            · simp only [Option.some.injEq, Prod.mk.injEq] at hob
              obtain ⟨hset, hloc⟩ := hob
              by_cases hz : inlineBytes p d = 0
              · simp only [hz, if_true] at hloc
                simpa [inlineRanges, hloc, hz] using t2
              · simp only [hz, if_false] at hloc
                simp only [inlineRanges, hloc, hset]
                by_cases hg : group dflt d = g
                · simp only [hg, if_true] at t2 ⊢
                  exact TilesTo.cons _ _ _ _ t2
                · simpa [hg] using t2
            · cases hob
        · rw [e1, hu g]; simp [totalIndex, Nat.add_assoc]
        · rw [e2, hi g]; simp [totalInline, Nat.add_assoc]

end RsslVerif.Lemmas.Slots

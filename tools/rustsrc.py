"""Tiny syntactic reader for the Rust subset the translator needs.

Not a Rust parser: it understands comments, string/char literals, bracket nesting,
`fn name(..) .. { body }`, `enum Name { variants }`, `match scrutinee { arms }`.
Anything it cannot read raises ExtractError, which the checks report as a broken
proof obligation (DESIGN.md 3.3).
"""
import hashlib
import re


class ExtractError(Exception):
    pass


def read(path):
    with open(path, "r", encoding="utf-8") as f:
        return f.read()


def strip_comments(src):
    """Remove // and /* */ comments, keeping string/char literals intact and
    preserving newlines so that line numbers stay meaningful."""
    out = []
    i, n = 0, len(src)
    while i < n:
        c = src[i]
        if c == '/' and i + 1 < n and src[i + 1] == '/':
            while i < n and src[i] != '\n':
                i += 1
        elif c == '/' and i + 1 < n and src[i + 1] == '*':
            depth = 1
            i += 2
            while i < n and depth:
                if src.startswith('/*', i):
                    depth += 1
                    i += 2
                elif src.startswith('*/', i):
                    depth -= 1
                    i += 2
                else:
                    if src[i] == '\n':
                        out.append('\n')
                    i += 1
        elif c == '"':
            j = i + 1
            while j < n and src[j] != '"':
                j += 2 if src[j] == '\\' else 1
            out.append(src[i:j + 1])
            i = j + 1
        elif c == 'r' and re.match(r'r#*"', src[i:i + 6]) and (i == 0 or not (src[i - 1].isalnum() or src[i - 1] == '_')):
            m = re.match(r'r(#*)"', src[i:])
            close = '"' + m.group(1)
            j = src.index(close, i + len(m.group(0)))
            out.append(src[i:j + len(close)])
            i = j + len(close)
        elif c == "'":
            # char literal or lifetime
            m = re.match(r"'(\\.[^']*|[^'\\])'", src[i:])
            if m:
                out.append(m.group(0))
                i += len(m.group(0))
            else:
                out.append(c)
                i += 1
        else:
            out.append(c)
            i += 1
    return ''.join(out)


OPEN = {'(': ')', '[': ']', '{': '}'}
CLOSE = {')', ']', '}'}


def skip_literal(s, i):
    """If s[i] starts a string/char literal return index after it, else None."""
    c = s[i]
    if c == '"':
        j = i + 1
        while j < len(s) and s[j] != '"':
            j += 2 if s[j] == '\\' else 1
        return j + 1
    if c == "'":
        m = re.match(r"'(\\.[^']*|[^'\\])'", s[i:])
        if m:
            return i + len(m.group(0))
    return None


def matching(s, i):
    """s[i] is an opening bracket; return index of its matching close."""
    assert s[i] in OPEN
    depth = 0
    j = i
    while j < len(s):
        k = skip_literal(s, j)
        if k is not None:
            j = k
            continue
        c = s[j]
        if c in OPEN:
            depth += 1
        elif c in CLOSE:
            depth -= 1
            if depth == 0:
                return j
        j += 1
    raise ExtractError("unbalanced bracket")


def split_top(s, sep):
    """Split s on the separator string at bracket depth 0, outside literals."""
    parts, depth, j, start = [], 0, 0, 0
    while j < len(s):
        k = skip_literal(s, j)
        if k is not None:
            j = k
            continue
        c = s[j]
        if c in OPEN:
            depth += 1
        elif c in CLOSE:
            depth -= 1
        elif depth == 0 and s.startswith(sep, j):
            # do not split `|` inside `||`
            if sep == '|' and (s.startswith('||', j) or (j > 0 and s[j - 1] == '|')):
                j += 1
                continue
            parts.append(s[start:j])
            j += len(sep)
            start = j
            continue
        j += 1
    parts.append(s[start:])
    return parts


def fn_body(src, name, nth=0):
    """Body text (without the outer braces) of the nth `fn name`."""
    hits = [m for m in re.finditer(r'\bfn\s+' + re.escape(name) + r'\b', src)]
    if len(hits) <= nth:
        raise ExtractError(f"fn {name} (occurrence {nth}) not found")
    i = hits[nth].end()
    # skip generics / params / return type until the body's opening brace at depth 0
    depth = 0
    while i < len(src):
        c = src[i]
        if c in '([':
            i = matching(src, i) + 1
            continue
        if c == '{' and depth == 0:
            j = matching(src, i)
            return src[i + 1:j]
        if c == ';':
            raise ExtractError(f"fn {name} has no body")
        i += 1
    raise ExtractError(f"fn {name}: body not found")


def impl_fn_body(src, impl_pat, name):
    """Body of `fn name` inside the first `impl ... <impl_pat> ... {` block."""
    m = re.search(r'\bimpl\b[^{;]*' + impl_pat + r'[^{;]*\{', src)
    if not m:
        raise ExtractError(f"impl {impl_pat} not found")
    i = m.end() - 1
    j = matching(src, i)
    return fn_body(src[i + 1:j], name)


def enum_variants(src, name):
    m = re.search(r'\benum\s+' + re.escape(name) + r'\s*\{', src)
    if not m:
        raise ExtractError(f"enum {name} not found")
    i = m.end() - 1
    j = matching(src, i)
    body = src[i + 1:j]
    out = []
    for part in split_top(body, ','):
        part = re.sub(r'#\[[^\]]*\]', '', part).strip()
        if not part:
            continue
        mm = re.match(r'([A-Za-z_][A-Za-z0-9_]*)\s*(.*)$', part, re.S)
        if not mm:
            raise ExtractError(f"enum {name}: cannot read variant {part!r}")
        out.append((mm.group(1), mm.group(2).strip()))
    return out


def first_match(body, scrutinee_pat=None, start=0):
    """Return (scrutinee, arms_text, end_index) for the first `match` at/after start whose
    scrutinee matches the regex (if given)."""
    for m in re.finditer(r'\bmatch\b', body[start:]):
        i = start + m.end()
        # scrutinee extends to the first '{' at depth 0
        j = i
        while j < len(body):
            k = skip_literal(body, j)
            if k is not None:
                j = k
                continue
            if body[j] in '([':
                j = matching(body, j) + 1
                continue
            if body[j] == '{':
                break
            j += 1
        scrut = body[i:j].strip()
        if scrutinee_pat is not None and not re.search(scrutinee_pat, scrut):
            continue
        e = matching(body, j)
        return scrut, body[j + 1:e], e + 1
    raise ExtractError(f"match on {scrutinee_pat!r} not found")


def match_arms(arms_text):
    """Split the inside of a match into [(patterns:list[str], guard:str|None, result:str)]."""
    arms = []
    i, n = 0, len(arms_text)
    while i < n:
        # skip whitespace and commas
        while i < n and arms_text[i] in ' \t\r\n,':
            i += 1
        if i >= n:
            break
        # pattern (+guard) runs to '=>' at depth 0
        j, depth = i, 0
        while j < n:
            k = skip_literal(arms_text, j)
            if k is not None:
                j = k
                continue
            c = arms_text[j]
            if c in OPEN:
                depth += 1
            elif c in CLOSE:
                depth -= 1
            elif depth == 0 and arms_text.startswith('=>', j):
                break
            j += 1
        if j >= n:
            raise ExtractError("match arm without =>")
        head = arms_text[i:j].strip()
        j += 2
        while j < n and arms_text[j] in ' \t\r\n':
            j += 1
        if j < n and arms_text[j] == '{':
            e = matching(arms_text, j)
            result = arms_text[j:e + 1]
            i = e + 1
        else:
            # expression up to ',' at depth 0
            e, depth = j, 0
            while e < n:
                k = skip_literal(arms_text, e)
                if k is not None:
                    e = k
                    continue
                c = arms_text[e]
                if c in OPEN:
                    depth += 1
                elif c in CLOSE:
                    depth -= 1
                elif depth == 0 and c == ',':
                    break
                e += 1
            result = arms_text[j:e]
            i = e + 1
        guard = None
        gm = None
        # guard: ` if ` at depth 0 in head
        parts = split_top(head, ' if ')
        if len(parts) > 1:
            head, guard = parts[0].strip(), ' if '.join(parts[1:]).strip()
        pats = [normws(p) for p in split_top(head, '|') if p.strip()]
        arms.append((pats, guard, normws(result)))
    return arms


def normws(s):
    return re.sub(r'\s+', ' ', s).strip()


def sha(text):
    return hashlib.sha256(text.encode()).hexdigest()[:16]


def lean_str(s):
    return '"' + s.replace('\\', '\\\\').replace('"', '\\"').replace('\n', '\\n') + '"'

import RsslVerif.Lemmas.PlaceX
import RsslVerif.Lemmas.Overload
import RsslVerif.Thm.C03
import RsslVerif.Model.Intrinsics
/-!
# C03 over the extended language — accepted programs elaborate to well-typed IR; ill-typed programs are rejected

Same statements as `Thm/C03.lean`, now about `Model.ElabX.elabE` / `Model.StmtX.elabStmts` (literals, variables, operators,
`?:`, calls of user **and intrinsic** functions, casts, **member access / swizzles, subscripts, numeric constructors**;
statements: expression, `return`, definitions with expression and **aggregate initialisers**, blocks, `if` / `for` /
`while` / `do` / `switch` with scopes) and the strengthened typing judgment `Model.IrTypingX.HasType`.
All are universally quantified: any environment, any nesting, any projection chain.
-/
namespace RsslVerif.Thm.C03X
open RsslVerif.Gen.RankTable RsslVerif.Gen.TypingTables RsslVerif.Model.Conv RsslVerif.Model.Overload
open RsslVerif.Model.IrTyping (FuncSig opReturn boolOf)
open RsslVerif.Model.Elab (Err enforceIncrement)
open RsslVerif.Model.IrTypingX RsslVerif.Model.ElabX RsslVerif.Model.StmtX RsslVerif.Spec.ElabX
open RsslVerif.Lemmas.ElabConv RsslVerif.Lemmas.ElabX RsslVerif.Lemmas.ElabFormsX RsslVerif.Lemmas.ElabExactX
open RsslVerif.Lemmas.ElabReleaseX RsslVerif.Lemmas.ElabNewX RsslVerif.Lemmas.ElabSoundX RsslVerif.Lemmas.StmtX
open RsslVerif.Lemmas.Overload RsslVerif.Spec.Overload RsslVerif.Lemmas.ProjX RsslVerif.Lemmas.PlaceX

/-! ## soundness -/

/-- **Accepted expressions are well typed — in debug and release builds.**  If the type checker accepts an expression of
    the extended language and computes type `τ` for it, the produced IR expression has type `τ` under the IR's own typing
    rules, and so has every sub-expression; moreover every swizzle selects existing components, every struct member is
    taken from a value of that struct, and every numeric constructor receives slot by slot values of its scalar kind
    whose arities add up to its size (the extra premises of `Model.IrTypingX.HasType`). -/
theorem elab_sound {Γ : Env} {dbg : Bool} {e : SExpr} {e' : IExpr} {τ : ETy} (h : elabE dbg Γ e = .ok (e', τ)) :
    HasType Γ e' τ := elab_sound_any dbg e e' τ h

/-- **The debug-build type query is redundant** for the extended language as well. -/
theorem elab_debug_check_redundant {Γ : Env} (e : SExpr) : elabE true Γ e = elabE false Γ e := elab_debug_eq e

/-- **Every accepted statement list is well typed** (`Spec.ElabX.StmtsTyped`): every expression of every statement on every
    path has a type, returned values have exactly the function's return type, every initialiser — also every leaf of an
    aggregate initialiser — has exactly the unmodified type of the component it initialises, aggregates have exactly one
    item per component; in the environment that registers the variables the statements define. -/
theorem elab_stmt_sound {Γ Γ' : Env} {dbg : Bool} {ss : SStmts} {ss' : IStmts}
    (h : elabStmts dbg Γ ss = .ok (ss', Γ')) : Extends Γ Γ' ∧ StmtsTyped Γ' ss' := elabStmts_sound dbg ss Γ ss' Γ' h

/-! ## ill-typed programs are rejected

Each statement says the expression is **never accepted** (`≠ .ok _`), in debug and release builds alike, whatever the
other operands are: it may be rejected with the diagnostic of the violation, or earlier because another operand is
ill-typed. -/

/-- assignment family (`=`, `+=`, ..., `^=`): a left operand of const type is never accepted -/
theorem elab_rejects_assign_to_const {Γ : Env} {dbg : Bool} {o : BinOp} {a b : SExpr} {a' : IExpr} {τa : ETy}
    (ho : o.cls = .assign) (ha : elabE dbg Γ a = .ok (a', τa)) (hc : τa.ty.mod.isConst = true) :
    ∀ r, elabE dbg Γ (.bin o a b) ≠ .ok r := by
  intro r h
  simp only [elabE, ha] at h
  split at h
  · simp at h
  · simp only [ho] at h
    simp [elabAssign, hc] at h

/-- assignment family: a left operand that is not an lvalue (a literal, `a + b`, a function result, a cast, `a++`,
    `c ? a : b`, ... see `rvalue_forms`) is never accepted -/
theorem elab_rejects_assign_to_rvalue {Γ : Env} {dbg : Bool} {o : BinOp} {a b : SExpr} {a' : IExpr} {τa : ETy}
    (ho : o.cls = .assign) (ha : elabE dbg Γ a = .ok (a', τa)) (hv : τa.vt = .rvalue) :
    ∀ r, elabE dbg Γ (.bin o a b) ≠ .ok r := by
  intro r h
  simp only [elabE, ha] at h
  split at h
  · simp at h
  · simp only [ho] at h
    by_cases hc : τa.ty.mod.isConst = true <;> simp [elabAssign, hc, hv] at h

/-- `++` / `--` (prefix and postfix) on a const or non-lvalue operand is never accepted -/
theorem elab_rejects_increment {Γ : Env} {dbg : Bool} {o : UnOp} {e : SExpr} {e' : IExpr} {τ : ETy}
    (ho : o = .prefixIncrement ∨ o = .prefixDecrement ∨ o = .postfixIncrement ∨ o = .postfixDecrement)
    (he : elabE dbg Γ e = .ok (e', τ)) (hv : τ.vt = .rvalue ∨ τ.ty.mod.isConst = true) :
    ∀ r, elabE dbg Γ (.un o e) ≠ .ok r := by
  intro r h
  simp only [elabE, he] at h
  have hen : ∃ m, enforceIncrement τ = .error m := by
    unfold enforceIncrement
    rcases hv with hv | hv
    · simp [hv]
    · by_cases hr : τ.vt = .rvalue <;> simp [hr, hv]
  obtain ⟨m, hm⟩ := hen
  rcases ho with rfl | rfl | rfl | rfl <;> simp [elabUn, hm] at h

/-- a candidate cannot be called with these argument types: wrong number of arguments, or some argument has no
    implicit conversion to its parameter -/
def NotCallable (c : Cand) (ts : List ETy) : Prop :=
  c.params.length < ts.length ∨ ts.length < c.nonDefault ∨
  ∃ (i : Nat) (p : Param) (a : ETy), c.params[i]? = some p ∧ ts[i]? = some a ∧ find a p.ety = .ok none

theorem zipRanks_not_some : ∀ (ps : List Param) (as : List ETy) (i : Nat) (p : Param) (a : ETy),
    ps[i]? = some p → as[i]? = some a → find a p.ety = .ok none → ∀ rs, zipRanks ps as ≠ .ok (some rs)
  | [], _, i, p, a, hp, _, _, _ => by simp at hp
  | _ :: _, [], i, p, a, _, ha, _, _ => by simp at ha
  | q :: ps, b :: as, 0, p, a, hp, ha, hf, rs => by
    simp at hp ha; subst hp ha
    simp [zipRanks, hf]
  | q :: ps, b :: as, i + 1, p, a, hp, ha, hf, rs => by
    simp at hp ha
    have ih := zipRanks_not_some ps as i p a hp ha hf
    simp only [zipRanks]
    split
    · simp
    · simp
    · split
      · simp
      · simp
      · rename_i rs' hrs
        exact absurd hrs (ih rs')

theorem rankCand_not_ranked {c : Cand} {ts : List ETy} (h : NotCallable c ts) (id : Nat) (rs : List Rank) :
    rankCand ts c ≠ .ranked id rs := by
  unfold rankCand
  rcases h with h | h | ⟨i, p, a, hp, ha, hf⟩
  · have : ¬ (ts.length ≤ c.params.length ∧ c.nonDefault ≤ ts.length) := by omega
    simp [this]
  · have : ¬ (ts.length ≤ c.params.length ∧ c.nonDefault ≤ ts.length) := by omega
    simp [this]
  · split
    · have := zipRanks_not_some c.params ts i p a hp ha hf
      split
      · simp
      · simp
      · rename_i rs' hrs; exact absurd hrs (this rs')
    · simp

/-- a selected overload is one of the candidates and was ranked, i.e. every argument converts to its parameter
    (same statement and proof as `Thm.C16.selected_is_viable`; repeated here so that C03 depends only on the
    tournament lemmas of `Lemmas/Overload`, not on C16's witness theorems about the current rank tables) -/
theorem selected_is_ranked {cands : List Cand} {args : List ETy} {i : Nat}
    (h : resolve cands args = .selected i) : ∃ c ∈ cands, ∃ rc, rankCand args c = .ranked c.id rc := by
  rcases resolve_cases cands args with hp | hr
  · rw [hp] at h; simp at h
  · rw [hr] at h
    obtain ⟨rc, hf⟩ := resolveRanked_selected h
    have hm : (i, rc) ∈ rankedList cands args :=
      winners_subset (finals_subset (by rw [hf]; exact List.mem_cons_self))
    obtain ⟨c, hc, hrc⟩ := mem_rankedList.mp hm
    have hid := rankCand_id hrc
    exact ⟨c, hc, rc, by rw [hrc, hid]⟩

/-- **Calls.**  If no function of the called name can take the arguments (each one has the wrong number of
    parameters or a parameter some argument does not convert to), the call is never accepted. -/
theorem elab_rejects_call {Γ : Env} {dbg : Bool} {name : Nat} {args : SArgs} {args' : IArgs} {ts : List ETy}
    (ha : elabArgs dbg Γ args = .ok (args', ts)) (hn : ∀ c ∈ candidates Γ name, NotCallable c ts) :
    ∀ r, elabE dbg Γ (.call name args) ≠ .ok r := by
  intro r h
  simp only [elabE, ha] at h
  split at h
  · simp at h
  · split at h
    · simp at h
    · split at h
      · simp at h
      · rename_i n τ hc
        unfold elabCall at hc
        split at hc
        · simp at hc
        · simp at hc
        · simp at hc
        · rename_i id hsel
          obtain ⟨c, hmem, rc, hv⟩ := selected_is_ranked hsel
          exact rankCand_not_ranked (hn c hmem) _ _ hv

/-- wrong number of arguments: never accepted -/
theorem elab_rejects_arity {Γ : Env} {dbg : Bool} {name : Nat} {args : SArgs} {args' : IArgs} {ts : List ETy}
    (ha : elabArgs dbg Γ args = .ok (args', ts))
    (hn : ∀ c ∈ candidates Γ name, c.params.length < ts.length ∨ ts.length < c.nonDefault) :
    ∀ r, elabE dbg Γ (.call name args) ≠ .ok r :=
  elab_rejects_call ha fun c hc => by
    unfold NotCallable
    rcases hn c hc with h | h
    · exact Or.inl h
    · exact Or.inr (Or.inl h)

/-- an argument without implicit conversion to the parameter type (e.g. a struct for an `int`): never accepted -/
theorem elab_rejects_unconvertible {Γ : Env} {dbg : Bool} {name : Nat} {args : SArgs} {args' : IArgs} {ts : List ETy}
    (ha : elabArgs dbg Γ args = .ok (args', ts))
    (hn : ∀ c ∈ candidates Γ name, ∃ (i : Nat) (p : Param) (a : ETy), c.params[i]? = some p ∧ ts[i]? = some a ∧ find a p.ety = .ok none) :
    ∀ r, elabE dbg Γ (.call name args) ≠ .ok r :=
  elab_rejects_call ha fun c hc => by
    unfold NotCallable
    exact Or.inr (Or.inr (hn c hc))

/-- an rvalue argument for an `out` / `inout` parameter: never accepted -/
theorem elab_rejects_out_arg_rvalue {Γ : Env} {dbg : Bool} {name : Nat} {args : SArgs} {args' : IArgs} {ts : List ETy}
    (ha : elabArgs dbg Γ args = .ok (args', ts))
    (hn : ∀ c ∈ candidates Γ name, ∃ (i : Nat) (p : Param) (a : ETy), c.params[i]? = some p ∧ ts[i]? = some a ∧
      p.io.needsLvalue = true ∧ a.vt = .rvalue) :
    ∀ r, elabE dbg Γ (.call name args) ≠ .ok r :=
  elab_rejects_unconvertible ha fun c hc => by
    obtain ⟨i, p, a, hp, hta, hio, hv⟩ := hn c hc
    exact ⟨i, p, a, hp, hta, RsslVerif.Thm.C03.find_rejects_rvalue_to_lvalue a p.ety hv (by simp [Param.ety, hio])⟩

/-- a const argument for an `out` / `inout` parameter (whose type is not const): never accepted -/
theorem elab_rejects_out_arg_const {Γ : Env} {dbg : Bool} {name : Nat} {args : SArgs} {args' : IArgs} {ts : List ETy}
    (ha : elabArgs dbg Γ args = .ok (args', ts))
    (hn : ∀ c ∈ candidates Γ name, ∃ (i : Nat) (p : Param) (a : ETy), c.params[i]? = some p ∧ ts[i]? = some a ∧
      p.io.needsLvalue = true ∧ a.ty.mod.isConst = true ∧ p.ty.mod.isConst = false) :
    ∀ r, elabE dbg Γ (.call name args) ≠ .ok r :=
  elab_rejects_unconvertible ha fun c hc => by
    obtain ⟨i, p, a, hp, hta, hio, hca, hcp⟩ := hn c hc
    refine ⟨i, p, a, hp, hta, ?_⟩
    obtain ⟨r, hr⟩ := RsslVerif.Lemmas.Conv.find_no_panic a p.ety
    cases r with
    | none => exact hr
    | some c' =>
      exact absurd hr (RsslVerif.Thm.C03.find_keeps_const (by simp [Param.ety, hio]) (Or.inl ⟨hca, by simpa [Param.ety] using hcp⟩) c')

/-! ## what the judgment says about operators (the asserts of `get_return_type` as consequences of `HasType`) -/

theorem opReturn_same {o : IOp} {a b : ETy} {τ : ETy} (ho : o.rule.sameTypes = true)
    (h : opReturn o [a, b] = .ok τ) : a.ty = b.ty := by
  by_cases hne : a.ty = b.ty
  · exact hne
  · exfalso
    simp [opReturn, ho, hne] at h
    repeat' split at h
    all_goals simp at h

theorem opReturn_lvalue {o : IOp} {a b : ETy} {τ : ETy} (ho : o.rule.lhsLvalue = true)
    (h : opReturn o [a, b] = .ok τ) : a.vt = .lvalue := by
  by_cases hv : a.vt = .lvalue
  · exact hv
  · exfalso
    simp [opReturn, ho, hv] at h
    repeat' split at h
    all_goals simp at h

/-- an assignment-family node that has a type has an lvalue left operand and both operands of exactly the same type -/
theorem assignment_operands {Γ : Env} {o : IOp} {a b : IExpr} {τ : ETy}
    (ho : o.rule.lhsLvalue = true ∧ o.rule.sameTypes = true)
    (h : HasType Γ (.op o (.cons a (.cons b .nil))) τ) :
    ∃ ta tb, HasType Γ a ta ∧ HasType Γ b tb ∧ ta.ty = tb.ty ∧ ta.vt = .lvalue := by
  cases h with
  | op hargs hret =>
    cases hargs with
    | cons ha hr =>
      cases hr with
      | cons hb hn =>
        cases hn
        exact ⟨_, _, ha, hb, opReturn_same ho.2 hret, opReturn_lvalue ho.1 hret⟩

/-- a binary operator node that has a type has two operands of exactly the same type -/
theorem binary_operands_equal {Γ : Env} {o : IOp} {a b : IExpr} {τ : ETy} (ho : o.rule.sameTypes = true)
    (h : HasType Γ (.op o (.cons a (.cons b .nil))) τ) :
    ∃ ta tb, HasType Γ a ta ∧ HasType Γ b tb ∧ ta.ty = tb.ty := by
  cases h with
  | op hargs hret =>
    cases hargs with
    | cons ha hr =>
      cases hr with
      | cons hb hn =>
        cases hn
        exact ⟨_, _, ha, hb, opReturn_same ho hret⟩

/-- every operator the elaboration of a binary source operator can produce asserts equal operand types, and the
    assignment family additionally an lvalue on the left (table fact, re-extracted from intrinsics.rs / expressions.rs) -/
theorem binop_rules (b : BinOp) (i : IOp) (h : b.toIOp = some i) :
    i.rule.sameTypes = true ∧ i.rule.arity = some 2 ∧ (b.cls = .assign → i.rule.lhsLvalue = true) := by
  cases b <;> simp [BinOp.toIOp] at h <;> subst h <;> decide

/-! ## exactness: what accepted assignments, operators and calls look like -/

/-- **Accepted assignments.**  An accepted `a op= b` elaborates to an assignment-family operator whose left operand
    is a non-const lvalue and whose right operand has exactly the type of the left one (the conversion is explicit);
    the result is the left operand's type. -/
theorem elab_assign_exact {Γ : Env} {dbg : Bool} {o : BinOp} {a b : SExpr} {e' : IExpr} {τ : ETy} (ho : o.cls = .assign)
    (h : elabE dbg Γ (.bin o a b) = .ok (e', τ)) :
    ∃ i a' b' ta tb, e' = .op i (.cons a' (.cons b' .nil)) ∧ HasType Γ a' ta ∧ HasType Γ b' tb ∧
      ta.ty = tb.ty ∧ ta.vt = .lvalue ∧ ta.ty.mod.isConst = false ∧ τ = ta := by
  have hs := elab_sound h
  simp only [elabE] at h
  split at h
  · simp at h
  · rename_i a1 τa ha
    have iha := elab_sound ha
    split at h
    · simp at h
    · rename_i b1 τb hb
      simp only [ho] at h
      split at h
      · simp at h
      · rename_i n τn hn
        obtain ⟨rfl, rfl⟩ := selfCheck_type h
        unfold elabAssign at hn
        split at hn
        · simp at hn
        · rename_i hconst
          split at hn
          · simp at hn
          · split at hn
            · simp at hn
            · split at hn
              · simp at hn
              · simp at hn
              · split at hn
                · simp at hn
                · rename_i i hi
                  split at hn
                  · simp at hn
                  · rename_i out hout
                    simp only [Except.ok.injEq, Prod.mk.injEq] at hn
                    obtain ⟨rfl, rfl⟩ := hn
                    obtain ⟨_, _, hl⟩ := binop_rules o i hi
                    obtain ⟨hsame, _, _⟩ := binop_rules o i hi
                    obtain ⟨ta, tb, h1, h2, h3, h4⟩ := assignment_operands ⟨hl ho, hsame⟩ hs
                    have hta : ta = τa := by
                      have e1 := typeOf_of_hasType _ _ h1
                      have e2 := typeOf_of_hasType _ _ iha
                      rw [e1] at e2; simpa using e2
                    subst hta
                    refine ⟨i, _, _, ta, tb, rfl, h1, h2, h3, h4, by simpa using hconst, ?_⟩
                    -- the result type is the left operand's type
                    have := typeOf_of_hasType _ _ hs
                    cases hs with
                    | op hargs hret =>
                      cases hargs with
                      | cons ha' hr =>
                        cases hr with
                        | cons hb' hn' =>
                          cases hn'
                          have e1 := typeOf_of_hasType _ _ ha'
                          have e2 := typeOf_of_hasType _ _ h1
                          rw [e1] at e2
                          simp at e2; subst e2
                          have hres : i.rule.result = .arg0 := by
                            cases o <;> simp [BinOp.cls] at ho <;> simp [BinOp.toIOp] at hi <;> subst hi <;> rfl
                          simp only [opReturn, hres] at hret
                          repeat' split at hret
                          all_goals (first | (simp at hret; done) | (simp at hret; exact hret.symm))

/-- **Accepted arithmetic / comparison / bit / logical operators** receive two operands of exactly the same type -/
theorem elab_arith_exact {Γ : Env} {dbg : Bool} {o : BinOp} {a b : SExpr} {e' : IExpr} {τ : ETy} (ho : o.cls = .arith)
    (h : elabE dbg Γ (.bin o a b) = .ok (e', τ)) :
    ∃ i a' b' ta tb, e' = .op i (.cons a' (.cons b' .nil)) ∧ HasType Γ a' ta ∧ HasType Γ b' tb ∧ ta.ty = tb.ty := by
  have hs := elab_sound h
  simp only [elabE] at h
  split at h
  · simp at h
  · split at h
    · simp at h
    · simp only [ho] at h
      split at h
      · simp at h
      · rename_i n τn hn
        obtain ⟨rfl, rfl⟩ := selfCheck_type h
        unfold elabArith at hn
        repeat' split at hn
        all_goals (first | (simp at hn; done) | skip)
        all_goals (
          unfold arithBuild at hn
          repeat' split at hn)
        all_goals (first | (simp at hn; done) | skip)
        all_goals (
          simp only [Except.ok.injEq, Prod.mk.injEq] at hn
          obtain ⟨rfl, rfl⟩ := hn
          rename_i i hi _ _ _
          obtain ⟨hsame, _, _⟩ := binop_rules o i hi
          obtain ⟨ta, tb, h1, h2, h3⟩ := binary_operands_equal hsame hs
          exact ⟨i, _, _, ta, tb, rfl, h1, h2, h3⟩)

/-- **Accepted calls.**  The callee exists, the result has its return type, and every argument expression has
    exactly the type of its parameter — no implicit conversion remains. -/
theorem elab_call_args_exact {Γ : Env} {dbg : Bool} {name : Nat} {args : SArgs} {e' : IExpr} {τ : ETy}
    (h : elabE dbg Γ (.call name args) = .ok (e', τ)) :
    ∃ id s as' us, e' = .call id as' ∧ Γ.funcs[id]? = some s ∧ τ = s.ret.r ∧ HasArgs Γ as' us ∧
      ArgsMatch us s.params := by
  obtain ⟨as1, ts, ha, hn⟩ := elabE_call_inv h
  have iha := elabArgs_sound_any dbg args as1 ts ha
  obtain ⟨id, s, as'', _, hs, hca, _, rfl, rfl⟩ := elabCall_inv hn
  obtain ⟨us, h1, h2⟩ := castArgs_exact s.params as1 ts as'' iha hca
  exact ⟨id, s, as'', us, rfl, hs, rfl, h1, h2⟩

/-- writes to the source forms the property lists (literal, `a + b`, function result, and casts, `?:`, `a++`, `-a`, ...)
    are never accepted -/
theorem elab_rejects_assign_to_rvalue_form {Γ : Env} {dbg : Bool} {o : BinOp} {a b : SExpr} (ho : o.cls = .assign)
    (hf : isRvalueForm a = true) : ∀ r, elabE dbg Γ (.bin o a b) ≠ .ok r := by
  intro r h
  cases ha : elabE dbg Γ a with
  | error m => simp [elabE, ha] at h
  | ok p =>
    obtain ⟨a', τa⟩ := p
    exact elab_rejects_assign_to_rvalue ho ha (rvalue_forms hf ha) r h

/-- `++` / `--` on the same forms are never accepted -/
theorem elab_rejects_increment_of_rvalue_form {Γ : Env} {dbg : Bool} {o : UnOp} {e : SExpr}
    (ho : o = .prefixIncrement ∨ o = .prefixDecrement ∨ o = .postfixIncrement ∨ o = .postfixDecrement)
    (hf : isRvalueForm e = true) : ∀ r, elabE dbg Γ (.un o e) ≠ .ok r := by
  intro r h
  cases he : elabE dbg Γ e with
  | error m => simp [elabE, he] at h
  | ok p =>
    obtain ⟨e', τ⟩ := p
    exact elab_rejects_increment ho he (Or.inl (rvalue_forms hf he)) r h



/-! ## statements: wrong return / initialiser types are rejected -/

/-- `return e;` where `e` does not convert to the function's return type is rejected with `WrongTypeInReturnStatement` -/
theorem elab_rejects_return_type {Γ : Env} {dbg sc : Bool} {e : SExpr} {e' : IExpr} {τ : ETy} {rt : Ty}
    (he : elabTop dbg Γ e = .ok (e', τ)) (hr : Γ.ret = some rt) (hf : find τ rt.r = .ok none) :
    elabStmt dbg sc Γ (.ret (some e)) = .error (.reject "WrongTypeInReturnStatement") := by
  simp [elabStmt, elabRet, he, hr, convertRet, hf]

/-- `return e;` in a `void` function is rejected unless `e` itself is of type `void` (a call of a `void` function) -/
theorem elab_rejects_return_in_void {Γ : Env} {dbg sc : Bool} {e : SExpr} {e' : IExpr} {τ : ETy}
    (he : elabTop dbg Γ e = .ok (e', τ)) (hr : Γ.ret = none)
    (hv : ∀ id, τ.ty.layer = .other id → Γ.others[id]? ≠ some .void) :
    elabStmt dbg sc Γ (.ret (some e)) = .error (.reject "WrongTypeInReturnStatement") := by
  simp only [elabStmt, elabRet, he, hr]
  cases hl : τ.ty.layer with
  | other id => have := hv id hl; simp [this]
  | scalar _ => simp
  | vector _ _ => simp
  | matrix _ _ _ => simp
  | enum _ => simp

/-- `return;` in a function that returns a value is rejected -/
theorem elab_rejects_return_void {Γ : Env} {dbg sc : Bool} {rt : Ty} (hr : Γ.ret = some rt) :
    elabStmt dbg sc Γ (.ret none) = .error (.reject "WrongTypeInReturnStatement") := by
  simp [elabStmt, hr]

/-- `T v = e;` where `e` does not convert to (the unmodified) `T` is rejected with `InitializerExpressionWrongType` -/
theorem elab_rejects_init_type {Γ : Env} {dbg sc : Bool} {t : Ty} {e : SExpr} {e' : IExpr} {τ : ETy}
    (hv : isVoid Γ t = false) (he : elabTop dbg Γ e = .ok (e', τ)) (hf : find τ t.unmod.r = .ok none) :
    elabStmt dbg sc Γ (.decl t (some (.expr e))) = .error (.reject "InitializerExpressionWrongType") := by
  simp [elabStmt, elabDecl, hv, elabInit, elabInitExpr, he, hf]

/-- `floatN v = { .. };` with a number of items other than `N` is rejected — aggregate initialisers are not flattened -/
theorem elab_rejects_aggregate_dimension {Γ : Env} {dbg sc : Bool} {t : Ty} {s : Scalar} {n : Nat} {items : SInits}
    (hv : isVoid Γ t = false) (hl : t.layer = .vector s n) (hn : items.length ≠ n) :
    elabStmt dbg sc Γ (.decl t (some (.agg items))) = .error (.reject "InitializerAggregateWrongDimension") := by
  simp [elabStmt, elabDecl, hv, elabInit, hl, hn]

/-- a matrix cannot be initialised from `{ .. }` at all -/
theorem elab_rejects_aggregate_matrix {Γ : Env} {dbg sc : Bool} {t : Ty} {s : Scalar} {x y : Nat} {items : SInits}
    (hv : isVoid Γ t = false) (hl : t.layer = .matrix s x y) :
    elabStmt dbg sc Γ (.decl t (some (.agg items))) = .error (.reject "InitializerAggregateDoesNotMatchType") := by
  simp [elabStmt, elabDecl, hv, elabInit, hl]

/-! ## constructors and subscripts -/

/-- **Component count rule**: a numeric constructor whose argument arities do not add up to the size of the constructed
    type is never accepted -/
theorem elab_rejects_ctor_count {Γ : Env} {dbg : Bool} {t : Ty} {s : Scalar} {args : SArgs} {args' : IArgs} {ars : List Nat}
    (hs : t.layer.extractScalar = some s) (ha : elabSlots dbg Γ s args = .ok (args', ars))
    (hn : ars.sum ≠ t.layer.numElements) : ∀ r, elabE dbg Γ (.ctor t args) ≠ .ok r := by
  intro r h
  simp [elabE, hs, ha, hn] at h

/-- a constructor of a type without scalar kind (a struct, an array) is never accepted -/
theorem elab_rejects_ctor_of_non_numeric {Γ : Env} {dbg : Bool} {t : Ty} {args : SArgs}
    (hs : t.layer.extractScalar = none) : ∀ r, elabE dbg Γ (.ctor t args) ≠ .ok r := by
  intro r h
  simp [elabE, hs] at h

/-- an accepted constructor has exactly the constructed type, as an rvalue; its slots satisfy the slot contract -/
theorem elab_ctor_exact {Γ : Env} {dbg : Bool} {t : Ty} {args : SArgs} {e' : IExpr} {τ : ETy}
    (h : elabE dbg Γ (.ctor t args) = .ok (e', τ)) :
    τ = t.r ∧ ∃ ars as' ts s, e' = .ctor t ars as' ∧ HasArgs Γ as' ts ∧ t.layer.extractScalar = some s ∧
      SlotsOk s ars ts ∧ ars.sum = t.layer.numElements := by
  have hs := elab_sound h
  simp only [elabE] at h
  split at h
  · simp at h
  · split at h
    · simp at h
    · split at h
      · obtain ⟨rfl, rfl⟩ := selfCheck_type h
        cases hs with
        | ctor h1 h2 h3 h4 => exact ⟨rfl, _, _, _, _, rfl, h1, h2, h3, h4⟩
      · simp at h

/-- a subscript whose index does not convert to the index type of the subscripted value (`uint` for arrays, vectors,
    matrices, buffers; `uint2` / `uint3` for textures) is never accepted -/
theorem elab_rejects_index_type {Γ : Env} {dbg : Bool} {a i : SExpr} {a' i' : IExpr} {τa τi it : ETy}
    (ha : elabE dbg Γ a = .ok (a', τa)) (hi : elabE dbg Γ i = .ok (i', τi))
    (hit : indexTy Γ τa.ty.layer = .ok it) (hf : find τi it = .ok none) :
    ∀ r, elabE dbg Γ (.index a i) ≠ .ok r := by
  intro r h
  simp [elabE, ha, hi, elabIndex, hit, hf] at h

/-- the index operand of an accepted subscript has exactly the index type of the subscripted value (the conversion is
    explicit); for arrays, vectors and matrices that is `uint` -/
theorem elab_index_exact {Γ : Env} {dbg : Bool} {a i : SExpr} {e' : IExpr} {τ : ETy}
    (h : elabE dbg Γ (.index a i) = .ok (e', τ)) :
    ∃ a' τa i' ti it, e' = .index a' i' ∧ HasType Γ a' τa ∧ HasType Γ i' ti ∧ indexTy Γ τa.ty.layer = .ok it ∧
      ti.ty = it.ty ∧ (τa.ty.layer.isNumeric = true → ti.ty = scalarTy .uInt32) := by
  obtain ⟨a0, τa, i0, τi, n, τ', ha, hi, hx, heq⟩ := elabE_index_inv h
  simp at heq; obtain ⟨rfl, rfl⟩ := heq
  obtain ⟨i', ti, it, rfl, h1, h2, h3⟩ := elabIndex_index_exact (elab_sound hi) hx
  refine ⟨a0, τa, i', ti, it, rfl, elab_sound ha, h1, h2, h3, ?_⟩
  intro hn
  rw [h3, indexTy_numeric hn h2]; rfl

theorem bin_target_error {Γ : Env} {dbg : Bool} {o : BinOp} {a b : SExpr} {m : Err} (ha : elabE dbg Γ a = .error m) :
    ∀ r, elabE dbg Γ (.bin o a b) ≠ .ok r := by
  intro r h
  simp [elabE, ha] at h

/-- a swizzle that names a component twice is not an lvalue: writes to `v.xx`, `m._m00_m00` are never accepted -/
theorem elab_rejects_write_to_repeated_swizzle {Γ : Env} {dbg : Bool} {o : BinOp} {e b : SExpr} {name : String}
    {e' : IExpr} {τ : ETy} {s : Scalar} {x : Nat} {slots : List Nat} (ho : o.cls = .assign)
    (he : elabE dbg Γ e = .ok (e', τ)) (hl : τ.ty.layer = .vector s x)
    (hs : slotsOf RsslVerif.Gen.ElabTables.vectorSwizzle x name.toList = some slots) (hd : hasDup slots = true) :
    ∀ r, elabE dbg Γ (.bin o (.member e name) b) ≠ .ok r := by
  intro r h
  cases hm : elabE dbg Γ (.member e name) with
  | error m => exact bin_target_error hm r h
  | ok p =>
    obtain ⟨n, τ'⟩ := p
    refine elab_rejects_assign_to_rvalue ho hm ?_ r h
    obtain ⟨e1, τ1, n1, τ1', h1, hmm, heq⟩ := elabE_member_inv hm
    rw [he] at h1; simp at h1; obtain ⟨rfl, rfl⟩ := h1
    simp at heq; obtain ⟨rfl, rfl⟩ := heq
    unfold elabMember at hmm
    split at hmm
    · simp at hmm
    · simp only [hl, hs] at hmm
      split at hmm
      · simp at hmm
      · simp at hmm; obtain ⟨_, rfl⟩ := hmm
        simp [swizzleVT, hd]

/-- a matrix swizzle selects at most four components (`read_matrix_subscript` refuses more), so its type is a scalar or a
    vector of width 2..4 -/
theorem matrix_swizzle_at_most_four {Γ : Env} {name : String} {e n : IExpr} {τ τ' : ETy} {s : Scalar} {x y : Nat}
    (hl : τ.ty.layer = .matrix s x y) (h : elabMember Γ name e τ = .ok (n, τ')) :
    ∃ slots, n = .mswizzle e slots ∧ slots.length ≤ 4 := by
  unfold elabMember at h
  split at h
  · simp at h
  · simp only [hl] at h
    split at h
    · rename_i slots hs
      simp at h; obtain ⟨rfl, _⟩ := h
      exact ⟨slots, rfl, readMatrix_length x y _ _ _ _ _ slots hs⟩
    · simp at h

/-- **A swizzle of a scalar or a vector names at most four components** (fix c805c03; formerly the negation witness
    `vector_swizzle_longer_than_four_accepted`).  Whatever the operand `e` is, if it elaborates to a scalar or a vector then a
    member name of more than four characters is never accepted: `float4 v; v.xyzwx`, `float f; f.rrrrr`, `(a + b).xxxxx`. -/
theorem elab_rejects_swizzle_longer_than_four {Γ : Env} {dbg : Bool} {e : SExpr} {name : String} {e' : IExpr} {τ : ETy}
    (he : elabE dbg Γ e = .ok (e', τ)) (hl : (∃ s, τ.ty.layer = .scalar s) ∨ (∃ s x, τ.ty.layer = .vector s x))
    (hn : 4 < name.toList.length) : ∀ r, elabE dbg Γ (.member e name) ≠ .ok r := by
  intro r h
  obtain ⟨e1, τ1, n1, τ1', h1, hmm, _⟩ := elabE_member_inv h
  rw [he] at h1; simp at h1; obtain ⟨rfl, rfl⟩ := h1
  have hs := maxSlots_rows.1
  have hv := maxSlots_rows.2.1
  unfold elabMember at hmm
  split at hmm
  · simp at hmm
  · rcases hl with ⟨s, hl⟩ | ⟨s, x, hl⟩
    · simp only [hl] at hmm
      split at hmm
      · rename_i slots hso
        have := slotsOf_length _ _ hso
        split at hmm
        · simp at hmm
        · omega
      · simp at hmm
    · simp only [hl] at hmm
      split at hmm
      · rename_i slots hso
        have := slotsOf_length _ _ hso
        split at hmm
        · simp at hmm
        · omega
      · simp at hmm

/-- the positive form over the IR: whatever is accepted, a `Swizzle` node built by a member access has at most four slots
    and its type is one a declaration can spell — the scalar itself or a vector of 2, 3 or 4 components -/
theorem elab_swizzle_at_most_four {Γ : Env} {dbg : Bool} {e : SExpr} {name : String} {o : IExpr} {slots : List Nat} {τ : ETy}
    (h : elabE dbg Γ (.member e name) = .ok (.swizzle o slots, τ)) :
    slots ≠ [] ∧ slots.length ≤ 4 ∧
      ∃ s, τ.ty.layer = .scalar s ∨ ∃ n, 2 ≤ n ∧ n ≤ 4 ∧ τ.ty.layer = .vector s n := by
  have ht := elab_sound h
  have key : ∀ (s : Scalar), slots ≠ [] → slots.length ≤ 4 →
      swizzleLayer s slots.length = .scalar s ∨ ∃ n, 2 ≤ n ∧ n ≤ 4 ∧ swizzleLayer s slots.length = .vector s n := by
    intro s hne h4
    unfold swizzleLayer
    split
    · exact Or.inl rfl
    · refine Or.inr ⟨slots.length, ?_, h4, rfl⟩
      have : slots.length ≠ 0 := by intro h0; exact hne (List.length_eq_zero_iff.mp h0)
      omega
  cases ht with
  | swizzleS he hl hne h4 hb => exact ⟨hne, h4, _, key _ hne h4⟩
  | swizzleV he hl hne h4 hb => exact ⟨hne, h4, _, key _ hne h4⟩

/-- `float4 v0; float v1;` -/
def swzEnv : Env := { vars := [⟨{}, .vector .float32 4⟩, ⟨{}, .scalar .float32⟩], funcs := [] }

def swzRejects (k : String) (e : SExpr) : Bool :=
  match elabE true swzEnv e with
  | .error (.reject k') => k == k'
  | _ => false

/-- the former witness `v0.xyzwx` and `v1.rrrrr` are `InvalidSwizzle` now; a character that is no slot is reported first
    (`TypeDoesNotHaveMembers` comes from the loop, before the length test) -/
example : (swzRejects "InvalidSwizzle" (.member (.var 0) "xyzwx") && swzRejects "InvalidSwizzle" (.member (.var 1) "rrrrr") &&
    swzRejects "TypeDoesNotHaveMembers" (.member (.var 1) "rrrrq") &&
    swzRejects "InvalidSwizzle" (.member (.member (.var 0) "xyxy") "wzyxw")) = true := by decide
example : (match elabE true swzEnv (.member (.var 0) "wzyx") with
     | .ok (.swizzle (.var 0) [3, 2, 1, 0], τ) => decide (τ = ⟨⟨{}, .vector .float32 4⟩, .lvalue⟩)
     | _ => false) = true := by decide
example : (match elabE true swzEnv (.member (.var 1) "rrrr") with
     | .ok (.swizzle (.var 1) [0, 0, 0, 0], τ) => decide (τ = ⟨⟨{}, .vector .float32 4⟩, .rvalue⟩)
     | _ => false) = true := by decide

/-! ## writes through projection chains -/

/-- **Writes to const objects through projections are rejected** — for every chain of swizzles and subscripts, of any
    length, applied to a const scalar / vector / matrix (`const float3 v; v.zyx.x = ..`, `const float2x2 m; m[i][j] += ..`,
    `m[0].y = ..`, `m._m00_m11.x = ..`): the assignment family never accepts it. -/
theorem elab_rejects_const_write_chain {Γ : Env} {dbg : Bool} {o : BinOp} {base b : SExpr} {ps : List Proj}
    {b0 : IExpr} {τ0 : ETy} (ho : o.cls = .assign) (hb : elabE dbg Γ base = .ok (b0, τ0)) (hc : ConstNum τ0) :
    ∀ r, elabE dbg Γ (.bin o (applyChain base ps) b) ≠ .ok r := by
  intro r h
  cases hm : elabE dbg Γ (applyChain base ps) with
  | error m => simp [elabE, hm] at h
  | ok p =>
    obtain ⟨n, τ'⟩ := p
    exact elab_rejects_assign_to_const ho hm (chain_constNum ps base b0 τ0 _ hb hc hm).1 r h

/-- the same for `++` / `--` -/
theorem elab_rejects_const_increment_chain {Γ : Env} {dbg : Bool} {o : UnOp} {base : SExpr} {ps : List Proj}
    {b0 : IExpr} {τ0 : ETy}
    (ho : o = .prefixIncrement ∨ o = .prefixDecrement ∨ o = .postfixIncrement ∨ o = .postfixDecrement)
    (hb : elabE dbg Γ base = .ok (b0, τ0)) (hc : ConstNum τ0) :
    ∀ r, elabE dbg Γ (.un o (applyChain base ps)) ≠ .ok r := by
  intro r h
  cases hm : elabE dbg Γ (applyChain base ps) with
  | error m => simp [elabE, hm] at h
  | ok p =>
    obtain ⟨n, τ'⟩ := p
    exact elab_rejects_increment ho hm (Or.inr (chain_constNum ps base b0 τ0 _ hb hc hm).1) r h

/-- elements of an array of const elements, and everything projected from them (`const float3 a[2]; a[i].x = ..`) -/
theorem elab_rejects_const_array_write_chain {Γ : Env} {dbg : Bool} {o : BinOp} {base i b : SExpr} {ps : List Proj}
    {b0 : IExpr} {τ0 : ETy} (ho : o.cls = .assign) (hb : elabE dbg Γ base = .ok (b0, τ0)) (hc : ConstArr Γ τ0) :
    ∀ r, elabE dbg Γ (.bin o (applyChain base (.index i :: ps)) b) ≠ .ok r := by
  intro r h
  cases hm : elabE dbg Γ (applyChain base (.index i :: ps)) with
  | error m => simp [elabE, hm] at h
  | ok p =>
    obtain ⟨n, τ'⟩ := p
    exact elab_rejects_assign_to_const ho hm (chain_constArr hb hc hm).1 r h

/-- elements of read-only resources (`StructuredBuffer<float4> b; b[i].x = ..`, `Texture2D<float4> t; t[p] = ..`), and
    everything projected from them, are never written -/
theorem elab_rejects_readonly_resource_write_chain {Γ : Env} {dbg : Bool} {o : BinOp} {base i b : SExpr} {ps : List Proj}
    {b0 : IExpr} {τ0 : ETy} (ho : o.cls = .assign) (hb : elabE dbg Γ base = .ok (b0, τ0)) (hc : ReadOnlyRes Γ τ0) :
    ∀ r, elabE dbg Γ (.bin o (applyChain base (.index i :: ps)) b) ≠ .ok r := by
  intro r h
  cases hm : elabE dbg Γ (applyChain base (.index i :: ps)) with
  | error m => simp [elabE, hm] at h
  | ok p =>
    obtain ⟨n, τ'⟩ := p
    exact elab_rejects_assign_to_const ho hm (chain_readOnlyRes hb hc hm).1 r h

/-- **Const objects are not passed to `out` / `inout` parameters through projections**: if for every function of the called
    name some argument is a projection chain on a const scalar / vector / matrix and its parameter is `out` / `inout`
    (not const), the call — of a user function or of an intrinsic function — is never accepted -/
theorem elab_rejects_const_out_arg_chain {Γ : Env} {dbg : Bool} {name : Nat} {args : SArgs} {args' : IArgs} {ts : List ETy}
    (ha : elabArgs dbg Γ args = .ok (args', ts))
    (hn : ∀ c ∈ candidates Γ name, ∃ (i : Nat) (p : Param) (base : SExpr) (ps : List Proj) (b0 : IExpr) (τ0 : ETy),
      c.params[i]? = some p ∧ (SArgs.toList args)[i]? = some (applyChain base ps) ∧
      elabE dbg Γ base = .ok (b0, τ0) ∧ ConstNum τ0 ∧ p.io.needsLvalue = true ∧ p.ty.mod.isConst = false) :
    ∀ r, elabE dbg Γ (.call name args) ≠ .ok r :=
  elab_rejects_out_arg_const ha fun c hc => by
    obtain ⟨i, p, base, ps, b0, τ0, hp, hi, hb, hcn, hio, hpc⟩ := hn c hc
    obtain ⟨e', τ, he, hti, _⟩ := elabArgs_get args args' ts i _ ha hi
    exact ⟨i, p, τ, hp, hti, hio, (chain_constNum ps base b0 τ0 _ hb hcn he).1, hpc⟩

theorem selected_is_cand {cands : List Cand} {args : List ETy} {i : Nat}
    (h : resolve cands args = .selected i) : ∃ c ∈ cands, c.id = i := by
  rcases resolve_cases cands args with hp | hr
  · rw [hp] at h; simp at h
  · rw [hr] at h
    obtain ⟨rc, hf⟩ := resolveRanked_selected h
    have hm : (i, rc) ∈ rankedList cands args :=
      winners_subset (finals_subset (by rw [hf]; exact List.mem_cons_self))
    obtain ⟨c, hc, hrc⟩ := mem_rankedList.mp hm
    exact ⟨c, hc, (rankCand_id hrc).symm⟩

theorem candsFrom_mem (name : Nat) : ∀ (fs : List FuncSig) (k : Nat) (c : Cand),
    c ∈ RsslVerif.Model.Elab.candsFrom name fs k →
    ∃ s, fs[c.id - k]? = some s ∧ s.name = name ∧ k ≤ c.id ∧ c.params = s.params
  | [], _, _, h => by simp [RsslVerif.Model.Elab.candsFrom] at h
  | s :: r, k, c, h => by
    simp only [RsslVerif.Model.Elab.candsFrom] at h
    split at h
    · rename_i hn
      rcases List.mem_cons.mp h with rfl | h
      · exact ⟨s, by simp, hn, Nat.le_refl _, rfl⟩
      · obtain ⟨s', h1, h2, h3, h4⟩ := candsFrom_mem name r (k + 1) c h
        refine ⟨s', ?_, h2, by omega, h4⟩
        have : c.id - k = (c.id - (k + 1)) + 1 := by omega
        rw [this]; simpa using h1
    · obtain ⟨s', h1, h2, h3, h4⟩ := candsFrom_mem name r (k + 1) c h
      refine ⟨s', ?_, h2, by omega, h4⟩
      have : c.id - k = (c.id - (k + 1)) + 1 := by omega
      rw [this]; simpa using h1

/-! ### writes through projections of objects that are not mutable (fixes 4575004, b359800, 3758fdd)

`check_mutable_place` looks at **every object on the way** from the written part to the variable, so the chain theorems no
longer depend on the type the member / element happens to be given: they hold for const **structs** (a struct member has the
member's declared type, without the object's `const`), for arrays of const elements as a whole, and for subscripts of values
that are not lvalues (`ArraySubscript` is always typed as an lvalue).  The former witnesses `const_struct_member_write_accepted`,
`rvalue_subscript_write_accepted`, `const_array_assignment_accepted` are rejected now (examples below).

`NotMutable Γ τ0`: the base is not an lvalue, or its type is const (`Spec.ElabX.ConstTy`: const modifier, or array of const
elements).  `NoResourceStep`: no `[i]` of the chain subscripts a buffer / texture — an element of a resource is not part of
the value of the handle (`b[i].x = ..` through the implicitly-const global `RWStructuredBuffer<float4> b` is a legal write). -/

/-- the base of a chain that must not be written through -/
def NotMutable (Γ : Env) (τ0 : ETy) : Prop := τ0.vt = .rvalue ∨ ConstTy Γ τ0.ty

/-- **Objects that are not mutable are not written through any projection chain** (assignment family): for every chain of
    struct members, swizzles, matrix swizzles and subscripts, of any length, on a base that is const — scalar, vector,
    matrix, **struct**, array of const elements — or not an lvalue (function result, `a + b`, constructor, cast, ...) -/
theorem elab_rejects_write_chain {Γ : Env} {dbg : Bool} {o : BinOp} {base b : SExpr} {ps : List Proj}
    {b0 : IExpr} {τ0 : ETy} (ho : o.cls = .assign) (hb : elabE dbg Γ base = .ok (b0, τ0)) (hc : NotMutable Γ τ0)
    (hn : NoResourceStep dbg Γ base ps) : ∀ r, elabE dbg Γ (.bin o (applyChain base ps) b) ≠ .ok r := by
  intro r h
  obtain ⟨a', τa, ha, hp⟩ := elabE_assign_inv ho h
  have hplace := checkMutablePlace_sound a' τa (elab_sound ha) hp
  exact not_place_of_bad_base (chain_projOf ps base b0 τ0 _ hb hn ha) (elab_sound hb) hc hplace

/-- the same for `++` / `--` -/
theorem elab_rejects_increment_chain {Γ : Env} {dbg : Bool} {o : UnOp} {base : SExpr} {ps : List Proj}
    {b0 : IExpr} {τ0 : ETy}
    (ho : o = .prefixIncrement ∨ o = .prefixDecrement ∨ o = .postfixIncrement ∨ o = .postfixDecrement)
    (hb : elabE dbg Γ base = .ok (b0, τ0)) (hc : NotMutable Γ τ0) (hn : NoResourceStep dbg Γ base ps) :
    ∀ r, elabE dbg Γ (.un o (applyChain base ps)) ≠ .ok r := by
  intro r h
  obtain ⟨e', τ, he, hp⟩ := elabE_incr_inv ho h
  have hplace := checkMutablePlace_sound e' τ (elab_sound he) hp
  exact not_place_of_bad_base (chain_projOf ps base b0 τ0 _ hb hn he) (elab_sound hb) hc hplace

/-- the same for `out` / `inout` arguments of user and intrinsic functions: if for every function of the called name some
    argument is a projection chain on a base that is not mutable and its parameter is `out` / `inout`, the call is never
    accepted -/
theorem elab_rejects_out_arg_chain {Γ : Env} {dbg : Bool} {name : Nat} {args : SArgs}
    (hn : ∀ c ∈ candidates Γ name, ∃ (i : Nat) (p : Param) (base : SExpr) (ps : List Proj) (b0 : IExpr) (τ0 : ETy),
      c.params[i]? = some p ∧ (SArgs.toList args)[i]? = some (applyChain base ps) ∧
      elabE dbg Γ base = .ok (b0, τ0) ∧ NotMutable Γ τ0 ∧ p.io.needsLvalue = true ∧ NoResourceStep dbg Γ base ps) :
    ∀ r, elabE dbg Γ (.call name args) ≠ .ok r := by
  intro r h
  obtain ⟨as1, ts, ha, hcall⟩ := elabE_call_inv h
  obtain ⟨id, s, as'', hsel, hs, hca, hco, _, _⟩ := elabCall_inv hcall
  obtain ⟨c, hc, hid⟩ := selected_is_cand hsel
  obtain ⟨s', hs', _, _, hps⟩ := candsFrom_mem _ _ 0 c hc
  simp at hs'
  rw [hid, hs] at hs'
  simp at hs'; subst hs'
  obtain ⟨i, p, base, ps, b0, τ0, hp, hi, hb, hbad, hio, hnr⟩ := hn c hc
  rw [hps] at hp
  obtain ⟨e', τ, he, hti, hai⟩ := elabArgs_get args as1 ts i _ ha hi
  obtain ⟨e'', t', hai', hcv⟩ := castArgs_get s.params as1 ts as'' i p e' τ hca hp hai hti
  have hchk := checkOutArgs_get s.params as'' i p e'' hco hp hai' hio
  have hty := elab_sound he
  obtain ⟨_, τ'', h1, _, _⟩ := convert_type hty hcv
  have hplace := checkMutablePlace_sound e'' τ'' h1 hchk
  have heq := place_not_converted hty hcv hplace
  subst heq
  exact not_place_of_bad_base (chain_projOf ps base b0 τ0 _ hb hnr he) (elab_sound hb) hbad hplace

/-- a const modifier makes the base not mutable, whatever its layer (struct, array, numeric) -/
theorem notMutable_of_const {Γ : Env} {τ0 : ETy} (h : τ0.ty.mod.isConst = true) : NotMutable Γ τ0 := Or.inr (.mod h)

/-- an array of const elements is not mutable although its own type carries no modifier -/
theorem notMutable_of_const_elements {Γ : Env} {τ0 : ETy} {id len : Nat} {elem : Ty} (hm : τ0.ty.mod = {})
    (hl : τ0.ty.layer = .other id) (ho : Γ.others[id]? = some (.array elem len)) (hc : elem.mod.isConst = true) :
    NotMutable Γ τ0 := Or.inr (.array hm hl ho (.mod hc))

/-- **A member of a const struct is never written**, however deep: `const S s; s.q = ..`, `s.v.x += ..`, `s.a[i] = ..`
    (the class of the former witness `const_struct_member_write_accepted`) -/
theorem elab_rejects_const_struct_write_chain {Γ : Env} {dbg : Bool} {o : BinOp} {base b : SExpr} {ps : List Proj}
    {b0 : IExpr} {τ0 : ETy} {sid : Nat} {ms : List (String × Ty)} (ho : o.cls = .assign)
    (hb : elabE dbg Γ base = .ok (b0, τ0)) (hc : τ0.ty.mod.isConst = true) (_hl : τ0.ty.layer = .other sid)
    (_hs : Γ.others[sid]? = some (.struct ms)) (hn : NoResourceStep dbg Γ base ps) :
    ∀ r, elabE dbg Γ (.bin o (applyChain base ps) b) ≠ .ok r :=
  elab_rejects_write_chain ho hb (notMutable_of_const hc) hn

/-- **An array of const elements is never assigned as a whole** (`const float a[3]; a = a`, `a += a`; the class of the former
    witness `const_array_assignment_accepted`), nor written through any chain -/
theorem elab_rejects_const_array_assignment {Γ : Env} {dbg : Bool} {o : BinOp} {base b : SExpr} {b0 : IExpr} {τ0 : ETy}
    {id len : Nat} {elem : Ty} (ho : o.cls = .assign) (hb : elabE dbg Γ base = .ok (b0, τ0)) (hm : τ0.ty.mod = {})
    (hl : τ0.ty.layer = .other id) (hd : Γ.others[id]? = some (.array elem len)) (hc : elem.mod.isConst = true) :
    ∀ r, elabE dbg Γ (.bin o base b) ≠ .ok r :=
  elab_rejects_write_chain (ps := []) ho hb (notMutable_of_const_elements hm hl hd hc) trivial

/-- **Values that are not lvalues are not written through any chain** — members, swizzles **and subscripts**
    (`f()[0] = ..`, `(a + b)[i].x = ..`, `float3(a)[0]++`; the class of the former witness `rvalue_subscript_write_accepted`).
    This is the former `elab_rejects_rvalue_write_chain_partial` without its restriction to `.name` steps. -/
theorem elab_rejects_rvalue_write_chain {Γ : Env} {dbg : Bool} {o : BinOp} {base b : SExpr} {ps : List Proj}
    {b0 : IExpr} {τ0 : ETy} (ho : o.cls = .assign) (hb : elabE dbg Γ base = .ok (b0, τ0)) (hv : τ0.vt = .rvalue)
    (hn : NoResourceStep dbg Γ base ps) : ∀ r, elabE dbg Γ (.bin o (applyChain base ps) b) ≠ .ok r :=
  elab_rejects_write_chain ho hb (Or.inl hv) hn

/-- the same for `out` / `inout` arguments (the former `elab_rejects_rvalue_out_arg_chain_partial`, now with subscripts) -/
theorem elab_rejects_rvalue_out_arg_chain {Γ : Env} {dbg : Bool} {name : Nat} {args : SArgs}
    (hn : ∀ c ∈ candidates Γ name, ∃ (i : Nat) (p : Param) (base : SExpr) (ps : List Proj) (b0 : IExpr) (τ0 : ETy),
      c.params[i]? = some p ∧ (SArgs.toList args)[i]? = some (applyChain base ps) ∧
      elabE dbg Γ base = .ok (b0, τ0) ∧ τ0.vt = .rvalue ∧ p.io.needsLvalue = true ∧ NoResourceStep dbg Γ base ps) :
    ∀ r, elabE dbg Γ (.call name args) ≠ .ok r :=
  elab_rejects_out_arg_chain fun c hc => by
    obtain ⟨i, p, base, ps, b0, τ0, h1, h2, h3, hv, h5, h6⟩ := hn c hc
    exact ⟨i, p, base, ps, b0, τ0, h1, h2, h3, Or.inl hv, h5, h6⟩

/-- chains of `.name` steps (the former hypothesis of the `_partial` theorems) never subscript a resource -/
example {Γ : Env} {dbg : Bool} (base : SExpr) (names : List String) : NoResourceStep dbg Γ base (memberChain names) :=
  noResourceStep_members names base

/-! ### what an accepted write looks like -/

/-- **The target of an accepted assignment is a mutable place** (`Spec.ElabX.MutablePlace`): the target and every object on
    the way from the written part to the variable is a non-const lvalue under the IR's typing judgment -/
theorem elab_assign_target_is_place {Γ : Env} {dbg : Bool} {o : BinOp} {a b : SExpr} {e' : IExpr} {τ : ETy}
    (ho : o.cls = .assign) (h : elabE dbg Γ (.bin o a b) = .ok (e', τ)) :
    ∃ i a' b', e' = .op i (.cons a' (.cons b' .nil)) ∧ MutablePlace Γ a' := by
  obtain ⟨i, a', b', ta, tb, rfl, h1, _⟩ := elab_assign_exact ho h
  obtain ⟨a1, τa, ha, hp⟩ := elabE_assign_inv ho h
  refine ⟨i, a', b', rfl, ?_⟩
  -- the left operand of the node is the elaborated target
  have : a' = a1 := by
    simp only [elabE, ha] at h
    split at h
    · simp at h
    · simp only [ho] at h
      split at h
      · simp at h
      · rename_i n τn hn
        obtain ⟨hnn, _⟩ := selfCheck_type h
        unfold elabAssign at hn
        repeat' split at hn
        all_goals (first | (simp at hn; done) | skip)
        all_goals (
          simp only [Except.ok.injEq, Prod.mk.injEq] at hn
          obtain ⟨rfl, _⟩ := hn
          simp at hnn
          exact hnn.2.1)
  subst this
  exact checkMutablePlace_sound _ τa (elab_sound ha) hp

/-- **The operand of an accepted `++` / `--` is a mutable place** -/
theorem elab_increment_operand_is_place {Γ : Env} {dbg : Bool} {o : UnOp} {e : SExpr} {r : IExpr × ETy}
    (ho : o = .prefixIncrement ∨ o = .prefixDecrement ∨ o = .postfixIncrement ∨ o = .postfixDecrement)
    (h : elabE dbg Γ (.un o e) = .ok r) : ∃ e' τ, elabE dbg Γ e = .ok (e', τ) ∧ MutablePlace Γ e' := by
  obtain ⟨e', τ, he, hp⟩ := elabE_incr_inv ho h
  exact ⟨e', τ, he, checkMutablePlace_sound e' τ (elab_sound he) hp⟩

/-- **`out` / `inout` arguments of an accepted call are mutable places** — of user and intrinsic functions; in particular
    none is the result of a conversion (a `Cast` is an rvalue): the class of the former known finding
    `void g(out int x); int1 a; g(a)` -/
theorem elab_out_args_are_places {Γ : Env} {dbg : Bool} {name : Nat} {args : SArgs} {e' : IExpr} {τ : ETy}
    (h : elabE dbg Γ (.call name args) = .ok (e', τ)) :
    ∃ id s as', e' = .call id as' ∧ Γ.funcs[id]? = some s ∧ OutArgsPlaces Γ s.params as' := by
  obtain ⟨as1, ts, ha, hcall⟩ := elabE_call_inv h
  have iha := elabArgs_sound_any dbg args as1 ts ha
  obtain ⟨id, s, as'', _, hs, hca, hco, rfl, rfl⟩ := elabCall_inv hcall
  obtain ⟨us, h1, _⟩ := castArgs_exact s.params as1 ts as'' iha hca
  exact ⟨id, s, as'', rfl, hs, checkOutArgs_places s.params as'' us h1 hco⟩

/-- a place is not a `Cast`, not a literal, not a constructor: conversions and constructions are rvalues -/
theorem place_is_not_a_conversion {Γ : Env} {e : IExpr} (h : MutablePlace Γ e) :
    (∀ t x, e ≠ .cast t x) ∧ (∀ k, e ≠ .lit k) ∧ (∀ t ar as, e ≠ .ctor t ar as) := by
  refine ⟨?_, ?_, ?_⟩
  · intro t x heq; subst heq
    cases h with
    | root ht hv _ _ => cases ht; simp [Ty.r] at hv
  · intro k heq; subst heq
    cases h with
    | root ht hv _ _ => cases ht; simp [Ty.r] at hv
  · intro t ar as heq; subst heq
    cases h with
    | root ht hv _ _ => cases ht; simp [Ty.r] at hv

/-! ## the rejection classes of the property, by name -/

/-- **Writes to const expressions are never accepted** (assignment family and `++` / `--`), whatever expression of the
    extended language the target is, as soon as the type checker computes a const type for it.  (For which targets it does:
    `elab_rejects_const_write_chain`, `elab_rejects_const_array_write_chain`; for which it does not although the object is
    declared const: `const_struct_member_write_accepted`, `const_array_assignment_accepted`.) -/
theorem elab_rejects_const_write {Γ : Env} {dbg : Bool} {a : SExpr} {a' : IExpr} {τa : ETy}
    (ha : elabE dbg Γ a = .ok (a', τa)) (hc : τa.ty.mod.isConst = true) :
    (∀ (o : BinOp) (b : SExpr), o.cls = .assign → ∀ r, elabE dbg Γ (.bin o a b) ≠ .ok r) ∧
    (∀ (o : UnOp), (o = .prefixIncrement ∨ o = .prefixDecrement ∨ o = .postfixIncrement ∨ o = .postfixDecrement) →
      ∀ r, elabE dbg Γ (.un o a) ≠ .ok r) :=
  ⟨fun _ _ ho => elab_rejects_assign_to_const ho ha hc, fun _ ho => elab_rejects_increment ho ha (Or.inr hc)⟩

/-- **Writes to non-lvalue expressions are never accepted** (same two forms) -/
theorem elab_rejects_rvalue_write {Γ : Env} {dbg : Bool} {a : SExpr} {a' : IExpr} {τa : ETy}
    (ha : elabE dbg Γ a = .ok (a', τa)) (hv : τa.vt = .rvalue) :
    (∀ (o : BinOp) (b : SExpr), o.cls = .assign → ∀ r, elabE dbg Γ (.bin o a b) ≠ .ok r) ∧
    (∀ (o : UnOp), (o = .prefixIncrement ∨ o = .prefixDecrement ∨ o = .postfixIncrement ∨ o = .postfixDecrement) →
      ∀ r, elabE dbg Γ (.un o a) ≠ .ok r) :=
  ⟨fun _ _ ho => elab_rejects_assign_to_rvalue ho ha hv, fun _ ho => elab_rejects_increment ho ha (Or.inl hv)⟩

/-- **Non-lvalue or const expressions are never passed to `out` / `inout` parameters** (user and intrinsic functions) -/
theorem elab_rejects_rvalue_out_arg {Γ : Env} {dbg : Bool} {name : Nat} {args : SArgs} {args' : IArgs} {ts : List ETy}
    (ha : elabArgs dbg Γ args = .ok (args', ts))
    (hn : ∀ c ∈ candidates Γ name, ∃ (i : Nat) (p : Param) (a : ETy), c.params[i]? = some p ∧ ts[i]? = some a ∧
      p.io.needsLvalue = true ∧ (a.vt = .rvalue ∨ (a.ty.mod.isConst = true ∧ p.ty.mod.isConst = false))) :
    ∀ r, elabE dbg Γ (.call name args) ≠ .ok r :=
  elab_rejects_unconvertible ha fun c hc => by
    obtain ⟨i, p, a, hp, hta, hio, hor⟩ := hn c hc
    refine ⟨i, p, a, hp, hta, ?_⟩
    rcases hor with hv | ⟨hca, hcp⟩
    · exact RsslVerif.Thm.C03.find_rejects_rvalue_to_lvalue a p.ety hv (by simp [Param.ety, hio])
    · obtain ⟨r, hr⟩ := RsslVerif.Lemmas.Conv.find_no_panic a p.ety
      cases r with
      | none => exact hr
      | some c' =>
        exact absurd hr (RsslVerif.Thm.C03.find_keeps_const (by simp [Param.ety, hio])
          (Or.inl ⟨hca, by simpa [Param.ety] using hcp⟩) c')

/-! ## intrinsic functions -/

/-- **Accepted calls of intrinsic functions resolve into the re-extracted signature table.**  In an environment whose function
    registry starts with the intrinsic functions (`Module::create`) and whose user functions have other names, an accepted
    call of the intrinsic named `names[n]` elaborates to `Call(FunctionId(f), args)` where entry `f` of
    `Gen.IntrinsicSigs.sigs` is a signature of that name, the call has that signature's return type, and every argument has
    exactly the type of its parameter. -/
theorem elab_intrinsic_call_exact {Γ : Env} {dbg : Bool} {v n : Nat} {user : List FuncSig} {args : SArgs} {e' : IExpr} {τ : ETy}
    (hΓ : Γ.funcs = RsslVerif.Model.Intrinsics.intrinsicFuncs v ++ user)
    (hu : ∀ s ∈ user, s.name < RsslVerif.Model.Intrinsics.intrinsicBase)
    (h : elabE dbg Γ (.call (RsslVerif.Model.Intrinsics.intrinsicBase + n) args) = .ok (e', τ)) :
    ∃ f sig as' us, e' = .call f as' ∧ RsslVerif.Gen.IntrinsicSigs.sigs[f]? = some sig ∧ sig.name = n ∧
      τ = (RsslVerif.Model.Intrinsics.toTy v sig.ret).r ∧ HasArgs Γ as' us ∧
      ArgsMatch us (RsslVerif.Model.Intrinsics.toFuncSig v sig).params := by
  obtain ⟨id, s, as', us, rfl, hs, rfl, hargs, hmatch⟩ := elab_call_args_exact h
  -- the selected id is one of the candidates of that name
  have hname : s.name = RsslVerif.Model.Intrinsics.intrinsicBase + n := by
    obtain ⟨as1, ts, _, hn⟩ := elabE_call_inv h
    obtain ⟨id', s'', _, hsel, hs'', _, _, hcall, _⟩ := elabCall_inv hn
    simp at hcall
    obtain ⟨rfl, _⟩ := hcall
    obtain ⟨c, hc, hid⟩ := selected_is_cand hsel
    obtain ⟨s', hs', hn', _, _⟩ := candsFrom_mem _ _ 0 c hc
    simp at hs'
    rw [hid, hs] at hs'
    simp at hs'; subst hs'
    exact hn'
  rw [hΓ] at hs
  by_cases hlt : id < (RsslVerif.Model.Intrinsics.intrinsicFuncs v).length
  · rw [List.getElem?_append_left hlt] at hs
    simp only [RsslVerif.Model.Intrinsics.intrinsicFuncs, List.getElem?_map] at hs
    cases hsig : RsslVerif.Gen.IntrinsicSigs.sigs[id]? with
    | none => simp [hsig] at hs
    | some sig =>
      simp [hsig] at hs
      subst hs
      refine ⟨id, sig, as', us, rfl, hsig, ?_, rfl, hargs, hmatch⟩
      simp [RsslVerif.Model.Intrinsics.toFuncSig] at hname
      exact hname
  · rw [List.getElem?_append_right (by omega)] at hs
    have := hu s (List.mem_of_getElem? hs)
    omega

/-! ## the subscript tables (re-extracted from the source on every run) say what the language says -/

/-- **Index types of resources**: buffers are indexed by a `uint`, 2D textures by a `uint2`, 2D texture arrays and 3D
    textures by a `uint3` (the widths `parse_expr_unchecked` uses, as re-extracted into `Gen.ElabTables`) -/
theorem resource_index_widths :
    RsslVerif.Gen.ElabTables.subscriptIndexWidth.lookup "Buffer" = some 1 ∧
    RsslVerif.Gen.ElabTables.subscriptIndexWidth.lookup "RWBuffer" = some 1 ∧
    RsslVerif.Gen.ElabTables.subscriptIndexWidth.lookup "StructuredBuffer" = some 1 ∧
    RsslVerif.Gen.ElabTables.subscriptIndexWidth.lookup "RWStructuredBuffer" = some 1 ∧
    RsslVerif.Gen.ElabTables.subscriptIndexWidth.lookup "Texture2D" = some 2 ∧
    RsslVerif.Gen.ElabTables.subscriptIndexWidth.lookup "RWTexture2D" = some 2 ∧
    RsslVerif.Gen.ElabTables.subscriptIndexWidth.lookup "Texture2DArray" = some 3 ∧
    RsslVerif.Gen.ElabTables.subscriptIndexWidth.lookup "RWTexture2DArray" = some 3 ∧
    RsslVerif.Gen.ElabTables.subscriptIndexWidth.lookup "Texture3D" = some 3 ∧
    RsslVerif.Gen.ElabTables.subscriptIndexWidth.lookup "RWTexture3D" = some 3 := by decide

/-- **Elements of resources**: exactly the `RW…` resources give a writable element, every other subscriptable resource gives
    a const element (`get_type(ArraySubscript)`, as re-extracted into `Gen.ElabTables`) -/
theorem resource_element_constness :
    (∀ k ∈ RsslVerif.Gen.ElabTables.subscriptReadWrite, k.startsWith "RW" = true) ∧
    (∀ k ∈ RsslVerif.Gen.ElabTables.subscriptReadOnly, k.startsWith "RW" = false) ∧
    (∀ k ∈ ["Buffer", "StructuredBuffer", "Texture2D", "Texture2DArray", "Texture3D"],
      k ∈ RsslVerif.Gen.ElabTables.subscriptReadOnly) ∧
    (∀ k ∈ ["RWBuffer", "RWStructuredBuffer", "RWTexture2D", "RWTexture2DArray", "RWTexture3D"],
      k ∈ RsslVerif.Gen.ElabTables.subscriptReadWrite) := by decide +kernel

/-! ## what the judgment says about the new nodes (consequences of `HasType`) -/

/-- a typed swizzle selects at least one component, and only components its operand has -/
theorem swizzle_in_range {Γ : Env} {e : IExpr} {slots : List Nat} {τ : ETy} (h : HasType Γ (.swizzle e slots) τ) :
    ∃ te, HasType Γ e te ∧ slots ≠ [] ∧ slots.length ≤ 4 ∧
      ((∃ s, te.ty.layer = .scalar s ∧ ∀ k ∈ slots, k < 1) ∨ (∃ s n, te.ty.layer = .vector s n ∧ ∀ k ∈ slots, k < n)) := by
  cases h with
  | swizzleS he hl hn h4 hb => exact ⟨_, he, hn, h4, Or.inl ⟨_, hl, hb⟩⟩
  | swizzleV he hl hn h4 hb => exact ⟨_, he, hn, h4, Or.inr ⟨_, _, hl, hb⟩⟩

theorem matrix_swizzle_in_range {Γ : Env} {e : IExpr} {slots : List (Nat × Nat)} {τ : ETy}
    (h : HasType Γ (.mswizzle e slots) τ) :
    ∃ te s x y, HasType Γ e te ∧ te.ty.layer = .matrix s x y ∧ slots ≠ [] ∧ slots.length ≤ 4 ∧
      ∀ k ∈ slots, k.1 < x ∧ k.2 < y := by
  cases h with
  | mswizzle he hl hn h4 hb => exact ⟨_, _, _, _, he, hl, hn, h4, hb⟩

/-- a typed struct member is taken from a value of that struct, and the member exists -/
theorem member_of_struct {Γ : Env} {e : IExpr} {sid idx : Nat} {τ : ETy} (h : HasType Γ (.member e sid idx) τ) :
    ∃ te ms m, HasType Γ e te ∧ te.ty.layer = .other sid ∧ Γ.others[sid]? = some (.struct ms) ∧ ms[idx]? = some m ∧
      τ = ⟨m.2, te.vt⟩ := by
  cases h with
  | member he hl ho hm => exact ⟨_, _, _, he, hl, ho, hm, rfl⟩

/-- a typed constructor builds a numeric type from slots of its own scalar kind whose arities are the element counts of
    the slot values and add up to the element count of the type -/
theorem ctor_slots_exact {Γ : Env} {t : Ty} {ars : List Nat} {args : IArgs} {τ : ETy} (h : HasType Γ (.ctor t ars args) τ) :
    τ = t.r ∧ ∃ ts s, HasArgs Γ args ts ∧ t.layer.extractScalar = some s ∧ SlotsOk s ars ts ∧
      ars.sum = t.layer.numElements := by
  cases h with
  | ctor h1 h2 h3 h4 => exact ⟨rfl, _, _, h1, h2, h3, h4⟩

/-! ## every referenced definition exists -/

mutual
/-- all variable ids, function ids, struct ids and member indices of the expression are allocated -/
def IdsInRange (Γ : Env) : IExpr → Prop
  | .lit _ => True
  | .var i => i < Γ.vars.length
  | .tern c a b => IdsInRange Γ c ∧ IdsInRange Γ a ∧ IdsInRange Γ b
  | .seq a b => IdsInRange Γ a ∧ IdsInRange Γ b
  | .call f args => f < Γ.funcs.length ∧ ArgsInRange Γ args
  | .cast _ e => IdsInRange Γ e
  | .op _ args => ArgsInRange Γ args
  | .swizzle e _ => IdsInRange Γ e
  | .mswizzle e _ => IdsInRange Γ e
  | .index a i => IdsInRange Γ a ∧ IdsInRange Γ i
  | .member e sid idx => IdsInRange Γ e ∧ ∃ ms, Γ.others[sid]? = some (.struct ms) ∧ idx < ms.length
  | .ctor _ _ args => ArgsInRange Γ args
def ArgsInRange (Γ : Env) : IArgs → Prop
  | .nil => True
  | .cons e r => IdsInRange Γ e ∧ ArgsInRange Γ r
end

theorem lt_of_getElem?_some {α : Type} {l : List α} {i : Nat} {a : α} (h : l[i]? = some a) : i < l.length := by
  rcases Nat.lt_or_ge i l.length with hl | hl
  · exact hl
  · rw [List.getElem?_eq_none hl] at h; simp at h

mutual
theorem ids_of_hasType {Γ : Env} : ∀ (e : IExpr) (τ : ETy), HasType Γ e τ → IdsInRange Γ e
  | .lit k, _, _ => by simp [IdsInRange]
  | .var i, _, h => by cases h with | var hv => simp only [IdsInRange]; exact lt_of_getElem?_some hv
  | .tern c a b, _, h => by
    cases h with
    | tern hc ha hb _ => exact ⟨ids_of_hasType c _ hc, ids_of_hasType a _ ha, ids_of_hasType b _ hb⟩
  | .seq a b, _, h => by
    cases h with
    | seq ha hb => exact ⟨ids_of_hasType a _ ha, ids_of_hasType b _ hb⟩
  | .call f args, _, h => by
    cases h with
    | call hf ha => exact ⟨lt_of_getElem?_some hf, ids_of_hasArgs args _ ha⟩
  | .cast t e, _, h => by
    cases h with
    | cast he => exact ids_of_hasType e _ he
  | .op o args, _, h => by
    cases h with
    | op ha _ => exact ids_of_hasArgs args _ ha
  | .swizzle e _, _, h => by
    cases h with
    | swizzleS he _ _ _ => exact ids_of_hasType e _ he
    | swizzleV he _ _ _ => exact ids_of_hasType e _ he
  | .mswizzle e _, _, h => by
    cases h with
    | mswizzle he _ _ _ => exact ids_of_hasType e _ he
  | .index a i, _, h => by
    cases h with
    | indexV ha hi _ => exact ⟨ids_of_hasType a _ ha, ids_of_hasType i _ hi⟩
    | indexM ha hi _ => exact ⟨ids_of_hasType a _ ha, ids_of_hasType i _ hi⟩
    | indexA ha hi _ _ => exact ⟨ids_of_hasType a _ ha, ids_of_hasType i _ hi⟩
    | indexR ha hi _ _ _ => exact ⟨ids_of_hasType a _ ha, ids_of_hasType i _ hi⟩
  | .member e sid idx, _, h => by
    cases h with
    | member he _ ho hm => exact ⟨ids_of_hasType e _ he, _, ho, lt_of_getElem?_some hm⟩
  | .ctor t ar args, _, h => by
    cases h with
    | ctor ha _ _ _ => exact ids_of_hasArgs args _ ha
theorem ids_of_hasArgs {Γ : Env} : ∀ (as : IArgs) (ts : List ETy), HasArgs Γ as ts → ArgsInRange Γ as
  | .nil, _, _ => by simp [ArgsInRange]
  | .cons e r, _, h => by
    cases h with
    | cons he hr => exact ⟨ids_of_hasType e _ he, ids_of_hasArgs r _ hr⟩
end

/-- **Every referenced definition exists**: all variable, function (user and intrinsic), struct ids and member indices of an
    accepted expression are allocated in the environment -/
theorem ids_in_range {Γ : Env} {dbg : Bool} {e : SExpr} {e' : IExpr} {τ : ETy} (h : elabE dbg Γ e = .ok (e', τ)) :
    IdsInRange Γ e' := ids_of_hasType e' τ (elab_sound h)

/-! ## the former witnesses (fixed: 4575004, b359800, 3758fdd) are rejected now -/

/-- `struct S0 { int q; }; const S0 v0; float3 v1; const float v2[3]; float3 f0(); int1 v3; void f1(out int); void f2(inout float);` -/
def wEnv : Env :=
  { vars := [⟨{ isConst := true }, .other 0⟩, ⟨{}, .vector .float32 3⟩, ⟨{}, .other 1⟩, ⟨{}, .vector .int32 1⟩],
    funcs := [⟨0, [], 0, ⟨{}, .vector .float32 3⟩⟩, ⟨1, [⟨⟨{}, .scalar .int32⟩, .out⟩], 1, ⟨{}, .other 2⟩⟩,
              ⟨2, [⟨⟨{}, .scalar .float32⟩, .inOut⟩], 1, ⟨{}, .other 2⟩⟩],
    others := [.struct [("q", ⟨{}, .scalar .int32⟩)], .array ⟨{ isConst := true }, .scalar .float32⟩ 3, .void] }

def wRejects (k : String) (e : SExpr) : Bool :=
  match elabE true wEnv e with
  | .error (.reject k') => k == k'
  | _ => false

/-- `v0.q = 1` and `++v0.q` (member of a const struct), `f0()[0] = 1` and `f1(f0()[0])`-style out arguments (element of a
    function result), `v2 = v2` (array of const elements), `f1(v3)` (`int1` for `out int`: would need a `Cast`) and
    `f2(v0.q)`-style out arguments of members of const objects are all rejected; the hypotheses of
    `elab_rejects_write_chain` are satisfiable -/
example :
    (wRejects "MutableRequired" (.bin .assignment (.member (.var 0) "q") (.lit .intLiteral)) &&
     wRejects "MutableRequired" (.un .prefixIncrement (.member (.var 0) "q")) &&
     wRejects "LvalueRequired" (.bin .assignment (.index (.call 0 .nil) (.lit .intLiteral)) (.lit .intLiteral)) &&
     wRejects "LvalueRequired" (.call 2 (.cons (.index (.call 0 .nil) (.lit .intLiteral)) .nil)) &&
     wRejects "MutableRequired" (.bin .assignment (.var 2) (.var 2)) &&
     wRejects "MutableRequired" (.bin .sumAssignment (.var 2) (.var 2)) &&
     wRejects "LvalueRequired" (.call 1 (.cons (.var 3) .nil)) &&
     wRejects "MutableRequired" (.call 1 (.cons (.member (.var 0) "q") .nil))) = true := by decide

example : NotMutable wEnv ⟨⟨{ isConst := true }, .other 0⟩, .lvalue⟩ := notMutable_of_const rfl
example : NotMutable wEnv ⟨⟨{}, .other 1⟩, .lvalue⟩ := notMutable_of_const_elements rfl rfl rfl rfl

/-! ## non-vacuity -/

/-- `float3 v0; const float3 v1; float2x2 v2; S0 v3; float v4[2]; const float2x2 v5; float v6;`
    `struct S0 { int q; float3 v; float a[2]; }` -/
def exEnv : Env :=
  { vars := [⟨{}, .vector .float32 3⟩, ⟨{ isConst := true }, .vector .float32 3⟩, ⟨{}, .matrix .float32 2 2⟩, ⟨{}, .other 0⟩,
             ⟨{}, .other 1⟩, ⟨{ isConst := true }, .matrix .float32 2 2⟩, ⟨{}, .scalar .float32⟩],
    funcs := RsslVerif.Model.Intrinsics.intrinsicFuncs 2,
    others := [.struct [("q", ⟨{}, .scalar .int32⟩), ("v", ⟨{}, .vector .float32 3⟩), ("a", ⟨{}, .other 1⟩)],
               .array ⟨{}, .scalar .float32⟩ 2, .void],
    templates := RsslVerif.Model.Intrinsics.templateNames }

def accepts (e : SExpr) : Bool := match elabE true exEnv e with | .ok _ => true | _ => false
def rejectsWith (k : String) (e : SExpr) : Bool := match elabE true exEnv e with | .error (.reject k') => k == k' | _ => false

/-- the hypotheses of the soundness and chain theorems are satisfiable, and the model behaves as described: swizzles
    (`v0.zyx.x = 1` accepted; `v0.xx = ..`, `v0.w` rejected), matrix swizzles, members, subscripts (`v2[0][1] = 1`,
    `v3.a[1] = 1` accepted), writes through chains on const objects rejected (`v1.zyx.x = 1`, `v5[0][1] = 1`,
    `v5._m00_m11.x = 1`), constructors (`float3(v0.xy, 1)` accepted, `float3(v0.xy)` rejected) -/
example :
    (accepts (.bin .assignment (.member (.member (.var 0) "zyx") "x") (.lit .intLiteral)) &&
     rejectsWith "LvalueRequired" (.bin .assignment (.member (.var 0) "xx") (.var 0)) &&
     rejectsWith "InvalidSwizzle" (.member (.var 0) "w") &&
     accepts (.bin .assignment (.index (.index (.var 2) (.lit .intLiteral)) (.lit .intLiteral)) (.lit .intLiteral)) &&
     accepts (.bin .assignment (.index (.member (.var 3) "a") (.lit .intLiteral)) (.lit .intLiteral)) &&
     accepts (.bin .assignment (.member (.var 2) "_m00_m11") (.member (.var 0) "xy")) &&
     rejectsWith "MutableRequired" (.bin .assignment (.member (.member (.var 1) "zyx") "x") (.lit .intLiteral)) &&
     rejectsWith "MutableRequired" (.bin .assignment (.index (.index (.var 5) (.lit .intLiteral)) (.lit .intLiteral)) (.lit .intLiteral)) &&
     rejectsWith "MutableRequired" (.bin .assignment (.member (.member (.var 5) "_m00_m11") "x") (.lit .intLiteral)) &&
     accepts (.ctor ⟨{}, .vector .float32 3⟩ (.cons (.member (.var 0) "xy") (.cons (.lit .intLiteral) .nil))) &&
     rejectsWith "ConstructorWrongArgumentCount" (.ctor ⟨{}, .vector .float32 3⟩ (.cons (.member (.var 0) "xy") .nil))) = true := by
  decide +kernel

/-- the const bases of the examples satisfy `ConstNum` -/
example : ConstNum ⟨⟨{ isConst := true }, .vector .float32 3⟩, .lvalue⟩ := ⟨rfl, rfl⟩

/-- intrinsic functions are selected from the re-extracted table (`Gen.IntrinsicSigs`): `dot(v0, v0)` picks the `float3`
    instance and has type `float`; `sincos(v6, v6, v6)` is accepted, `sincos(v6, 1, v6)` (rvalue to `out`) and
    `sincos(v6, v1.x, v6)` (const to `out`) and `sin()` (arity) are rejected -/
example :
    let id (n : String) : Nat := (RsslVerif.Model.Intrinsics.nameId? n).getD 0
    ((match elabE true exEnv (.call (id "dot") (.cons (.var 0) (.cons (.var 0) .nil))) with
      | .ok (.call f _, τ) => decide (τ = ⟨⟨{}, .scalar .float32⟩, .rvalue⟩) &&
          decide ((RsslVerif.Gen.IntrinsicSigs.sigs[f]?).map (·.intrinsic) = some "Dot")
      | _ => false) &&
     accepts (.call (id "sincos") (.cons (.var 6) (.cons (.var 6) (.cons (.var 6) .nil)))) &&
     rejectsWith "FunctionArgumentTypeMismatch" (.call (id "sincos") (.cons (.var 6) (.cons (.lit .float32) (.cons (.var 6) .nil)))) &&
     rejectsWith "FunctionArgumentTypeMismatch" (.call (id "sincos") (.cons (.var 6) (.cons (.member (.var 1) "x") (.cons (.var 6) .nil)))) &&
     rejectsWith "FunctionArgumentTypeMismatch" (.call (id "sin") .nil)) = true := by
  decide +kernel

/-- statements: `float3 w = { v6, 1, 2 }; if (v0) { float u = w.x; } return;` is accepted in a `void` function and
    registers two variables; `float3 w = { v0.xy, 1 };` is rejected (no flattening) -/
example :
    ((match elabStmts true exEnv (.cons (.decl ⟨{}, .vector .float32 3⟩ (some (.agg (.cons (.expr (.var 6))
          (.cons (.expr (.lit .intLiteral)) (.cons (.expr (.lit .intLiteral)) .nil))))))
        (.cons (.ifS (.var 0) (.block (.cons (.decl ⟨{}, .scalar .float32⟩ (some (.expr (.member (.var 7) "x")))) .nil)))
        (.cons (.ret none) .nil))) with
      | .ok (_, Γ') => decide (Γ'.vars.length = 9)
      | _ => false) &&
     (match elabStmts true exEnv (.cons (.decl ⟨{}, .vector .float32 3⟩ (some (.agg (.cons (.expr (.member (.var 0) "xy"))
          (.cons (.expr (.lit .intLiteral)) .nil))))) .nil) with
      | .error (.reject "InitializerAggregateWrongDimension") => true
      | _ => false)) = true := by
  decide +kernel

end RsslVerif.Thm.C03X

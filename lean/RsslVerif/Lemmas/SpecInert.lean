import RsslVerif.Spec.CPreMacro
/-!
Reference-side lemmas: Prosser's `expand` leaves tokens alone that name no macro, and replaces an object-like macro
whose replacement list has no `##` by that list (painted with the macro's name).
-/
namespace RsslVerif.Lemmas.SpecInert
open RsslVerif.Model.Macro RsslVerif.Spec.CPreMacro

/-- a reference token that `expand` keeps: not an identifier naming a macro -/
def SInertTok (ms : List SMacro) (t : HTok) : Prop :=
  match t.tok with
  | .id n => find ms n = none
  | _ => True

def SInert (ms : List SMacro) (ts : List HTok) : Prop := ∀ t ∈ ts, SInertTok ms t

theorem expand_step_inert (ms : List SMacro) (f : Nat) (t : HTok) (rest : List HTok) (h : SInertTok ms t) :
    expand ms (f + 1) (t :: rest) =
      match expand ms f rest with
      | .ok r => .ok (t :: r)
      | .error e => .error e := by
  unfold SInertTok at h
  rw [expand]
  split
  · rename_i n hn
    simp only [hn] at h
    simp only [h]
    split <;> rfl
  · rfl

theorem expand_skip (ms : List SMacro) (f : Nat) (pre rest : List HTok) (h : SInert ms pre) :
    expand ms (f + pre.length) (pre ++ rest) =
      match expand ms f rest with
      | .ok r => .ok (pre ++ r)
      | .error e => .error e := by
  induction pre with
  | nil => simp; cases expand ms f rest <;> rfl
  | cons t ts ih =>
    have ht : SInertTok ms t := h t (by simp)
    have := ih (fun x hx => h x (by simp [hx]))
    simp only [List.cons_append, List.length_cons]
    rw [← Nat.add_assoc, expand_step_inert ms _ t _ ht, this]
    cases expand ms f rest <;> rfl

theorem expand_inert (ms : List SMacro) (ts : List HTok) (h : SInert ms ts) :
    expand ms (1 + ts.length) ts = .ok ts := by
  have := expand_skip ms 1 ts [] h
  simp only [List.append_nil] at this
  rw [this]
  simp [expand]

theorem doPastes_nopaste (done items : List Item) (h : Item.paste ∉ items) :
    doPastes done items = .ok (done.reverse ++ items) := by
  induction items generalizing done with
  | nil => simp [doPastes]
  | cons x xs ih =>
    have hx : x ≠ .paste := fun hh => h (by simp [hh])
    have := ih (x :: done) (fun hh => h (by simp [hh]))
    cases x with
    | paste => exact absurd rfl hx
    | tok t => rw [doPastes]; simp [this]; exact fun hh => by cases hh
    | placemarker => rw [doPastes]; simp [this]; exact fun hh => by cases hh

theorem replaceParams_plain (ex : List HTok → Except SErr (List HTok)) (prev : Option Tok) (body : List Tok)
    (h : Tok.hashhash ∉ body) (hid : ∀ t ∈ body, paramIndex [] t = none) :
    replaceParams ex [] [] prev body = .ok (body.map fun t => .tok ⟨t, []⟩) := by
  induction body generalizing prev with
  | nil => rfl
  | cons t ts ih =>
    have ht : t ≠ .hashhash := fun hh => h (by simp [hh])
    have := ih (some t) (fun hh => h (by simp [hh])) (fun x hx => hid x (by simp [hx]))
    unfold replaceParams
    simp only [ht, if_false, hid t (by simp), this]
    rfl

theorem paramIndex_nil (t : Tok) : paramIndex [] t = none := by
  unfold paramIndex
  split <;> simp [indexOfName]

/-- an object-like macro without `##`: `subst` returns the replacement list, painted -/
theorem subst_object (ex : List HTok → Except SErr (List HTok)) (m : SMacro) (hs : List String)
    (hp : m.params = none) (h : Tok.hashhash ∉ m.body) :
    subst ex m [] hs = .ok (m.body.map fun t => ⟨t, hs⟩) := by
  unfold subst
  simp only [hp, Option.getD_none]
  rw [replaceParams_plain ex none m.body h (fun t _ => paramIndex_nil t)]
  simp only
  rw [doPastes_nopaste]
  · simp [List.filterMap_map, Function.comp_def]
  · simp

/-- the reference on `before N after` for an object-like macro `N` with an inert replacement list -/
theorem expand_object (ms : List SMacro) (m : SMacro) (before after : List HTok)
    (hfind : find ms m.name = some m) (hp : m.params = none) (h : Tok.hashhash ∉ m.body)
    (hbefore : SInert ms before) (hafter : SInert ms after)
    (hbody : ∀ hs, SInert ms (m.body.map fun t => ⟨t, hs⟩)) :
    ∃ fuel, expand ms fuel (before ++ ⟨.id m.name, []⟩ :: after) =
      .ok (before ++ (m.body.map fun t => ⟨t, [m.name]⟩) ++ after) := by
  refine ⟨(1 + (m.body.length + after.length)) + 1 + before.length, ?_⟩
  rw [expand_skip ms _ before _ hbefore]
  rw [expand]
  simp only [List.contains_nil, Bool.false_eq_true, if_false, hfind, hp]
  rw [subst_object _ m _ hp h]
  simp only
  have hin : SInert ms ((m.body.map fun t => (⟨t, [m.name]⟩ : HTok)) ++ after) := by
    intro t ht
    rcases List.mem_append.mp ht with h1 | h1
    · exact hbody _ t h1
    · exact hafter t h1
  have := expand_inert ms _ hin
  simp only [List.length_append, List.length_map] at this
  rw [this]
  simp

end RsslVerif.Lemmas.SpecInert

import RsslVerif.Lemmas.GenMslVecBase
/-! Vector layer of C02: the emitted Metal expression simulates the typed one (`VSimM`), constructor by constructor. -/
namespace RsslVerif.Lemmas.GenMslVec
open RsslVerif.Gen.HlslGenTables RsslVerif.Gen.HlslVecTables RsslVerif.Gen.MslGenTables RsslVerif.Gen.MslVecTables
open RsslVerif.Model RsslVerif.Model.IrVec RsslVerif.Model.GenMsl RsslVerif.Model.GenMslVec
open RsslVerif.Spec.Sem RsslVerif.Spec.SemVec RsslVerif.Spec.SemMslVec RsslVerif.Lemmas.GenMsl
open RsslVerif.Model.Ir (Ty Var Const Dir)

set_option linter.unusedSimpArgs false

theorem tyOKM_withScalar_bool {t : VTy} (h : VOk.tyOKM t = true) : VOk.tyOKM (t.withScalar .bool) = true := by
  cases t <;> simp_all [VOk.tyOKM, VTy.withScalar, VOk.basicK]

theorem tyOKM_swzTy {k : Ty} {n : Nat} (hk : VOk.basicK k = true) (h1 : n ≠ 0) (h4 : n ≤ 4) : VOk.tyOKM (Spec.SemVec.swzTy k n) = true := by
  by_cases h : n = 1
  · simp [Spec.SemVec.swzTy, h, VOk.tyOKM, hk]
  · simp [Spec.SemVec.swzTy, h, VOk.tyOKM, hk]; omega

theorem tyOKM_scalar {t : VTy} (h : VOk.tyOKM t = true) : VOk.basicK t.scalar = true := by
  cases t <;> simp_all [VOk.tyOKM, VTy.scalar]

/-- an accepted expression that satisfies the side conditions has a type Metal can name -/
theorem okMV_tyOK {S : Ir.Side} {vvty : Var → VTy} :
    ∀ (e : VExpr) (t : VTy), VIr.typeOf S.sig S.vty vvty e = some t → VOk.okMV S vvty e = true → VOk.tyOKM t = true
  | .sc e, t, ht, hok => by
    simp only [VOk.okMV, Bool.and_eq_true] at hok
    cases hte : Ir.typeOf S.sig S.vty e with
    | none => simp [VIr.typeOf, hte] at ht
    | some k =>
      simp [VIr.typeOf, hte] at ht; subst ht
      simpa [hte, VOk.tyOKM] using hok.2
  | .vvar id, t, ht, hok => by
    simp [VIr.typeOf] at ht; subst ht
    simp only [VOk.okMV, Bool.and_eq_true] at hok; exact hok.2
  | .vglobal id, t, ht, hok => by
    simp [VIr.typeOf] at ht; subst ht
    simp only [VOk.okMV, Bool.and_eq_true] at hok; exact hok.2
  | .cast ty x, t, ht, hok => by
    simp only [VOk.okMV, Bool.and_eq_true] at hok
    simp only [VIr.typeOf] at ht
    cases htx : VIr.typeOf S.sig S.vty vvty x with
    | none => simp [htx] at ht
    | some tx =>
      simp only [htx] at ht
      split at ht
      · simp at ht
      · simp at ht; subst ht; exact hok.1.2
  | .swz x sl, t, ht, hok => by
    simp only [VOk.okMV, Bool.and_eq_true, decide_eq_true_eq] at hok
    simp only [VIr.typeOf] at ht
    cases htx : VIr.typeOf S.sig S.vty vvty x with
    | none => simp [htx] at ht
    | some tx =>
      have hox : VOk.tyOKM tx = true := by simpa [htx, VOk.optTyOKM] using hok.1.2
      have hk := tyOKM_scalar hox
      cases tx with
      | sc k =>
        simp only [htx] at ht; split at ht <;> simp at ht
        rename_i hc; subst ht
        exact tyOKM_swzTy hk (by simpa using hc.1) hok.2
      | vec k n =>
        simp only [htx] at ht; split at ht <;> simp at ht
        rename_i hc; subst ht
        exact tyOKM_swzTy hk (by simpa using hc.1) hok.2
  | .ctor ty slots, t, ht, hok => by
    simp only [VOk.okMV, Bool.and_eq_true] at hok
    simp only [VIr.typeOf] at ht
    cases hso : VIr.slotsOK S.sig S.vty vvty ty.scalar slots with
    | none => simp [hso] at ht
    | some total =>
      simp only [hso] at ht
      split at ht
      · simp at ht; subst ht; exact hok.1
      · simp at ht
  | .tern c f g, t, ht, hok => by
    simp only [VOk.okMV, Bool.and_eq_true] at hok
    simp only [VIr.typeOf] at ht
    cases htc : VIr.typeOf S.sig S.vty vvty c with
    | none => simp [htc] at ht
    | some tc =>
      cases htf : VIr.typeOf S.sig S.vty vvty f with
      | none => simp [htc, htf] at ht
      | some tf =>
        cases htg : VIr.typeOf S.sig S.vty vvty g with
        | none => simp [htc, htf, htg] at ht
        | some tg =>
          simp only [htc, htf, htg] at ht
          have : tf = t := by
            cases tc with
            | vec k n => simp at ht
            | sc k =>
              cases k <;> simp at ht
              obtain ⟨⟨h1, _⟩, h3⟩ := ht
              subst h1; exact h3
          subst this
          exact okMV_tyOK f tf htf hok.1.2
  | .op o .nil, t, ht, hok => by simp [VIr.typeOf] at ht
  | .op o (.cons x .nil), t, ht, hok => by
    simp only [VOk.okMV, VOk.okMVs, Bool.and_eq_true, Bool.and_true] at hok
    simp only [VIr.typeOf] at ht
    cases htx : VIr.typeOf S.sig S.vty vvty x with
    | none => simp only [htx] at ht; split at ht <;> simp_all
    | some tx =>
      simp only [htx] at ht
      cases hm : irOpSem o with
      | un m =>
        rw [hm] at ht
        have htt : t = tx := by
          cases m <;> simp at ht <;> exact ht.2.symm
        subst htt
        exact okMV_tyOK x t htx hok.1
      | _ => rw [hm] at ht; simp at ht
  | .op o (.cons x (.cons y .nil)), t, ht, hok => by
    simp only [VOk.okMV, VOk.okMVs, Bool.and_eq_true, Bool.and_true] at hok
    simp only [VIr.typeOf] at ht
    cases htx : VIr.typeOf S.sig S.vty vvty x with
    | none => simp only [htx] at ht; split at ht <;> simp_all
    | some tx =>
      have hox := okMV_tyOK x tx htx hok.1.1
      cases hty : VIr.typeOf S.sig S.vty vvty y with
      | none => simp only [htx, hty] at ht; split at ht <;> simp_all
      | some ty =>
        simp only [htx, hty] at ht
        cases hm : irOpSem o with
        | bin m =>
          rw [hm] at ht
          simp only [] at ht
          split at ht
          · cases hcmp : m.isCmp <;> simp [hcmp] at ht <;> subst ht
            · exact hox
            · exact tyOKM_withScalar_bool hox
          · simp at ht
        | land =>
          rw [hm] at ht
          have : t = .sc .bool := by
            cases tx with
            | vec k n => simp at ht
            | sc k =>
              cases ty with
              | vec k2 n2 => cases k <;> simp at ht
              | sc k2 => cases k <;> cases k2 <;> simp at ht <;> exact ht.symm
          subst this; rfl
        | lor =>
          rw [hm] at ht
          have : t = .sc .bool := by
            cases tx with
            | vec k n => simp at ht
            | sc k =>
              cases ty with
              | vec k2 n2 => cases k <;> simp at ht
              | sc k2 => cases k <;> cases k2 <;> simp at ht <;> exact ht.symm
          subst this; rfl
        | _ => rw [hm] at ht; simp at ht
  | .op o (.cons x (.cons y (.cons z r))), t, ht, hok => by simp [VIr.typeOf] at ht

variable {W : World} {M : Msl.MWorld} {env : VAst.VEnv} {ρ : VStore} {cx : Ctx} {vvty : Var → VTy}

/-- a scalar leaf: the scalar theorem -/
theorem sim_msc {e : Ir.Expr} {a : HlslAst.Expr} {t : Ty}
    (hs : Msl.typeOf M.msig env.base a = some t ∧ ∀ σ, Msl.eval M env.base a σ = Ir.eval W e σ) :
    VSimM W M env ρ (.sc e) (.sc a) (.sc t) := by
  constructor
  · simp [VMsl.typeOf, hs.1]
  · intro σ
    simp only [VMsl.eval, hs.2 σ, VIr.eval]
    cases Ir.eval W e σ <;> rfl


/-! ### casts: `try_implicit_truncate`, then the Metal conversion -/

/-- static type of the operand after `try_implicit_truncate` -/
def truncTy (tx ty : VTy) : VTy :=
  match tx, ty with
  | .vec k _, .sc _ => .sc k
  | .vec k m, .vec _ 2 => if 2 < m then .vec k 2 else tx
  | .vec k m, .vec _ 3 => if 3 < m then .vec k 3 else tx
  | _, _ => tx

/-- components `try_implicit_truncate` selects (`none`: the operand itself) -/
def truncIdx (tx ty : VTy) : Option (List Nat) :=
  match tx, ty with
  | .vec _ _, .sc _ => some [0]
  | .vec _ m, .vec _ 2 => if 2 < m then some [0, 1] else none
  | .vec _ m, .vec _ 3 => if 3 < m then some [0, 1, 2] else none
  | _, _ => none

theorem len2 {xs : List Val} (h : xs.length = 2) : ∃ a b, xs = [a, b] := by
  match xs, h with
  | [a, b], _ => exact ⟨a, b, rfl⟩
theorem len3 {xs : List Val} (h : xs.length = 3) : ∃ a b c, xs = [a, b, c] := by
  match xs, h with
  | [a, b, c], _ => exact ⟨a, b, c, rfl⟩
theorem len4 {xs : List Val} (h : xs.length = 4) : ∃ a b c d, xs = [a, b, c, d] := by
  match xs, h with
  | [a, b, c, d], _ => exact ⟨a, b, c, d, rfl⟩

theorem dims {n : Nat} (h2 : 2 ≤ n) (h4 : n ≤ 4) : n = 2 ∨ n = 3 ∨ n = 4 := by omega

/-- the value the emitted cast computes from the operand's value is the typed cast of that value -/
theorem trunc_cast_val {P : Prim} {tx ty : VTy} {v : VVal} (hox : VOk.tyOKM tx = true) (hoy : VOk.tyOKM ty = true)
    (hf : VOk.castFits tx ty = true) (hs : VOk.shaped tx v = true) :
    VMsl.castOK (truncTy tx ty) ty = true ∧
    ((match truncIdx tx ty with
      | none => some v
      | some idx => select idx v).bind (VMsl.castMV P (truncTy tx ty) ty)) = castShape P ty v := by
  have hkx := tyOKM_scalar hox
  have hky := tyOKM_scalar hoy
  cases tx with
  | sc k =>
    obtain ⟨x, rfl⟩ := shaped_sc hs
    cases ty with
    | sc t => simp [truncTy, truncIdx, VMsl.castOK, VMsl.castMV, castShape, VTy.scalar, castM_eq (by simpa [VTy.scalar] using hkx) (by simpa [VTy.scalar] using hky)]
    | vec t n => simp [truncTy, truncIdx, VMsl.castOK, VMsl.castMV, castShape, VTy.scalar, castM_eq (by simpa [VTy.scalar] using hkx) (by simpa [VTy.scalar] using hky)]
  | vec k m =>
    obtain ⟨xs, rfl, hlen⟩ := shaped_vec hs
    simp only [VOk.tyOKM, Bool.and_eq_true, decide_eq_true_eq] at hox
    have hm := dims hox.1.2 hox.2
    have hcm : ∀ v, Msl.castM P k ty.scalar v = castVal P ty.scalar v := castM_eq (by simpa [VTy.scalar] using hkx) hky
    cases ty with
    | sc t =>
      simp only [VTy.scalar] at hcm
      rcases hm with rfl | rfl | rfl
      · obtain ⟨a, b, rfl⟩ := len2 hlen
        simp [truncTy, truncIdx, VMsl.castOK, VMsl.castMV, castShape, VTy.scalar, select, mapOpt, VVal.comps, hcm]
      · obtain ⟨a, b, c, rfl⟩ := len3 hlen
        simp [truncTy, truncIdx, VMsl.castOK, VMsl.castMV, castShape, VTy.scalar, select, mapOpt, VVal.comps, hcm]
      · obtain ⟨a, b, c, d, rfl⟩ := len4 hlen
        simp [truncTy, truncIdx, VMsl.castOK, VMsl.castMV, castShape, VTy.scalar, select, mapOpt, VVal.comps, hcm]
    | vec t n =>
      simp only [VTy.scalar] at hcm
      simp only [VOk.tyOKM, Bool.and_eq_true, decide_eq_true_eq] at hoy
      have hn := dims hoy.1.2 hoy.2
      simp only [VOk.castFits, decide_eq_true_eq] at hf
      rcases hm with rfl | rfl | rfl <;> rcases hn with rfl | rfl | rfl <;> try omega
      · obtain ⟨a, b, rfl⟩ := len2 hlen
        simp [truncTy, truncIdx, VMsl.castOK, VMsl.castMV, castShape, VTy.scalar, select, mapOpt, VVal.comps, hcm]
      · obtain ⟨a, b, c, rfl⟩ := len3 hlen
        simp [truncTy, truncIdx, VMsl.castOK, VMsl.castMV, castShape, VTy.scalar, select, mapOpt, VVal.comps, hcm]
      · obtain ⟨a, b, c, rfl⟩ := len3 hlen
        simp [truncTy, truncIdx, VMsl.castOK, VMsl.castMV, castShape, VTy.scalar, select, mapOpt, VVal.comps, hcm]
      · obtain ⟨a, b, c, d, rfl⟩ := len4 hlen
        simp [truncTy, truncIdx, VMsl.castOK, VMsl.castMV, castShape, VTy.scalar, select, mapOpt, VVal.comps, hcm]
      · obtain ⟨a, b, c, d, rfl⟩ := len4 hlen
        simp [truncTy, truncIdx, VMsl.castOK, VMsl.castMV, castShape, VTy.scalar, select, mapOpt, VVal.comps, hcm]
      · obtain ⟨a, b, c, d, rfl⟩ := len4 hlen
        simp [truncTy, truncIdx, VMsl.castOK, VMsl.castMV, castShape, VTy.scalar, select, mapOpt, VVal.comps, hcm]


theorem parse_trunc1 : VAst.parseSwizzle truncateToScalar = some [0] := by decide
theorem parse_trunc2 : VAst.parseSwizzle truncateToVec2 = some [0, 1] := by decide
theorem parse_trunc3 : VAst.parseSwizzle truncateToVec3 = some [0, 1, 2] := by decide

theorem trunc_typeOf {x' : VAExpr} {tx : VTy} (ty : VTy) (hx : VMsl.typeOf M.msig env x' = some tx) (hox : VOk.tyOKM tx = true) :
    VMsl.typeOf M.msig env (implicitTruncate tx ty x') = some (truncTy tx ty) := by
  cases tx with
  | sc k => simpa [implicitTruncate, truncTy] using hx
  | vec k m =>
    simp only [VOk.tyOKM, Bool.and_eq_true, decide_eq_true_eq] at hox
    have h2 : 2 ≤ m := hox.1.2
    cases ty with
    | sc t =>
      simp [implicitTruncate, truncTy, VMsl.typeOf, hx, VMsl.memberTy, parse_trunc1, Spec.SemVec.swzTy]
      omega
    | vec t n =>
      match n with
      | 2 =>
        by_cases h : 2 < m
        · simp [implicitTruncate, truncTy, h, VMsl.typeOf, hx, VMsl.memberTy, parse_trunc2, Spec.SemVec.swzTy]; omega
        · simp [implicitTruncate, truncTy, h, hx]
      | 3 =>
        by_cases h : 3 < m
        · simp [implicitTruncate, truncTy, h, VMsl.typeOf, hx, VMsl.memberTy, parse_trunc3, Spec.SemVec.swzTy]; omega
        · simp [implicitTruncate, truncTy, h, hx]
      | 0 | 1 | n + 4 => simp [implicitTruncate, truncTy, hx]

theorem trunc_eval {x' : VAExpr} {tx : VTy} (ty : VTy) (hx : VMsl.typeOf M.msig env x' = some tx) (hox : VOk.tyOKM tx = true) (σ : Store) :
    VMsl.eval M env ρ (implicitTruncate tx ty x') σ =
      match truncIdx tx ty with
      | none => VMsl.eval M env ρ x' σ
      | some idx =>
        match VMsl.eval M env ρ x' σ with
        | none => none
        | some (v, σ1) =>
          match select idx v with
          | none => none
          | some r => some (r, σ1) := by
  cases tx with
  | sc k => simp [implicitTruncate, truncIdx]
  | vec k m =>
    simp only [VOk.tyOKM, Bool.and_eq_true, decide_eq_true_eq] at hox
    have h2 : 2 ≤ m := hox.1.2
    cases ty with
    | sc t =>
      have : 0 < m := by omega
      simp [implicitTruncate, truncIdx, VMsl.eval, hx, VMsl.memberTy, parse_trunc1, this]
      cases VMsl.eval M env ρ x' σ with
      | none => rfl
      | some p => obtain ⟨v, σ1⟩ := p; simp only []; cases select _ v <;> rfl
    | vec t n =>
      match n with
      | 2 =>
        by_cases h : 2 < m
        · have h0 : 0 < m := by omega
          have h1 : 1 < m := by omega
          simp [implicitTruncate, truncIdx, h, VMsl.eval, hx, VMsl.memberTy, parse_trunc2, h0, h1]
          cases VMsl.eval M env ρ x' σ with
          | none => rfl
          | some p => obtain ⟨v, σ1⟩ := p; simp only []; cases select _ v <;> rfl
        · simp [implicitTruncate, truncIdx, h]
      | 3 =>
        by_cases h : 3 < m
        · have h0 : 0 < m := by omega
          have h1 : 1 < m := by omega
          have h2' : 2 < m := by omega
          simp [implicitTruncate, truncIdx, h, VMsl.eval, hx, VMsl.memberTy, parse_trunc3, h0, h1, h2']
          cases VMsl.eval M env ρ x' σ with
          | none => rfl
          | some p => obtain ⟨v, σ1⟩ := p; simp only []; cases select _ v <;> rfl
        · simp [implicitTruncate, truncIdx, h]
      | 0 | 1 | n + 4 => simp [implicitTruncate, truncIdx]

theorem trunc_castOK {tx ty : VTy} (hox : VOk.tyOKM tx = true) (hoy : VOk.tyOKM ty = true) (hf : VOk.castFits tx ty = true) :
    VMsl.castOK (truncTy tx ty) ty = true := by
  cases tx with
  | sc k => cases ty <;> simp [truncTy, VMsl.castOK]
  | vec k m =>
    simp only [VOk.tyOKM, Bool.and_eq_true, decide_eq_true_eq] at hox
    have hm := dims hox.1.2 hox.2
    cases ty with
    | sc t => simp [truncTy, VMsl.castOK]
    | vec t n =>
      simp only [VOk.tyOKM, Bool.and_eq_true, decide_eq_true_eq] at hoy
      have hn := dims hoy.1.2 hoy.2
      simp only [VOk.castFits, decide_eq_true_eq] at hf
      rcases hm with rfl | rfl | rfl <;> rcases hn with rfl | rfl | rfl <;> first | omega | simp [truncTy, VMsl.castOK]

theorem sim_mcast {vty : Var → Ty} {ty : VTy} {x : VExpr} {x' a : VAExpr} {tx : VTy}
    (hP : M.P = W.P) (hρ : ∀ y, VOk.shaped (vvty y) (ρ y) = true)
    (hgt : getTy cx vvty x = some tx) (hgx : genMV cx vvty x = .ok x') (hg : genMV cx vvty (.cast ty x) = .ok a)
    (hx : VSimM W M env ρ x x' tx) (htx : VIr.typeOf W.sig vty vvty x = some tx)
    (hox : VOk.tyOKM tx = true) (hoy : VOk.tyOKM ty = true) (hf : VOk.castFits tx ty = true) :
    VSimM W M env ρ (.cast ty x) a ty := by
  have hnl : ¬ (ty = .sc .lit ∨ ty = .sc .flit) := by
    intro h; rcases h with h | h <;> subst h <;> simp [VOk.tyOKM, VOk.basicK] at hoy
  simp only [genMV, hgt, hgx, hnl, if_false] at hg
  cases hn : GenMslVec.vtypeName ty with
  | error e => simp [hn] at hg
  | ok n =>
    simp [hn] at hg
    subst hg
    have htn := vtypeName_vtyOfName hn hoy
    have htt := trunc_typeOf (M := M) (env := env) ty hx.1 hox
    have hco := trunc_castOK hox hoy hf
    constructor
    · simp [VMsl.typeOf, htt, htn, hco]
    · intro σ
      simp only [VMsl.eval, htt, htn, hco, if_true, trunc_eval (ρ := ρ) ty hx.1 hox σ, hx.2 σ, VIr.eval]
      cases hv : VIr.eval W ρ x σ with
      | none => cases truncIdx tx ty <;> simp [VMsl.castMVR, castShapeR]
      | some p =>
        obtain ⟨v, σ1⟩ := p
        have hs := shape_sound hρ x tx σ σ1 v htx hv
        have hval := (trunc_cast_val (P := W.P) hox hoy hf hs).2
        cases hi : truncIdx tx ty with
        | none =>
          simp only [hi] at hval
          simp only [VMsl.castMVR, castShapeR]
          have : VMsl.castMV W.P (truncTy tx ty) ty v = castShape W.P ty v := by simpa using hval
          rw [hP, this]
          cases castShape W.P ty v <;> rfl
        | some idx =>
          simp only [hi] at hval
          rw [hP]
          cases hsel : select idx v with
          | none => simp [hsel] at hval; simp [hsel, ← hval, VMsl.castMVR, castShapeR]
          | some r =>
            simp [hsel] at hval
            simp only [hsel, VMsl.castMVR, castShapeR, hval]
            cases castShape W.P ty v <;> rfl

--NEXT
end RsslVerif.Lemmas.GenMslVec

import RsslVerif.Model.PipelineProps
/-!
# Lemmas about the duplicate-property check of `parse_pipeline` (C08)
-/
namespace RsslVerif.Lemmas.PipelineProps
open RsslVerif.Model.PipelineProps RsslVerif.Gen.PipelineProps

/-- the names of a property list -/
abbrev names (ps : List PProp) : List String := ps.map (·.1)

theorem any_textEq_iff (p : PProp) (before : List PProp) :
    before.any (fun b => textEq p b) = true ↔ p.1 ∈ names before := by
  simp only [textEq, names, List.any_eq_true, beq_iff_eq, List.mem_map]
  constructor
  · rintro ⟨b, hm, h⟩; exact ⟨b, hm, h.symm⟩
  · rintro ⟨b, hm, h⟩; exact ⟨b, hm, h.symm⟩

/-- **The text comparison finds a duplicate exactly when a name repeats** (relative to the properties already
    passed): `firstDup` answers `none` iff no name of `ps` is among the earlier names and the names of `ps` are
    pairwise distinct. -/
theorem firstDup_text_none_iff (ps before : List PProp) :
    firstDup textEq ps before = none ↔ (∀ n ∈ names ps, n ∉ names before) ∧ (names ps).Nodup := by
  induction ps generalizing before with
  | nil => simp [firstDup, names]
  | cons p rest ih =>
    unfold firstDup
    by_cases h : before.any (fun b => textEq p b) = true
    · have hm := (any_textEq_iff p before).1 h
      simp only [h, if_true]
      constructor
      · intro hh; cases hh
      · rintro ⟨h1, _⟩
        exact absurd hm (h1 p.1 (by simp [names]))
    · have hm : p.1 ∉ names before := fun hm => h ((any_textEq_iff p before).2 hm)
      simp only [h]
      rw [if_neg (by simp), ih (before ++ [p])]
      simp only [names, List.map_cons, List.mem_cons, List.map_append, List.mem_append, List.map_nil, List.not_mem_nil, or_false,
        List.nodup_cons, forall_eq_or_imp] at *
      constructor
      · rintro ⟨h1, h2⟩
        refine ⟨⟨hm, fun n hn => ?_⟩, ⟨fun hp => ?_, h2⟩⟩
        · exact fun hb => h1 n hn (Or.inl hb)
        · exact h1 p.1 hp (Or.inr rfl)
      · rintro ⟨⟨_, h1⟩, ⟨h2, h3⟩⟩
        refine ⟨fun n hn hb => ?_, h3⟩
        rcases hb with hb | hb
        · exact h1 n hn hb
        · exact h2 (hb ▸ hn)

/-- the walk never reports an assert when the names still to come are pairwise distinct and none of them has its
    flag / slot written yet -/
theorem stateLoop_no_panic (arms : List (List String × Bool × Bool)) (isCompute : Bool) (ps : List PProp) (set : List String)
    (hnd : (names ps).Nodup) (hset : ∀ n ∈ names ps, n ∉ set) (n : String) :
    stateLoop arms isCompute ps set ≠ .panic n := by
  induction ps generalizing set with
  | nil => simp [stateLoop]
  | cons p rest ih =>
    simp only [names, List.map_cons, List.nodup_cons, List.mem_cons, forall_eq_or_imp] at hnd hset
    unfold stateLoop
    split
    · simp
    · rename_i gated asserts _
      split
      · simp
      · split
        · have : set.contains p.1 = false := by
            simpa using hset.1
          rw [this]
          simp only [Bool.false_eq_true, if_false]
          refine ih (p.1 :: set) hnd.2 (fun m hm => ?_)
          simp only [List.mem_cons, not_or]
          exact ⟨fun h => hnd.1 (h ▸ hm), hset.2 m hm⟩
        · exact ih set hnd.2 hset.2

/-- the properties left for the state loop keep pairwise distinct names -/
theorem remaining_nodup (stage : List String) (ps : List PProp) (h : (names ps).Nodup) : (names (remaining stage ps)).Nodup :=
  List.Nodup.sublist (List.Sublist.map _ (List.filter_sublist)) h

/-- the walk itself never answers `dup` -/
theorem stateLoop_no_dup (arms : List (List String × Bool × Bool)) (isCompute : Bool) (ps : List PProp) (set : List String) (loc : Nat) :
    stateLoop arms isCompute ps set ≠ .dup loc := by
  induction ps generalizing set with
  | nil => simp [stateLoop]
  | cons p rest ih =>
    unfold stateLoop
    split
    · simp
    · split
      · simp
      · split
        · split
          · simp
          · exact ih _
        · exact ih _

/-- the `Located` comparison never finds a duplicate in a list whose locations are pairwise distinct (every
    property of a parsed block has its own location) -/
theorem firstDup_located_none (ps before : List PProp)
    (h1 : ∀ p ∈ ps, ∀ b ∈ before, p.2 ≠ b.2) (h2 : (ps.map (·.2)).Nodup) :
    firstDup locatedEq ps before = none := by
  induction ps generalizing before with
  | nil => simp [firstDup]
  | cons p rest ih =>
    unfold firstDup
    have : before.any (fun b => locatedEq p b) = false := by
      simp only [List.any_eq_false, locatedEq, Bool.and_eq_true, beq_iff_eq, not_and]
      intro b hb _
      exact h1 p (by simp) b hb
    simp only [this, Bool.false_eq_true, if_false]
    simp only [List.map_cons, List.nodup_cons, List.mem_map, not_exists, not_and] at h2
    refine ih _ (fun q hq b hb => ?_) h2.2
    simp only [List.mem_append, List.mem_singleton] at hb
    rcases hb with hb | hb
    · exact h1 q (by simp [hq]) b hb
    · subst hb
      exact fun h => h2.1 q hq h

end RsslVerif.Lemmas.PipelineProps

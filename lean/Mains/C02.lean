import RsslVerif.Driver.Loop
import RsslVerif.Driver.C02Call
/-! `rsslmodel_c02`: the C02 model behind the line protocol (one executable per property, so that a
    table that can no longer be extracted for one property cannot break another property's check). -/
def main : IO Unit := RsslVerif.Driver.runDriver RsslVerif.Driver.C02Call.handle

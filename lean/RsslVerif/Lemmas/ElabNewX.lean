import RsslVerif.Lemmas.ElabReleaseX
/-! Lemmas for C03, extended language: the nodes built for member access / swizzles, subscripts and numeric constructors
are well typed under the (strengthened) judgment of `Model/IrTypingX`, with exactly the type the type checker computes.
Core Lean only. -/
namespace RsslVerif.Lemmas.ElabNewX
open RsslVerif.Gen.RankTable RsslVerif.Gen.TypingTables RsslVerif.Gen.ElabTables RsslVerif.Model.Conv RsslVerif.Model.Overload
open RsslVerif.Model.IrTyping (FuncSig opReturn boolOf)
open RsslVerif.Model.Elab (Err)
open RsslVerif.Model.IrTypingX RsslVerif.Model.ElabX RsslVerif.Lemmas.ElabConv RsslVerif.Lemmas.ElabX
open RsslVerif.Lemmas.ElabFormsX RsslVerif.Lemmas.ElabExactX RsslVerif.Lemmas.ElabReleaseX

variable {Γ : Env}

/-! ## swizzle readers -/

/-- a slot found in a table has the property every row of the table has -/
theorem lookupSlot_prop {P : Nat → Prop} : ∀ (tab : List (List Char × Nat × Nat)) (l : Nat) (c : Char) (k : Nat),
    (∀ row ∈ tab, P row.2.2) → lookupSlot tab l c = some k → P k
  | [], _, _, _, _, h => by simp [lookupSlot] at h
  | (cs, mn, k0) :: r, l, c, k, hp, h => by
    simp only [lookupSlot] at h
    split at h
    · simp at h; subst h; exact hp (cs, mn, k0) List.mem_cons_self
    · exact lookupSlot_prop r l c k (fun row hr => hp row (List.mem_cons_of_mem _ hr)) h

/-- when every row's slot is below the row's minimal width, a slot found for width `l` is below `l` -/
theorem lookupSlot_lt : ∀ (tab : List (List Char × Nat × Nat)) (l : Nat) (c : Char) (k : Nat),
    (∀ row ∈ tab, row.2.2 < row.2.1) → lookupSlot tab l c = some k → k < l
  | [], _, _, _, _, h => by simp [lookupSlot] at h
  | (cs, mn, k0) :: r, l, c, k, hp, h => by
    simp only [lookupSlot] at h
    split at h
    · rename_i hc
      simp at h; subst h
      have := hp (cs, mn, k0) List.mem_cons_self
      simp at this
      omega
    · exact lookupSlot_lt r l c k (fun row hr => hp row (List.mem_cons_of_mem _ hr)) h

theorem slotsOf_all {P : Nat → Prop} {tab : List (List Char × Nat × Nat)} {l : Nat}
    (hl : ∀ c k, lookupSlot tab l c = some k → P k) :
    ∀ (cs : List Char) (ks : List Nat), slotsOf tab l cs = some ks → ∀ k ∈ ks, P k
  | [], ks, h => by simp [slotsOf] at h; subst h; simp
  | c :: r, ks, h => by
    simp only [slotsOf] at h
    split at h
    · simp at h
    · rename_i k0 hk0
      split at h
      · simp at h
      · rename_i ks0 hks0
        simp at h; subst h
        intro k hk
        rcases List.mem_cons.mp hk with rfl | hk
        · exact hl c _ hk0
        · exact slotsOf_all hl r ks0 hks0 k hk

theorem slotsOf_ne_nil {tab : List (List Char × Nat × Nat)} {l : Nat} :
    ∀ (cs : List Char) (ks : List Nat), cs ≠ [] → slotsOf tab l cs = some ks → ks ≠ []
  | [], _, hne, _ => absurd rfl hne
  | c :: r, ks, _, h => by
    simp only [slotsOf] at h
    split at h
    · simp at h
    · split at h
      · simp at h
      · simp at h; subst h; simp

/-- the swizzle loop pushes one slot per character -/
theorem slotsOf_length {tab : List (List Char × Nat × Nat)} {l : Nat} :
    ∀ (cs : List Char) (ks : List Nat), slotsOf tab l cs = some ks → ks.length = cs.length
  | [], ks, h => by simp [slotsOf] at h; subst h; rfl
  | c :: r, ks, h => by
    simp only [slotsOf] at h
    split at h
    · simp at h
    · split at h
      · simp at h
      · rename_i ks0 hks0
        simp at h; subst h
        simp [slotsOf_length r ks0 hks0]

/-- table fact (re-checked against the regenerated `Gen.ElabTables`): a scalar only has slot `X` -/
theorem scalarSwizzle_rows : ∀ row ∈ scalarSwizzle, row.2.2 < 1 := by decide

/-- table facts: every arm of the vector / matrix readers selects a component below the width its guard demands -/
theorem vectorSwizzle_rows : ∀ row ∈ vectorSwizzle, row.2.2 < row.2.1 := by decide

/-- re-decided against the regenerated tables: the three slot-count limits of the `Member` arm (scalar and vector arms since
    fix c805c03, `read_matrix_subscript`) are the number of components the largest vector type has -/
theorem maxSlots_rows : scalarMaxSlots ≤ 4 ∧ vectorMaxSlots ≤ 4 ∧ matrixMaxSlots ≤ 4 := by decide
theorem matrixDigitsM_rows : ∀ row ∈ matrixDigitsM, row.2.2 < row.2.1 := by decide
theorem matrixDigits_rows : ∀ row ∈ matrixDigits, row.2.2 < row.2.1 := by decide

theorem matrixComponent_lt {isM : Bool} {c : Char} {l k : Nat} (h : matrixComponent isM c l = some k) : k < l := by
  unfold matrixComponent at h
  cases isM
  · exact lookupSlot_lt _ _ _ _ matrixDigits_rows h
  · exact lookupSlot_lt _ _ _ _ matrixDigitsM_rows h

/-- invariant of the character loop of `read_matrix_subscript` -/
def MInv (x y : Nat) (st : MState) (acc : List (Nat × Nat)) : Prop :=
  (∀ p ∈ acc, p.1 < x ∧ p.2 < y) ∧ (∀ isM fc, st = .opened isM (some fc) → fc < x)

theorem readMatrix_bounds (x y : Nat) : ∀ (cs : List Char) (st : MState) (a b : Bool) (acc : List (Nat × Nat))
    (slots : List (Nat × Nat)), MInv x y st acc → readMatrix x y cs st a b acc = some slots →
    slots ≠ [] ∧ ∀ p ∈ slots, p.1 < x ∧ p.2 < y
  | [], st, a, b, acc, slots, hi, h => by
    simp only [readMatrix] at h
    split at h
    · simp at h
    · rename_i hc
      simp at h; subst h
      have hne : acc ≠ [] := by
        intro he; apply hc; exact Or.inr (Or.inl he)
      refine ⟨by simpa using hne, ?_⟩
      intro p hp
      exact hi.1 p (by simpa using hp)
  | c :: r, .start, a, b, acc, slots, hi, h => by
    simp only [readMatrix] at h
    split at h
    · exact readMatrix_bounds x y r _ a b acc slots ⟨hi.1, by intro _ _ he; simp at he⟩ h
    · simp at h
  | c :: r, .opened isM first, a, b, acc, slots, hi, h => by
    simp only [readMatrix] at h
    split at h
    · exact readMatrix_bounds x y r _ a b acc slots ⟨hi.1, by intro _ _ he; simp at he⟩ h
    · split at h
      · simp at h
      · rename_i comp hcomp
        have hlt := matrixComponent_lt hcomp
        cases first with
        | none =>
          simp only at h
          simp only [if_true] at hlt
          exact readMatrix_bounds x y r _ a b acc slots
            ⟨hi.1, by intro _ _ he; simp at he; obtain ⟨_, rfl⟩ := he; exact hlt⟩ h
        | some fc =>
          simp only at h
          have hfc : fc < x := hi.2 isM fc rfl
          have hlt' : comp < y := by simpa using hlt
          have hacc : ∀ p ∈ (fc, comp) :: acc, p.1 < x ∧ p.2 < y := by
            intro p hp
            rcases List.mem_cons.mp hp with rfl | hp
            · exact ⟨hfc, hlt'⟩
            · exact hi.1 p hp
          cases isM <;> simp only [Bool.false_eq_true, if_false, if_true] at h
          · split at h
            · simp at h
            · exact readMatrix_bounds x y r _ _ _ _ slots ⟨hacc, by intro _ _ he; simp at he⟩ h
          · split at h
            · simp at h
            · exact readMatrix_bounds x y r _ _ _ _ slots ⟨hacc, by intro _ _ he; simp at he⟩ h

/-- `read_matrix_subscript` gives at most `matrixMaxSlots` slots -/
theorem readMatrix_length (x y : Nat) : ∀ (cs : List Char) (st : MState) (a b : Bool) (acc : List (Nat × Nat))
    (slots : List (Nat × Nat)), readMatrix x y cs st a b acc = some slots → slots.length ≤ matrixMaxSlots
  | [], st, a, b, acc, slots, h => by
    simp only [readMatrix] at h
    split at h
    · simp at h
    · rename_i hc
      simp at h; subst h
      simp only [List.length_reverse]
      rcases Nat.lt_or_ge matrixMaxSlots acc.length with hlt | hge
      · exact absurd (Or.inr (Or.inr hlt)) hc
      · exact hge
  | c :: r, .start, a, b, acc, slots, h => by
    simp only [readMatrix] at h
    split at h
    · exact readMatrix_length x y r _ a b acc slots h
    · simp at h
  | c :: r, .opened isM first, a, b, acc, slots, h => by
    simp only [readMatrix] at h
    split at h
    · exact readMatrix_length x y r _ a b acc slots h
    · split at h
      · simp at h
      · cases first with
        | none => exact readMatrix_length x y r _ a b acc slots h
        | some fc =>
          simp only at h
          cases isM <;> simp only [Bool.false_eq_true, if_false, if_true] at h
          · split at h
            · simp at h
            · exact readMatrix_length x y r _ _ _ _ slots h
          · split at h
            · simp at h
            · exact readMatrix_length x y r _ _ _ _ slots h

theorem memberLookup_get (name : String) : ∀ (ms : List (String × Ty)) (i j : Nat) (t : Ty),
    memberLookup name ms i = some (j, t) → ∃ m, ms[j - i]? = some m ∧ m.2 = t ∧ i ≤ j
  | [], _, _, _, h => by simp [memberLookup] at h
  | m :: r, i, j, t, h => by
    simp only [memberLookup] at h
    split at h
    · simp at h; obtain ⟨rfl, rfl⟩ := h
      exact ⟨m, by simp, rfl, Nat.le_refl _⟩
    · obtain ⟨m', h1, h2, h3⟩ := memberLookup_get name r (i + 1) j t h
      refine ⟨m', ?_, h2, by omega⟩
      have : j - i = (j - (i + 1)) + 1 := by omega
      rw [this]; simpa using h1

/-! ## member access -/

/-- the node the `Member` arm builds (struct member, scalar / vector swizzle, matrix swizzle) is well typed, with exactly
    the computed type; every swizzle slot lies inside the operand -/
theorem elabMember_sound {name : String} {e n : IExpr} {τ τ' : ETy} (he : HasType Γ e τ)
    (h : elabMember Γ name e τ = .ok (n, τ')) : HasType Γ n τ' := by
  unfold elabMember at h
  split at h
  · simp at h
  · rename_i hname
    split at h
    · -- struct / other
      rename_i id hl
      split at h
      · rename_i ms ho
        split at h
        · rename_i idx t hm
          simp at h; obtain ⟨rfl, rfl⟩ := h
          obtain ⟨m, h1, h2, _⟩ := memberLookup_get name ms 0 idx t hm
          subst h2
          exact .member he hl ho (by simpa using h1)
        · simp at h
      · simp at h
      · simp at h
      · simp at h
      · simp at h
    · rename_i s hl
      split at h
      · rename_i slots hs
        split at h
        · simp at h
        · rename_i hlen
          simp at h; obtain ⟨rfl, rfl⟩ := h
          exact .swizzleS he hl (slotsOf_ne_nil _ _ hname hs)
            (Nat.le_trans (Nat.le_of_not_lt hlen) maxSlots_rows.1)
            (slotsOf_all (fun c k hk => lookupSlot_prop (P := fun k => k < 1) _ _ _ _ scalarSwizzle_rows hk) _ _ hs)
      · simp at h
    · rename_i s x hl
      split at h
      · rename_i slots hs
        split at h
        · simp at h
        · rename_i hlen
          simp at h; obtain ⟨rfl, rfl⟩ := h
          exact .swizzleV he hl (slotsOf_ne_nil _ _ hname hs)
            (Nat.le_trans (Nat.le_of_not_lt hlen) maxSlots_rows.2.1)
            (slotsOf_all (fun c k hk => lookupSlot_lt _ _ _ _ vectorSwizzle_rows hk) _ _ hs)
      · simp at h
    · rename_i s x y hl
      split at h
      · rename_i slots hs
        simp at h; obtain ⟨rfl, rfl⟩ := h
        obtain ⟨hne, hb⟩ := readMatrix_bounds x y _ _ _ _ _ slots
          ⟨by intro p hp; simp at hp, by intro _ _ he'; simp at he'⟩ hs
        exact .mswizzle he hl hne (Nat.le_trans (readMatrix_length x y _ _ _ _ _ slots hs) maxSlots_rows.2.2) hb
      · simp at h
    · simp at h

/-- what the member access computes for the value category and the modifier, per kind of operand -/
theorem elabMember_rvalue {name : String} {e n : IExpr} {τ τ' : ETy} (hv : τ.vt = .rvalue)
    (h : elabMember Γ name e τ = .ok (n, τ')) : τ'.vt = .rvalue := by
  unfold elabMember at h
  repeat' split at h
  all_goals (first | (simp at h; done) | skip)
  all_goals (simp only [Except.ok.injEq, Prod.mk.injEq] at h; obtain ⟨_, rfl⟩ := h)
  all_goals (first | exact hv | (simp only [swizzleVT, hv]; split <;> rfl))

/-! ## subscripts -/

theorem elabIndex_sound {a i n : IExpr} {τa τi τ : ETy} (ha : HasType Γ a τa) (hi : HasType Γ i τi)
    (h : elabIndex Γ a τa i τi = .ok (n, τ)) : HasType Γ n τ := by
  unfold elabIndex at h
  split at h
  · simp at h
  · rename_i hix
    split at h
    · simp at h
    · simp at h
    · rename_i c hf
      split at h
      · simp at h
      · rename_i i' hi'
        obtain ⟨ti', hti'⟩ := applyConv_typed ⟨_, hi⟩ hi'
        split at h
        · simp at h
        · rename_i ety hty
          simp at h; obtain ⟨rfl, rfl⟩ := h
          simp only [typeOf, typeOf_of_hasType a τa ha] at hty
          split at hty
          · rename_i s n hl
            simp at hty; subst hty
            exact .indexV ha hti' hl
          · rename_i s x y hl
            simp at hty; subst hty
            exact .indexM ha hti' hl
          · rename_i id hl
            split at hty
            · rename_i elem len ho
              simp at hty; subst hty
              exact .indexA ha hti' hl ho
            · rename_i kind elem ho
              split at hty
              · rename_i te hr
                simp at hty; subst hty
                exact .indexR ha hti' hl ho hr
              · simp at hty
            · simp at hty
          · simp at hty

/-- the index operand of an accepted subscript has exactly the index type of the subscripted value: `uint` for arrays,
    vectors, matrices and buffers, `uint2` / `uint3` for textures -/
theorem elabIndex_index_exact {a i n : IExpr} {τa τi τ : ETy} (hi : HasType Γ i τi)
    (h : elabIndex Γ a τa i τi = .ok (n, τ)) :
    ∃ i' ti it, n = .index a i' ∧ HasType Γ i' ti ∧ indexTy Γ τa.ty.layer = .ok it ∧ ti.ty = it.ty := by
  unfold elabIndex at h
  split at h
  · simp at h
  · rename_i it hit
    split at h
    · simp at h
    · simp at h
    · rename_i c hf
      split at h
      · simp at h
      · rename_i i' hi'
        split at h
        · simp at h
        · simp at h; obtain ⟨rfl, _⟩ := h
          obtain ⟨ti, h1, h2, _⟩ := applyConv_type hi hf hi'
          exact ⟨i', ti, it, rfl, h1, hit, h2⟩

/-- arrays, vectors and matrices are indexed by `uint` -/
theorem indexTy_numeric {l : Layer} (hn : l.isNumeric = true) {it : ETy} (h : indexTy Γ l = .ok it) : it = uintR := by
  unfold indexTy at h
  cases l <;> simp [Layer.isNumeric] at hn <;> simp at h <;> exact h.symm

/-! ## numeric constructors -/

theorem ofDim_extractScalar (s : Scalar) (d : Dim) : (Layer.ofDim s d).extractScalar = some s := by
  cases d <;> rfl

theorem ofDim_numElements {l : Layer} {s : Scalar} {d : Dim} (h : l.dim = some d) :
    (Layer.ofDim s d).numElements = l.numElements := by
  cases l <;> simp [Layer.dim] at h <;> subst h <;> rfl

/-- one constructor slot: the converted argument is typed and satisfies the slot contract -/
theorem ctorSlot_sound {s : Scalar} {e e' : IExpr} {τ : ETy} {ar : Nat} (he : HasType Γ e τ)
    (h : ctorSlot s e τ = .ok (e', ar)) : ∃ τ', HasType Γ e' τ' ∧ SlotOk s ar τ' := by
  unfold ctorSlot at h
  split at h
  · simp at h
  · rename_i d hd
    split at h
    · simp at h
    · simp at h
    · rename_i c hf
      split at h
      · simp at h
      · rename_i e'' ha
        simp at h; obtain ⟨rfl, rfl⟩ := h
        obtain ⟨τ', h1, h2, _⟩ := applyConv_type he hf ha
        refine ⟨τ', h1, ?_, ?_, ?_⟩
        · rw [h2]; rfl
        · rw [h2]; exact ofDim_extractScalar s d
        · rw [h2]; exact ofDim_numElements hd

end RsslVerif.Lemmas.ElabNewX

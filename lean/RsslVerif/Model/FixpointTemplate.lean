import RsslVerif.Model.Fixpoint
/-!
# C04 — the kind of a template VALUE argument through export and re-compilation (seeded mutant C04-4)

What the code does with `f<ARG>(..)` when `f` has a value parameter `N` (`template<int N>`, `template<typename T, T N>`):

1. `parse_and_evaluate_constant_expression` (typer/src/typer/types.rs) types `ARG`, evaluates it and keeps the **kind** of
   the resulting constant (`Bool`, `IntLiteral`, `Int32`, `UInt32`, 64-bit kinds; anything else is not a constant
   expression) — the declared type of the parameter plays no role (`restrictKind`);
2. `find_overload_casts` (typer/src/typer/expressions.rs) records the constant unchanged (`recordKind`; the seeded mutant
   turned an `IntLiteral` into an `Int32` here);
3. the scope of the instance gets `ScopeSymbol::Constant(c.unrestrict())` for `N`: every use of `N` in the body is a
   constant of the recorded kind (`substValue`);
4. the exporter prints the argument at the call site, and every use inside the instance, through `generate_literal`
   (`Model.Fixpoint.emittedLitKind`); the second compilation reads the spelling with `parse_literal`
   (`rereadTable`), so the kind it records is `secondRecordKind`.

`Scalar` has no 64-bit integer kinds (64-bit literals are refused by `parse_literal`, and the exporter has no type name
for such a parameter: `todo!`), so `restrictKind` covers the four kinds the exporter can print a parameter for.
Core Lean only.
-/
namespace RsslVerif.Model.FixpointTemplate
open RsslVerif.Gen.RankTable RsslVerif.Gen.TypingTables
open RsslVerif.Model.Conv RsslVerif.Model.Overload RsslVerif.Model.IrTyping RsslVerif.Model.Elab RsslVerif.Model.Fixpoint

/-- `parse_and_evaluate_constant_expression`: the kind of the evaluated argument is kept; float kinds are rejected
    (`ExpressionIsNotConstantExpression`) -/
def restrictKind : Scalar → Option Scalar
  | .bool => some .bool
  | .intLiteral => some .intLiteral
  | .uInt32 => some .uInt32
  | .int32 => some .int32
  | _ => none

/-- `RestrictedConstant::unrestrict` on kinds -/
def unrestrictKind (k : Scalar) : Scalar := k

/-- `find_overload_casts`: `ir::TypeOrConstant::Constant(c) => ir::TypeOrConstant::Constant(c)` -/
def recordKind (k : Scalar) : Option Scalar := restrictKind k

/-- the discipline of seeded mutant C04-4 (**not** the code; only for the witness): an `IntLiteral` argument is recorded
    as `Int32` -/
def recordKindNormalized (k : Scalar) : Option Scalar :=
  (restrictKind k).map fun r => if r = .intLiteral then .int32 else r

/-- kind of the constant every use of the parameter becomes inside the instance -/
def instanceKind (r : Scalar) : Scalar := unrestrictKind r

/-- the kind the second compilation records for the argument printed at the call site: `generate_literal` of
    `c.unrestrict()`, read by `parse_literal` (a literal evaluates to a constant of its own kind; a printed sign is
    `-` applied to the magnitude, which keeps the kind), restricted and recorded again -/
def secondRecordKind (r : Scalar) : Option Scalar := recordKind (rereadKind (unrestrictKind r))

/-- type name the exporter prints for the parameter of an instance (`template<int>`), `none` = `todo!` -/
def valueTypeName : Scalar → Option String
  | .bool => some "bool"
  | .intLiteral => some "int"
  | .int32 => some "int"
  | .uInt32 => some "uint"
  | _ => none

mutual
/-- the body of an instance: every use of the value parameter (variable `x` of the template's scope) is a constant of
    kind `k` -/
def substValue (x : Nat) (k : Scalar) : SExpr → SExpr
  | .lit l => .lit l
  | .var i => if i = x then .lit k else .var i
  | .un o e => .un o (substValue x k e)
  | .bin o a b => .bin o (substValue x k a) (substValue x k b)
  | .tern c a b => .tern (substValue x k c) (substValue x k a) (substValue x k b)
  | .call n args => .call n (substArgs x k args)
  | .cast t e => .cast t (substValue x k e)
def substArgs (x : Nat) (k : Scalar) : SArgs → SArgs
  | .nil => .nil
  | .cons e r => .cons (substValue x k e) (substArgs x k r)
end

def substStmt (x : Nat) (k : Scalar) : SStmt → SStmt
  | .expr e => .expr (substValue x k e)
  | .ret none => .ret none
  | .ret (some e) => .ret (some (substValue x k e))
  | .init t e => .init t (substValue x k e)

end RsslVerif.Model.FixpointTemplate

#!/usr/bin/env python3
"""Write the prompts of a seeded-mutant round: build/seedprompts/Cxx-<round>.txt for every property (or those named).

The prompt carries the property text (id, title, statement from properties.jsonl) and, so that rounds do not repeat
themselves, one line per earlier seed of the property (first 200 characters of its summary) - nothing else from /verif.
usage: tools/mkseedprompts.py <round> [Cxx ...]
"""
import glob, json, os, re, sys
ROOT = os.path.dirname(os.path.dirname(os.path.abspath(__file__)))
rnd = sys.argv[1]
only = [a.upper() for a in sys.argv[2:]]
props = [json.loads(l) for l in open(os.path.join(ROOT, "properties.jsonl")) if l.strip()]
tmpl = open(os.path.join(ROOT, "notes", "worker_prompts", "SEED_PROMPT_TEMPLATE.txt")).read()
os.makedirs(os.path.join(ROOT, "build", "seedprompts"), exist_ok=True)
for p in props:
    pid = p["id"]
    if only and pid not in only:
        continue
    prev = []
    for m in sorted(glob.glob(os.path.join(ROOT, "seeded", pid + "-*", "meta.json"))):
        d = json.load(open(m))
        s = (d.get("summary") or d.get("short") or "").replace("\n", " ")
        if s:
            prev.append("  - " + s[:200])
    wt = "/tmp/seed%s-%s" % (rnd, pid.lower())
    text = (tmpl.replace("@WT@", wt).replace("@WTNAME@", os.path.basename(wt)).replace("@ID@", pid)
            .replace("@TITLE@", p.get("title", "")).replace("@STATEMENT@", p.get("statement", p.get("text", "")))
            .replace("@PREVIOUS@", "\n".join(prev)))
    open(os.path.join(ROOT, "build", "seedprompts", "%s-%s.txt" % (pid, rnd)), "w").write(text)
    print(pid, len(prev), "earlier seeds listed")

"""C05 — reflection metadata agrees with the emitted source."""
import os
import re

T = "RsslVerif.Thm.C05."
REPO = os.environ.get("VERIF_REPO", "/repo")


def _reserved(rel):
    try:
        text = open(os.path.join(REPO, rel)).read()
        m = re.search(r'RESERVED_NAMES: &\[&str\] = &\[(.*?)\];', text, re.S)
        return set(re.findall(r'"([^"]*)"', m.group(1))) if m else set()
    except OSError:
        return set()


def nontrivial(req, obs):
    # at least two metadata entries and at least one reported stage
    return obs.count("=i") + obs.count("=n") >= 2 and "S[]" not in obs


def finding_key(req, obs, detail):
    """(target, failure class, name class): the name class says *why* a name was not kept"""
    f = req.split("\t")
    tgt = f[1] if len(f) > 1 else "?"
    m = re.match(r"FAIL:([a-z\-]+) (.*)$", detail or "")
    if not m:
        return req
    cls, rest = m.group(1), m.group(2)
    if cls in ("entry-renamed", "msl-name-renamed"):
        nm = re.search(r"`([^`]*)`", rest)
        name = nm.group(1) if nm else ""
        reserved = _reserved("msl/src/names.rs" if tgt == "msl" else "hlsl/src/names.rs")
        return f"{tgt} {cls} {'reserved-name' if name in reserved else 'other-name'}"
    if cls in ("unsized-array-unbound", "static-object-bound"):
        return f"{tgt} {cls}"
    return f"{tgt} {cls} {req}"


def _items(s):
    return s.split(";") if s else []


def _drop_index(lst, k):
    """remove index k from a comma separated index list and renumber the larger ones"""
    out = []
    for x in (lst.split(",") if lst else []):
        x = int(x)
        if x == k:
            continue
        out.append(str(x - 1 if x > k else x))
    return ",".join(out)


def shrink(req):
    f = req.split("\t")
    if len(f) != 8:
        return
    head, (ns, rs, hs, es, ps) = f[:3], f[3:]
    R, H, E, P = _items(rs), _items(hs), _items(es), _items(ps)
    # drop a pipeline that is not the named one
    for i in range(len(P)):
        if len(P) > 1 and not (head[2].startswith("name=") and P[i].split(":")[0] == head[2][5:]):
            yield "\t".join(head + [ns, rs, hs, es, ";".join(P[:i] + P[i + 1:])])
    # drop a resource
    for k in range(len(R)):
        H2 = [":".join([h.split(":")[0], _drop_index(h.split(":")[1], k)] + h.split(":")[2:]) for h in H]
        E2 = [":".join(e.split(":")[:2] + [_drop_index(e.split(":")[2], k)] + e.split(":")[3:]) for e in E]
        yield "\t".join(head + [ns, ";".join(R[:k] + R[k + 1:]), ";".join(H2), ";".join(E2), ps])
    # drop the last helper (nothing later can call it except entries)
    if H:
        k = len(H) - 1
        E2 = [":".join(e.split(":")[:3] + [_drop_index(e.split(":")[3], k)] + e.split(":")[4:]) for e in E]
        yield "\t".join(head + [ns, rs, ";".join(H[:-1]), ";".join(E2), ps])
    # forget the statics
    if ns != "0":
        H2 = [":".join(h.split(":")[:3] + [""]) for h in H]
        E2 = [":".join(e.split(":")[:4] + ["", e.split(":")[5]]) for e in E]
        yield "\t".join(head + ["0", rs, ";".join(H2), ";".join(E2), ps])


SPEC = {
    "id": "C05",
    "gens": ["SlotTables", "CompileTables", "MetaTables"],
    "lean_modules": ["RsslVerif.Thm.C05"],
    "theorems": [T + n for n in [
        "source_shape_as_modelled", "descriptor_tables_agree", "register_class_of_descriptor", "msl_entry_names_agree",
        "annot_matches_meta_hlsl", "annot_matches_meta_msl", "static_object_entry_without_annotation",
        "descriptor_kind_count", "meta_bijective_hlsl", "meta_bijective_msl", "msl_sort_keeps_sorted",
        "excluded_declarations", "used_sound_complete_partial", "used_flag",
        "hlsl_params_of_targets", "hlsl_annotations_total", "annot_iff_entry", "annotations_match_metadata_hlsl",
        "entry_named_and_defined", "entry_named_and_defined_needs_name_kept"]],
    "harness": "c05",
    "nontrivial": nontrivial,
    "finding_key": finding_key,
    "shrink": shrink,
    "rule": "",
    "level_text": "",
    "trusted_base": [],
    "assumptions": [],
}

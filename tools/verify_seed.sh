#!/bin/sh
# usage: verify_seed.sh <seed worktree> — re-runs the suite with the change, and the demo with / without it
set -u
W="$1"
cd "$W" || exit 2
export CARGO_NET_OFFLINE=true RUST_BACKTRACE=0
echo "== suite with change"
cargo test --workspace --no-fail-fast --offline 2>&1 | grep -E "test result|FAILED" | awk '{p+=$4; f+=$6} END {print "passed",p,"failed",f}'
DEMO="$W/demo"; [ -d "$DEMO" ] || DEMO="$W/seed_out/demo"
echo "== demo with change"
(cd "$DEMO" && cargo run --offline >/tmp/demo_with.$$ 2>&1; echo "exit $?"; tail -3 /tmp/demo_with.$$)
echo "== demo without change"
git stash -q -- $(git diff --name-only | grep -v '^demo/\|^seed_out/') 
(cd "$DEMO" && cargo run --offline >/tmp/demo_without.$$ 2>&1; echo "exit $?"; tail -3 /tmp/demo_without.$$)
git stash pop -q
rm -f /tmp/demo_with.$$ /tmp/demo_without.$$
git status --short | head -5

#!/bin/sh
# usage: keep_seed.sh <seed worktree> <seed id e.g. C06-1> — copy seed_out into /verif/seeded/<id>/ and remove the worktree
set -e
W="$1"; ID="$2"
D="$(dirname "$0")/../seeded/$ID"
mkdir -p "$D"
cp -r "$W/seed_out/." "$D/"
rm -rf "$D/demo/target" "$D/demo/Cargo.lock.bak"
git -C /repo worktree remove --force "$W"
echo "kept $ID"

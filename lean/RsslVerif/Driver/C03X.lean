import RsslVerif.Driver.C03
import RsslVerif.Model.StmtX
import RsslVerif.Model.Intrinsics
import RsslVerif.Model.TypeMods
import RsslVerif.Model.RetScope
/-! Line-protocol front end of the extended C03 model (`C03.progx`, `C03.typex`); formats are described in
`harness/src/c03/ext.rs`.  Requests of the old streams are answered by `Driver.C03`; `C03.prog` requests are in addition
run through the extended model and the two answers must agree (otherwise the answer is `MODEL-MISMATCH ..`, which the
correspondence run reports as a disagreement with the implementation). -/
namespace RsslVerif.Driver.C03X
open RsslVerif.Gen.RankTable RsslVerif.Gen.TypingTables RsslVerif.Model.Conv RsslVerif.Model.Overload
open RsslVerif.Model.IrTypingX RsslVerif.Model.ElabX RsslVerif.Model.StmtX RsslVerif.Model.Intrinsics RsslVerif.Driver
open RsslVerif.Model.IrTyping (FuncSig)
open RsslVerif.Model.Elab (Err)
open RsslVerif.Driver.C03 (parseTy showTy showETy parseFunc Sx readSx panicFile showMods parseLayer)

def parseOther (s : String) : Option OtherDef :=
  if s.startsWith "S(" && s.endsWith ")" then
    let inner := ((s.drop 2).dropEnd 1).toString
    let parts := if inner.isEmpty then [] else inner.splitOn ","
    (sequenceOpt (parts.map fun m =>
      match m.splitOn ":" with
      | [n, t] => (parseTy t).map fun ty => (n, ty)
      | _ => none)).map .struct
  else if s.startsWith "R(" && s.endsWith ")" then
    match (((s.drop 2).dropEnd 1).toString).splitOn "," with
    | [k, t] => (parseTy t).map fun ty => .resource k ty
    | _ => none
  else if s.startsWith "A(" && s.endsWith ")" then
    match (((s.drop 2).dropEnd 1).toString).splitOn "," with
    | [t, n] => do pure (.array (← parseTy t) (← n.toNat?))
    | _ => none
  else none

/-- a variable of the request: `<type>` (local of `t`) or `<g|s|p>:<type>` (extern global, static global, parameter of `t`);
    the kind only decides how the harness spells the declaration, the typing rules see the declared type -/
def parseVar (s : String) : Option Ty :=
  match s.splitOn ":" with
  | [t] => parseTy t
  | [k, t] => if k == "g" || k == "s" || k == "p" then parseTy t else none
  | _ => none

/-- two array definitions must not coincide: array types are hash-consed in the implementation -/
def arraysCanonical : List OtherDef → Bool
  | [] => true
  | d :: r => (match d with | .array _ _ => !r.contains d | .resource _ _ => !r.contains d | _ => true) && arraysCanonical r

/-- the environment of a request: the intrinsic functions come first in the function registry, `void` is the layer
    after the declared ones -/
def parseEnvX (others vars funcs ret : String) : Option Env := do
  let os ← sequenceOpt ((if others == "-" then [] else others.splitOn ";").map parseOther)
  if !arraysCanonical os then none
  let vs ← sequenceOpt ((if vars == "-" then [] else vars.splitOn ",").map parseVar)
  let fs ← sequenceOpt ((if funcs == "-" then [] else funcs.splitOn ";").map parseFunc)
  let r ← if ret == "void" then some none else (parseTy ret).map some
  -- the request states the declared parameter types; the signature holds them stripped of modifiers
  let fs' := fs.map fun f => { f with params := f.params.map fun p => ⟨stripParamType p.ty, p.io⟩ }
  pure { vars := vs, funcs := intrinsicFuncs os.length ++ fs', ret := r, others := os ++ [.void], templates := templateNames }

partial def toSExpr : Sx → Option SExpr
  | .list [.atom "lit", .atom k] => (Scalar.ofName? k).map .lit
  | .list [.atom "var", .atom i] => i.toNat?.map .var
  | .list [.atom "un", .atom o, e] => do pure (.un (← UnOp.ofName? o) (← toSExpr e))
  | .list [.atom "bin", .atom o, a, b] => do pure (.bin (← BinOp.ofName? o) (← toSExpr a) (← toSExpr b))
  | .list [.atom "tern", c, a, b] => do pure (.tern (← toSExpr c) (← toSExpr a) (← toSExpr b))
  | .list (.atom "call" :: .atom n :: args) => do
    let as ← sequenceOpt (args.map toSExpr)
    pure (.call (← n.toNat?) (SArgs.ofList as))
  | .list (.atom "icall" :: .atom n :: args) => do
    let as ← sequenceOpt (args.map toSExpr)
    -- an unknown name gets an id no function has: `UnknownIdentifier`
    pure (.call ((nameId? n).getD (intrinsicBase - 1)) (SArgs.ofList as))
  | .list [.atom "cast", .atom t, e] => do pure (.cast (← parseTy t) (← toSExpr e))
  | .list [.atom "mem", e, .atom n] => do pure (.member (← toSExpr e) n)
  | .list [.atom "idx", a, i] => do pure (.index (← toSExpr a) (← toSExpr i))
  | .list (.atom "ctor" :: .atom t :: args) => do
    let as ← sequenceOpt (args.map toSExpr)
    pure (.ctor (← parseTy t) (SArgs.ofList as))
  | _ => none

partial def toSInit : Sx → Option SInit
  | .list (.atom "agg" :: items) => do
    let is ← sequenceOpt (items.map toSInit)
    pure (.agg (SInits.ofList is))
  | e => (toSExpr e).map .expr

def toDecl : List Sx → Option (Ty × Option SInit)
  | [.atom t] => (parseTy t).map fun ty => (ty, none)
  | [.atom t, i] => do pure (← parseTy t, some (← toSInit i))
  | _ => none

def toOptExpr : Sx → Option (Option SExpr)
  | .atom "-" => some none
  | e => (toSExpr e).map some

partial def toSStmt : Sx → Option SStmt
  | .list [.atom "expr", e] => (toSExpr e).map .expr
  | .list [.atom "ret"] => some (.ret none)
  | .list [.atom "ret", e] => (toSExpr e).map fun x => .ret (some x)
  | .list (.atom "decl" :: args) => (toDecl args).map fun (t, i) => .decl t i
  | .list (.atom "block" :: ss) => do
    let l ← sequenceOpt (ss.map toSStmt)
    pure (.block (SStmts.ofList l))
  | .list [.atom "if", c, s] => do pure (.ifS (← toSExpr c) (← toSStmt s))
  | .list [.atom "ifelse", c, a, b] => do pure (.ifElse (← toSExpr c) (← toSStmt a) (← toSStmt b))
  | .list [.atom "for", fi, c, n, s] => do
    let fi' ← match fi with
      | .atom "-" => some SForInit.none
      | .list [.atom "fexpr", e] => (toSExpr e).map .expr
      | .list (.atom "fdecl" :: args) => (toDecl args).map fun (t, i) => .decl t i
      | _ => none
    pure (.forS fi' (← toOptExpr c) (← toOptExpr n) (← toSStmt s))
  | .list [.atom "while", c, s] => do pure (.whileS (← toSExpr c) (← toSStmt s))
  | .list [.atom "do", s, c] => do pure (.doS (← toSStmt s) (← toSExpr c))
  | .list [.atom "switch", c, s] => do pure (.switchS (← toSExpr c) (← toSStmt s))
  | .list [.atom "case", c, s] => do pure (.caseS (← toSExpr c) (← toSStmt s))
  | .list [.atom "default", s] => do pure (.defaultS (← toSStmt s))
  | .list [.atom "break"] => some .breakS
  | .list [.atom "continue"] => some .continueS
  | .list [.atom "discard"] => some .discardS
  | .list [.atom "empty"] => some .emptyS
  | _ => none

def toBody : Sx → Option SStmts
  | .list (.atom "block" :: ss) => (sequenceOpt (ss.map toSStmt)).map SStmts.ofList
  | _ => none

def parseSlot (s : String) : Option (Nat × Nat) :=
  match s.splitOn "." with
  | [r, c] => do pure (← r.toNat?, ← c.toNat?)
  | _ => none

def pairs : List Sx → Option (List (Nat × Sx))
  | [] => some []
  | .atom a :: e :: r => do pure ((← a.toNat?, e) :: (← pairs r))
  | _ => none

partial def toIExpr : Sx → Option IExpr
  | .list [.atom "lit", .atom k] => (Scalar.ofName? k).map .lit
  | .list [.atom "var", .atom i] => i.toNat?.map .var
  | .list [.atom "tern", c, a, b] => do pure (.tern (← toIExpr c) (← toIExpr a) (← toIExpr b))
  | .list [.atom "seq", a, b] => do pure (.seq (← toIExpr a) (← toIExpr b))
  | .list (.atom "call" :: .atom f :: args) => do
    let as ← sequenceOpt (args.map toIExpr)
    pure (.call ((← f.toNat?) + RsslVerif.Gen.IntrinsicSigs.count) (IArgs.ofList as))
  | .list (.atom "icall" :: .atom f :: args) => do
    let as ← sequenceOpt (args.map toIExpr)
    pure (.call (← f.toNat?) (IArgs.ofList as))
  | .list [.atom "cast", .atom t, e] => do pure (.cast (← parseTy t) (← toIExpr e))
  | .list (.atom "op" :: .atom o :: args) => do
    let as ← sequenceOpt (args.map toIExpr)
    pure (.op (← IOp.ofName? o) (IArgs.ofList as))
  | .list (.atom "swz" :: e :: slots) => do
    let ss ← sequenceOpt (slots.map fun | .atom s => s.toNat? | _ => none)
    pure (.swizzle (← toIExpr e) ss)
  | .list (.atom "mswz" :: e :: slots) => do
    let ss ← sequenceOpt (slots.map fun | .atom s => parseSlot s | _ => none)
    pure (.mswizzle (← toIExpr e) ss)
  | .list [.atom "idx", a, i] => do pure (.index (← toIExpr a) (← toIExpr i))
  | .list [.atom "mem", e, .atom k, .atom i] => do pure (.member (← toIExpr e) (← k.toNat?) (← i.toNat?))
  | .list (.atom "ctor" :: .atom t :: rest) => do
    let ps ← pairs rest
    let es ← sequenceOpt (ps.map fun p => toIExpr p.2)
    pure (.ctor (← parseTy t) (ps.map (·.1)) (IArgs.ofList es))
  | _ => none

def zipSlots : List Nat → List IExpr → List (Nat × IExpr)
  | a :: as, e :: es => (a, e) :: zipSlots as es
  | _, _ => []

partial def showIExpr : IExpr → String
  | .lit k => "(lit " ++ k.name ++ ")"
  | .var i => "(var " ++ toString i ++ ")"
  | .tern c a b => "(tern " ++ showIExpr c ++ " " ++ showIExpr a ++ " " ++ showIExpr b ++ ")"
  | .seq a b => "(seq " ++ showIExpr a ++ " " ++ showIExpr b ++ ")"
  | .call f args =>
    let n := RsslVerif.Gen.IntrinsicSigs.count
    (if f < n then "(icall " ++ toString f else "(call " ++ toString (f - n)) ++
      String.join (args.toList.map fun a => " " ++ showIExpr a) ++ ")"
  | .cast t e => "(cast " ++ showTy t ++ " " ++ showIExpr e ++ ")"
  | .op o args => "(op " ++ o.name ++ String.join (args.toList.map fun a => " " ++ showIExpr a) ++ ")"
  | .swizzle e slots => "(swz " ++ showIExpr e ++ String.join (slots.map fun s => " " ++ toString s) ++ ")"
  | .mswizzle e slots =>
    "(mswz " ++ showIExpr e ++ String.join (slots.map fun s => " " ++ toString s.1 ++ "." ++ toString s.2) ++ ")"
  | .index a i => "(idx " ++ showIExpr a ++ " " ++ showIExpr i ++ ")"
  | .member e sid idx => "(mem " ++ showIExpr e ++ " " ++ toString sid ++ " " ++ toString idx ++ ")"
  | .ctor t arities args =>
    "(ctor " ++ showTy t ++ String.join ((zipSlots arities args.toList).map fun p => " " ++ toString p.1 ++ " " ++ showIExpr p.2) ++ ")"

def showType (Γ : Env) (e : IExpr) : String :=
  match typeOf Γ e with
  | .ok t => showETy t
  | .error _ => "panic"

/-- `<h> T E` -/
def tex (Γ : Env) (h : String) (e : IExpr) : String := "(" ++ h ++ " " ++ showType Γ e ++ " " ++ showIExpr e

partial def showInit (Γ : Env) : IInit → String
  | .expr e => tex Γ "e" e ++ ")"
  | .agg items => "(agg" ++ String.join (items.toList.map fun i => " " ++ showInit Γ i) ++ ")"

def showDecl (Γ : Env) (t : Ty) (id : Nat) (init : Option IInit) : String :=
  "(decl " ++ showTy t ++ " " ++ toString id ++ (match init with | some i => " " ++ showInit Γ i | none => "") ++ ")"

def showOpt (Γ : Env) : Option IExpr → String
  | none => "-"
  | some e => tex Γ "c" e ++ ")"

mutual
partial def showStmt (Γ : Env) : IStmt → String
  | .expr e => tex Γ "expr" e ++ ")"
  | .ret none => "(ret)"
  | .ret (some e) => tex Γ "ret" e ++ ")"
  | .decl t id init => showDecl Γ t id init
  | .block ss => showBlock Γ ss
  | .ifS c b => tex Γ "if" c ++ " " ++ showBlock Γ b ++ ")"
  | .ifElse c a b => tex Γ "ifelse" c ++ " " ++ showBlock Γ a ++ " " ++ showBlock Γ b ++ ")"
  | .forS init c n b =>
    let fi := match init with
      | .none => "-"
      | .expr e => tex Γ "fexpr" e ++ ")"
      | .decl t id i => "(fdecl " ++ showDecl Γ t id i ++ ")"
    "(for " ++ fi ++ " " ++ showOpt Γ c ++ " " ++ showOpt Γ n ++ " " ++ showBlock Γ b ++ ")"
  | .whileS c b => tex Γ "while" c ++ " " ++ showBlock Γ b ++ ")"
  | .doS b c => "(do " ++ showBlock Γ b ++ " " ++ showType Γ c ++ " " ++ showIExpr c ++ ")"
  | .switchS c b => tex Γ "switch" c ++ " " ++ showBlock Γ b ++ ")"
  | .caseLabel => "(caselabel)"
  | .defaultLabel => "(defaultlabel)"
  | .breakS => "(break)"
  | .continueS => "(continue)"
  | .discardS => "(discard)"
partial def showBlock (Γ : Env) (ss : IStmts) : String :=
  "(block" ++ String.join (ss.toList.map fun s => " " ++ showStmt Γ s) ++ ")"
end

def showResult : Except Err (IStmts × Env) → String
  | .ok (ss, Γ') => "accept " ++ showBlock Γ' ss
  | .error (.reject k) => "reject " ++ k
  | .error (.panic s) => "panic " ++ panicFile s
  | .error (.unsupported w) => "unsupported " ++ w

/-- types of every node in pre-order, as `Expression::get_type` would give them -/
partial def preorderTypes (Γ : Env) : IExpr → List String
  | e@(.tern c a b) => showType Γ e :: (preorderTypes Γ c ++ preorderTypes Γ a ++ preorderTypes Γ b)
  | e@(.seq a b) => showType Γ e :: (preorderTypes Γ a ++ preorderTypes Γ b)
  | e@(.call _ args) => showType Γ e :: (args.toList.flatMap (preorderTypes Γ))
  | e@(.cast _ x) => showType Γ e :: preorderTypes Γ x
  | e@(.op _ args) => showType Γ e :: (args.toList.flatMap (preorderTypes Γ))
  | e@(.swizzle x _) => showType Γ e :: preorderTypes Γ x
  | e@(.mswizzle x _) => showType Γ e :: preorderTypes Γ x
  | e@(.index a i) => showType Γ e :: (preorderTypes Γ a ++ preorderTypes Γ i)
  | e@(.member x _ _) => showType Γ e :: preorderTypes Γ x
  | e@(.ctor _ _ args) => showType Γ e :: (args.toList.flatMap (preorderTypes Γ))
  | e => [showType Γ e]

/-! ## cross-check of the old model on `C03.prog` requests -/

/-- the old request's environment for the extended model: no layer definitions (`void` far away from the struct ids) -/
def parseEnvOld (vars funcs ret : String) : Option Env := do
  let vs ← sequenceOpt ((if vars == "-" then [] else vars.splitOn ",").map parseTy)
  let fs ← sequenceOpt ((if funcs == "-" then [] else funcs.splitOn ";").map parseFunc)
  let r ← if ret == "void" then some none else (parseTy ret).map some
  pure { vars := vs, funcs := intrinsicFuncs 1000000 ++ fs, ret := r, others := [], templates := templateNames }

def toOldStmt : Sx → Option SStmt
  | .list [.atom "init", .atom t, e] => do pure (.decl (← parseTy t) (some (.expr (← toSExpr e))))
  | s => toSStmt s

/-- the extended model's answer in the format of `C03.prog` -/
def showOldStyle : Except Err (IStmts × Env) → String
  | .ok (.cons (.expr e) .nil, Γ') => "accept (expr " ++ showIExpr e ++ ") : " ++ showType Γ' e
  | .ok (.cons (.ret none) .nil, _) => "accept (ret) : void"
  | .ok (.cons (.ret (some e)) .nil, Γ') => "accept (ret " ++ showIExpr e ++ ") : " ++ showType Γ' e
  | .ok (.cons (.decl t _ (some (.expr e))) .nil, Γ') => "accept (init " ++ showTy t ++ " " ++ showIExpr e ++ ") : " ++ showType Γ' e
  | .ok _ => "accept ?"
  | .error (.reject k) => "reject " ++ k
  | .error (.panic s) => "panic " ++ panicFile s
  | .error (.unsupported w) => "unsupported " ++ w

def handleX (op : String) (args : List String) : String :=
  match op, args with
  | "C03.progx", [others, vars, funcs, ret, body, _expect] =>
    match parseEnvX others vars funcs ret, (readSx body).bind toBody with
    | some Γ, some b => showResult (elabStmts true Γ b)
    | _, _ => "unsupported request"
  | "C03.typex", [others, vars, funcs, ret, typed] =>
    match parseEnvX others vars funcs ret, (readSx typed).bind toIExpr with
    | some Γ, some e => " ".intercalate (preorderTypes Γ e)
    | _, _ => "unsupported request"
  | "C03.prog", [vars, funcs, ret, stmt, _expect] =>
    let old := RsslVerif.Driver.C03.handle op args
    match parseEnvOld vars funcs ret, (readSx stmt).bind toOldStmt with
    | some Γ, some s =>
      let x := showOldStyle (elabStmt true false Γ s)
      if x == old then old else "MODEL-MISMATCH old=[" ++ old ++ "] extended=[" ++ x ++ "]"
    | _, _ => old
  | "C03.src", _ => "unsupported raw source"
  | _, _ => RsslVerif.Driver.C03.handle op args

/-! ## `C03.decl`: declarations through typedef chains / template parameters (format: harness/src/c03/decl.rs) -/

open RsslVerif.Model.TypeMods in
def parseKws (s : String) : Option (List Kw) :=
  if s == "0" || s == "-" then some [] else
  sequenceOpt (s.toList.map fun c => match c with
    | 'c' => some Kw.const | 'v' => some Kw.volatile | 'r' => some Kw.rowMajor | 'k' => some Kw.columnMajor
    | 'u' => some Kw.unorm | 'n' => some Kw.snorm | _ => none)

open RsslVerif.Model.TypeMods in
/-- what `parse_type_modifier` asks about the type below the modifiers -/
def shapeOf : Layer → Shape
  | .scalar s => ⟨false, s == .float32⟩
  | .vector s _ => ⟨false, s == .float32⟩
  | .matrix s _ _ => ⟨true, s == .float32⟩
  | _ => ⟨false, false⟩

open RsslVerif.Model.TypeMods in
def posOf : String → Option Pos
  | "local" => some .localVar | "elem" => some .localVar | "param" => some .parameter | "static" => some .global
  | "member" => some .structMember | _ => none

/-- the component written by the `comp` form, by the kind of the declared type -/
def compName : Layer → Option String
  | .scalar _ => some "x" | .vector _ _ => some "y" | .matrix _ _ _ => some "_m01" | .other 0 => some "q" | _ => none

open RsslVerif.Model.TypeMods in
/-- the declared modifier comes from `Model.TypeMods.declMods`; the write is then judged by the elaboration model on the
    equivalent `C03.progx` program whose variable has the merged type -/
def handleDecl (layer carrier layers use storage write : String) : String :=
  match parseLayer layer, (if layers == "-" then some [] else sequenceOpt ((layers.splitOn ",").map parseKws)),
        parseKws use, posOf storage with
  | some l, some ls, some u, some pos =>
    if carrier != "td" && carrier != "tp" then "unsupported request" else
    match declModsAt (shapeOf l) ls u pos with
    | .error e => "reject " ++ e.name
    | .ok m =>
      let decl := showTy ⟨m.toModifier, l⟩
      let plain := showTy ⟨{}, l⟩
      let s0 := "S(q:-/s.Int32,v:-/v.Float32.3)"
      let envTgt : Option (String × String × String) := match storage with
        | "local" => some (s0, decl, "(var 0)")
        | "param" => some (s0, "p:" ++ decl, "(var 0)")
        | "static" => some (s0, "s:" ++ decl, "(var 0)")
        | "member" => some (s0 ++ ";S(mq:" ++ decl ++ ")", "-/o.1", "(mem (var 0) mq)")
        | "elem" => some (s0 ++ ";A(" ++ decl ++ ",2)", "-/o.1", "(idx (var 0) (lit IntLiteral))")
        | _ => none
      match envTgt with
      | none => "unsupported request"
      | some (others, v0, t) =>
        let stmt : Option String := match write with
          | "none" => some ""
          | "read" => some ("(expr (bin Assignment (var 1) " ++ t ++ "))")
          | "assign" => some ("(expr (bin Assignment " ++ t ++ " (var 1)))")
          | "opassign" => some ("(expr (bin SumAssignment " ++ t ++ " (var 1)))")
          | "inc" => some ("(expr (un PostfixIncrement " ++ t ++ "))")
          | "preinc" => some ("(expr (un PrefixIncrement " ++ t ++ "))")
          | "out" => some ("(expr (call 0 " ++ t ++ "))")
          | "comp" => (compName l).map fun c => "(expr (bin Assignment (mem " ++ t ++ " " ++ c ++ ") (lit IntLiteral)))"
          | "elemw" => some ("(expr (bin Assignment (idx " ++ t ++ " (lit IntLiteral)) (lit IntLiteral)))")
          | _ => none
        match stmt with
        | none => "unsupported request"
        | some "" => "decl " ++ showMods m.toModifier ++ " accept"
        | some st =>
          let ans := handleX "C03.progx" [others, v0 ++ "," ++ plain, "0:1:-/s.Int32:out/" ++ plain, "void", "(block " ++ st ++ ")", "any"]
          let verdict :=
            if ans.startsWith "accept" then "accept"
            else if ans.startsWith "reject " then ans
            else ans
          if ans.startsWith "unsupported" then ans else "decl " ++ showMods m.toModifier ++ " " ++ verdict
  | _, _, _, _ => "unsupported request"

/-! ## `C03.ret`: returns after template instantiations inside a function body (format: harness/src/c03/ret.rs) -/

namespace Ret
open RsslVerif.Model.RetScope

def parseRef (s : String) : Option TyRef :=
  if s == "T" then some .tparam else (Code.ofName? s).map .lit

mutual
/-- items of a body; the counter numbers `st` / `ft` nodes in pre-order (names as the harness spells them) -/
partial def toItems (k : Nat) : List Sx → Option (Items × Nat)
  | [] => some (.nil, k)
  | x :: rest => do
    let (i, k1) ← toItem k x
    let (r, k2) ← toItems k1 rest
    pure (.cons i r, k2)
partial def toItem (k : Nat) : Sx → Option (Item × Nat)
  | .list [.atom "ret", .atom v] =>
    if v == "-" then some (.ret none, k) else (parseRef v).map fun r => (.ret (some r), k)
  | .list (.atom "if" :: body) => (toItems k body).map fun (b, k') => (.blk b, k')
  | .list (.atom "st" :: .atom form :: .atom a :: ms) => do
    if !(["local", "cast", "sizeof", "twice", "init"].contains form) then none
    let arg ← parseRef a
    let (m, k') ← toMethods ("b" ++ toString k) 0 (k + 1) ms
    pure (.st (form == "local" || form == "twice" || form == "init") arg m, k')
  | .list (.atom "ft" :: .atom r :: .atom a :: body) => do
    let rt ← parseRef r
    let arg ← parseRef a
    let (b, k') ← toItems (k + 1) body
    pure (.ft ("ft" ++ toString k) rt arg b, k')
  | _ => none
partial def toMethods (pre : String) (j k : Nat) : List Sx → Option (Methods × Nat)
  | [] => some (.nil, k)
  | .list (.atom "m" :: .atom r :: body) :: rest => do
    let rt ← parseRef r
    let (b, k1) ← toItems k body
    let (ms, k2) ← toMethods pre (j + 1) k1 rest
    pure (.cons (pre ++ "m" ++ toString j) rt b ms, k2)
  | _ => none
end

partial def toRoots (k : Nat) : List Sx → Option (List Root)
  | [] => some []
  | .list (.atom "fn" :: .atom r :: body) :: rest => do
    let rt ← Code.ofName? r
    let (b, k1) ← toItems (k + 1) body
    let rs ← toRoots k1 rest
    pure (.fn ("fn" ++ toString k) rt b :: rs)
  | .list (.atom "sm" :: ms) :: rest => do
    let (m, k1) ← toMethods ("p" ++ toString k) 0 (k + 1) ms
    let rs ← toRoots k1 rest
    pure (.sm m :: rs)
  | _ => none

def showEv (e : Ev) : String := match e.got with | none => "-" | some _ => e.want.name

def handleRet (prog : String) : String :=
  match readSx prog with
  | some (.list (.atom "prog" :: roots)) =>
    match toRoots 0 roots with
    | none => "unsupported request"
    | some rs =>
      match elabProg rs with
      | .error (.wrongReturn g w) => "reject WrongTypeInReturnStatement got=" ++ g.name ++ " want=" ++ w.name
      | .error (.panic m) => "panic " ++ m
      | .error .unknownTypeName => "unsupported T outside a template"
      | .error .expectedExpression => "reject ExpectedExpressionReceivedType"
      | .ok evs =>
        let names := (rs.flatMap namesRoot).mergeSort (fun a b => !(b < a))
        "accept " ++ ";".intercalate (names.map fun n =>
          n ++ ":" ++ ",".intercalate ((evs.filter (·.owner == n)).map showEv))
  | _ => "unsupported request"

end Ret

def handle (op : String) (args : List String) : String :=
  match op, args with
  | "C03.decl", [layer, carrier, layers, use, storage, write] => handleDecl layer carrier layers use storage write
  | "C03.ret", [prog] => Ret.handleRet prog
  | _, _ => handleX op args

end RsslVerif.Driver.C03X

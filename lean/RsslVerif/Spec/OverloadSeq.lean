import RsslVerif.Model.OverloadSeq
/-!
# "the set of visible candidates" for a call that stands between declarations

The property: *which overload a call selects … depends only on the set of visible candidates and the argument types*.
For a call site in a translation unit the visible candidates are, in the property's words and without reference to how
the type checker walks the unit: the overloads **declared above the call** in the scope the lookup reaches —

* an unqualified call at the root, or `::f(..)` anywhere: the root scope's;
* `N::f(..)`: those of `namespace N` (however many times it was reopened);
* an unqualified call inside `namespace N`: N's if N has declared one above the call, else the root's;
* a call of a method: **every** method of that struct, above or below the caller (and none of another struct's);
* a name the compiler has overloads of: those (they lead the sequence) and the user's above the call.

Definitions of functions declared before, other call sites, helper templates and their instantiations are not
declarations of the name: they do not occur in this definition at all.
-/
namespace RsslVerif.Spec.Overload
open RsslVerif.Model.Overload

/-- the overloads a stretch of the unit declares in one scope, in order -/
def declared (scope : Nat) : List SeqItem → List TCand
  | [] => []
  | .decl s c :: is => if s = scope then c :: declared scope is else declared scope is
  | _ :: is => declared scope is

/-- the candidates visible at a call with lookup `mode` that stands between `pre` and `post`; `none` = the name is unknown there -/
def visibleAt (p : SeqPath) (pre post : List SeqItem) (mode : Nat) : Option (List TCand) :=
  let v := match p with
    | .method =>
      match mode with
      | 2 => declared 1 (pre ++ post)
      | 3 => declared 1 (pre ++ post)
      | _ => declared 0 (pre ++ post)
    | .intrinsic => allDeclared pre
    | .free =>
      match mode with
      | 1 => declared 1 pre
      | 2 => if (declared 1 pre).isEmpty then declared 0 pre else declared 1 pre
      | _ => declared 0 pre
  if v.isEmpty then none else some v

/-- the items that declare something a *later ordinary call site* can be affected by: everything but call sites and
    calls that instantiate a helper -/
def SeqItem.isCall : SeqItem → Bool
  | .site .. => true
  | .trigger .. => true
  | _ => false

end RsslVerif.Spec.Overload

import RsslVerif.Lemmas.ConstEvalOps2
/-!
# C13 helper lemmas, part 4: induction over expression trees — whenever `evaluate_constexpr` (model)
returns a value, the specification defines that value, and the value is in range
-/
namespace RsslVerif.Lemmas.ConstEval
open RsslVerif.Gen.EvalTable RsslVerif.Model.ConstEval
open RsslVerif.Spec.HlslConst (bv sInt uInt fitsLit lit?)

theorem sizeOf_agrees {t : SizeTy} {v : Constant} (h : evalSizeOf t = .ok v) : S.sizeOfTy t = some v ∧ wf v = true := by
  cases t with
  | scalar s => cases s <;> simp [evalSizeOf, scalarSize] at h <;> (subst h; simp [S.sizeOfTy, S.sizeOfScalar, wf, IntTy.inRange, u32_lo, u32_hi])
  | enum s => cases s <;> simp [evalSizeOf, scalarSize] at h <;> (subst h; simp [S.sizeOfTy, S.sizeOfScalar, wf, IntTy.inRange, u32_lo, u32_hi])
  | other => simp [evalSizeOf] at h

theorem noEnumRewrap_eq (o : Op) : noEnumRewrap.contains o = S.isComparison o := by
  cases o <;> rfl

theorem plain_strip {v : Constant} (h : wf v = true) : plain (S.strip v) = true := by
  cases v <;> simp_all [S.strip, plain, wf, Constant.kind]

/-- the operand loop: values pushed are the operands with enums unwrapped, `enum_wrap` is the last enum seen -/
theorem pushArg_ok {acc acc' : Acc} {v : Constant} (h : pushArg acc v = .ok acc') :
    acc'.vals = S.strip v :: acc.vals ∧ acc'.wrap = (S.enumId? v).or acc.wrap := by
  cases v <;> simp [pushArg] at h
  all_goals (split at h <;> simp at h; subst h; simp [S.strip, S.enumId?])

theorem getLast?_cons_or {α : Type} (x : Option α) (rest : List α) (w : Option α) :
    ((x.toList ++ rest).getLast?).or w = (rest.getLast?).or (x.or w) := by
  cases x <;> cases rest <;> simp [Option.or]
  rename_i a b l
  cases h : (b :: l).getLast? <;> simp
  simp at h


/-- applying the operator arm to the unwrapped operand values and re-wrapping the enum -/
theorem finishOp_agrees {o : Op} {vs : List Constant} {acc : Acc} {r : Constant}
    (hn : arityOk o vs.length = true) (hwf : ∀ v ∈ vs, wf v = true)
    (hvals : acc.vals.reverse = vs.map S.strip) (hwrap : acc.wrap = (vs.filterMap S.enumId?).getLast?)
    (h : finishOp o acc = .ok r) : S.applyOp o vs = some r ∧ wf r = true := by
  unfold finishOp at h
  rw [hvals] at h
  cases hop : applyOp o (vs.map S.strip) with
  | error e => simp [hop] at h
  | ok x =>
    simp only [hop] at h
    -- which arity?
    have hspec : S.opValue o (vs.map S.strip) = some x ∧ plain x = true := by
      match vs, hn, hwf, hop with
      | [], hn, _, hop =>
        simp [applyOp] at hop
        cases ho : opTable o with
        | none => simp [ho] at hop
        | some e => cases hs : e.shape <;> simp [arityOk, ho, hs] at hn
      | [v], hn, hwf, hop =>
        have hp := plain_strip (hwf v (by simp))
        have hn1 : arityOk o 1 = true := by simpa using hn
        simpa [S.opValue] using unop_agrees o hn1 hp hop
      | [v, w], hn, hwf, hop =>
        have hp := plain_strip (hwf v (by simp))
        have hq := plain_strip (hwf w (by simp))
        have hn2 : arityOk o 2 = true := by simpa using hn
        simpa [S.opValue] using binop_agrees o hn2 hp hq hop
      | _ :: _ :: _ :: _, hn, _, hop =>
        simp [applyOp] at hop
        cases ho : opTable o with
        | none => simp [ho] at hop
        | some e => cases hs : e.shape <;> simp [arityOk, ho, hs] at hn
    simp only [S.applyOp, hspec.1, noEnumRewrap_eq, hwrap] at h ⊢
    cases hl : (vs.filterMap S.enumId?).getLast? with
    | none => simp [hl] at h ⊢; subst h; exact ⟨rfl, plain_wf hspec.2⟩
    | some id =>
      by_cases hc : S.isComparison o = true
      · simp [hc] at h ⊢; subst h; exact ⟨rfl, plain_wf hspec.2⟩
      · simp [hl, hc] at h ⊢; subst h; exact ⟨rfl, by simpa [c13] using hspec.2⟩

mutual
theorem eval_agrees : ∀ (e : Expr), wfE e = true → ∀ v, eval e = .ok v → S.eval e = some v ∧ wf v = true
  | .lit c, hw, v, h => by
    simp [eval] at h; subst h; simp [wfE] at hw; exact ⟨by simp [S.eval], hw⟩
  | .var none, _, v, h => by simp [eval] at h
  | .var (some c), hw, v, h => by
    simp [eval] at h; subst h; simp [wfE] at hw; exact ⟨by simp [S.eval], hw⟩
  | .global none, _, v, h => by simp [eval] at h
  | .global (some c), hw, v, h => by
    simp [eval] at h; subst h; simp [wfE] at hw; exact ⟨by simp [S.eval], hw⟩
  | .enumValue id c, hw, v, h => by
    simp [eval] at h; subst h; simp [wfE] at hw; exact ⟨by simp [S.eval], by simpa [c13] using hw⟩
  | .cast t e, hw, v, h => by
    simp only [eval] at h
    cases he : eval e with
    | error err => simp [he] at h
    | ok x =>
      simp only [he] at h
      have ih := eval_agrees e (by simpa [wfE] using hw) x he
      have := evalCast_agrees t ih.2 h
      exact ⟨by simp [S.eval, ih.1, this.1], this.2⟩
  | .sizeOf t, _, v, h => by
    simp only [eval] at h
    have := sizeOf_agrees h
    exact ⟨by simp [S.eval, this.1], this.2⟩
  | .op o args, hw, v, h => by
    simp only [eval] at h
    simp only [wfE, Bool.and_eq_true] at hw
    cases ha : evalArgs args ⟨[], none⟩ with
    | error err => simp [ha] at h
    | ok acc =>
      simp only [ha] at h
      obtain ⟨vs, hvs, hwf, hlen, hvals, hwrap⟩ := evalArgs_agrees args hw.2 _ _ ha
      have := finishOp_agrees (o := o) (vs := vs) (acc := acc) (by rw [hlen]; exact hw.1) hwf
        (by simp [hvals]) (by simp [hwrap]) h
      exact ⟨by simp [S.eval, hvs, this.1], this.2⟩
  | .other, _, v, h => by simp [eval] at h
theorem evalArgs_agrees : ∀ (args : Args), wfArgs args = true → ∀ acc acc', evalArgs args acc = .ok acc' →
    ∃ vs, S.evalArgs args = some vs ∧ (∀ v ∈ vs, wf v = true) ∧ vs.length = argsLen args ∧
      acc'.vals = (vs.map S.strip).reverse ++ acc.vals ∧
      acc'.wrap = ((vs.filterMap S.enumId?).getLast?).or acc.wrap
  | .nil, _, acc, acc', h => by
    simp [evalArgs] at h; subst h
    exact ⟨[], by simp [S.evalArgs], by simp, by simp [argsLen], by simp, by simp⟩
  | .cons e rest, hw, acc, acc', h => by
    simp only [evalArgs] at h
    simp only [wfArgs, Bool.and_eq_true] at hw
    cases he : eval e with
    | error err => simp [he] at h
    | ok x =>
      simp only [he] at h
      have ih := eval_agrees e hw.1 x he
      cases hp : pushArg acc x with
      | error err => simp [hp] at h
      | ok acc1 =>
        simp only [hp] at h
        obtain ⟨hv1, hw1⟩ := pushArg_ok hp
        obtain ⟨vs, hvs, hwf, hlen, hvals, hwrap⟩ := evalArgs_agrees rest hw.2 _ _ h
        refine ⟨x :: vs, by simp [S.evalArgs, ih.1, hvs], ?_, by simp [argsLen, hlen], ?_, ?_⟩
        · intro v hv
          simp at hv
          rcases hv with rfl | hv
          · exact ih.2
          · exact hwf v hv
        · simp [hvals, hv1]
        · rw [hwrap, hw1]
          have := getLast?_cons_or (S.enumId? x) (vs.filterMap S.enumId?) acc.wrap
          rw [← this]
          cases hx : S.enumId? x <;> simp [hx]
end

end RsslVerif.Lemmas.ConstEval

import RsslVerif.Model.IrTyping
import RsslVerif.Gen.ElabTables
/-!
# The IR's typing rules for the extended expression language (ir/src/ir_expressions.rs `Expression::get_type`)

`Model/IrTyping.lean` covers `Literal`, `Variable`, `TernaryConditional`, `Sequence`, `Call`, `Cast`, `IntrinsicOp`.  This
file is the same development over a larger fragment of `ir::Expression` — it adds `Swizzle`, `MatrixSwizzle`,
`ArraySubscript`, `StructMember` and `Constructor` — in its **own namespace** (`RsslVerif.Model.IrTypingX`), so that the
old definitions (used by C04's composition and by the old theorems) stay untouched.  Definitions that do not mention
expressions (`FuncSig`, `opReturn`, `boolOf`) are shared with `Model.IrTyping`.

## Types
`Model.Conv.Layer.other id` is an opaque layer for `find`; the typing rules of member access / subscripts / aggregate
initialisers need to look inside.  `Env.others` gives the definition of `other id`:

* `struct members` — `TypeLayer::Struct(StructId)`, members in declaration order with their names and types;
* `array elem len` — `TypeLayer::Array(elem, Some(len))`; `elem` may carry a modifier (`const float a[3]` is
  `Array(Modifier(const, float), 3)`); array types are hash-consed in Rust, so an environment must not define the same
  array twice (`Env.arraysCanonical`; the driver refuses such requests);
* `void` — `TypeLayer::Void`;
* `object` — any other `TypeLayer::Object(_)` (outside the model: the elaboration answers `unsupported`);
* `resource kind elem` — a buffer / texture object with a subscript operator; only the subscript is modelled (its methods are
  outside the model).

Because of hash-consing `TypeId` equality is structural equality of these descriptions.

## Judgment
`HasType` has one rule per node kind, written from `Expression::get_type` with its asserts as premises.  For the new
nodes the judgment demands **more** than `get_type` checks, namely what the property calls "operands of exactly the
types it requires":

* `Swizzle` / `MatrixSwizzle`: at least one slot and every slot inside the operand's dimensions (`get_type` never
  compares slots with the width);
* `StructMember(e, id, i)`: `e` has struct type `id` (`get_type` only looks the member up);
* `Constructor(ty, slots)`: `ty` is numeric, every slot expression has an unmodified numeric type with the constructor's
  scalar kind and `arity` elements, and the arities sum to the number of elements of `ty` (the contract written in the doc
  comment of `ir::ConstructorSlot`; `get_type` returns `ty` without looking at the slots).

`typeOf` stays the literal transcription of `get_type` (used by the `C03.typex` correspondence stream).
-/
namespace RsslVerif.Model.Conv

/-- `TypeLayer::get_num_elements`: total number of scalar elements, 1 for non-numeric types -/
def Layer.numElements : Layer → Nat
  | .vector _ n => n
  | .matrix _ x y => x * y
  | _ => 1

end RsslVerif.Model.Conv

namespace RsslVerif.Model.IrTypingX
open RsslVerif.Gen.RankTable RsslVerif.Gen.TypingTables RsslVerif.Model.Conv RsslVerif.Model.Overload
open RsslVerif.Model.IrTyping (FuncSig opReturn boolOf)

/-- what `Layer.other id` stands for -/
inductive OtherDef where
  | struct (members : List (String × Ty))
  | array (elem : Ty) (len : Nat)
  | void
  | object
  /-- a resource that can be subscripted: `TypeLayer::Object(ObjectType::<kind>(elem))` with `kind` one of the variants listed
      in `Gen.ElabTables.subscriptIndexWidth` (`Buffer`, `RWStructuredBuffer`, `Texture2D`, ...) -/
  | resource (kind : String) (elem : Ty)
  deriving DecidableEq, Repr, Inhabited

mutual
/-- fragment of `ir::Expression` -/
inductive IExpr where
  /-- `Literal(Constant::<kind>(_))` -/
  | lit (k : Scalar)
  /-- `Variable(VariableId(i))` -/
  | var (i : Nat)
  | tern (c a b : IExpr)
  /-- `Sequence([a, b])` -/
  | seq (a b : IExpr)
  /-- `Call(FunctionId, _, args)` (user functions and intrinsic functions alike) -/
  | call (f : Nat) (args : IArgs)
  | cast (t : Ty) (e : IExpr)
  | op (o : IOp) (args : IArgs)
  /-- `Swizzle(e, slots)`, slot `0..3` = `X..W` -/
  | swizzle (e : IExpr) (slots : List Nat)
  /-- `MatrixSwizzle(e, slots)`, a slot is `MatrixSwizzleSlot(row, column)` with `0..3` = `First..Forth` -/
  | mswizzle (e : IExpr) (slots : List (Nat × Nat))
  /-- `ArraySubscript(a, i)` -/
  | index (a i : IExpr)
  /-- `StructMember(e, StructId(sid), idx)` -/
  | member (e : IExpr) (sid idx : Nat)
  /-- `Constructor(t, slots)`: `arities[k]` is the `arity` of the k-th slot, `args[k]` its expression -/
  | ctor (t : Ty) (arities : List Nat) (args : IArgs)
  deriving Repr, Inhabited
inductive IArgs where
  | nil
  | cons (e : IExpr) (r : IArgs)
  deriving Repr, Inhabited
end

def IArgs.toList : IArgs → List IExpr
  | .nil => []
  | .cons e r => e :: r.toList

def IArgs.ofList : List IExpr → IArgs
  | [] => .nil
  | e :: r => .cons e (IArgs.ofList r)

/-- what the typing rules read from the module and the scope -/
structure Env where
  /-- `variable_registry`: type of `VariableId(i)` -/
  vars : List Ty
  /-- `function_registry`: signature of `FunctionId(i)` (intrinsic functions first, as `Module::create` registers them) -/
  funcs : List FuncSig
  /-- return type of the function being checked, `none` = `void` -/
  ret : Option Ty := none
  /-- definition of `Layer.other id` -/
  others : List OtherDef := []
  /-- names whose overload set contains a template function (`DispatchMesh`): calls of them are outside the model -/
  templates : List Nat := []
  /-- ids of local variables whose scope has ended: allocated in `variable_registry` but no longer found by name -/
  hidden : List Nat := []
  deriving Repr

/-- `TypeRegistry::make_const` -/
def makeConst (t : Ty) : Ty := ⟨{ t.mod with isConst := true }, t.layer⟩

/-- the element type `get_type(ArraySubscript)` gives for a resource: `make_const(ty)` for the read-only kinds, `ty` for the
    read-write kinds (tables re-extracted from ir_expressions.rs); `none` = `InvalidModule` -/
def resourceElem (kind : String) (elem : Ty) : Option Ty :=
  if RsslVerif.Gen.ElabTables.subscriptReadOnly.contains kind then some (makeConst elem)
  else if RsslVerif.Gen.ElabTables.subscriptReadWrite.contains kind then some elem
  else none

/-- some slot occurs twice -/
def hasDup {α : Type} [DecidableEq α] : List α → Bool
  | [] => false
  | a :: r => r.contains a || hasDup r

/-- `get_swizzle_value_type` / `get_matrix_swizzle_value_type`: a swizzle that names a slot twice is an rvalue -/
def swizzleVT {α : Type} [DecidableEq α] (slots : List α) (vt : VT) : VT := if hasDup slots then .rvalue else vt

/-- the `if swizzle.len() == 1 { scalar } else { Vector(scalar, len) }` of the swizzle rules -/
def swizzleLayer (s : Scalar) (n : Nat) : Layer := if n = 1 then .scalar s else .vector s n

mutual
/-- `Expression::get_type`; `.error` = a panic or `Err(EvaluateTypeError::InvalidModule)` -/
def typeOf (Γ : Env) : IExpr → Except String ETy
  | .lit k => .ok (scalarTy k).r
  | .var i =>
    match Γ.vars[i]? with
    | some t => .ok t.l
    | none => .error "ir_variables.rs: variable id out of range"
  | .tern _ a b =>
    match typeOf Γ a with
    | .error e => .error e
    | .ok ta =>
      match typeOf Γ b with
      | .error e => .error e
      | .ok tb =>
        if ta.ty.layer = tb.ty.layer then .ok ta.ty.r
        else .error "ir_expressions.rs: assert_eq!(ty_left, ty_right)"
  | .seq _ b => typeOf Γ b
  | .call f _ =>
    match Γ.funcs[f]? with
    | some s => .ok s.ret.r
    | none => .error "ir_functions.rs: function id out of range"
  | .cast t _ => .ok t.r
  | .op o args =>
    match typesOf Γ args with
    | .error e => .error e
    | .ok ts => opReturn o ts
  | .swizzle e slots =>
    match typeOf Γ e with
    | .error m => .error m
    | .ok t =>
      match t.ty.layer with
      | .scalar s => .ok ⟨⟨t.ty.mod, swizzleLayer s slots.length⟩, swizzleVT slots t.vt⟩
      | .vector s _ => .ok ⟨⟨t.ty.mod, swizzleLayer s slots.length⟩, swizzleVT slots t.vt⟩
      | _ => .error "ir_expressions.rs: InvalidModule (swizzle of a non-vector)"
  | .mswizzle e slots =>
    match typeOf Γ e with
    | .error m => .error m
    | .ok t =>
      match t.ty.layer with
      | .matrix s _ _ => .ok ⟨⟨t.ty.mod, swizzleLayer s slots.length⟩, swizzleVT slots t.vt⟩
      | _ => .error "ir_expressions.rs: InvalidModule (matrix swizzle of a non-matrix)"
  | .index a _ =>
    match typeOf Γ a with
    | .error m => .error m
    | .ok t =>
      match t.ty.layer with
      | .vector s _ => .ok (Ty.l ⟨t.ty.mod, .scalar s⟩)
      | .matrix s _ y => .ok (Ty.l ⟨t.ty.mod, .vector s y⟩)
      | .other id =>
        match Γ.others[id]? with
        | some (.array elem _) => .ok elem.l
        | some (.resource kind elem) =>
          match resourceElem kind elem with
          | some te => .ok te.l
          | none => .error "ir_expressions.rs: InvalidModule (subscript of an object without subscript)"
        | _ => .error "ir_expressions.rs: InvalidModule (subscript of a non-array)"
      | _ => .error "ir_expressions.rs: InvalidModule (subscript of a non-array)"
  | .member e sid idx =>
    match typeOf Γ e with
    | .error m => .error m
    | .ok t =>
      match Γ.others[sid]? with
      | some (.struct ms) =>
        match ms[idx]? with
        | some m => .ok ⟨m.2, t.vt⟩
        | none => .error "ir_expressions.rs: assert!(member_index < def.members.len())"
      | _ => .error "ir_expressions.rs: assert!(id.0 < module.struct_registry.len())"
  | .ctor t _ _ => .ok t.r
/-- the `for arg in args { arg_types.push(arg.get_type(module)?) }` loop -/
def typesOf (Γ : Env) : IArgs → Except String (List ETy)
  | .nil => .ok []
  | .cons e r =>
    match typeOf Γ e with
    | .error m => .error m
    | .ok t =>
      match typesOf Γ r with
      | .error m => .error m
      | .ok ts => .ok (t :: ts)
end

/-- the contract of one `ConstructorSlot { arity, expr }` in a constructor of scalar kind `s`: the expression has an
    unmodified numeric type of that scalar kind with `arity` elements -/
def SlotOk (s : Scalar) (arity : Nat) (t : ETy) : Prop :=
  t.ty.mod = {} ∧ t.ty.layer.extractScalar = some s ∧ t.ty.layer.numElements = arity

/-- slot by slot -/
def SlotsOk (s : Scalar) : List Nat → List ETy → Prop
  | [], [] => True
  | a :: as, t :: ts => SlotOk s a t ∧ SlotsOk s as ts
  | _, _ => False

mutual
/-- **The IR typing judgment** for the extended fragment. -/
inductive HasType (Γ : Env) : IExpr → ETy → Prop where
  | lit (k : Scalar) : HasType Γ (.lit k) (scalarTy k).r
  | var {i : Nat} {t : Ty} : Γ.vars[i]? = some t → HasType Γ (.var i) t.l
  | tern {c a b : IExpr} {tc ta tb : ETy} :
      HasType Γ c tc → HasType Γ a ta → HasType Γ b tb → ta.ty.layer = tb.ty.layer →
      HasType Γ (.tern c a b) ta.ty.r
  | seq {a b : IExpr} {ta tb : ETy} : HasType Γ a ta → HasType Γ b tb → HasType Γ (.seq a b) tb
  | call {f : Nat} {s : FuncSig} {args : IArgs} {ts : List ETy} :
      Γ.funcs[f]? = some s → HasArgs Γ args ts → HasType Γ (.call f args) s.ret.r
  | cast {t : Ty} {e : IExpr} {te : ETy} : HasType Γ e te → HasType Γ (.cast t e) t.r
  | op {o : IOp} {args : IArgs} {ts : List ETy} {τ : ETy} :
      HasArgs Γ args ts → opReturn o ts = .ok τ → HasType Γ (.op o args) τ
  /-- swizzle of a scalar (`f.xxx`): only slot `X` -/
  | swizzleS {e : IExpr} {t : ETy} {s : Scalar} {slots : List Nat} :
      HasType Γ e t → t.ty.layer = .scalar s → slots ≠ [] → slots.length ≤ 4 → (∀ k ∈ slots, k < 1) →
      HasType Γ (.swizzle e slots) ⟨⟨t.ty.mod, swizzleLayer s slots.length⟩, swizzleVT slots t.vt⟩
  /-- swizzle of a vector: every slot below the width -/
  | swizzleV {e : IExpr} {t : ETy} {s : Scalar} {n : Nat} {slots : List Nat} :
      HasType Γ e t → t.ty.layer = .vector s n → slots ≠ [] → slots.length ≤ 4 → (∀ k ∈ slots, k < n) →
      HasType Γ (.swizzle e slots) ⟨⟨t.ty.mod, swizzleLayer s slots.length⟩, swizzleVT slots t.vt⟩
  | mswizzle {e : IExpr} {t : ETy} {s : Scalar} {x y : Nat} {slots : List (Nat × Nat)} :
      HasType Γ e t → t.ty.layer = .matrix s x y → slots ≠ [] → slots.length ≤ 4 → (∀ k ∈ slots, k.1 < x ∧ k.2 < y) →
      HasType Γ (.mswizzle e slots) ⟨⟨t.ty.mod, swizzleLayer s slots.length⟩, swizzleVT slots t.vt⟩
  | indexV {a i : IExpr} {t ti : ETy} {s : Scalar} {n : Nat} :
      HasType Γ a t → HasType Γ i ti → t.ty.layer = .vector s n →
      HasType Γ (.index a i) (Ty.l ⟨t.ty.mod, .scalar s⟩)
  | indexM {a i : IExpr} {t ti : ETy} {s : Scalar} {x y : Nat} :
      HasType Γ a t → HasType Γ i ti → t.ty.layer = .matrix s x y →
      HasType Γ (.index a i) (Ty.l ⟨t.ty.mod, .vector s y⟩)
  | indexA {a i : IExpr} {t ti : ETy} {id len : Nat} {elem : Ty} :
      HasType Γ a t → HasType Γ i ti → t.ty.layer = .other id → Γ.others[id]? = some (.array elem len) →
      HasType Γ (.index a i) elem.l
  | indexR {a i : IExpr} {t ti : ETy} {id : Nat} {kind : String} {elem te : Ty} :
      HasType Γ a t → HasType Γ i ti → t.ty.layer = .other id → Γ.others[id]? = some (.resource kind elem) →
      resourceElem kind elem = some te → HasType Γ (.index a i) te.l
  | member {e : IExpr} {t : ETy} {sid idx : Nat} {ms : List (String × Ty)} {m : String × Ty} :
      HasType Γ e t → t.ty.layer = .other sid → Γ.others[sid]? = some (.struct ms) → ms[idx]? = some m →
      HasType Γ (.member e sid idx) ⟨m.2, t.vt⟩
  | ctor {t : Ty} {arities : List Nat} {args : IArgs} {ts : List ETy} {s : Scalar} :
      HasArgs Γ args ts → t.layer.extractScalar = some s → SlotsOk s arities ts →
      arities.sum = t.layer.numElements →
      HasType Γ (.ctor t arities args) t.r
inductive HasArgs (Γ : Env) : IArgs → List ETy → Prop where
  | nil : HasArgs Γ .nil []
  | cons {e : IExpr} {r : IArgs} {t : ETy} {ts : List ETy} :
      HasType Γ e t → HasArgs Γ r ts → HasArgs Γ (.cons e r) (t :: ts)
end

end RsslVerif.Model.IrTypingX

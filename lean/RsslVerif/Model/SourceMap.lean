import RsslVerif.Gen.SourceMapTables
/-!
# Model of `SourceManager` (text/src/location.rs) and `MessagePrinter::write_message` (text/src/errors.rs)

A `SourceLocation` is a raw index into the concatenation of all loaded files, each file owning
`file_size + 1` consecutive slots (the extra slot is the end-of-file position).  `get_file_location`
walks the files, subtracts the slots of the files before the owner and then counts newline bytes in
the prefix of the owner's contents.  `write_message` prints `file:line:col: severity: message`, the
source line and a caret line.

u32 arithmetic is modelled by `Nat` (assumption: the sum of all slots stays below 2^32 - 1; `add_file`
panics on overflow in a debug build before such a manager can exist).  The one reachable panic of the
printing path (`str::split_at` off a UTF-8 character boundary) is an explicit `Except.error`.
-/
namespace RsslVerif.Model.SourceMap
open RsslVerif.Gen.SourceMapTables

abbrev Bytes := List UInt8

/-- the byte `get_file_location` treats as a line break -/
def isNl (c : UInt8) : Bool := c.toNat == newlineByte

/-- `(Line, Column)` -/
structure Pos where
  line : Nat
  col : Nat
  deriving DecidableEq, Repr, Inhabited

/-- `(Line::first(), Column::first())` -/
def Pos.first : Pos := ⟨firstLine, firstColumn⟩

/-- one iteration of the counting loop of `get_file_location` -/
def Pos.step (p : Pos) (c : UInt8) : Pos :=
  if isNl c then ⟨p.line + 1, firstColumn⟩ else ⟨p.line, p.col + 1⟩

/-- the counting loop continued from `p` over `bs` -/
def scan (p : Pos) (bs : Bytes) : Pos := bs.foldl Pos.step p

/-- line and column of byte offset `off` of a file: the loop over `contents[..off]` -/
def lineCol (contents : Bytes) (off : Nat) : Pos := scan Pos.first (contents.take off)

structure SourceFile where
  name : String
  contents : Bytes
  deriving Repr, Inhabited

/-- number of `SourceLocation`s a file owns (`file_size + 1`) -/
def SourceFile.slots (f : SourceFile) : Nat := f.contents.length + extraSlots

/-- the files in the order they were added; `base_location` of a file is the slot total of the files before it -/
abbrev SourceManager := List SourceFile

/-- `next_location` -/
def totalSlots : SourceManager → Nat
  | [] => firstRaw
  | f :: rest => f.slots + totalSlots rest

/-- `base_location` of file `i` -/
def baseOf (sm : SourceManager) (i : Nat) : Nat := totalSlots (sm.take i)

/-- `add_file`: returns the new manager and the `FileId` -/
def addFile (sm : SourceManager) (name : String) (contents : Bytes) : SourceManager × Nat :=
  (sm ++ [⟨name, contents⟩], sm.length)

inductive FileLocation where
  | known (name : String) (line col : Nat)
  | unknown
  deriving DecidableEq, Repr, Inhabited

/-- `get_file_offset_from_source_location`: `(FileId, StreamLocation)` -/
def getFileOffset : SourceManager → Nat → Option (Nat × Nat)
  | [], _ => none
  | f :: rest, loc =>
    if loc < f.slots then some (0, loc)
    else (getFileOffset rest (loc - f.slots)).map fun (i, o) => (i + 1, o)

/-- `get_file_location` -/
def getFileLocation : SourceManager → Nat → FileLocation
  | [], _ => .unknown
  | f :: rest, loc =>
    if loc < f.slots then .known f.name (lineCol f.contents loc).line (lineCol f.contents loc).col
    else getFileLocation rest (loc - f.slots)

/-- `get_source_location_from_file_offset` (the index and the assertion are its two panic sites) -/
def sourceLocation (sm : SourceManager) (fileId off : Nat) : Except String Nat :=
  match sm[fileId]? with
  | none => .error "panic: index out of bounds"
  | some f =>
    if off < f.slots then .ok (baseOf sm fileId + off)
    else .error "panic: assertion failed: stream_location.0 < source_file.file_size + 1"

/-- `SourceLocation::offset` -/
def offsetLoc (loc n : Nat) : Nat := if loc = unknownRaw then loc else loc + n

/-! ### printing -/

def strBytes (s : String) : Bytes := s.toUTF8.toList

def natBytes (n : Nat) : Bytes := strBytes (toString n)

def nl : UInt8 := 10

def FileLocation.render : FileLocation → Bytes
  | .known n l c => strBytes n ++ strBytes locSep ++ natBytes l ++ strBytes locSep ++ natBytes c
  | .unknown => strBytes unknownText

/-- `str::is_char_boundary` on the UTF-8 bytes -/
def isCharBoundary (s : Bytes) (i : Nat) : Bool :=
  i == 0 || i == s.length ||
    (match s[i]? with
     | some b => b.toNat < 128 || 192 ≤ b.toNat
     | none => false)

/-- the bytes after the last line break of `bs` (`before.rfind('\n')` + 1 ..) -/
def lastLine (bs : Bytes) : Bytes := (bs.reverse.takeWhile (fun c => !isNl c)).reverse

/-- `contents[line_start..line_end]` of `write_source_for_error` -/
def sourceLine (contents : Bytes) (idx : Nat) : Bytes :=
  lastLine (contents.take idx) ++ (contents.drop idx).takeWhile (fun c => !isNl c)

/-- the caret line: `column - 1` spaces and `^` -/
def caretLine (col : Nat) : Bytes := List.replicate (col - 1) ' '.toUInt8 ++ strBytes caretText ++ [nl]

/-- `write_source_for_error` with `Some(loc)` -/
def writeSourceForError (sm : SourceManager) (loc : Nat) : Except String Bytes :=
  match getFileOffset sm loc with
  | some (i, off) =>
    let contents := (sm.getD i default).contents
    if isCharBoundary contents off then
      .ok (sourceLine contents off ++ [nl] ++
        (match getFileLocation sm loc with
         | .known _ _ c => caretLine c
         | .unknown => []))
    else .error "panic: byte index is not a char boundary"
  | none => .ok (strBytes invalidSourceText ++ [nl])

/-- `MessagePrinter::write_message` with the message text already formatted -/
def writeMessage (sm : SourceManager) (msg : Bytes) (loc : Nat) (sev : Severity) : Except String Bytes :=
  if loc ≠ unknownRaw then
    match writeSourceForError sm loc with
    | .ok src =>
      .ok ((getFileLocation sm loc).render ++ strBytes headSep ++ strBytes sev.text ++ strBytes headSep ++ msg ++ [nl] ++ src)
    | .error e => .error e
  else
    .ok (strBytes sev.text ++ strBytes headSep ++ msg ++ [nl])

/-! ### text edits (used by the metamorphic requests and by the theorems) -/

/-- insert `ins` at byte offset `p` -/
def insertAt (s : Bytes) (p : Nat) (ins : Bytes) : Bytes := s.take p ++ ins ++ s.drop p

/-- where offset `q` of the old text ends up after inserting `n` bytes at `p` (text at `p` moves right) -/
def moveOffset (p n q : Nat) : Nat := if p ≤ q then q + n else q

/-- apply a list of insertions given in *original* coordinates, right to left so they do not interfere -/
def applyEdits (s : Bytes) : List (Nat × Bytes) → Bytes
  | [] => s
  | (p, ins) :: rest => insertAt (applyEdits s rest) p ins

/-- image of an original offset under a list of insertions in original coordinates -/
def moveThrough (edits : List (Nat × Bytes)) (q : Nat) : Nat :=
  q + (edits.filter (fun e => e.1 ≤ q)).foldl (fun a e => a + e.2.length) 0

end RsslVerif.Model.SourceMap

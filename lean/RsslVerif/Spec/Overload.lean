import RsslVerif.Model.OverloadT
/-!
# What C16 means (reference notions, independent of how `find_function_type` computes)

* *order independence*: two declaration orders of the same candidates are `List.Perm`-related lists;
  the verdicts must be `Outcome.Equiv` (same selected id / same set of ambiguous ids / both unmatched).
* *better / worse conversions*: the property's reading of the priority list at the top of casting.rs,
  written here **by hand** (`numBadness`, `vecBadness`) so that a change of `NumericRank::order` or of
  `VectorRank::worst_to_best` in the code is a change the theorems notice (`Thm.C16.order_agrees`,
  `Thm.C16.worstToBest_agrees`).
* *domination*: `d` converts no argument worse than `c` and at least one better, per-argument ranks compared
  lexicographically (numeric rank first, vector rank second).  This is the **largest** sensible domination
  relation (componentwise comparison implies it), so "never dominated" is the strongest statement.
* *exact match*: every passed argument needs neither a numeric nor a dimension conversion.
  On the property's type grid this is the same as "parameter types equal the argument types"
  (`Thm.C16.exact_rank_iff_same_type_on_grid`).
-/
namespace RsslVerif.Spec.Overload
open RsslVerif.Gen.RankTable RsslVerif.Model.Conv RsslVerif.Model.Overload

/-- priority list of casting.rs: exact, promotion, (promotion twice), int→bool, any conversion, (enum) -/
def numBadness : NumRank → Nat
  | .exact => 0
  | .promotion => 1
  | .promotionTwice => 2
  | .intToBool => 3
  | .conversion => 4
  | .enumToNumeric => 5

/-- same dimension, then scalar splat, then truncation -/
def vecBadness : VecRank → Nat
  | .exact => 0
  | .expand => 1
  | .contract => 2

/-- `a` is at least as good a conversion as `b` -/
def Rank.le (a b : Rank) : Prop :=
  numBadness a.num < numBadness b.num ∨ (numBadness a.num = numBadness b.num ∧ vecBadness a.vec ≤ vecBadness b.vec)

/-- `a` is a strictly better conversion than `b` -/
def Rank.lt (a b : Rank) : Prop :=
  numBadness a.num < numBadness b.num ∨ (numBadness a.num = numBadness b.num ∧ vecBadness a.vec < vecBadness b.vec)

/-- componentwise variant (both components at least as good) -/
def Rank.leBoth (a b : Rank) : Prop := numBadness a.num ≤ numBadness b.num ∧ vecBadness a.vec ≤ vecBadness b.vec

/-- every argument is converted at least as well by `d` as by `c` (lists of different length are incomparable) -/
def AllLe : List Rank → List Rank → Prop
  | d :: ds, c :: cs => Rank.le d c ∧ AllLe ds cs
  | [], [] => True
  | _, _ => False

/-- some argument is converted strictly better by `d` than by `c` -/
def SomeLt : List Rank → List Rank → Prop
  | d :: ds, c :: cs => Rank.lt d c ∨ SomeLt ds cs
  | _, _ => False

/-- `d` dominates `c`: converts no argument worse and at least one argument better -/
def Dominates (d c : List Rank) : Prop := AllLe d c ∧ SomeLt d c

/-- componentwise domination (implies `Dominates`) -/
def AllLeBoth : List Rank → List Rank → Prop
  | d :: ds, c :: cs => Rank.leBoth d c ∧ AllLeBoth ds cs
  | [], [] => True
  | _, _ => False

/-- the candidate is viable for the call and these are the ranks of its argument conversions -/
def Viable (args : List ETy) (c : Cand) (rs : List Rank) : Prop := rankCand args c = .ranked c.id rs

/-- no argument needs a numeric or a dimension conversion -/
def RankExact (rs : List Rank) : Prop := ∀ r ∈ rs, r = ⟨.exact, .exact⟩

/-- the candidate is viable and matches the arguments exactly -/
def ExactMatch (args : List ETy) (c : Cand) : Prop := ∃ rs, Viable args c rs ∧ RankExact rs

/-- no modelled panic site is reached for any candidate -/
def NoPanic (cands : List Cand) (args : List ETy) : Prop := ∀ c ∈ cands, (rankCand args c).isPanic = false

/-- verdicts that differ only in the order in which ambiguous candidates are listed -/
def Outcome.Equiv : Outcome → Outcome → Prop
  | .selected i, .selected j => i = j
  | .ambiguous l, .ambiguous l' => List.Perm l l'
  | .unmatched, .unmatched => True
  | .panic, .panic => True
  | _, _ => False

/-- the property's type grid: {bool,int,uint,half,float,double} × {scalar, 2-, 3-, 4-vector} -/
def OnGrid : Layer → Prop
  | .scalar s => s ≠ .intLiteral ∧ s ≠ .floatLiteral
  | .vector s n => s ≠ .intLiteral ∧ s ≠ .floatLiteral ∧ 2 ≤ n ∧ n ≤ 4
  | _ => False

/-- an argument of the quantifier: a grid type, or an untyped scalar literal -/
def ArgOnGrid : Layer → Prop
  | .scalar _ => True
  | .vector s n => s ≠ .intLiteral ∧ s ≠ .floatLiteral ∧ 2 ≤ n ∧ n ≤ 4
  | _ => False

/-- the types of the passed arguments equal the types of their parameters (value category and modifiers of the
    argument expression are not part of its type; trailing defaulted parameters receive no argument) -/
def SameLayers : List Param → List ETy → Prop
  | p :: ps, a :: as => p.ty.layer = a.ty.layer ∧ SameLayers ps as
  | _, [] => True
  | [], _ :: _ => False

/-- "a candidate whose parameter types equal the argument types exactly" (and which can be called at all) -/
def TypeExact (args : List ETy) (c : Cand) : Prop := (∃ rs, Viable args c rs) ∧ SameLayers c.params args

/-! ## the same notions for candidates of any kind (`GCand`: ordinary functions, function templates with their
deduction step as an arbitrary function of the argument types, methods, intrinsics) -/

/-- the candidate is viable for the call and these are the ranks of its argument conversions -/
def ViableG (args : List ETy) (g : GCand) (rs : List Rank) : Prop := rankG args g = .ranked g.id rs

/-- the candidate is viable and matches the arguments exactly -/
def ExactMatchG (args : List ETy) (g : GCand) : Prop := ∃ rs, ViableG args g rs ∧ RankExact rs

/-- no candidate reaches a panic site (template instantiation or `get_rank`) -/
def NoPanicG (cands : List GCand) (args : List ETy) : Prop := ∀ g ∈ cands, (rankG args g).isPanic = false

/-- the layer is not (built from) an untyped literal -/
def NonLiteral : Layer → Prop
  | .scalar s => s ≠ .intLiteral ∧ s ≠ .floatLiteral
  | .vector s _ => s ≠ .intLiteral ∧ s ≠ .floatLiteral
  | .matrix s _ _ => s ≠ .intLiteral ∧ s ≠ .floatLiteral
  | _ => True

/-- the declaration compiles as far as its template parameters go: every template parameter a parameter type mentions
    (`T`, `vector<T, n>`, `matrix<T, x, y>`) is one of the declared ones, of either kind.  (`T p[n]` is left out only
    because the correspondence protocol cannot name an array of a non-scalar, which the model reports as `unsupported`.) -/
def ScopedTemplate (c : TCand) : Prop :=
  ∀ p ∈ c.params, match p.pat with
    | .conc _ => True
    | .tvar k => k < c.tkinds.length
    | .tvec k _ => k < c.tkinds.length
    | .tmat k _ _ => k < c.tkinds.length
    | .tarr _ _ => False

end RsslVerif.Spec.Overload

import RsslVerif.Lemmas.GenMslProg
import RsslVerif.Lemmas.IrFrame
/-! Metal exporter, programs: the callable functions of the emitted program are linked to those of the typed program
(`Worlds`) at every call depth. -/
namespace RsslVerif.Lemmas.GenMsl
open RsslVerif.Gen.HlslGenTables RsslVerif.Gen.MslGenTables RsslVerif.Model RsslVerif.Model.GenMsl RsslVerif.Spec.Sem
open RsslVerif.Model.Ir (Ty Var Const Dir)
open RsslVerif.Model.GenHlsl (GenErr)
set_option linter.unusedSimpArgs false

/-- two lists of argument values agree except at `out` parameters -/
def offOut : Params → List Val → List Val → Prop
  | (_, d, _) :: ps, v :: vs, w :: ws => (d ≠ .out → v = w) ∧ offOut ps vs ws
  | [], [], [] => True
  | _, _, _ => False

/-- the typed world at call depth `d` -/
def irWorld (P : Prim) (prog : List Ir.Func) (fuel d : Nat) : World :=
  { P := P, phi := Ir.phi P prog fuel d, sig := Ir.sigOf prog }

/-- the Metal world at call depth `d` -/
def mslWorld (P : Prim) (L : Msl.Layout) (mprog : List MslAst.Func) (fuel d : Nat) : Msl.MWorld :=
  { P := P, mphi := Msl.phi P L mprog fuel d, msig := Msl.sigOf L mprog }

/-- what is assumed about one function of the program and its place in the emitted module -/
structure FuncOK (cx : Ctx) (L : Msl.Layout) (prog : List Ir.Func) (rsv : Nat → List Var) (xo : Nat → Var)
    (vis0 : Nat → Var → Bool) (fn : Ir.Func) (gs : List Nat) : Prop where
  req : cx.req fn.id = some gs
  ret : cx.retTy fn.id = some fn.ret
  layout : AgreeL cx L fn (vis0 fn.id)
  inj : ∀ x y, visWith (vis0 fn.id) gs x = true → visWith (vis0 fn.id) gs y = true → cx.name x = cx.name y → x = y
  ids : (fn.params.map (·.1)).Nodup
  wt : Ir.wtStmtsM { sig := Ir.sigOf prog, vty := cx.vty, vis := visWith (vis0 fn.id) gs, req := cx.req, rsv := rsv,
                     called := cx.called } fn.ret none fn.body = true
  tyP : ∀ p ∈ fn.params, cx.vty (.loc p.1) = p.2.2
  scratch : L.scratch (cx.funcName fn.id) = if needsTrampoline cx fn then [xo fn.id] else []
  tramp : needsTrampoline cx fn = true → AgreeT cx L fn gs (xo fn.id) ∧ rsv fn.id = xo fn.id :: slotsOf fn.params

/-- a Metal world that answers non-target calls and signatures like `M` is linked to `W` as well -/
theorem Worlds.hop {cx : Ctx} {rsv : Nat → List Var} {W : World} {M M' : Msl.MWorld} (h : Worlds cx rsv W M)
    (hP : M'.P = M.P) (hs : M'.msig = M.msig) (hphi : ∀ f, M'.mphi f false = M.mphi f false) : Worlds cx rsv W M' where
  prim := by rw [hP]; exact h.prim
  ret := h.ret
  sig := by intro f rt ps gs h1 h2 h3; rw [hs]; exact h.sig f rt ps gs h1 h2 h3
  call := by intro f rt ps gs l σ h1 h2 h3 h4 h5; rw [hphi]; exact h.call f rt ps gs l σ h1 h2 h3 h4 h5

theorem argsOK_of_fits {vty : Var → Ty} {xo : Var} :
    ∀ (ps : Params) (slots : List Var) (l : CArgs), fitsB vty (ps.map fun p => (p.2.1, p.2.2)) l = true →
      (∀ p ∈ ps, vty (.loc p.1) = p.2.2) → (∀ p ∈ l, ∀ x, p.2 = some x → (xo :: slots).contains x = false) →
      ArgsOK vty slots xo ps l
  | [], slots, [], _, _, _ => by simp [ArgsOK]
  | [], slots, _ :: _, h, _, _ => by simp [fitsB] at h
  | _ :: _, slots, [], h, _, _ => by simp [fitsB] at h
  | (pid, d, T) :: ps, slots, (v, o) :: l, h, hty, hr => by
    simp only [List.map_cons, fitsB, Bool.and_eq_true] at h
    simp only [ArgsOK]
    refine ⟨hty (pid, d, T) (by simp), ?_, argsOK_of_fits ps slots l h.2 (fun p hp => hty p (List.mem_cons_of_mem _ hp))
      (fun p hp => hr p (List.mem_cons_of_mem _ hp))⟩
    cases o with
    | none => simpa using h.1
    | some x =>
      have h1 := h.1
      simp only [Bool.and_eq_true, decide_eq_true_eq] at h1
      have h2 := hr (v, some x) (by simp) x rfl
      simp only [List.contains_cons, Bool.or_eq_false_iff, beq_eq_false_iff_ne] at h2
      refine ⟨h1.1, h1.2, ?_, h2.1⟩
      intro hc
      have := h2.2
      simp [List.contains_iff_mem, hc] at this

theorem offOut_valsIn {vty : Var → Ty} {slots : List Var} {xo : Var} :
    ∀ (ps : Params) (l : CArgs) (σ : Store), ArgsOK vty slots xo ps l → offOut ps (valsIn ps l σ) (l.map (valAt σ))
  | [], [], σ, _ => by simp [offOut, valsIn]
  | [], _ :: _, σ, h => by simp [ArgsOK] at h
  | _ :: _, [], σ, h => by simp [ArgsOK] at h
  | (pid, d, T) :: ps, (v, o) :: l, σ, h => by
    simp only [ArgsOK] at h
    simp only [valsIn, List.map_cons, offOut]
    refine ⟨?_, offOut_valsIn ps l σ h.2.2⟩
    intro hd
    cases o with
    | none => rfl
    | some x =>
      have : d = .inout := by
        have := h.2.1.1
        cases d <;> simp_all
      simp [this, valAt]

/-- a function without out/inout parameters: the arguments are all values -/
theorem noOut_args {vty : Var → Ty} :
    ∀ (ps : Params) (l : CArgs) (σ : Store), fitsB vty (ps.map fun p => (p.2.1, p.2.2)) l = true →
      (ps.all fun p => decide (p.2.1 = .in_)) = true →
      l.map toMArg = slotArgs ps (l.map (·.1)) ∧ Preset ps (l.map (·.1)) σ ∧ l.map (valAt σ) = l.map (·.1) ∧
      (∀ fin σ', writeBack (l.map (·.2)) fin σ' = σ') ∧ (l.map (·.1)).length = ps.length
  | [], [], σ, _, _ => by simp [slotArgs, Preset, writeBack]
  | [], _ :: _, σ, h, _ => by simp [fitsB] at h
  | _ :: _, [], σ, h, _ => by simp [fitsB] at h
  | (pid, d, T) :: ps, (v, o) :: l, σ, h, hall => by
    simp only [List.map_cons, fitsB, Bool.and_eq_true] at h
    simp only [List.all_cons, Bool.and_eq_true, decide_eq_true_eq] at hall
    obtain ⟨i1, i2, i3, i4, i5⟩ := noOut_args ps l σ h.2 hall.2
    have hd : d = .in_ := hall.1
    subst hd
    cases o with
    | some x => simp at h
    | none =>
      refine ⟨by simp [toMArg, slotArgs, i1], by simp [Preset, i2], by simp [valAt, i3], ?_, by simp [i5]⟩
      intro fin σ'
      cases fin with
      | nil => simp [writeBack]
      | cons w ws => simp [writeBack, i4]

/-- which of the definitions emitted for a function each overload lookup finds -/
theorem genFuncs_find {cx : Ctx} {fn : Ir.Func} {gs : List Nat} {ms : List MslAst.Func}
    (hreq : cx.req fn.id = some gs) (hf : genFuncs cx fn = .ok ms) :
    (needsTrampoline cx fn = false → ∃ m, genFuncInner cx fn false false = .ok m ∧
        ms.find? (fun m => m.isTarget == false) = some m ∧ ms.find? (fun m => m.isTarget == true) = none) ∧
    (needsTrampoline cx fn = true → ∃ m1 m2, genFuncInner cx fn true false = .ok m1 ∧ genFuncInner cx fn false true = .ok m2 ∧
        ms.find? (fun m => m.isTarget == false) = some m2 ∧ ms.find? (fun m => m.isTarget == true) = some m1) := by
  simp only [genFuncs] at hf
  constructor
  · intro hn
    simp only [hn, Bool.false_eq_true, if_false] at hf
    cases h1 : genFuncInner cx fn false false with
    | error e => simp [h1] at hf
    | ok m =>
      simp [h1] at hf; subst hf
      have := (genFuncInner_facts hreq h1).2.1
      exact ⟨m, rfl, by simp [List.find?, this], by simp [List.find?, this]⟩
  · intro hn
    simp only [hn, if_true] at hf
    cases h1 : genFuncInner cx fn true false with
    | error e => simp [h1] at hf
    | ok m1 =>
      cases h2 : genFuncInner cx fn false true with
      | error e => simp [h1, h2] at hf
      | ok m2 =>
        simp [h1, h2] at hf; subst hf
        have t1 := (genFuncInner_facts hreq h1).2.1
        have t2 := (genFuncInner_facts hreq h2).2.1
        exact ⟨m1, m2, rfl, rfl, by simp [List.find?, t1, t2], by simp [List.find?, t1]⟩

/-- the whole program and its emitted module -/
structure ProgOK (cx : Ctx) (L : Msl.Layout) (prog : List Ir.Func) (mprog : List MslAst.Func) (rsv : Nat → List Var)
    (xo : Nat → Var) (vis0 : Nat → Var → Bool) : Prop where
  gen : genProg cx prog = .ok mprog
  ids : (prog.map (·.id)).Nodup
  fres : ∀ f, L.fres (cx.funcName f) = some f
  funcs : ∀ fn ∈ prog, ∃ gs, FuncOK cx L prog rsv xo vis0 fn gs

/-- what is assumed of the *typed* functions that get a trampoline, at call depth `d`: the result does not depend on the
value an `out` parameter has on entry (the source writes it before reading it); a `void` function returns no value; the
scratch slot of the trampoline is not a variable of the program -/
structure SemOK (cx : Ctx) (P : Prim) (prog : List Ir.Func) (fuel : Nat) (xo : Nat → Var) (d : Nat) : Prop where
  out : ∀ fn ∈ prog, needsTrampoline cx fn = true → ∀ vals vals' σ, offOut fn.params vals vals' →
    Ir.callFunc (irWorld P prog fuel d) fuel fn vals σ = Ir.callFunc (irWorld P prog fuel d) fuel fn vals' σ
  void : ∀ fn ∈ prog, needsTrampoline cx fn = true → fn.ret = .void →
    ∀ vals σ r, Ir.callFunc (irWorld P prog fuel d) fuel fn vals σ = some r → r.1 = .void
  scratch : ∀ fn ∈ prog, needsTrampoline cx fn = true →
    ∀ vals σ r, Ir.callFunc (irWorld P prog fuel d) fuel fn vals σ = some r → r.2.2 (xo fn.id) = σ (xo fn.id)

theorem sigOf_find {prog : List Ir.Func} {f : Nat} {rt : Ty} {ps : List (Dir × Ty)} (h : Ir.sigOf prog f = some (rt, ps)) :
    ∃ fn, prog.find? (fun fn => fn.id == f) = some fn ∧ fn ∈ prog ∧ fn.id = f ∧ rt = fn.ret ∧
      ps = fn.params.map (fun p => (p.2.1, p.2.2)) := by
  simp only [Ir.sigOf] at h
  cases hf : prog.find? (fun fn => fn.id == f) with
  | none => simp [hf] at h
  | some fn =>
    simp [hf] at h
    have hid : fn.id = f := by simpa using List.find?_some hf
    exact ⟨fn, rfl, List.mem_of_find?_eq_some hf, hid, h.1.symm, h.2.symm⟩

section
variable {cx : Ctx} {L : Msl.Layout} {prog : List Ir.Func} {mprog : List MslAst.Func} {rsv : Nat → List Var}
  {xo : Nat → Var} {vis0 : Nat → Var → Bool} {P : Prim} {fuel : Nat}

theorem msig_false (hP : ProgOK cx L prog mprog rsv xo vis0) {f : Nat} {rt : Ty} {ps : List (Dir × Ty)} {gs : List Nat}
    (hs : Ir.sigOf prog f = some (rt, ps)) (hr : cx.req f = some gs) :
    Msl.sigOf L mprog f false = some (rt, mParams ps ++ globParams cx gs) := by
  obtain ⟨fn, hfind, hmem, hid, rfl, rfl⟩ := sigOf_find hs
  subst hid
  have hc := lookup_corr hP.fres prog mprog hP.gen hP.ids fn.id false
  rw [hfind] at hc
  obtain ⟨ms, hms, hl⟩ := hc
  obtain ⟨f1, f2⟩ := genFuncs_find hr hms
  rw [mParams_dirs]
  by_cases hn : needsTrampoline cx fn = true
  · obtain ⟨m1, m2, _, g2, e2, _⟩ := f2 hn
    obtain ⟨_, _, t3, t4⟩ := genFuncInner_facts hr g2
    simp only [Msl.sigOf, hl, e2, t3, t4]
    simp
  · obtain ⟨m, g, e, _⟩ := f1 (by simpa using hn)
    obtain ⟨_, _, t3, t4⟩ := genFuncInner_facts hr g
    simp only [Msl.sigOf, hl, e, t3, t4]
    simp

/-- **programs**: at every call depth the callable functions of the emitted Metal program are linked to those of the
typed program — a Metal call with variables for the out/inout parameters and references to the needed statics behaves
as copy-in / typed function / copy-out -/
theorem worlds_prog (hP : ProgOK cx L prog mprog rsv xo vis0) (hS : ∀ d, SemOK cx P prog fuel xo d) :
    ∀ d, Worlds cx rsv (irWorld P prog fuel d) (mslWorld P L mprog fuel d)
  | 0 =>
    { prim := rfl
      ret := by
        intro f rt ps hs
        obtain ⟨fn, _, hmem, hid, rfl, _⟩ := sigOf_find hs
        obtain ⟨gs, hF⟩ := hP.funcs fn hmem
        rw [← hid]; exact hF.ret
      sig := fun f rt ps gs hs hr _ => msig_false hP hs hr
      call := by
        intro f rt ps gs l σ _ _ _ _ _
        simp [mslWorld, irWorld, Msl.phi, Ir.phi] }
  | d + 1 =>
    have ih := worlds_prog hP hS d
    { prim := rfl
      ret := ih.ret
      sig := fun f rt ps gs hs hr _ => msig_false hP hs hr
      call := by
        intro f rt ps gs l σ hs hr hcalled hfit hrsv
        obtain ⟨fn, hfind, hmem, hid, rfl, rfl⟩ := sigOf_find hs
        subst hid
        have hF : FuncOK cx L prog rsv xo vis0 fn gs := by
          obtain ⟨gs', hF'⟩ := hP.funcs fn hmem
          have hgs : gs' = gs := by have := hF'.req; rw [hr] at this; exact (Option.some.inj this).symm
          subst hgs; exact hF'
        have hcF := lookup_corr hP.fres prog mprog hP.gen hP.ids fn.id false
        have hcT := lookup_corr hP.fres prog mprog hP.gen hP.ids fn.id true
        rw [hfind] at hcF hcT
        obtain ⟨ms, hms, hlF⟩ := hcF
        obtain ⟨ms', hms', hlT⟩ := hcT
        have : ms' = ms := by rw [hms] at hms'; exact (Except.ok.inj hms').symm
        subst this
        obtain ⟨f1, f2⟩ := genFuncs_find hr hms
        -- the typed side
        have hir : (irWorld P prog fuel (d + 1)).phi fn.id = fun vals σ => Ir.callFunc (irWorld P prog fuel d) fuel fn vals σ := by
          funext vals σ; simp [irWorld, Ir.phi, hfind]
        simp only [hir]
        -- the world a non-target body runs in answers non-target calls like the Metal world at depth d
        let inner : Msl.MWorld := mslWorld P L mprog fuel d
        let hopW : Msl.MWorld :=
          { P := P, msig := Msl.sigOf L mprog,
            mphi := fun f' t' a s =>
              if t' then
                match Msl.lookup L mprog f' true with
                | none => none
                | some fn' => Msl.callFunc inner L fuel fn' a s
              else Msl.phi P L mprog fuel d f' false a s }
        have hhop : Worlds cx rsv (irWorld P prog fuel d) hopW :=
          Worlds.hop ih rfl rfl (fun f' => by funext a s; simp [hopW, mslWorld])
        have hside : side cx (irWorld P prog fuel d) (visWith (vis0 fn.id) gs) rsv =
            { sig := Ir.sigOf prog, vty := cx.vty, vis := visWith (vis0 fn.id) gs, req := cx.req, rsv := rsv, called := cx.called } := rfl
        by_cases hn : needsTrampoline cx fn = true
        · -- trampoline
          obtain ⟨m1, m2, g1, g2, e2, e1⟩ := f2 hn
          obtain ⟨hAT, hrsvEq⟩ := hF.tramp hn
          have hphi : (mslWorld P L mprog fuel (d + 1)).mphi fn.id false = fun a s => Msl.callFunc hopW L fuel m2 a s := by
            funext a s
            simp only [mslWorld, Msl.phi, hlF, e2, hopW, inner]
            rfl
          rw [hphi]
          have hok : ArgsOK cx.vty (slotsOf fn.params) (xo fn.id) fn.params l :=
            argsOK_of_fits fn.params (slotsOf fn.params) l hfit hF.tyP (by rw [← hrsvEq]; exact hrsv)
          have hsc : L.scratch (cx.funcName fn.id) = [xo fn.id] := by rw [hF.scratch]; simp [hn]
          have hsigT : hopW.msig fn.id true =
              some (fn.ret, mParamsOf fn.params ++ (Msl.PK.tag, Ty.void) :: globParams cx gs) := by
            obtain ⟨_, _, t3, t4⟩ := genFuncInner_facts hr g1
            simp only [hopW, Msl.sigOf, hlT, e1, t3, t4]
            simp
          have hT : ∀ σ', hopW.mphi fn.id true
              (slotArgs fn.params (fn.params.map fun p => σ' (.loc p.1)) ++ Msl.MArg.tag :: globMArgs gs) σ' =
              (Ir.callFunc (irWorld P prog fuel d) fuel fn (fn.params.map fun p => σ' (.loc p.1)) σ').map
                (fun r => (r.1, Msl.restore [xo fn.id] σ' r.2.2)) := by
            intro σ'
            have hpre : ∀ (ps : Params), Preset ps (ps.map fun p => σ' (.loc p.1)) σ' := by
              intro ps
              induction ps with
              | nil => simp [Preset]
              | cons p ps ihp => obtain ⟨pid, dd, TT⟩ := p; simp [Preset, ihp]
            have := sim_funcM (tgt := true) hF.layout ih hr hF.inj hF.ids g1 (by rw [hside]; exact hF.wt) fuel
              (fn.params.map fun p => σ' (.loc p.1)) σ' (by simp) (hpre fn.params)
            simp only [if_true, List.singleton_append, hsc] at this
            simp only [hopW, if_true, hlT, e1, inner]
            exact this
          have hcopy := trampoline_copy (W := irWorld P prog fuel d) hAT hopW fuel m2 hr g2 hF.tyP hsigT hT l hok σ
          show Msl.callFunc hopW L fuel m2 (l.map toMArg ++ globMArgs gs) σ = _
          rw [hcopy]
          -- the three assumptions about the typed function close the gap
          have hSd := hS d
          rw [hSd.out fn hmem hn _ _ σ (offOut_valsIn fn.params l σ hok)]
          cases hcall : Ir.callFunc (irWorld P prog fuel d) fuel fn (l.map (valAt σ)) σ with
          | none => rfl
          | some r =>
            obtain ⟨ret, finals, σ1⟩ := r
            have hv : (if fn.ret = .void then Val.void else ret) = ret := by
              by_cases hvd : fn.ret = .void
              · have := hSd.void fn hmem hn hvd _ _ _ hcall
                simp only [hvd, if_true]; exact this.symm
              · simp [hvd]
            have hsx : σ1 (xo fn.id) = σ (xo fn.id) := hSd.scratch fn hmem hn _ _ _ hcall
            have hst : Msl.restore [xo fn.id] σ (writeBack (l.map (·.2)) finals σ1) = writeBack (l.map (·.2)) finals σ1 := by
              funext y
              by_cases hy : y = xo fn.id
              · subst hy
                simp only [Msl.restore, List.contains_cons, beq_self_eq_true, Bool.true_or, if_true]
                rw [writeBack_off _ _ _ _ (fun x hx => ?_), hsx]
                -- no argument variable is the scratch slot
                obtain ⟨p, hp, hpx⟩ := List.mem_map.mp hx
                have := hrsv p hp x hpx
                rw [hrsvEq] at this
                simp only [List.contains_cons, Bool.or_eq_false_iff, beq_eq_false_iff_ne] at this
                exact this.1
              · simp [Msl.restore, hy]
            simp only [hv, hst]
        · -- no trampoline: the function is called, so it has no out/inout parameter
          have hn' : needsTrampoline cx fn = false := by simpa using hn
          obtain ⟨m, g, e, _⟩ := f1 hn'
          have hnoout : (fn.params.all fun p => decide (p.2.1 = .in_)) = true := by
            have : hasOut fn = false := by
              simp only [needsTrampoline, Bool.and_eq_false_iff] at hn'
              cases hn' with
              | inl h => exact h
              | inr h => rw [hcalled] at h; simp at h
            simp only [hasOut, List.any_eq_false, decide_eq_true_eq] at this
            simp only [List.all_eq_true, decide_eq_true_eq]
            intro p hp
            have := this p hp
            simpa using this
          obtain ⟨i1, i2, i3, i4, i5⟩ := noOut_args fn.params l σ hfit hnoout
          have hphi : (mslWorld P L mprog fuel (d + 1)).mphi fn.id false = fun a s => Msl.callFunc hopW L fuel m a s := by
            funext a s
            simp only [mslWorld, Msl.phi, hlF, e, hopW, inner]
            rfl
          have hsc : L.scratch (cx.funcName fn.id) = [] := by rw [hF.scratch]; simp [hn']
          have := sim_funcM (tgt := false) hF.layout hhop hr hF.inj hF.ids g (by rw [hside]; exact hF.wt) fuel
            (l.map (·.1)) σ i5 i2
          simp only [Bool.false_eq_true, if_false, List.nil_append, hsc] at this
          rw [hphi]
          show Msl.callFunc hopW L fuel m (l.map toMArg ++ globMArgs gs) σ = _
          rw [i1, this, i3]
          cases Ir.callFunc (irWorld P prog fuel d) fuel fn (l.map (·.1)) σ with
          | none => rfl
          | some r =>
            obtain ⟨ret, finals, σ1⟩ := r
            have hre : Msl.restore [] σ σ1 = σ1 := by funext y; simp [Msl.restore]
            simp [i4, hre] }
end

/-- what remains to be assumed of the typed program: a function that gets a trampoline computes the same whatever value
its `out` parameters have on entry (the source writes an `out` parameter before reading it) -/
def OutOK (cx : Ctx) (P : Prim) (prog : List Ir.Func) (fuel : Nat) : Prop :=
  ∀ d, ∀ fn ∈ prog, needsTrampoline cx fn = true → ∀ vals vals' σ, offOut fn.params vals vals' →
    Spec.Sem.Ir.callFunc (irWorld P prog fuel d) fuel fn vals σ = Spec.Sem.Ir.callFunc (irWorld P prog fuel d) fuel fn vals' σ

/-- the syntactic conditions that discharge the other two assumptions: no function mentions a trampoline's scratch slot,
and a `void` function that gets a trampoline contains no `return e;` -/
structure SynOK (cx : Ctx) (prog : List Ir.Func) (xo : Nat → Var) : Prop where
  scratchFree : ∀ g ∈ prog, needsTrampoline cx g = true → ∀ fn ∈ prog, Ir.freeF (xo g.id) fn = true
  voidNoRet : ∀ fn ∈ prog, needsTrampoline cx fn = true → fn.ret = .void → Ir.noRetSs fn.body = true

theorem semOK_of {cx : Ctx} {P : Prim} {prog : List Ir.Func} {fuel : Nat} {xo : Nat → Var}
    (hout : OutOK cx P prog fuel) (hsyn : SynOK cx prog xo) : ∀ d, SemOK cx P prog fuel xo d := fun d =>
  { out := hout d
    void := fun fn hmem hn hv => callFunc_void _ fuel fn (hsyn.voidNoRet fn hmem hn hv)
    scratch := fun fn hmem hn =>
      callFunc_frame (W := irWorld P prog fuel d) (phi_frame P prog fuel (xo fn.id) (hsyn.scratchFree fn hmem hn) d) fuel fn
        (hsyn.scratchFree fn hmem hn fn hmem) }

end RsslVerif.Lemmas.GenMsl

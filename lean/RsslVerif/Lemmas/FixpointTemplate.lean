import RsslVerif.Model.FixpointTemplate
import RsslVerif.Lemmas.FixpointStmt
/-! lemmas for `Thm.C04` section Template: substitution of a kind-stable constant keeps a tree parser-producible -/
namespace RsslVerif.Lemmas.FixpointTemplate
open RsslVerif.Gen.RankTable RsslVerif.Gen.TypingTables
open RsslVerif.Model.Conv RsslVerif.Model.Overload RsslVerif.Model.IrTyping RsslVerif.Model.Elab RsslVerif.Model.Fixpoint
open RsslVerif.Model.FixpointTemplate RsslVerif.Lemmas.FixpointElab

mutual
theorem subst_srcOk (x : Nat) {k : Scalar} (hk : rereadKind k = k) : ∀ e : SExpr, SrcOk e → SrcOk (substValue x k e)
  | .lit _, h => by simpa [substValue] using h
  | .var i, _ => by
      unfold substValue
      split
      · simpa [SrcOk] using hk
      · simp [SrcOk]
  | .un _ e, h => by
      simp only [substValue, SrcOk] at h ⊢
      exact subst_srcOk x hk e h
  | .bin _ a b, h => by
      simp only [substValue, SrcOk] at h ⊢
      exact ⟨subst_srcOk x hk a h.1, subst_srcOk x hk b h.2⟩
  | .tern c a b, h => by
      simp only [substValue, SrcOk] at h ⊢
      exact ⟨subst_srcOk x hk c h.1, subst_srcOk x hk a h.2.1, subst_srcOk x hk b h.2.2⟩
  | .call _ args, h => by
      simp only [substValue, SrcOk] at h ⊢
      exact substArgs_srcOk x hk args h
  | .cast _ e, h => by
      simp only [substValue, SrcOk] at h ⊢
      exact ⟨h.1, subst_srcOk x hk e h.2⟩
theorem substArgs_srcOk (x : Nat) {k : Scalar} (hk : rereadKind k = k) : ∀ a : SArgs, SrcArgsOk a → SrcArgsOk (substArgs x k a)
  | .nil, _ => by simp [substArgs, SrcArgsOk]
  | .cons e r, h => by
      simp only [substArgs, SrcArgsOk] at h ⊢
      exact ⟨subst_srcOk x hk e h.1, substArgs_srcOk x hk r h.2⟩
end

theorem substStmt_srcOk (x : Nat) {k : Scalar} (hk : rereadKind k = k) : ∀ s : SStmt, SrcStmtOk s → SrcStmtOk (substStmt x k s)
  | .expr e, h => by simpa [substStmt, SrcStmtOk] using subst_srcOk x hk e (by simpa [SrcStmtOk] using h)
  | .ret none, _ => by simp [substStmt, SrcStmtOk]
  | .ret (some e), h => by simpa [substStmt, SrcStmtOk] using subst_srcOk x hk e (by simpa [SrcStmtOk] using h)
  | .init _ e, h => by simpa [substStmt, SrcStmtOk] using subst_srcOk x hk e (by simpa [SrcStmtOk] using h)

end RsslVerif.Lemmas.FixpointTemplate

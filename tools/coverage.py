#!/usr/bin/env python3
"""Line coverage of /repo's crates under a property's correspondence run (generator quality bounds what the tie sees).

usage: tools/coverage.py C17 [quick|thorough] [file-substring ...]
       tools/coverage.py all [quick]            every property, plus the union (build/cov/ALL)

Builds the harness with `-C instrument-coverage` on the nightly toolchain (llvm-profdata / llvm-cov ship with it) into
build/target-cov, runs the property's corpus and its generated requests exactly as ./check does, and writes
  build/cov/<id>/summary.txt          per source file: lines, missed lines, percentage
  build/cov/<id>/uncovered/<file>.txt  the source lines that were never executed (with line numbers)
This is a measurement tool for improving generators; it is not part of any check and proves nothing.
"""
import glob
import importlib
import json
import os
import subprocess
import sys

ROOT = os.path.dirname(os.path.dirname(os.path.abspath(__file__)))
sys.path.insert(0, ROOT)
sys.path.insert(0, os.path.join(ROOT, "tools"))
BIN = os.path.expanduser("~/.rustup/toolchains/nightly-x86_64-unknown-linux-gnu/lib/rustlib/x86_64-unknown-linux-gnu/bin")
TARGET = os.path.join(ROOT, "build", "target-cov")
EXE = os.path.join(TARGET, "debug", "harness")
IGNORE = r"(/verif/|/work/|\.cargo|rustc/|/rustlib/|/tests/|_tests\.rs|metal_invoker)"


def sh(cmd, **kw):
    return subprocess.run(cmd, stdout=subprocess.PIPE, stderr=subprocess.STDOUT, text=True, errors="replace", **kw)


def build():
    env = dict(os.environ, CARGO_NET_OFFLINE="true", CARGO_TARGET_DIR=TARGET,
               RUSTFLAGS="-C instrument-coverage --cfg trark_rssl_verif")
    p = sh(["cargo", "+nightly", "build", "--offline"], cwd=os.path.join(ROOT, "harness"), env=env)
    if p.returncode != 0:
        print(p.stdout[-2000:])
        sys.exit(1)


def run_property(pid, tier):
    spec = importlib.import_module("checks." + pid.lower()).SPEC
    out = os.path.join(ROOT, "build", "cov", pid)
    subprocess.run(["rm", "-rf", out])
    os.makedirs(out)
    if not spec.get("harness"):
        return None
    env = dict(os.environ, LLVM_PROFILE_FILE=os.path.join(out, "p-%p-%m.profraw"), RUST_BACKTRACE="0")
    corpus = os.path.join(ROOT, "corpus", pid + ".txt")
    if os.path.exists(corpus) and os.path.getsize(corpus):
        sh([EXE, spec["harness"], "--requests", corpus], cwd=ROOT, env=env)
    extra = spec.get("harness_args", lambda t, s: [])(tier, 20260925)
    sh([EXE, spec["harness"], "--tier", tier, "--seed", "20260925"] + extra, cwd=ROOT, env=env)
    raws = glob.glob(os.path.join(out, "*.profraw"))
    prof = os.path.join(out, "merged.profdata")
    sh([os.path.join(BIN, "llvm-profdata"), "merge", "-sparse"] + raws + ["-o", prof])
    for r in raws:
        os.unlink(r)
    return prof


def report(pid, prof, filters):
    out = os.path.join(ROOT, "build", "cov", pid)
    p = sh([os.path.join(BIN, "llvm-cov"), "export", EXE, "-instr-profile=" + prof, "-format=lcov",
            "--ignore-filename-regex=" + IGNORE])
    files, cur = {}, None
    for line in p.stdout.splitlines():
        if line.startswith("SF:"):
            cur = line[3:]
            files[cur] = {}
        elif line.startswith("DA:") and cur:
            n, c = line[3:].split(",")[:2]
            files[cur][int(n)] = int(c)
    os.makedirs(os.path.join(out, "uncovered"), exist_ok=True)
    rows = []
    for f, lines in sorted(files.items()):
        rel = f.split("/repo/")[-1] if "/repo/" in f else f
        miss = sorted(n for n, c in lines.items() if c == 0)
        rows.append((rel, len(lines), len(miss)))
        if filters and not any(s in rel for s in filters):
            continue
        try:
            src = open(f, errors="replace").read().splitlines()
        except OSError:
            continue
        with open(os.path.join(out, "uncovered", rel.replace("/", "__") + ".txt"), "w") as w:
            for n in miss:
                if n - 1 < len(src):
                    w.write(f"{n:5d}  {src[n - 1]}\n")
    with open(os.path.join(out, "summary.txt"), "w") as w:
        tl = tm = 0
        for rel, n, m in rows:
            w.write(f"{rel:50s} lines {n:5d}  missed {m:5d}  covered {100.0 * (n - m) / max(n, 1):5.1f}%\n")
            tl += n
            tm += m
        w.write(f"{'TOTAL':50s} lines {tl:5d}  missed {tm:5d}  covered {100.0 * (tl - tm) / max(tl, 1):5.1f}%\n")
    return files


def main():
    if len(sys.argv) < 2:
        print(__doc__)
        return 2
    pid = sys.argv[1]
    tier = sys.argv[2] if len(sys.argv) > 2 else "quick"
    filters = sys.argv[3:]
    build()
    if pid.lower() != "all":
        prof = run_property(pid.upper(), tier)
        if prof:
            report(pid.upper(), prof, filters)
            print(open(os.path.join(ROOT, "build", "cov", pid.upper(), "summary.txt")).read())
        return 0
    profs = []
    for f in sorted(glob.glob(os.path.join(ROOT, "checks", "c[0-9][0-9].py"))):
        p = os.path.basename(f)[:-3].upper()
        prof = run_property(p, tier)
        if prof:
            report(p, prof, filters)
            profs.append(prof)
            print(p, open(os.path.join(ROOT, "build", "cov", p, "summary.txt")).read().splitlines()[-1], flush=True)
    out = os.path.join(ROOT, "build", "cov", "ALL")
    os.makedirs(out, exist_ok=True)
    allp = os.path.join(out, "merged.profdata")
    sh([os.path.join(BIN, "llvm-profdata"), "merge", "-sparse"] + profs + ["-o", allp])
    report("ALL", allp, filters)
    print(open(os.path.join(out, "summary.txt")).read())
    return 0


if __name__ == "__main__":
    sys.exit(main())

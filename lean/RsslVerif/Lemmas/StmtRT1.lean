import RsslVerif.Lemmas.StmtRT0
/-! Round trip of statements: well-formedness, invariants, the statement kinds that contain no declaration. -/
set_option linter.unusedSimpArgs false
set_option linter.unusedVariables false
namespace RsslVerif.Lemmas.StmtRT
open RsslVerif.Gen.FmtTables RsslVerif.Gen.ParseTables RsslVerif.Gen.SyntaxTables RsslVerif.Model.Format
open RsslVerif.Model.FormatFull RsslVerif.Model.ParseFull RsslVerif.Model.FormatStmt RsslVerif.Model.ParseStmt
open RsslVerif.Lemmas.FmtParseTables RsslVerif.Lemmas.RoundtripFull

variable (W : List String)

-- `openIf`: the statement ends with an `if` that has no `else` (a following `else` would attach to it)
mutual
def openIf : Stmt → Bool
  | .mk _ k => openIfK k
def openIfK : Kind → Bool
  | .ifS _ _ => true
  | .ifElse _ _ e => openIf e
  | .forS _ _ _ b => openIf b
  | .whileS _ b => openIf b
  | .switchS _ b => openIf b
  | .caseS _ n => openIf n
  | .defaultS n => openIf n
  | _ => false
end

def hasLtOpt : Option XExpr → Bool
  | none => false
  | some e => hasLt e

def hasLtAttrs : List Attr → Bool
  | [] => false
  | a :: r => hasLtArgs a.args || hasLtAttrs r

mutual
def hasLtInit : Init → Bool
  | .expr e => hasLt e
  | .agg l => hasLtInits l
def hasLtInits : Inits → Bool
  | .nil => false
  | .cons i r => hasLtInit i || hasLtInits r
end

def hasLtInitDecls : List InitDecl → Bool
  | [] => false
  | d :: r => hasLtDecl d.decl || (match d.init with | none => false | some i => hasLtInit i) || hasLtInitDecls r

def hasLtVarDef (v : VarDef) : Bool := hasLtTArgs v.targs || hasLtInitDecls v.defs

def hasLtForInit : ForInit → Bool
  | .empty => false
  | .expr e => hasLt e
  | .decl v => hasLtVarDef v

mutual
def hasLtS : Stmt → Bool
  | .mk attrs k => hasLtAttrs attrs || hasLtK k
def hasLtK : Kind → Bool
  | .empty => false
  | .expr e => hasLt e
  | .var v => hasLtVarDef v
  | .block b => hasLtSs b
  | .ifS c t => hasLt c || hasLtS t
  | .ifElse c t e => hasLt c || hasLtS t || hasLtS e
  | .forS i c n b => hasLtForInit i || hasLtOpt c || hasLtOpt n || hasLtS b
  | .whileS c b => hasLt c || hasLtS b
  | .doWhile b c => hasLtS b || hasLt c
  | .switchS c b => hasLt c || hasLtS b
  | .breakS => false
  | .continueS => false
  | .discardS => false
  | .ret e => hasLtOpt e
  | .caseS v n => hasLt v || hasLtS n
  | .defaultS n => hasLtS n
def hasLtSs : Stmts → Bool
  | .nil => false
  | .cons s r => hasLtS s || hasLtSs r
end

/-- a statement reads back in front of `rest` -/
def RS (s : Stmt) : Prop :=
  ∀ rest, rest ≠ [] → (openIf s = true → ∀ r, rest ≠ .p .Else :: r) →
    (hasLtS s = true → TmplFree (toks (fmtStmt s) ++ rest) = true) →
    ∃ N, ∀ f, N ≤ f → parseStmt W f (toks (fmtStmt s) ++ rest) = .ok s rest

def RK (k : Kind) : Prop :=
  ∀ rest, rest ≠ [] → (openIfK k = true → ∀ r, rest ≠ .p .Else :: r) →
    (hasLtK k = true → TmplFree (toks (fmtKind k) ++ rest) = true) →
    ∃ N, ∀ f, N ≤ f → parseKind W f (toks (fmtKind k) ++ rest) = .ok k rest

/-- the statements of a block up to and including the closing brace -/
def RSs (b : Stmts) : Prop :=
  ∀ rest, (hasLtSs b = true → TmplFree (toks (fmtStmts b) ++ .p .RightBrace :: rest) = true) →
    ∃ N, ∀ f, N ≤ f → parseStmts W f (toks (fmtStmts b) ++ .p .RightBrace :: rest) = .ok b rest

theorem rk_empty : RK W .empty := by
  intro rest _ _ _
  refine ⟨1, fun f hf => ?_⟩
  obtain ⟨f', rfl, _⟩ := succ_of_pos hf
  simp [fmtKind, semi, pp, parseKind]

theorem rk_break : RK W .breakS := by
  intro rest _ _ _
  refine ⟨1, fun f hf => ?_⟩
  obtain ⟨f', rfl, _⟩ := succ_of_pos hf
  simp [fmtKind, semi, pp, kw, parseKind]

theorem rk_continue : RK W .continueS := by
  intro rest _ _ _
  refine ⟨1, fun f hf => ?_⟩
  obtain ⟨f', rfl, _⟩ := succ_of_pos hf
  simp [fmtKind, semi, pp, kw, parseKind]

theorem rk_discard : RK W .discardS := by
  intro rest _ _ _
  refine ⟨1, fun f hf => ?_⟩
  obtain ⟨f', rfl, _⟩ := succ_of_pos hf
  simp [fmtKind, semi, pp, kw, parseKind]

theorem rk_ret_none : RK W (.ret none) := by
  intro rest _ _ _
  refine ⟨1, fun f hf => ?_⟩
  obtain ⟨f', rfl, _⟩ := succ_of_pos hf
  have hbad : xparseLvl W f' 15 .Standard (.p .Semicolon :: rest) = none :=
    xparseLvl_badhead W _ _ ⟨(by intro n h; cases h), (by intro l h; cases h), (by decide), rfl, (by decide)⟩ _ _ _
  simp [fmtKind, fmtOptExpr, semi, pp, kw, parseKind, hbad]

theorem rk_ret_some (e : XExpr) (hwf : WF W e) : RK W (.ret (some e)) := by
  intro rest _ _ hsafe
  have htoks : toks (fmtKind (.ret (some e))) ++ rest = .p .Return :: (toks (fmtExprX e) ++ .p .Semicolon :: rest) := by
    simp [fmtKind, fmtOptExpr, semi, pp, kw]
  rw [htoks] at hsafe ⊢
  obtain ⟨N, h⟩ := expr_reads W e hwf _ (Or.inr (Or.inr (Or.inr rfl))) rest
    (fun hl => tmplFree_suffix (List.suffix_cons _ _) (hsafe (by simpa [hasLtK, hasLtOpt] using hl)))
  refine ⟨N + 1, fun f hf => ?_⟩
  obtain ⟨f', rfl, hf'⟩ := succ_of_pos hf
  simp [parseKind, h f' hf']

theorem toks_fmtStmt (attrs : List Attr) (k : Kind) : toks (fmtStmt (.mk attrs k)) = toks (fmtAttrs attrs) ++ toks (fmtKind k) := by
  simp [fmtStmt]

theorem rk_while (c : XExpr) (body : Stmt) (hwc : WF W c) (ihb : RS W body) : RK W (.whileS c body) := by
  intro rest hne hopen hsafe
  have htoks : toks (fmtKind (.whileS c body)) ++ rest = .p .While :: .p .LeftParen :: (toks (fmtExprX c) ++
      (.p .RightParen :: (toks (fmtStmt body) ++ rest))) := by
    simp [fmtKind, pp, kw]
  rw [htoks] at hsafe ⊢
  obtain ⟨N1, h1⟩ := expr_reads W c hwc _ (Or.inl rfl) (toks (fmtStmt body) ++ rest)
    (fun hl => tmplFree_suffix ((List.suffix_cons _ _).trans (List.suffix_cons _ _)) (hsafe (by simp [hasLtK, hl])))
  obtain ⟨N2, h2⟩ := ihb rest hne (fun ho => hopen (by simpa [openIfK] using ho))
    (fun hl => tmplFree_suffix ((List.suffix_cons _ _).trans ((List.suffix_append _ _).trans
      ((List.suffix_cons _ _).trans (List.suffix_cons _ _)))) (hsafe (by simp [hasLtK, hl])))
  refine ⟨max N1 N2 + 1, fun f hf => ?_⟩
  obtain ⟨f', rfl, hf'⟩ := succ_of_pos hf
  simp [parseKind, h1 f' (by omega), h2 f' (by omega)]

theorem rk_switch (c : XExpr) (body : Stmt) (hwc : WF W c) (ihb : RS W body) : RK W (.switchS c body) := by
  intro rest hne hopen hsafe
  have htoks : toks (fmtKind (.switchS c body)) ++ rest = .p .Switch :: .p .LeftParen :: (toks (fmtExprX c) ++
      (.p .RightParen :: (toks (fmtStmt body) ++ rest))) := by
    simp [fmtKind, pp, kw]
  rw [htoks] at hsafe ⊢
  obtain ⟨N1, h1⟩ := expr_reads W c hwc _ (Or.inl rfl) (toks (fmtStmt body) ++ rest)
    (fun hl => tmplFree_suffix ((List.suffix_cons _ _).trans (List.suffix_cons _ _)) (hsafe (by simp [hasLtK, hl])))
  obtain ⟨N2, h2⟩ := ihb rest hne (fun ho => hopen (by simpa [openIfK] using ho))
    (fun hl => tmplFree_suffix ((List.suffix_cons _ _).trans ((List.suffix_append _ _).trans
      ((List.suffix_cons _ _).trans (List.suffix_cons _ _)))) (hsafe (by simp [hasLtK, hl])))
  refine ⟨max N1 N2 + 1, fun f hf => ?_⟩
  obtain ⟨f', rfl, hf'⟩ := succ_of_pos hf
  simp [parseKind, h1 f' (by omega), h2 f' (by omega)]

theorem rk_if (c : XExpr) (t : Stmt) (hwc : WF W c) (iht : RS W t) : RK W (.ifS c t) := by
  intro rest hne hopen hsafe
  have htoks : toks (fmtKind (.ifS c t)) ++ rest = .p .If :: .p .LeftParen :: (toks (fmtExprX c) ++
      (.p .RightParen :: (toks (fmtStmt t) ++ rest))) := by
    simp [fmtKind, pp, kw]
  rw [htoks] at hsafe ⊢
  have hnoelse : ∀ r, rest ≠ .p .Else :: r := hopen (by simp [openIfK])
  obtain ⟨N1, h1⟩ := expr_reads W c hwc _ (Or.inl rfl) (toks (fmtStmt t) ++ rest)
    (fun hl => tmplFree_suffix ((List.suffix_cons _ _).trans (List.suffix_cons _ _)) (hsafe (by simp [hasLtK, hl])))
  obtain ⟨N2, h2⟩ := iht rest hne (fun _ => hnoelse)
    (fun hl => tmplFree_suffix ((List.suffix_cons _ _).trans ((List.suffix_append _ _).trans
      ((List.suffix_cons _ _).trans (List.suffix_cons _ _)))) (hsafe (by simp [hasLtK, hl])))
  refine ⟨max N1 N2 + 1, fun f hf => ?_⟩
  obtain ⟨f', rfl, hf'⟩ := succ_of_pos hf
  cases rest with
  | nil => exact absurd rfl hne
  | cons u r =>
    have hu : u ≠ .p .Else := fun h => hnoelse r (by rw [h])
    have h2' := h2 f' (by omega)
    have h1' := h1 f' (by omega)
    unfold parseKind
    simp only [h1', h2']

theorem rk_ifElse (c : XExpr) (t e : Stmt) (hwc : WF W c) (hno : openIf t = false) (iht : RS W t) (ihe : RS W e) :
    RK W (.ifElse c t e) := by
  intro rest hne hopen hsafe
  have htoks : toks (fmtKind (.ifElse c t e)) ++ rest = .p .If :: .p .LeftParen :: (toks (fmtExprX c) ++
      (.p .RightParen :: (toks (fmtStmt t) ++ (.p .Else :: (toks (fmtStmt e) ++ rest))))) := by
    simp [fmtKind, pp, kw]
  rw [htoks] at hsafe ⊢
  obtain ⟨N1, h1⟩ := expr_reads W c hwc _ (Or.inl rfl) _
    (fun hl => tmplFree_suffix ((List.suffix_cons _ _).trans (List.suffix_cons _ _)) (hsafe (by simp [hasLtK, hl])))
  obtain ⟨N2, h2⟩ := iht (.p .Else :: (toks (fmtStmt e) ++ rest)) (by simp) (fun ho => by rw [hno] at ho; cases ho)
    (fun hl => tmplFree_suffix ((List.suffix_cons _ _).trans ((List.suffix_append _ _).trans
      ((List.suffix_cons _ _).trans (List.suffix_cons _ _)))) (hsafe (by simp [hasLtK, hl])))
  obtain ⟨N3, h3⟩ := ihe rest hne (fun ho => hopen (by simpa [openIfK] using ho))
    (fun hl => tmplFree_suffix ((List.suffix_cons _ _).trans ((List.suffix_append _ _).trans ((List.suffix_cons _ _).trans
      ((List.suffix_append _ _).trans ((List.suffix_cons _ _).trans (List.suffix_cons _ _)))))) (hsafe (by simp [hasLtK, hl])))
  refine ⟨max N1 (max N2 N3) + 1, fun f hf => ?_⟩
  obtain ⟨f', rfl, hf'⟩ := succ_of_pos hf
  simp [parseKind, h1 f' (by omega), h2 f' (by omega), h3 f' (by omega)]

theorem rk_doWhile (body : Stmt) (c : XExpr) (hwc : WF W c) (ihb : RS W body) : RK W (.doWhile body c) := by
  intro rest hne hopen hsafe
  have htoks : toks (fmtKind (.doWhile body c)) ++ rest = .p .Do :: (toks (fmtStmt body) ++
      (.p .While :: .p .LeftParen :: (toks (fmtExprX c) ++ (.p .RightParen :: .p .Semicolon :: rest)))) := by
    simp [fmtKind, pp, kw, semi]
  rw [htoks] at hsafe ⊢
  obtain ⟨N1, h1⟩ := expr_reads W c hwc _ (Or.inl rfl) (.p .Semicolon :: rest)
    (fun hl => tmplFree_suffix ((List.suffix_cons _ _).trans ((List.suffix_cons _ _).trans
      ((List.suffix_append _ _).trans (List.suffix_cons _ _)))) (hsafe (by simp [hasLtK, hl])))
  obtain ⟨N2, h2⟩ := ihb (.p .While :: .p .LeftParen :: (toks (fmtExprX c) ++ (.p .RightParen :: .p .Semicolon :: rest)))
    (by simp) (fun _ r h => by cases h)
    (fun hl => tmplFree_suffix (List.suffix_cons _ _) (hsafe (by simp [hasLtK, hl])))
  refine ⟨max N1 N2 + 1, fun f hf => ?_⟩
  obtain ⟨f', rfl, hf'⟩ := succ_of_pos hf
  simp [parseKind, h1 f' (by omega), h2 f' (by omega)]

theorem rk_case (v : XExpr) (next : Stmt) (hwv : WF W v) (ihn : RS W next) : RK W (.caseS v next) := by
  intro rest hne hopen hsafe
  have htoks : toks (fmtKind (.caseS v next)) ++ rest = .p .Case :: (toks (fmtExprX v) ++
      (.p .Colon :: (toks (fmtStmt next) ++ rest))) := by
    simp [fmtKind, pp, kw]
  rw [htoks] at hsafe ⊢
  obtain ⟨N1, h1⟩ := expr_reads W v hwv _ (Or.inr (Or.inr (Or.inl rfl))) (toks (fmtStmt next) ++ rest)
    (fun hl => tmplFree_suffix (List.suffix_cons _ _) (hsafe (by simp [hasLtK, hl])))
  obtain ⟨N2, h2⟩ := ihn rest hne (fun ho => hopen (by simpa [openIfK] using ho))
    (fun hl => tmplFree_suffix ((List.suffix_cons _ _).trans ((List.suffix_append _ _).trans (List.suffix_cons _ _)))
      (hsafe (by simp [hasLtK, hl])))
  refine ⟨max N1 N2 + 1, fun f hf => ?_⟩
  obtain ⟨f', rfl, hf'⟩ := succ_of_pos hf
  simp [parseKind, h1 f' (by omega), h2 f' (by omega)]

theorem rk_default (next : Stmt) (ihn : RS W next) : RK W (.defaultS next) := by
  intro rest hne hopen hsafe
  have htoks : toks (fmtKind (.defaultS next)) ++ rest = .p .Default :: .p .Colon :: (toks (fmtStmt next) ++ rest) := by
    simp [fmtKind, pp, kw]
  rw [htoks] at hsafe ⊢
  obtain ⟨N2, h2⟩ := ihn rest hne (fun ho => hopen (by simpa [openIfK] using ho))
    (fun hl => tmplFree_suffix ((List.suffix_cons _ _).trans (List.suffix_cons _ _)) (hsafe (by simpa [hasLtK] using hl)))
  refine ⟨N2 + 1, fun f hf => ?_⟩
  obtain ⟨f', rfl, hf'⟩ := succ_of_pos hf
  simp [parseKind, h2 f' (by omega)]

theorem rk_block (b : Stmts) (ihb : RSs W b) : RK W (.block b) := by
  intro rest hne hopen hsafe
  have htoks : toks (fmtKind (.block b)) ++ rest = .p .LeftBrace :: (toks (fmtStmts b) ++ .p .RightBrace :: rest) := by
    simp [fmtKind, pp]
  rw [htoks] at hsafe ⊢
  obtain ⟨N, h⟩ := ihb rest (fun hl => tmplFree_suffix (List.suffix_cons _ _) (hsafe (by simpa [hasLtK] using hl)))
  refine ⟨N + 1, fun f hf => ?_⟩
  obtain ⟨f', rfl, hf'⟩ := succ_of_pos hf
  simp [parseKind, h f' hf']

theorem rss_nil : RSs W .nil := by
  intro rest _
  refine ⟨1, fun f hf => ?_⟩
  obtain ⟨f', rfl, _⟩ := succ_of_pos hf
  simp [fmtStmts, parseStmts]

end RsslVerif.Lemmas.StmtRT
